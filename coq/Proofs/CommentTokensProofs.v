(* C15 at the level of tokens (Spec/MiniGoComments.v): the text jennifer writes for a MiniGo
   program decorated with comments is split by the scanner model GoStd/Tokens.v into exactly the
   tokens of the program.

   ORGANISATION.
   A. the scanner skips the text of a comment of the domain: a block comment before anything, a
      line comment before a newline or the end of the text (g_comment);
   B. inversion of [dec]; a tree without multi-line groups has only itself as decoration;
   C. the lines of a decorated multi-line group (decm_lines): each item is a statement whose
      decorations are known to render to a text that is a piece; the lines are a piece before a
      newline / the end of the text, and before any boundary byte when the last line does not end
      in a comment;
   D. one induction over the three classes of Spec/MiniGo.v: every decoration of the built tree
      renders (CanonProofs: chain) to a text that is a piece (TokensProofs) with the tokens of
      the undecorated program;
   E. declarations, the file; the comment texts are written.
   Types (all_Qt, by [ty_ind']) are decorated inside struct{ } and interface{ } wherever they
   stand - parameters, results, receivers, var specs, literal types, assertions, type-switch
   cases; func_tail takes the head of a func already decorated and moves the case-block
   context across the decoration (case_ctx_dec).  A Dict is never decorated (qe_keyed). *)
From Jen Require Import Base.Bytes Base.Num GoStd.Quote GoStd.Tokens Gen.Goroot Gen.Tables.
From Jen Require Import Model.Code Model.Naming Model.Render Model.FileRender Model.Exec.
From Jen Require Import Spec.MiniGo Spec.MiniGoTokens Spec.MiniGoComments.
From Jen Require Import Proofs.CommentProofs Proofs.EmitProofs Proofs.CanonProofs Proofs.TokensProofs.
Local Open Scope bool_scope.

(* ================================================================== A. the scanner and comments *)
(* the rest is empty or starts with a newline *)
Definition bndN (r : str) : Prop := r = [] \/ exists r', r = x0a :: r'.

Lemma bndN_bndb r : bndN r -> bndb r = true.
Proof. intros [-> | [r' ->]]; reflexivity. Qed.

Lemma bndN_nil : bndN []. Proof. left; reflexivity. Qed.
Lemma bndN_nl r : bndN (x0a :: r). Proof. right; eexists; reflexivity. Qed.

Lemma block_len_close b r : contains (S "*/") b = false ->
  block_len (b ++ S "*/" ++ r) = Some (length b + 2)%nat.
Proof.
  change (S "*/") with [x2a; x2f].
  induction b as [|a b IH]; intros H; [reflexivity|].
  rewrite contains_cons in H. apply orb_false_iff in H. destruct H as [Hp Hc].
  specialize (IH Hc).
  destruct b as [|d b].
  - change (block_len ([a] ++ [x2a; x2f] ++ r))
      with (if beq a x2a && beq x2a x2f then Some 2%nat else option_map Datatypes.S (block_len ([x2a; x2f] ++ r))).
    change (beq x2a x2f) with false. rewrite andb_false_r. reflexivity.
  - cbn [has_prefix] in Hp. rewrite andb_true_r in Hp.
    change (block_len ((a :: d :: b) ++ [x2a; x2f] ++ r))
      with (if beq a x2a && beq d x2f then Some 2%nat else option_map Datatypes.S (block_len ((d :: b) ++ [x2a; x2f] ++ r))).
    rewrite (beq_sym a x2a), (beq_sym d x2f), Hp. rewrite IH. reflexivity.
Qed.

Lemma no_close_snoc t : contains (S "*/") t = false -> contains (S "*/") (t ++ [x0a]) = false.
Proof.
  change (S "*/") with [x2a; x2f].
  induction t as [|c t IH]; intros H; [reflexivity|].
  rewrite contains_cons in H. apply orb_false_iff in H. destruct H as [Hp Hc].
  change ((c :: t) ++ [x0a]) with (c :: (t ++ [x0a])). rewrite contains_cons, (IH Hc), orb_false_r.
  destruct t as [|d t].
  - cbn [app has_prefix]. destruct (beq x2a c); reflexivity.
  - cbn [app has_prefix] in Hp |- *. exact Hp.
Qed.

Lemma comment_dom_parts t : comment_dom t = true ->
  has_prefix (S "//") t = false /\ has_prefix (S "/*") t = false /\ contains (S "*/") t = false.
Proof.
  unfold comment_dom. intros H. apply andb_true_iff in H. destruct H as [H H3].
  apply andb_true_iff in H. destruct H as [H1 H2]. apply negb_true_iff in H1, H2, H3. auto.
Qed.

Lemma comment_dom_in_domain t : comment_dom t = true <-> in_domain t.
Proof.
  split.
  - intros H. destruct (comment_dom_parts t H) as (H1 & H2 & H3). repeat split; assumption.
  - intros [[H1 H2] H3]. unfold comment_dom. rewrite H1, H2, H3. reflexivity.
Qed.

Lemma no_nl_forall t : contains_byte x0a t = false -> forallb not_nl t = true.
Proof.
  induction t as [|c t IH]; intros H; [reflexivity|].
  cbn [contains_byte] in H. apply orb_false_iff in H. destruct H as [H1 H2].
  cbn [forallb]. rewrite (IH H2), andb_true_r. unfold not_nl. change c_nl with x0a.
  rewrite (beq_sym c x0a), H1. reflexivity.
Qed.

(* `//` u before a newline or the end of the text *)
Lemma tok_at_slash c s' :
  tok_at (x2f :: c :: s') =
  if beq x2f c then Some (None, (2 + length (take_while not_nl s'))%nat)
  else if beq x2a c then option_map (fun n => (None, (2 + n)%nat)) (block_len s')
  else match op_at (x2f :: c :: s') with Some o => Some (Some (KOp, o), length o) | None => None end.
Proof.
  cbn [tok_at]. change (tk_space x2f) with false. change (tk_letter x2f) with false.
  change (tk_digit x2f) with false. change (beq x2f c_dq) with false. cbv iota.
  change (beq x2f x2f) with true. change (beq x2f x2e) with false. cbn [andb hd_is tl].
  destruct (beq x2f c); [reflexivity|]. destruct (beq x2a c); reflexivity.
Qed.

Lemma g_line u r : forallb not_nl u = true -> bndN r -> golex (S "//" ++ u ++ r) = golex r.
Proof.
  intros Hu Hr. rewrite app_assoc. apply golex_skip; [discriminate|]. rewrite <- app_assoc.
  assert (Hh : hd_is not_nl r = false) by (destruct Hr as [-> | [r' ->]]; reflexivity).
  change (S "//" ++ u ++ r) with (x2f :: x2f :: (u ++ r)). rewrite tok_at_slash.
  change (beq x2f x2f) with true. cbv iota.
  rewrite (take_while_app not_nl u r Hu Hh). reflexivity.
Qed.

(* `/*` b `*/` before anything *)
Lemma g_block b r : contains (S "*/") b = false -> golex (S "/*" ++ b ++ S "*/" ++ r) = golex r.
Proof.
  intros Hb.
  replace (S "/*" ++ b ++ S "*/" ++ r) with ((S "/*" ++ b ++ S "*/") ++ r) by (rewrite <- !app_assoc; reflexivity).
  apply golex_skip; [discriminate|]. rewrite <- !app_assoc.
  change (S "/*" ++ b ++ S "*/" ++ r) with (x2f :: x2a :: (b ++ S "*/" ++ r)). rewrite tok_at_slash.
  change (beq x2f x2a) with false. change (beq x2a x2a) with true. cbv iota.
  rewrite (block_len_close b r Hb). cbn [option_map].
  change (S "/*" ++ b ++ S "*/") with (x2f :: x2a :: (b ++ [x2a; x2f])).
  cbn [length]. rewrite app_length. cbn [length]. repeat f_equal; lia.
Qed.

(* the text jennifer writes for a comment of the domain, before a newline or the end *)
Lemma g_comment t r : comment_dom t = true -> bndN r -> golex (comment_text t ++ r) = golex r.
Proof.
  intros Hd Hr. destruct (comment_dom_parts t Hd) as (H1 & H2 & H3).
  unfold comment_text. rewrite H1, H2. cbn [orb].
  destruct (contains_byte x0a t) eqn:En.
  - replace ((S "/*" ++ [x0a] ++ t ++ (if has_suffix [x0a] t then [] else [x0a]) ++ S "*/") ++ r)
      with (S "/*" ++ ([x0a] ++ t ++ (if has_suffix [x0a] t then [] else [x0a])) ++ S "*/" ++ r)
      by (rewrite <- !app_assoc; reflexivity).
    apply g_block. change ([x0a] ++ t ++ (if has_suffix [x0a] t then [] else [x0a]))
      with (x0a :: (t ++ (if has_suffix [x0a] t then [] else [x0a]))).
    rewrite contains_cons. apply orb_false_iff. split; [reflexivity|].
    destruct (has_suffix [x0a] t); [rewrite app_nil_r; exact H3 | apply no_close_snoc, H3].
  - change (S "// " ++ t) with (S "//" ++ (x20 :: t)). rewrite <- !app_assoc.
    apply (g_line (x20 :: t) r); [|exact Hr]. cbn [forallb]. rewrite (no_nl_forall t En). reflexivity.
Qed.

(* ================================================================== B. inversion of dec *)
Lemma dec_tok_inv t c : dec (CTok t) c -> c = CTok t.
Proof. intros H. inversion H. reflexivity. Qed.

Lemma dec_stmt_inv l c : dec (CStmt l) c -> exists l', c = CStmt l' /\ Forall2 dec l l'.
Proof. intros H. inversion H; subst. eexists. split; [reflexivity | assumption]. Qed.

Lemma dec_flat_inv g n o cl s l c : dec (CGroup g n o cl s false l) c ->
  exists l', c = CGroup g n o cl s false l' /\ Forall2 dec l l'.
Proof. intros H. inversion H; subst. eexists. split; [reflexivity | assumption]. Qed.

Lemma dec_multi_inv g n o cl s l c : dec (CGroup g n o cl s true l) c ->
  exists l', c = CGroup g n o cl s true l' /\ decm l l'.
Proof. intros H. inversion H; subst. eexists. split; [reflexivity | assumption]. Qed.

(* no multi-line group inside *)
Fixpoint flatc (c : code) : bool :=
  match c with
  | CStmt l => forallb flatc l
  | CGroup _ _ _ _ _ multi l => negb multi && forallb flatc l
  | _ => true
  end.

Lemma dec_flat_list l : Forall (fun c => flatc c = true -> forall c', dec c c' -> c' = c) l ->
  forallb flatc l = true -> forall l', Forall2 dec l l' -> l' = l.
Proof.
  induction 1 as [|c l Hc _ IH]; intros Hf l' Hd; inversion Hd; subst; [reflexivity|].
  cbn [forallb] in Hf. apply andb_true_iff in Hf. destruct Hf as [Hf1 Hf2].
  f_equal; [apply Hc; assumption | apply IH; assumption].
Qed.

Lemma dec_flatc c : flatc c = true -> forall c', dec c c' -> c' = c.
Proof.
  induction c as [| | |t|gid name o cl sep multi items IH|items IH|pairs _|kvs|s] using code_ind';
    intros Hf c' Hd; try (inversion Hd; reflexivity).
  - cbn [flatc] in Hf. apply andb_true_iff in Hf. destruct Hf as [Hm Hf]. destruct multi; [discriminate|].
    apply dec_flat_inv in Hd. destruct Hd as (l' & -> & Hd). f_equal. exact (dec_flat_list items IH Hf l' Hd).
  - cbn [flatc] in Hf. apply dec_stmt_inv in Hd. destruct Hd as (l' & -> & Hd). f_equal.
    exact (dec_flat_list items IH Hf l' Hd).
Qed.

Lemma dec_flat_same l l' : forallb flatc l = true -> Forall2 dec l l' -> l' = l.
Proof.
  intros Hf Hd. apply (dec_flat_list l); [|exact Hf | exact Hd].
  apply Forall_forall. intros c _. apply dec_flatc.
Qed.

Lemma last_sat_snoc {A} (f : A -> bool) l x : last_sat f (l ++ [x]) = f x.
Proof.
  induction l as [|a l IH]; [reflexivity|].
  change ((a :: l) ++ [x]) with (a :: (l ++ [x])).
  destruct (l ++ [x]) as [|b r] eqn:E; [destruct l; discriminate|].
  change (last_sat f (a :: b :: r)) with (last_sat f (b :: r)). exact IH.
Qed.

Lemma open_end_comment_last ctx l t : open_end ctx (CStmt (l ++ [CComment t])) = true.
Proof. cbn [open_end]. rewrite last_sat_snoc. reflexivity. Qed.

(* ================================================================== C. decorated lines *)
Section Dec.
  Variable cfg : config.
  Hypothesis Hok : tables_ok = true.

  Notation cfree := (CanonProofs.free cfg).
  Notation lfree := TokensProofs.free.

  (* the same as [piece], before a newline or the end of the text only *)
  Definition pieceN (p : str) (ts : list tok) : Prop :=
    forall r, bndN r -> golex (p ++ r) = pre ts (golex r).

  Lemma piece_pieceN p ts : piece p ts -> pieceN p ts.
  Proof. intros H r Hr. apply H, bndN_bndb, Hr. Qed.

  Lemma free_comment t : cfree (CComment t) (comment_text t).
  Proof. split; intros; reflexivity. Qed.

  Lemma good_own t : good cfg (CStmt [CComment t]) (comment_text t).
  Proof. apply chain_good, one_free, free_comment. Qed.

  (* what is known of an item `CStmt its` of a multi-line group: every decoration of its items
     renders to a piece with tokens tk - before a newline or the end when it ends in a comment *)
  Definition R (its : list code) (tk : list tok) : Prop :=
    forall its', Forall2 dec its its' ->
      exists x, chain cfg its' x /\ pieceN x tk /\ (open_end false (CStmt its') = false -> piece x tk).

  Lemma lines_cons x xs : lines (x :: xs) = nl ++ x ++ lines xs.
  Proof. unfold lines. cbn [map concat_str]. rewrite <- app_assoc. reflexivity. Qed.

  Lemma bndN_lines xs r : bndN r -> bndN (lines xs ++ r).
  Proof. intros Hr. destruct xs as [|x xs]; [exact Hr|]. rewrite lines_cons. apply bndN_nl. Qed.

  Lemma bndN_lines_ne xs r : xs <> [] -> bndN (lines xs ++ r).
  Proof. destruct xs as [|x xs]; [congruence|]. intros _. rewrite lines_cons. apply bndN_nl. Qed.

  Lemma decm_lines : forall items items', decm items items' ->
    forall itss tks, items = map CStmt itss -> Forall2 R itss tks ->
    exists xs, Forall2 (good cfg) items' xs /\ pieceN (lines xs) (concat tks) /\
               (last_sat (open_end false) items' = false -> piece (lines xs) (concat tks)) /\
               (xs = [] -> itss = []).
  Proof.
    induction 1 as [|t l l' Ht Hd IH|c c' l l' Hc Hd IH|its its' t l l' Ht Hits Hop Hd IH];
      intros itss tks E HR.
    - destruct itss; [|discriminate]. inversion HR; subst. exists []. split; [constructor|].
      split; [intros r _; cbn; rewrite pre_nil; reflexivity|].
      split; [intros _; exact piece_nil | reflexivity].
    - destruct (IH itss tks E HR) as (xs & HF & HN & HP & HE).
      exists (comment_text t :: xs). split; [constructor; [apply good_own | exact HF]|].
      split; [|split; [|discriminate]].
      + intros r Hr. rewrite lines_cons, <- !app_assoc. rewrite g_nl.
        rewrite g_comment by (first [exact Ht | apply bndN_lines, Hr]). apply HN, Hr.
      + intros Hl r Hr. destruct l' as [|c2 l2]; [cbn in Hl; discriminate|].
        change (last_sat (open_end false) (CStmt [CComment t] :: c2 :: l2))
          with (last_sat (open_end false) (c2 :: l2)) in Hl.
        assert (Hne : xs <> []) by (inversion HF; discriminate).
        rewrite lines_cons, <- !app_assoc. rewrite g_nl.
        rewrite g_comment by (first [exact Ht | apply bndN_lines_ne, Hne]). apply (HP Hl), Hr.
    - destruct itss as [|its itss]; [discriminate|]. cbn [map] in E. injection E as -> ->.
      inversion HR as [|? tk ? tks0 Hi HR0]; subst.
      apply dec_stmt_inv in Hc. destruct Hc as (its' & -> & Hits).
      destruct (Hi its' Hits) as (x & Cx & Nx & Px).
      destruct (IH itss tks0 eq_refl HR0) as (xs & HF & HN & HP & HE).
      exists (x :: xs). split; [constructor; [apply chain_good, Cx | exact HF]|].
      split; [|split; [|discriminate]].
      + intros r Hr. rewrite lines_cons, <- !app_assoc. rewrite g_nl. cbn [concat].
        rewrite Nx by (apply bndN_lines, Hr). rewrite HN by exact Hr. rewrite pre_pre. reflexivity.
      + intros Hl r Hr. rewrite lines_cons, <- !app_assoc. rewrite g_nl. cbn [concat].
        destruct l' as [|c2 l2].
        * inversion HF; subst. specialize (HE eq_refl). subst itss. inversion HR0; subst.
          cbn [lines map concat_str app concat]. rewrite app_nil_r.
          cbn [last_sat] in Hl. apply (Px Hl), Hr.
        * change (last_sat (open_end false) (CStmt its' :: c2 :: l2))
            with (last_sat (open_end false) (c2 :: l2)) in Hl.
          assert (Hne : xs <> []) by (inversion HF; discriminate).
          rewrite Nx by (apply bndN_lines_ne, Hne). rewrite (HP Hl) by exact Hr. rewrite pre_pre. reflexivity.
    - destruct itss as [|its0 itss]; [discriminate|]. cbn [map] in E. injection E as <- ->.
      inversion HR as [|? tk ? tks0 Hi HR0]; subst.
      destruct (Hi its' Hits) as (x & Cx & _ & Px). specialize (Px Hop).
      destruct (IH itss tks0 eq_refl HR0) as (xs & HF & HN & HP & HE).
      exists ((x ++ sp ++ comment_text t) :: xs). split; [constructor; [|exact HF]|].
      { apply chain_good.
        eapply chain_eq; [apply (chain_app cfg its' x [CComment t] [comment_text t] Cx); [|discriminate]|reflexivity].
        constructor; [apply free_comment | constructor]. }
      split; [|split; [|discriminate]].
      + intros r Hr. rewrite lines_cons, <- !app_assoc. rewrite g_nl. cbn [concat].
        rewrite Px by reflexivity. rewrite g_sp.
        rewrite g_comment by (first [exact Ht | apply bndN_lines, Hr]).
        rewrite HN by exact Hr. rewrite pre_pre. reflexivity.
      + intros Hl r Hr. destruct l' as [|c2 l2].
        * cbn [last_sat] in Hl. rewrite open_end_comment_last in Hl. discriminate.
        * change (last_sat (open_end false) (CStmt (its' ++ [CComment t]) :: c2 :: l2))
            with (last_sat (open_end false) (c2 :: l2)) in Hl.
          assert (Hne : xs <> []) by (inversion HF; discriminate).
          rewrite lines_cons, <- !app_assoc. rewrite g_nl. cbn [concat].
          rewrite Px by reflexivity. rewrite g_sp.
          rewrite g_comment by (first [exact Ht | apply bndN_lines_ne, Hne]).
          rewrite (HP Hl) by exact Hr. rewrite pre_pre. reflexivity.
  Qed.
End Dec.

(* ================================================================== D. every construct *)
Lemma Forall2_piece_join xs tks : Forall2 piece xs tks -> piece (join comma xs) (tcommas tks).
Proof.
  induction 1 as [|x tk xs tks Hx HF IH]; [exact piece_nil|].
  destruct HF as [|y tk2 ys tks2 Hy HF']; [exact Hx|].
  intros r Hr. rewrite join_cons2, tcommas_cons2, <- !app_assoc.
  rewrite Hx by reflexivity. rewrite g_fop by in_tac. rewrite IH by exact Hr. lx_done.
Qed.

Section Main.
  Variable cfg : config.
  Hypothesis Htab : tables_ok = true.

  Notation cfree := (CanonProofs.free cfg).
  Notation lfree := TokensProofs.free.

  Definition Qe (e : expr) : Prop :=
    expr_ok e = true -> forall l', Forall2 dec (bexpr e) l' ->
      exists x, chain cfg l' x /\ piece x (texpr e) /\ (forall r, no_eq (x ++ r) = true).
  Definition Qs (s : stmt) : Prop :=
    stmt_ok s = true -> forall l', Forall2 dec (bstmt s) l' ->
      exists x, chain cfg l' x /\ piece x (tstmt s).
  Definition clause_items (c : clause) : list code :=
    match c with
    | CCase e es body => [gCase 0 (map (fun a => CStmt (bexpr a)) (e :: es)); gBlock 1 (map (fun s => CStmt (bstmt s)) body)]
    | CDefault body => [kw (S "Default"); gBlock 1 (map (fun s => CStmt (bstmt s)) body)]
    | CComm s body => [gCase 0 [CStmt (bstmt s)]; gBlock 1 (map (fun s => CStmt (bstmt s)) body)]
    | CType t ts body => [gCase 0 (map (fun a => CStmt (bty a)) (t :: ts)); gBlock 1 (map (fun s => CStmt (bstmt s)) body)]
    end.
  Definition Qc (c : clause) : Prop := clause_ok c = true -> R cfg (clause_items c) (tclause c).

  Lemma bclause_items c : bclause c = CStmt (clause_items c).
  Proof. destruct c; reflexivity. Qed.

  (* rewriting the rows of the table in a hypothesis *)
  Ltac tbl H :=
    unfold empty in H; unfold bsig, bsig_with, bparams, bparams_with, bresults, bresults_with, MiniGo.id, op in H;
    rewrite ?(kw_True Htab), ?(kw_False Htab), ?(kw_Nil Htab), ?(kw_Func Htab), ?(kw_Else Htab),
      ?(kw_Default Htab), ?(kw_Break Htab), ?(kw_Continue Htab), ?(kw_Go Htab), ?(kw_Defer Htab),
      ?(kw_Var Htab), ?(kw_Const Htab), ?(kw_Type Htab), ?(kw_Range Htab),
      ?(kw_Chan Htab), ?(kw_Goto Htab), ?(kw_Fallthrough Htab), ?(kw_Select Htab),
      ?(gStruct_eq Htab), ?(gInterface_eq Htab), ?(gAssert_eq Htab),
      ?(gCall_eq Htab), ?(gIndex_eq Htab), ?(gParens_eq Htab), ?(gValues_eq Htab), ?(gParams_eq Htab),
      ?(gList_eq Htab), ?(gMap_eq Htab), ?(gReturn_eq Htab), ?(gIf_eq Htab), ?(gFor_eq Htab),
      ?(gSwitch_eq Htab), ?(gCase_eq Htab), ?(gBlock_eq Htab), ?(gDefs_eq Htab) in H.

  Ltac dinv :=
    repeat match goal with
    | H : Forall2 dec [] _ |- _ => inversion H; subst; clear H
    | H : Forall2 dec (_ :: _) _ |- _ => inversion H; subst; clear H
    | H : Forall2 dec (_ ++ _) _ |- _ =>
        apply Forall2_app_inv_l in H; let a := fresh "la" in let b := fresh "lb" in
        destruct H as (a & b & ? & ? & ->)
    | H : dec (CTok _) _ |- _ => apply dec_tok_inv in H; subst
    | H : dec (CTag _) _ |- _ => inversion H; subst; clear H
    | H : dec (CStmt _) _ |- _ => apply dec_stmt_inv in H; let l := fresh "ls" in destruct H as (l & -> & ?)
    | H : dec (CGroup _ _ _ _ _ false _) _ |- _ =>
        apply dec_flat_inv in H; let l := fresh "lg" in destruct H as (l & -> & ?)
    | H : dec (CGroup _ _ _ _ _ true _) _ |- _ =>
        apply dec_multi_inv in H; let l := fresh "lm" in destruct H as (l & -> & ?)
    end.

  Tactic Notation "usee" constr(IH) constr(x) "as" simple_intropattern(p) :=
    match goal with
    | H : Forall2 dec (bexpr x) ?l |- _ => destruct (IH ltac:(assumption) l H) as p; clear H
    end.
  Tactic Notation "uses" constr(IH) constr(x) "as" simple_intropattern(p) :=
    match goal with
    | H : Forall2 dec (bstmt x) ?l |- _ => destruct (IH ltac:(assumption) l H) as p; clear H
    end.

  Tactic Notation "uset" constr(IH) constr(x) "as" simple_intropattern(p) :=
    match goal with
    | H : Forall2 dec (bty x) ?l |- _ => destruct (IH ltac:(assumption) l H) as p; clear H
    end.

  Lemma leaf_chain c x : cfree c x -> chain cfg [c] x.
  Proof. apply one_free. Qed.

  (* ---- the lines of a multi-line group between `{` and `}` *)
  Lemma braces_free bxs tks : pieceN (lines bxs) (concat tks) -> (bxs = [] -> tks = []) ->
    lfree (braces bxs) (tbraces tks).
  Proof.
    intros HN HE r. unfold braces, tbraces. rewrite <- !app_assoc. rewrite g_fop by in_tac.
    destruct bxs as [|b bxs].
    - rewrite (HE eq_refl). cbn [lines map concat_str app concat]. rewrite g_fop by in_tac. lx_done.
    - rewrite HN by apply bndN_nl. rewrite g_nl. rewrite g_fop by in_tac. lx_done.
  Qed.

  Lemma R_nil_tks itss tks : Forall2 (R cfg) itss tks -> itss = [] -> tks = [].
  Proof. intros H ->. inversion H. reflexivity. Qed.

  Lemma R_of_piece its tk :
    (forall its', Forall2 dec its its' -> exists x, chain cfg its' x /\ piece x tk) -> R cfg its tk.
  Proof.
    intros H its' Hd. destruct (H its' Hd) as (x & Cx & Px). exists x.
    split; [exact Cx|]. split; [apply piece_pieceN, Px | intros _; exact Px].
  Qed.

  (* the texts of result items, each after a blank *)
  Definition rtext (xs : list str) : str := concat_str (map (fun x => sp ++ x) xs).

  Lemma join_sp_one a xs : join sp (a :: xs) = a ++ rtext xs.
  Proof.
    revert a. induction xs as [|x xs IH]; intros a; [cbn; rewrite app_nil_r; reflexivity|].
    rewrite join_cons2, IH. unfold rtext. cbn [map concat_str]. rewrite <- !app_assoc. reflexivity.
  Qed.

  Lemma join_sp_app pre0 xs : pre0 <> [] -> join sp (pre0 ++ xs) = join sp pre0 ++ rtext xs.
  Proof.
    induction pre0 as [|a rest IH]; intros Hne; [congruence|]. destruct rest as [|b rest].
    - cbn [app join]. apply join_sp_one.
    - change ((a :: b :: rest) ++ xs) with (a :: b :: (rest ++ xs)). rewrite !join_cons2.
      change (b :: rest ++ xs) with ((b :: rest) ++ xs). rewrite IH by discriminate. rewrite <- !app_assoc. reflexivity.
  Qed.

  (* ---- types: every decoration of the tree of a type (comments inside struct{ } and
     interface{ }) renders to a piece with the tokens of the type *)
  Definition Qt (t : ty) : Prop :=
    ty_ok t = true -> forall l', Forall2 dec (bty t) l' ->
      exists x, chain cfg l' x /\ piece x (tty t) /\ (forall r, no_eq (x ++ r) = true).

  Definition param_items (p : param) : list code := [MiniGo.id (fst p); CStmt (bty (snd p))].
  Lemma bparam_items p : bparam p = CStmt (param_items p).
  Proof. reflexivity. Qed.

  Lemma dec_param_items p : Qt (snd p) -> param_ok p = true ->
    forall its', Forall2 dec (param_items p) its' -> exists x, chain cfg its' x /\ piece x (tparam p).
  Proof.
    destruct p as [n t]. cbn [snd]. intros IH Ho its' Hd. unfold param_ok, param_ok_with in Ho. cbn [fst snd] in Ho.
    ok_split Ho. unfold param_items, MiniGo.id in Hd. cbn [fst snd] in Hd. dinv. uset IH t as (x & Cx & Px & _).
    exists (n ++ sp ++ x). split.
    - eapply chain_eq; [apply (chain_free cfg _ [n; x]); [|discriminate]|reflexivity].
      constructor; [apply free_tkid|]. constructor; [apply chain_operand, Cx | constructor].
    - intros r Hr. unfold tparam, tparam_with. cbn [fst snd]. rewrite <- !app_assoc. repeat lx1.
      rewrite Px by exact Hr. lx_done.
  Qed.

  Lemma dec_param_list ps : ParamsP Qt ps -> forallb param_ok ps = true ->
    forall l', Forall2 dec (map bparam ps) l' ->
    exists xs, Forall2 (good cfg) l' xs /\ Forall2 piece xs (map tparam ps).
  Proof.
    induction 1 as [|p ps Hp _ IH]; intros Hoks l' Hd; cbn [map] in Hd.
    - inversion Hd; subst. exists []. split; constructor.
    - cbn [forallb] in Hoks. apply andb_true_iff in Hoks. destruct Hoks as [Ho1 Ho2].
      inversion Hd as [|? c' ? l2 Hc Hd2]; subst. rewrite bparam_items in Hc.
      apply dec_stmt_inv in Hc. destruct Hc as (le & -> & Hle).
      destruct (dec_param_items p Hp Ho1 le Hle) as (x & Cx & Px). destruct (IH Ho2 l2 Hd2) as (xs & HF & HP).
      exists (x :: xs). split; [constructor; [apply chain_good, Cx | exact HF]|]. cbn [map]. constructor; assumption.
  Qed.

  Lemma dec_params_P ps : ParamsP Qt ps -> forallb param_ok ps = true ->
    forall c', dec (bparams ps) c' -> exists x, cfree c' x /\ lfree x (tparams ps).
  Proof.
    intros Hp Ho c' Hd. unfold bparams, bparams_with in Hd. rewrite (gParams_eq Htab) in Hd.
    apply dec_flat_inv in Hd. destruct Hd as (lg & -> & Hlg).
    destruct (dec_param_list ps Hp Ho lg Hlg) as (xs & HF & HP).
    exists (S "(" ++ join comma xs ++ S ")"). split.
    - rewrite <- (gParams_eq Htab). apply (free_params cfg Htab _ xs HF).
    - intros r. unfold tparams, tparams_with. rewrite <- !app_assoc. rewrite g_fop by in_tac.
      rewrite (Forall2_piece_join xs _ HP) by reflexivity. rewrite g_fop by in_tac. lx_done.
  Qed.

  Lemma dec_tys res : Forall Qt res -> forallb ty_ok res = true ->
    forall l', Forall2 dec (map (fun t => CStmt (bty t)) res) l' ->
    exists xs, Forall2 (good cfg) l' xs /\ Forall2 piece xs (map tty res).
  Proof.
    induction 1 as [|t res Ht _ IH]; intros Hoks l' Hd; cbn [map] in Hd.
    - inversion Hd; subst. exists []. split; constructor.
    - cbn [forallb] in Hoks. apply andb_true_iff in Hoks. destruct Hoks as [Ho1 Ho2].
      inversion Hd as [|? c' ? l2 Hc Hd2]; subst. apply dec_stmt_inv in Hc. destruct Hc as (le & -> & Hle).
      destruct (Ht Ho1 le Hle) as (x & Cx & Px & _). destruct (IH Ho2 l2 Hd2) as (xs & HF & HP).
      exists (x :: xs). split; [constructor; [apply chain_good, Cx | exact HF]|]. cbn [map]. constructor; assumption.
  Qed.

  Lemma dec_results_P res : Forall Qt res -> forallb ty_ok res = true ->
    forall l', Forall2 dec (bresults res) l' ->
    exists rxs, Forall2 cfree l' rxs /\ piece (rtext rxs) (tresults res).
  Proof.
    intros Hr Ho l' Hd. unfold bresults in Hd. destruct res as [|t [|t2 res]]; cbn [bresults_with] in Hd.
    - inversion Hd; subst. exists []. split; [constructor | exact piece_nil].
    - inversion Hr; subst. cbn [forallb] in Ho. ok_split Ho. dinv.
      match goal with IH : Qt t |- _ => uset IH t as (x & Cx & Px & _) end.
      exists [x]. split; [constructor; [apply chain_operand, Cx | constructor]|].
      intros r Hb. unfold rtext, tresults. cbn [map concat_str tresults_with]. rewrite app_nil_r, <- !app_assoc.
      rewrite g_sp. apply Px, Hb.
    - rewrite (gParams_eq Htab) in Hd. inversion Hd as [|? c' ? l2 Hc Hd2]; subst. inversion Hd2; subst.
      apply dec_flat_inv in Hc. destruct Hc as (lg & -> & Hlg).
      destruct (dec_tys (t :: t2 :: res) Hr Ho lg Hlg) as (xs & HF & HP).
      exists [S "(" ++ join comma xs ++ S ")"]. split.
      + constructor; [|constructor]. rewrite <- (gParams_eq Htab). apply (free_params cfg Htab _ xs HF).
      + intros r Hb. unfold rtext, tresults. cbn [map concat_str tresults_with]. rewrite app_nil_r, <- !app_assoc.
        rewrite g_sp. rewrite g_fop by in_tac. rewrite (Forall2_piece_join xs _ HP) by reflexivity.
        rewrite g_fop by in_tac. lx_done.
  Qed.

  (* Params(ps..) and the result, at the end of a head of free items *)
  Lemma dec_sig_P sg : SigP Qt sg -> sig_ok sg = true -> forall l', Forall2 dec (bsig sg) l' ->
    exists px rxs, Forall2 cfree l' (px :: rxs) /\ lfree px (tparams (fst sg)) /\ piece (rtext rxs) (tresults (snd sg)).
  Proof.
    intros [Hp Hr] Ho l' Hd. unfold sig_ok, sig_ok_with in Ho. ok_split Ho. unfold bsig, bsig_with in Hd.
    inversion Hd as [|? c' ? l2 Hc Hd2]; subst.
    destruct (dec_params_P (fst sg) Hp Ho c' Hc) as (px & Fp & Pp).
    destruct (dec_results_P (snd sg) Hr Hok l2 Hd2) as (rxs & Fr & Pr).
    exists px, rxs. split; [constructor; assumption|]. split; assumption.
  Qed.

  Definition field_items (f : field) : list code :=
    [MiniGo.id (fd_name f); CStmt (bty (fd_ty f))] ++ match fd_tag f with [] => [] | kvs => [CTag kvs] end.

  Lemma dec_field_items f : Qt (fd_ty f) -> field_ok f = true ->
    forall its', Forall2 dec (field_items f) its' -> exists x, chain cfg its' x /\ piece x (tfield f).
  Proof.
    destruct f as [[n t] kvs].
    unfold field_ok, field_ok_with, field_items, tfield, tfield_with, fd_name, fd_ty, fd_tag. cbn [fst snd].
    intros IH Ho its' Hd. apply andb_true_iff in Ho. destruct Ho as [Ho Htag].
    apply andb_true_iff in Ho. destruct Ho as [Hn Hty]. unfold MiniGo.id in Hd.
    destruct kvs as [|kv kvs]; cbn [app] in Hd; dinv; uset IH t as (x & Cx & Px & _).
    - exists (n ++ sp ++ x). split.
      + eapply chain_eq; [apply (chain_free cfg _ [n; x]); [|discriminate]|reflexivity].
        constructor; [apply free_tkid|]. constructor; [apply chain_operand, Cx | constructor].
      + intros r Hr. rewrite app_nil_r, <- !app_assoc. repeat lx1. rewrite Px by exact Hr. lx_done.
    - exists (n ++ sp ++ x ++ sp ++ tag_text (kv :: kvs)). split.
      + eapply chain_eq; [apply (chain_free cfg _ [n; x; tag_text (kv :: kvs)]); [|discriminate]|reflexivity].
        constructor; [apply free_tkid|]. constructor; [apply chain_operand, Cx|].
        constructor; [apply free_tag; discriminate | constructor].
      + intros r Hr. unfold tag_ok in Htag. apply negb_true_iff in Htag.
        rewrite (tag_text_quoted (kv :: kvs)) by first [discriminate | exact Htag].
        rewrite <- !app_assoc. repeat lx1. rewrite Px by reflexivity. repeat lx1. lx_done.
  Qed.

  Lemma fields_R fs : FieldsP Qt fs -> forallb field_ok fs = true ->
    Forall2 (R cfg) (map field_items fs) (map tfield fs).
  Proof.
    induction 1 as [|p fs Hp _ IH]; intros Ho; cbn [map]; [constructor|].
    cbn [forallb] in Ho. apply andb_true_iff in Ho. destruct Ho as [Ho1 Ho2].
    constructor; [|exact (IH Ho2)]. apply R_of_piece. exact (dec_field_items p Hp Ho1).
  Qed.

  Definition method_items (m : str * sig) : list code := MiniGo.id (fst m) :: bsig (snd m).

  Lemma methods_R ms : Forall (fun m => SigP Qt (snd m)) ms ->
    forallb (fun m : str * sig => ident_ok (fst m) && sig_ok (snd m)) ms = true ->
    Forall2 (R cfg) (map method_items ms) (map (fun m => tid (fst m) :: tsig (snd m)) ms).
  Proof.
    induction 1 as [|[m sg] ms Hm _ IH]; intros Ho; cbn [map]; [constructor|].
    cbn [forallb] in Ho. apply andb_true_iff in Ho. destruct Ho as [Ho1 Ho2]. cbn [fst snd] in *.
    constructor; [|exact (IH Ho2)]. apply R_of_piece. intros its' Hd. ok_split Ho1.
    unfold method_items, MiniGo.id in Hd. cbn [fst snd] in Hd.
    inversion Hd as [|? c1 ? lb Hc1 H2]; subst. apply dec_tok_inv in Hc1. subst c1.
    destruct (dec_sig_P sg Hm Hok lb H2) as (px & rxs & HF & Pp & Pr).
    exists (m ++ sp ++ px ++ rtext rxs). split.
    - eapply chain_eq; [apply (chain_free cfg _ (m :: px :: rxs)); [|discriminate]|].
      + constructor; [apply free_tkid | exact HF].
      + change (m :: px :: rxs) with ([m; px] ++ rxs). rewrite join_sp_app by discriminate.
        cbn [join]. rewrite <- !app_assoc. reflexivity.
    - intros r Hr. cbn [fst snd]. unfold tsig, tsig_with. rewrite <- !app_assoc. repeat lx1. rewrite Pp.
      rewrite Pr by exact Hr. lx_done.
  Qed.

  Lemma type_lines_dec w (Hw : word_ok w = true) itss tks lm :
    Forall2 (R cfg) itss tks -> decm (map CStmt itss) lm ->
    exists bxs, Forall2 (good cfg) lm bxs /\ piece (type_lines (w ++ S "{") bxs) ((word_class w, w) :: tbraces tks).
  Proof.
    intros HR Hd. destruct (decm_lines cfg _ _ Hd itss tks eq_refl HR) as (bxs & HF & HN & _ & HE).
    exists bxs. split; [exact HF|]. intros r Hr. rewrite type_lines_braces, <- app_assoc.
    rewrite lex_word' by first [exact Hw | reflexivity].
    rewrite (braces_free bxs tks HN (fun E => R_nil_tks _ _ HR (HE E))). lx_done.
  Qed.

  Lemma all_Qt t : Qt t.
  Proof.
    apply (ty_ind' Qt); unfold Qt at 1.
    - intros n Ho l' Hd. cbn [bty ty_ok] in *. tbl Hd. dinv. exists n. split; [apply leaf_chain, free_tkid|].
      split; [intros r Hr; apply g_id; assumption | intros r; apply ident_no_eq, Ho].
    - intros t0 IH Ho l' Hd. cbn [bty ty_ok] in *. tbl Hd. dinv. uset IH t0 as (x & Cx & Px & _).
      exists (S "* " ++ x). split; [|split; [|intros r; reflexivity]].
      + eapply chain_eq; [apply (chain_free cfg _ [S "*"; x]); [|discriminate]|reflexivity].
        constructor; [apply free_tktext; reflexivity|]. constructor; [apply chain_operand, Cx | constructor].
      + intros r Hr. cbn [tty]. split_lits. repeat lx1. rewrite Px by exact Hr. lx_done.
    - intros t0 IH Ho l' Hd. cbn [bty ty_ok] in *. tbl Hd. dinv. uset IH t0 as (x & Cx & Px & _).
      exists (S "[] " ++ x). split; [|split; [|intros r; reflexivity]].
      + eapply chain_eq; [apply (chain_free cfg _ [S "[]"; x]); [|discriminate]|reflexivity].
        constructor; [|constructor; [apply chain_operand, Cx | constructor]].
        rewrite <- (gIndex_eq Htab). eapply free_eq; [apply (free_index cfg Htab [] []); constructor | reflexivity].
      + intros r Hr. cbn [tty]. split_lits. repeat lx1. rewrite Px by exact Hr. lx_done.
    - intros k v IHk IHv Ho l' Hd. cbn [bty ty_ok] in *. ok_split Ho. tbl Hd. dinv.
      uset IHk k as (xk & Ck & Pk & _). uset IHv v as (xv & Cv & Pv & _).
      exists (S "map[" ++ xk ++ S "] " ++ xv). split; [|split; [|intros r; reflexivity]].
      + eapply chain_eq; [apply (chain_free cfg _ [S "map[" ++ xk ++ S "]"; xv]); [|discriminate]|].
        * constructor; [|constructor; [apply chain_operand, Cv | constructor]].
          rewrite <- (gMap_eq Htab). eapply free_eq; [apply (free_map cfg Htab [_] [xk])|reflexivity].
          constructor; [apply chain_good, Ck | constructor].
        * cbn [join]. rewrite <- !app_assoc. reflexivity.
      + intros r Hr. cbn [tty]. split_lits. rewrite lex_word' by reflexivity. repeat lx1.
        rewrite Pk by reflexivity. repeat lx1. rewrite Pv by exact Hr. lx_done.
    - intros n t0 IH Ho l' Hd. cbn [bty ty_ok] in *. tbl Hd. dinv. uset IH t0 as (x & Cx & Px & _).
      exists (S "[" ++ Z_to_dec n ++ S "] " ++ x). split; [|split; [|intros r; reflexivity]].
      + eapply chain_eq; [apply (chain_free cfg _ [S "[" ++ Z_to_dec n ++ S "]"; x]); [|discriminate]|].
        * constructor; [|constructor; [apply chain_operand, Cx | constructor]].
          rewrite <- (gIndex_eq Htab). eapply free_eq; [apply (free_index cfg Htab [_] [Z_to_dec n])|reflexivity].
          constructor; [|constructor]. apply chain_good, leaf_chain, free_int.
        * cbn [join]. rewrite <- !app_assoc. reflexivity.
      + intros r Hr. cbn [tty]. split_lits. repeat lx1. rewrite Px by exact Hr. lx_done.
    - intros d t0 IH Ho l' Hd. cbn [ty_ok] in *. destruct d; cbn [bty] in Hd; tbl Hd; dinv; uset IH t0 as (x & Cx & Px & _).
      + exists (S "chan " ++ x). split; [|split; [|intros r; reflexivity]].
        * eapply chain_eq; [apply (chain_free cfg _ [S "chan"; x]); [|discriminate]|reflexivity].
          constructor; [apply free_tktext; reflexivity|]. constructor; [apply chain_operand, Cx | constructor].
        * intros r Hr. cbn [tty]. split_lits. repeat lx1. rewrite Px by exact Hr. lx_done.
      + exists (S "<- chan " ++ x). split; [|split; [|intros r; reflexivity]].
        * eapply chain_eq; [apply (chain_free cfg _ [S "<-"; S "chan"; x]); [|discriminate]|reflexivity].
          constructor; [apply free_tktext; reflexivity|]. constructor; [apply free_tktext; reflexivity|].
          constructor; [apply chain_operand, Cx | constructor].
        * intros r Hr. cbn [tty]. split_lits. repeat lx1. rewrite Px by exact Hr. lx_done.
      + exists (S "chan <- " ++ x). split; [|split; [|intros r; reflexivity]].
        * eapply chain_eq; [apply (chain_free cfg _ [S "chan"; S "<-"; x]); [|discriminate]|reflexivity].
          constructor; [apply free_tktext; reflexivity|]. constructor; [apply free_tktext; reflexivity|].
          constructor; [apply chain_operand, Cx | constructor].
        * intros r Hr. cbn [tty]. split_lits. repeat lx1. rewrite Px by exact Hr. lx_done.
    - intros t0 IH Ho l' Hd. cbn [bty ty_ok] in *. tbl Hd. dinv. uset IH t0 as (x & Cx & Px & _).
      exists (S "... " ++ x). split; [|split; [|intros r; reflexivity]].
      + eapply chain_eq; [apply (chain_free cfg _ [S "..."; x]); [|discriminate]|reflexivity].
        constructor; [apply free_tktext; reflexivity|]. constructor; [apply chain_operand, Cx | constructor].
      + intros r Hr. cbn [tty]. split_lits. repeat lx1. rewrite Px by exact Hr. lx_done.
    - intros ps res Hp Hr0 Ho l' Hd. cbn [bty ty_ok] in *. rewrite (kw_Func Htab) in Hd.
      inversion Hd as [|? c1 ? lb Hc1 H2]; subst. apply dec_tok_inv in Hc1. subst c1.
      destruct (dec_sig_P (ps, res) (conj Hp Hr0) Ho lb H2) as (px & rxs & HF & Pp & Pr). cbn [fst snd] in *.
      exists (S "func " ++ px ++ rtext rxs). split; [|split; [|intros r; reflexivity]].
      + eapply chain_eq; [apply (chain_free cfg _ (S "func" :: px :: rxs)); [|discriminate]|].
        * constructor; [apply free_tktext; reflexivity | exact HF].
        * change (S "func" :: px :: rxs) with ([S "func"; px] ++ rxs). rewrite join_sp_app by discriminate.
          cbn [join]. rewrite <- !app_assoc. reflexivity.
      + intros r Hr. cbn [tty]. unfold tsig_with. cbn [fst snd]. split_lits. repeat lx1.
        fold (tparams ps). fold (tresults res). rewrite Pp. rewrite Pr by exact Hr. lx_done.
    - intros fs Hf Ho l' Hd. cbn [bty ty_ok] in *. rewrite (gStruct_eq Htab) in Hd. dinv.
      match goal with H : decm _ ?lm |- _ =>
        change (map (bfield_with bty) fs) with (map bfield fs) in H;
        assert (E : map bfield fs = map CStmt (map field_items fs)) by (rewrite map_map; reflexivity);
        rewrite E in H;
        destruct (type_lines_dec (S "struct") eq_refl _ _ lm (fields_R fs Hf Ho) H) as (bxs & HF & HP) end.
      exists (type_lines (S "struct{") bxs). split; [|split; [|intros r; reflexivity]].
      + apply leaf_chain. rewrite <- (gStruct_eq Htab). apply (free_struct cfg Htab _ bxs HF).
      + exact HP.
    - intros ms Hm Ho l' Hd. cbn [bty ty_ok] in *. rewrite (gInterface_eq Htab) in Hd. dinv.
      match goal with H : decm _ ?lm |- _ =>
        assert (E : map (fun m : str * sig => CStmt (MiniGo.id (fst m) :: bsig_with bty (snd m))) ms =
                    map CStmt (map method_items ms)) by (rewrite map_map; reflexivity);
        rewrite E in H;
        destruct (type_lines_dec (S "interface") eq_refl _ _ lm (methods_R ms Hm Ho) H) as (bxs & HF & HP) end.
      exists (type_lines (S "interface{") bxs). split; [|split; [|intros r; reflexivity]].
      + apply leaf_chain. rewrite <- (gInterface_eq Htab). apply (free_interface cfg Htab _ bxs HF).
      + exact HP.
  Qed.

  Lemma all_Qt_params ps : ParamsP Qt ps.
  Proof. apply Forall_forall. intros p _. apply all_Qt. Qed.
  Lemma all_Qt_tys res : Forall Qt res.
  Proof. apply Forall_forall. intros p _. apply all_Qt. Qed.

  (* ---- lists of expressions *)
  Lemma dec_exprs es : Forall Qe es -> forallb expr_ok es = true ->
    forall l', Forall2 dec (map (fun a => CStmt (bexpr a)) es) l' ->
    exists xs, Forall2 (good cfg) l' xs /\ Forall2 piece xs (map texpr es).
  Proof.
    induction 1 as [|e es He _ IH]; intros Hoks l' Hd; cbn [map] in Hd.
    - inversion Hd; subst. exists []. split; constructor.
    - cbn [forallb] in Hoks. apply andb_true_iff in Hoks. destruct Hoks as [Ho1 Ho2].
      inversion Hd as [|? c' ? l2 Hc Hd2]; subst. apply dec_stmt_inv in Hc. destruct Hc as (le & -> & Hle).
      destruct (He Ho1 le Hle) as (x & Cx & Px & _). destruct (IH Ho2 l2 Hd2) as (xs & HF & HP).
      exists (x :: xs). split; [constructor; [apply chain_good, Cx | exact HF]|].
      cbn [map]. constructor; assumption.
  Qed.

  Lemma dec_exprs_join es : Forall Qe es -> forallb expr_ok es = true ->
    forall l', Forall2 dec (map (fun a => CStmt (bexpr a)) es) l' ->
    exists xs, Forall2 (good cfg) l' xs /\ piece (join comma xs) (tcommas (map texpr es)).
  Proof.
    intros H Ho l' Hd. destruct (dec_exprs es H Ho l' Hd) as (xs & HF & HP).
    exists xs. split; [exact HF | apply Forall2_piece_join, HP].
  Qed.

  (* a non-empty list *)
  Lemma dec_exprs1 e es : Qe e -> Forall Qe es -> expr_ok e = true -> forallb expr_ok es = true ->
    forall le l2, Forall2 dec (bexpr e) le -> Forall2 dec (map (fun a => CStmt (bexpr a)) es) l2 ->
    exists x xs, Forall2 (good cfg) (CStmt le :: l2) (x :: xs) /\
      piece (join comma (x :: xs)) (tcommas (map texpr (e :: es))).
  Proof.
    intros He Hes Ho Hos le l2 Hle Hl2.
    destruct (He Ho le Hle) as (x & Cx & Px & _). destruct (dec_exprs es Hes Hos l2 Hl2) as (xs & HF & HP).
    exists x, xs. split; [constructor; [apply chain_good, Cx | exact HF]|].
    apply Forall2_piece_join. cbn [map]. constructor; assumption.
  Qed.

  Lemma dec_args ddd args : Forall Qe args -> forallb expr_ok args = true ->
    forall l', Forall2 dec (call_args ddd (map bexpr args)) l' ->
    exists xs, Forall2 (good cfg) l' xs /\ piece (join comma xs) (targs ddd (map texpr args)).
  Proof.
    intros H Hoks l' Hd. unfold call_args in Hd. destruct ddd.
    - revert l' Hoks Hd. induction H as [|a args Ha Hargs IH]; intros l' Hoks Hd.
      + cbn in Hd. inversion Hd; subst. exists []. split; [constructor | exact piece_nil].
      + cbn [forallb] in Hoks. apply andb_true_iff in Hoks. destruct Hoks as [Ho1 Ho2].
        destruct args as [|b args].
        * cbn [map on_last] in Hd. tbl Hd. dinv.
          match goal with H : Forall2 dec (bexpr a) ?l |- _ => destruct (Ha Ho1 l H) as (x & Cx & Px & _) end.
          exists [x ++ sp ++ S "..."]. split.
          { constructor; [|constructor]. apply chain_good.
            eapply chain_eq; [apply (chain_app cfg _ x [CTok (TkText (S "..."))] [S "..."] Cx); [|discriminate]|reflexivity].
            constructor; [apply free_tktext; reflexivity | constructor]. }
          intros r Hr. cbn [join map targs tcommas]. rewrite <- !app_assoc.
          rewrite Px by reflexivity. repeat lx1. lx_done.
        * change (map bexpr (a :: b :: args)) with (bexpr a :: map bexpr (b :: args)) in Hd.
          change (on_last (fun l => l ++ [op (S "...")]) (bexpr a :: map bexpr (b :: args)))
            with (bexpr a :: on_last (fun l => l ++ [op (S "...")]) (map bexpr (b :: args))) in Hd.
          cbn [map] in Hd. inversion Hd as [|? c' ? l2 Hc Hd2]; subst.
          apply dec_stmt_inv in Hc. destruct Hc as (le & -> & Hle).
          destruct (Ha Ho1 le Hle) as (x & Cx & Px & _).
          destruct (IH l2 Ho2 Hd2) as (xs & HF & HP).
          assert (Hne : xs <> []).
          { cbn [map on_last] in Hd2. destruct (map bexpr args); inversion Hd2; subst; inversion HF; discriminate. }
          exists (x :: xs). split; [constructor; [apply chain_good, Cx | exact HF]|].
          destruct xs as [|y ys]; [congruence|].
          intros r Hr. rewrite join_cons2. unfold targs in HP |- *. cbn [map] in HP |- *.
          rewrite tcommas_cons2. rewrite <- !app_assoc. rewrite Px by reflexivity. rewrite g_fop by in_tac.
          rewrite HP by exact Hr. lx_done.
    - rewrite map_map in Hd. destruct (dec_exprs_join args H Hoks l' Hd) as (xs & HF & HP).
      exists xs. split; [exact HF|]. unfold targs. destruct (map texpr args); rewrite app_nil_r; exact HP.
  Qed.

  (* ---- optional items *)
  Lemma dec_opt_expr o : OptP Qe o -> opt_ok expr_ok o = true -> forall c', dec (opt_item bexpr o) c' ->
    exists x, good cfg c' x /\ piece x (topt texpr o) /\ (forall r, no_eq r = true -> no_eq (x ++ r) = true).
  Proof.
    destruct o as [e|]; cbn [OptP opt_ok opt_item topt]; intros H Ho c' Hd.
    - apply dec_stmt_inv in Hd. destruct Hd as (l & -> & Hl). destruct (H Ho l Hl) as (x & Cx & Px & Nx).
      exists x. split; [apply chain_good, Cx|]. split; [exact Px | intros r _; apply Nx].
    - apply (dec_flatc empty eq_refl) in Hd. subst. exists []. split; [apply good_empty|].
      split; [exact piece_nil | intros r Hr; exact Hr].
  Qed.

  Lemma dec_opt_stmt o : OptP Qs o -> opt_ok stmt_ok o = true -> forall c', dec (opt_item bstmt o) c' ->
    exists x, good cfg c' x /\ piece x (topt tstmt o).
  Proof.
    destruct o as [e|]; cbn [OptP opt_ok opt_item topt]; intros H Ho c' Hd.
    - apply dec_stmt_inv in Hd. destruct Hd as (l & -> & Hl). destruct (H Ho l Hl) as (x & Cx & Px).
      exists x. split; [apply chain_good, Cx | exact Px].
    - apply (dec_flatc empty eq_refl) in Hd. subst. exists []. split; [apply good_empty | exact piece_nil].
  Qed.

  (* ---- blocks *)

  Lemma body_R body : Forall Qs body -> forallb stmt_ok body = true ->
    Forall2 (R cfg) (map bstmt body) (map tstmt body).
  Proof.
    induction 1 as [|s body Hs _ IH]; intros Ho; cbn [map]; [constructor|].
    cbn [forallb] in Ho. apply andb_true_iff in Ho. destruct Ho as [Ho1 Ho2].
    constructor; [|exact (IH Ho2)]. apply R_of_piece. exact (Hs Ho1).
  Qed.

  Lemma block_tail pre xs itss tks items' post ys :
    Forall2 cfree pre xs -> Forall2 (R cfg) itss tks -> decm (map CStmt itss) items' -> Forall2 cfree post ys ->
    (forall suf, case_ctx (pre ++ gBlock 1 items' :: post ++ suf) (gBlock 1 items') = false) ->
    exists bx, chain cfg (pre ++ gBlock 1 items' :: post) (join sp (xs ++ bx :: ys)) /\ lfree bx (tbraces tks).
  Proof.
    intros Hpre HR Hd Hpost Hctx.
    destruct (decm_lines cfg _ _ Hd itss tks eq_refl HR) as (bxs & HF & HN & _ & HE).
    exists (braces bxs). split; [apply (chain_block cfg Htab pre xs items' bxs post ys); assumption|].
    intros r. unfold braces, tbraces. rewrite <- !app_assoc. rewrite g_fop by in_tac.
    destruct bxs as [|b bxs].
    - rewrite (HE eq_refl) in HR. inversion HR; subst. cbn [lines map concat_str app concat].
      rewrite g_fop by in_tac. lx_done.
    - rewrite HN by apply bndN_nl. rewrite g_nl. rewrite g_fop by in_tac. lx_done.
  Qed.

  Lemma body_tail pre xs body items' post ys :
    Forall2 cfree pre xs -> Forall Qs body -> forallb stmt_ok body = true ->
    decm (map (fun s => CStmt (bstmt s)) body) items' -> Forall2 cfree post ys ->
    (forall suf, case_ctx (pre ++ gBlock 1 items' :: post ++ suf) (gBlock 1 items') = false) ->
    exists bx, chain cfg (pre ++ gBlock 1 items' :: post) (join sp (xs ++ bx :: ys)) /\
               lfree bx (tbraces (map tstmt body)).
  Proof.
    intros Hpre Hb Ho Hd Hpost Hctx. rewrite <- map_map in Hd.
    exact (block_tail pre xs (map bstmt body) (map tstmt body) items' post ys Hpre (body_R body Hb Ho) Hd Hpost Hctx).
  Qed.

  (* ---- expressions *)
  Ltac start H Hd := intros H l' Hd; cbn [expr_ok stmt_ok clause_ok opt_ok] in H; ok_split H;
                     cbn [bexpr bstmt] in Hd; tbl Hd; dinv.

  Lemma qe_id n : Qe (EId n).
  Proof.
    start Ho Hd. exists n. split; [apply leaf_chain, free_tkid|].
    split; [intros r Hr; apply g_id; assumption | intros r; apply ident_no_eq, Ho].
  Qed.

  Lemma qe_int z : Qe (EInt z).
  Proof.
    start Ho Hd. exists (Z_to_dec z). split; [apply leaf_chain, free_int|].
    split; [intros r Hr; apply g_int, Hr | exact (cexpr_no_eq (EInt z) eq_refl)].
  Qed.

  Lemma qe_str s : Qe (EStr s).
  Proof.
    start Ho Hd. exists (GoQuote s). split; [apply leaf_chain, free_str|].
    split; [intros r Hr; apply g_str | exact (cexpr_no_eq (EStr s) eq_refl)].
  Qed.

  Lemma qe_bool b : Qe (EBool b).
  Proof.
    intros Ho l' Hd. cbn [bexpr] in Hd. destruct b; tbl Hd; dinv.
    - exists (S "true"). split; [apply leaf_chain, free_tkid|].
      split; [intros r Hr; rewrite g_word by lx_side; lx_done | intros r; reflexivity].
    - exists (S "false"). split; [apply leaf_chain, free_tkid|].
      split; [intros r Hr; rewrite g_word by lx_side; lx_done | intros r; reflexivity].
  Qed.

  Lemma qe_nil : Qe ENil.
  Proof.
    start Ho Hd. exists (S "nil"). split; [apply leaf_chain, free_tkid|].
    split; [intros r Hr; rewrite g_word by lx_side; lx_done | intros r; reflexivity].
  Qed.

  Lemma qe_un o x : Qe x -> Qe (EUn o x).
  Proof.
    intros IHx. start Ho Hd. usee IHx x as (sx & Cx & Px & Nx).
    exists (unop_text o ++ sp ++ sx). split; [|split].
    - eapply chain_eq; [apply (chain_free cfg _ [unop_text o; sx]); [|discriminate]|reflexivity].
      constructor; [apply free_tktext, unop_not_default|]. constructor; [apply chain_operand, Cx | constructor].
    - intros r Hr. cbn [texpr]. rewrite <- !app_assoc. destruct o; repeat lx1; rewrite Px by exact Hr; lx_done.
    - intros r. destruct o; reflexivity.
  Qed.

  Lemma qe_bin x o y : Qe x -> Qe y -> Qe (EBin x o y).
  Proof.
    intros IHx IHy. start Ho Hd. usee IHx x as (sx & Cx & Px & Nx). usee IHy y as (sy & Cy & Py & Ny).
    exists (sx ++ sp ++ binop_text o ++ sp ++ sy). split; [|split].
    - eapply chain_eq; [apply (chain_app cfg _ _ _ [binop_text o; sy] Cx); [|discriminate]|reflexivity].
      constructor; [apply free_tktext, binop_not_default|]. constructor; [apply chain_operand, Cy | constructor].
    - intros r Hr. cbn [texpr]. rewrite <- !app_assoc. rewrite Px by reflexivity.
      destruct o; repeat lx1; rewrite Py by exact Hr; lx_done.
    - intros r. rewrite <- app_assoc. apply Nx.
  Qed.

  (* f (args) at the end of a chain *)
  Lemma call_tail f args ddd : Qe f -> Forall Qe args -> expr_ok f = true -> forallb expr_ok args = true ->
    forall l', Forall2 dec (bexpr f ++ [gCall 0 (call_args ddd (map bexpr args))]) l' ->
    exists x, chain cfg l' x /\ piece x (texpr f ++ top (S "(") :: targs ddd (map texpr args) ++ [top (S ")")]) /\
              (forall r, no_eq (x ++ r) = true).
  Proof.
    intros IHf IHa Hof Hoa l' Hd. tbl Hd. dinv. usee IHf f as (sf & Cf & Pf & Nf).
    match goal with H : Forall2 dec (call_args _ _) ?l |- _ => destruct (dec_args ddd args IHa Hoa l H) as (xs & HF & HP) end.
    exists (sf ++ S " (" ++ join comma xs ++ S ")"). split; [|split].
    - eapply chain_eq; [eapply (chain_app cfg _ _ _ [_] Cf); [|discriminate]|].
      + constructor; [|constructor]. rewrite <- (gCall_eq Htab). apply (free_call cfg Htab _ xs HF).
      + reflexivity.
    - intros r Hr. split_lits. rewrite Pf by reflexivity. repeat lx1. rewrite HP by reflexivity. repeat lx1. lx_done.
    - intros r. rewrite <- app_assoc. apply Nf.
  Qed.

  Lemma qe_call f args ddd : Qe f -> Forall Qe args -> Qe (ECall f args ddd).
  Proof.
    intros IHf IHa Ho l' Hd. cbn [expr_ok] in Ho. ok_split Ho. cbn [bexpr] in Hd.
    exact (call_tail f args ddd IHf IHa Ho Hok l' Hd).
  Qed.

  Lemma qe_index x i : Qe x -> Qe i -> Qe (EIndex x i).
  Proof.
    intros IHx IHi. start Ho Hd. usee IHx x as (sx & Cx & Px & Nx). usee IHi i as (si & Ci & Pi & Ni).
    exists (sx ++ S " [" ++ si ++ S "]"). split; [|split].
    - eapply chain_eq; [eapply (chain_app cfg _ _ _ [_] Cx); [|discriminate]|].
      + constructor; [|constructor]. rewrite <- (gIndex_eq Htab). apply (free_index cfg Htab [_] [si]).
        constructor; [apply chain_good, Ci | constructor].
      + reflexivity.
    - intros r Hr. cbn [texpr]. split_lits. rewrite Px by reflexivity. repeat lx1. rewrite Pi by reflexivity.
      repeat lx1. lx_done.
    - intros r. rewrite <- app_assoc. apply Nx.
  Qed.

  Lemma qe_slice x lo hi : Qe x -> OptP Qe lo -> OptP Qe hi -> Qe (ESlice x lo hi).
  Proof.
    intros IHx IHlo IHhi. start Ho Hd. usee IHx x as (sx & Cx & Px & Nx).
    match goal with H : dec (opt_item bexpr lo) ?c |- _ =>
      destruct (dec_opt_expr lo IHlo ltac:(assumption) c H) as (slo & Glo & Plo & Nlo); clear H end.
    match goal with H : dec (opt_item bexpr hi) ?c |- _ =>
      destruct (dec_opt_expr hi IHhi ltac:(assumption) c H) as (shi & Ghi & Phi & Nhi); clear H end.
    exists (sx ++ S " [" ++ slo ++ S ":" ++ shi ++ S "]"). split; [|split].
    - eapply chain_eq; [eapply (chain_app cfg _ _ _ [_] Cx); [|discriminate]|].
      + constructor; [|constructor]. rewrite <- (gIndex_eq Htab). apply (free_index cfg Htab [_; _] [slo; shi]).
        constructor; [exact Glo|]. constructor; [exact Ghi | constructor].
      + cbn [join]. rewrite <- !app_assoc. reflexivity.
    - intros r Hr. cbn [texpr]. split_lits. rewrite Px by reflexivity. repeat lx1. rewrite Plo by reflexivity.
      rewrite g_colon by (apply Nhi; reflexivity). rewrite Phi by reflexivity. repeat lx1. lx_done.
    - intros r. rewrite <- app_assoc. apply Nx.
  Qed.

  Lemma qe_slice3 x lo hi mx : Qe x -> OptP Qe lo -> OptP Qe hi -> OptP Qe mx -> Qe (ESlice3 x lo hi mx).
  Proof.
    intros IHx IHlo IHhi IHmx. start Ho Hd. usee IHx x as (sx & Cx & Px & Nx).
    match goal with H : dec (opt_item bexpr lo) ?c |- _ =>
      destruct (dec_opt_expr lo IHlo ltac:(assumption) c H) as (slo & Glo & Plo & Nlo); clear H end.
    match goal with H : dec (opt_item bexpr hi) ?c |- _ =>
      destruct (dec_opt_expr hi IHhi ltac:(assumption) c H) as (shi & Ghi & Phi & Nhi); clear H end.
    match goal with H : dec (opt_item bexpr mx) ?c |- _ =>
      destruct (dec_opt_expr mx IHmx ltac:(assumption) c H) as (smx & Gmx & Pmx & Nmx); clear H end.
    exists (sx ++ S " [" ++ slo ++ S ":" ++ shi ++ S ":" ++ smx ++ S "]"). split; [|split].
    - eapply chain_eq; [eapply (chain_app cfg _ _ _ [_] Cx); [|discriminate]|].
      + constructor; [|constructor]. rewrite <- (gIndex_eq Htab). apply (free_index cfg Htab [_; _; _] [slo; shi; smx]).
        constructor; [exact Glo|]. constructor; [exact Ghi|]. constructor; [exact Gmx | constructor].
      + cbn [join]. rewrite <- !app_assoc. reflexivity.
    - intros r Hr. cbn [texpr]. split_lits. rewrite Px by reflexivity. repeat lx1. rewrite Plo by reflexivity.
      rewrite g_colon by (apply Nhi; reflexivity). rewrite Phi by reflexivity.
      rewrite g_colon by (apply Nmx; reflexivity). rewrite Pmx by reflexivity. repeat lx1. lx_done.
    - intros r. rewrite <- app_assoc. apply Nx.
  Qed.

  Lemma qe_sel x sel : Qe x -> Qe (ESel x sel).
  Proof.
    intros IHx. start Ho Hd. usee IHx x as (sx & Cx & Px & Nx).
    exists (sx ++ S " . " ++ sel). split; [|split].
    - eapply chain_eq; [apply (chain_app cfg _ _ _ [S "."; sel] Cx); [|discriminate]|reflexivity].
      constructor; [apply free_tktext; reflexivity|]. constructor; [apply free_tkid | constructor].
    - intros r Hr. cbn [texpr]. split_lits. rewrite Px by reflexivity. repeat lx1. lx_done.
    - intros r. rewrite <- app_assoc. apply Nx.
  Qed.

  Lemma qe_paren x : Qe x -> Qe (EParen x).
  Proof.
    intros IHx. start Ho Hd. usee IHx x as (sx & Cx & Px & Nx).
    exists (S "(" ++ sx ++ S ")"). split; [|split].
    - apply leaf_chain. rewrite <- (gParens_eq Htab).
      eapply free_eq; [apply (free_parens cfg Htab [_] [sx])|reflexivity].
      constructor; [apply chain_good, Cx | constructor].
    - intros r Hr. cbn [texpr]. rewrite <- !app_assoc. repeat lx1. rewrite Px by reflexivity. repeat lx1. lx_done.
    - intros r. reflexivity.
  Qed.

  Lemma qe_comp t elts : Forall Qe elts -> Qe (EComp t elts).
  Proof.
    intros IHe Ho l' Hd. cbn [expr_ok] in Ho. ok_split Ho. cbn [bexpr] in Hd.
    apply Forall2_app_inv_l in Hd. destruct Hd as (la & lb & H1 & H2 & ->).
    destruct (all_Qt t Ho la H1) as (xt & Ct & Pt0 & Nt). tbl H2. dinv.
    match goal with H : Forall2 dec (map _ elts) ?l |- _ =>
      destruct (dec_exprs_join elts IHe ltac:(assumption) l H) as (xs & HF & HP); clear H end.
    exists (xt ++ S " {" ++ join comma xs ++ S "}"). split; [|split].
    - eapply chain_eq; [eapply (chain_app cfg _ _ _ [_] Ct); [|discriminate]|].
      + constructor; [|constructor]. rewrite <- (gValues_eq Htab). apply (free_values cfg Htab _ xs HF).
      + reflexivity.
    - intros r Hr. cbn [texpr]. split_lits. rewrite Pt0 by reflexivity. repeat lx1.
      rewrite HP by reflexivity. repeat lx1. lx_done.
    - intros r. rewrite <- app_assoc. apply Nt.
  Qed.

  (* a keyed literal: a decoration does not enter a Dict (Spec/MiniGoComments.v: dec_dict), and
     the type and the Values group around it are one-line - nothing can be added *)
  Lemma qe_keyed t pairs : Forall (PairP Qe) pairs -> Qe (EKeyed t pairs).
  Proof.
    intros _ Ho l' Hd. cbn [expr_ok] in Ho. ok_split Ho. cbn [bexpr] in Hd.
    apply Forall2_app_inv_l in Hd. destruct Hd as (la & lb & H1 & H2 & ->).
    destruct (all_Qt t Ho la H1) as (xt & Ct & Pt0 & Nt).
    apply dec_flat_same in H2; [subst lb | rewrite (gValues_eq Htab); reflexivity].
    exists (xt ++ S " {" ++ keyed_body (sort_keyed (map (fun kv => (cexpr (fst kv), cexpr (snd kv))) pairs)) ++ S "}").
    split; [|split].
    - eapply chain_eq; [eapply (chain_app cfg _ _ _ [_] Ct); [|discriminate]|reflexivity].
      constructor; [|constructor]. rewrite (gValues_eq Htab). apply free_values_dict. apply (pairs_free cfg).
      apply Forall_forall. intros kv _. split; exact (expr_chain cfg Htab _).
    - intros r Hr. cbn [texpr]. rewrite <- !app_assoc. rewrite Pt0 by reflexivity.
      rewrite (lx_keyed_tail pairs Hok r Hr). lx_done.
    - intros r. rewrite <- app_assoc. apply Nt.
  Qed.

  Ltac ctx_false := intros suf; unfold bparams, bparams_with;
    rewrite ?(kw_Func Htab), ?(gParams_eq Htab), ?(gIf_eq Htab), ?(gFor_eq Htab), ?(gSwitch_eq Htab), ?(gBlock_eq Htab);
    reflexivity.

  (* ---- the item before a Block is the same item in a decorated statement *)
  Lemma dec_is_cod c c' : dec c c' -> is_case_or_default c = is_case_or_default c'.
  Proof. intros H. inversion H; reflexivity. Qed.

  Definition ocod (o : option code) : option bool := option_map is_case_or_default o.

  Lemma prev_of_dec gid l l' : Forall2 dec l l' -> forall G G' rest rest' prev prev',
    (match G with CGroup g _ _ _ _ _ _ => g = gid | _ => False end /\
     match G' with CGroup g _ _ _ _ _ _ => g = gid | _ => False end) ->
    ocod prev = ocod prev' ->
    ocod (prev_of gid prev (l ++ G :: rest)) = ocod (prev_of gid prev' (l' ++ G' :: rest')).
  Proof.
    induction 1 as [|x x' l l' Hx _ IH]; intros G G' rest rest' prev prev' HG Hp.
    - destruct HG as [H1 H2]. destruct G; try contradiction. destruct G'; try contradiction. subst.
      cbn [app prev_of]. rewrite !N.eqb_refl. exact Hp.
    - cbn [app prev_of].
      assert (Hn : ocod (Some x) = ocod (Some x')) by (unfold ocod; cbn [option_map]; rewrite (dec_is_cod x x' Hx); reflexivity).
      inversion Hx; subst; try (apply IH; assumption);
        (destruct (N.eqb _ gid); [exact Hp | apply IH; assumption]).
  Qed.

  Lemma case_ctx_dec pre0 pre' g n o c s m items items' rest rest' :
    Forall2 dec pre0 pre' ->
    case_ctx (pre0 ++ CGroup g n o c s m items :: rest) (CGroup g n o c s m items) =
    case_ctx (pre' ++ CGroup g n o c s m items' :: rest') (CGroup g n o c s m items').
  Proof.
    intros H. unfold case_ctx.
    pose proof (prev_of_dec g pre0 pre' H (CGroup g n o c s m items) (CGroup g n o c s m items') rest rest' None None
                  (conj eq_refl eq_refl) eq_refl) as E.
    unfold ocod in E.
    destruct (prev_of g None (pre0 ++ CGroup g n o c s m items :: rest)),
             (prev_of g None (pre' ++ CGroup g n o c s m items' :: rest')); cbn [option_map] in E;
      try discriminate; [injection E as E; exact E | reflexivity].
  Qed.

  (* func [receiver] [name] (params) [result] { body }: the head already decorated (lh) *)
  Lemma func_tail hd lh hxs ps res body ls lb :
    Forall2 dec hd lh -> Forall2 cfree lh hxs ->
    (forall items' suf, case_ctx ((hd ++ bsig (ps, res)) ++ gBlock 1 items' :: [] ++ suf) (gBlock 1 items') = false) ->
    forallb param_ok ps = true -> forallb ty_ok res = true -> Forall Qs body -> forallb stmt_ok body = true ->
    Forall2 dec (bsig (ps, res)) ls -> Forall2 dec [gBlock 1 (map (fun s => CStmt (bstmt s)) body)] lb ->
    exists px rxs bx, chain cfg ((lh ++ ls) ++ lb) (join sp ((hxs ++ px :: rxs) ++ [bx])) /\
      lfree px (tparams ps) /\ piece (rtext rxs) (tresults res) /\ lfree bx (tbraces (map tstmt body)).
  Proof.
    intros Hh Hhd Hctx Hop Hor Hb Ho Hs Hbl.
    assert (Hso : sig_ok (ps, res) = true) by (unfold sig_ok, sig_ok_with; cbn [fst snd]; fold param_ok; rewrite Hop, Hor; reflexivity).
    destruct (dec_sig_P (ps, res) (conj (all_Qt_params ps) (all_Qt_tys res)) Hso ls Hs) as (px & rxs & HF & Pp & Pr).
    cbn [fst snd] in Pp, Pr.
    rewrite (gBlock_eq Htab) in Hbl. dinv. rewrite <- (gBlock_eq Htab).
    match goal with H : decm _ ?lm |- _ =>
      destruct (body_tail (lh ++ ls) (hxs ++ px :: rxs) body lm [] []) as (bx & Cb & Pb);
        [|exact Hb|exact Ho|exact H|constructor| |] end.
    - apply Forall2_app; [exact Hhd | exact HF].
    - intros suf. rewrite <- (Hctx lm suf). rewrite !(gBlock_eq Htab). symmetry. apply case_ctx_dec.
      apply Forall2_app; assumption.
    - exists px, rxs, bx. split; [exact Cb|]. split; [exact Pp|]. split; [exact Pr | exact Pb].
  Qed.

  Ltac ctx3 res := intros items suf; destruct res as [|? [|? ?]];
    unfold bsig, bsig_with, bparams, bparams_with, bresults, bresults_with; cbn [fst snd];
    rewrite ?(kw_Func Htab), ?(gParams_eq Htab), ?(gBlock_eq Htab); reflexivity.

  (* the text of a func with head texts hxs *)
  Lemma func_text hxs px rxs bx : hxs <> [] ->
    join sp ((hxs ++ px :: rxs) ++ [bx]) = join sp hxs ++ sp ++ px ++ rtext rxs ++ sp ++ bx.
  Proof.
    intros Hne. rewrite join_app_ne by (first [discriminate | destruct hxs; [congruence | discriminate]]).
    replace (hxs ++ px :: rxs) with ((hxs ++ [px]) ++ rxs) by (rewrite <- app_assoc; reflexivity).
    rewrite join_sp_app by (destruct hxs; discriminate). rewrite join_app_ne by (first [assumption | discriminate]).
    cbn [join]. rewrite <- !app_assoc. reflexivity.
  Qed.

  Lemma qe_func ps res body : Forall Qs body -> Qe (EFunc ps res body).
  Proof.
    intros IHb Ho l' Hd. cbn [expr_ok] in Ho. ok_split Ho. cbn [bexpr app] in Hd.
    inversion Hd as [|? c1 ? l1 Hc1 Hd1]; subst. inversion Hd1 as [|? c2 ? l2 Hc2 Hd2]; subst.
    apply Forall2_app_inv_l in Hd2. destruct Hd2 as (lr & lb & Hlr & Hbl & ->).
    rewrite (kw_Func Htab) in Hc1. apply dec_tok_inv in Hc1. subst c1.
    destruct (func_tail [kw (S "Func")] [CTok (TkText (S "func"))] [S "func"] ps res body (c2 :: lr) lb)
      as (px & rxs & bx & Cb & Pp & Pr & Pb);
      [| |ctx3 res|assumption|assumption|exact IHb|assumption|constructor; assumption|exact Hbl|].
    - rewrite (kw_Func Htab). constructor; [constructor | constructor].
    - constructor; [apply free_tktext; reflexivity | constructor].
    - exists (S "func" ++ sp ++ px ++ rtext rxs ++ sp ++ bx). split; [|split].
      + eapply chain_eq; [exact Cb|]. rewrite func_text by discriminate. reflexivity.
      + intros r Hr. cbn [texpr]. rewrite <- !app_assoc. repeat lx1. rewrite Pp. rewrite Pr by reflexivity. repeat lx1.
        rewrite Pb. lx_done.
      + intros r. reflexivity.
  Qed.

  Lemma qe_assert x t : Qe x -> Qe (EAssert x t).
  Proof.
    intros IHx. start Ho Hd. usee IHx x as (sx & Cx & Px & Nx). uset (all_Qt t) t as (xt & Ct & Pt0 & _).
    exists (sx ++ S " .(" ++ xt ++ S ")"). split; [|split].
    - eapply chain_eq; [eapply (chain_app cfg _ _ _ [_] Cx); [|discriminate]|].
      + constructor; [|constructor]. rewrite <- (gAssert_eq Htab). apply (free_assert cfg Htab [_] [xt]).
        constructor; [apply chain_good, Ct | constructor].
      + reflexivity.
    - intros r Hr. cbn [texpr]. split_lits. rewrite Px by reflexivity. repeat lx1. rewrite g_dot_paren. repeat lx1.
      rewrite Pt0 by reflexivity. repeat lx1. lx_done.
    - intros r. rewrite <- app_assoc. apply Nx.
  Qed.

  (* ---- statements *)
  Lemma qs_expr e : Qe e -> Qs (SExpr e).
  Proof. intros IH Ho l' Hd. destruct (IH Ho l' Hd) as (x & C & P & _). exists x. split; assumption. Qed.

  Lemma qs_assign l ls o r rs : Qe l -> Forall Qe ls -> Qe r -> Forall Qe rs -> Qs (SAssign l ls o r rs).
  Proof.
    intros IHl IHls IHr IHrs. start Ho Hd.
    match goal with H1 : Forall2 dec (bexpr l) ?le, H2 : Forall2 dec (map _ ls) ?l2 |- _ =>
      destruct (dec_exprs1 l ls IHl IHls ltac:(assumption) ltac:(assumption) le l2 H1 H2) as (x1 & xs1 & HF1 & HP1); clear H1 H2 end.
    match goal with H1 : Forall2 dec (bexpr r) ?le, H2 : Forall2 dec (map _ rs) ?l2 |- _ =>
      destruct (dec_exprs1 r rs IHr IHrs ltac:(assumption) ltac:(assumption) le l2 H1 H2) as (x2 & xs2 & HF2 & HP2); clear H1 H2 end.
    exists (join comma (x1 :: xs1) ++ sp ++ asgop_text o ++ sp ++ join comma (x2 :: xs2)). split.
    - eapply chain_eq;
        [apply (chain_free cfg _ [join comma (x1 :: xs1); asgop_text o; join comma (x2 :: xs2)]); [|discriminate]|reflexivity].
      rewrite <- !(gList_eq Htab).
      constructor; [apply (free_list cfg Htab _ _ _ _ HF1)|].
      constructor; [apply free_tktext, asgop_not_default|].
      constructor; [apply (free_list cfg Htab _ _ _ _ HF2) | constructor].
    - intros r0 Hr. cbn [tstmt]. rewrite <- !app_assoc. rewrite HP1 by reflexivity.
      destruct o; repeat lx1; rewrite HP2 by exact Hr; lx_done.
  Qed.

  Lemma qs_incdec x inc : Qe x -> Qs (SIncDec x inc).
  Proof.
    intros IHx. destruct inc; start Ho Hd; usee IHx x as (sx & Cx & Px & Nx).
    - exists (sx ++ S " ++"). split.
      + eapply chain_eq; [eapply (chain_app cfg _ _ _ [S "++"] Cx); [|discriminate]|reflexivity].
        constructor; [apply free_tktext; reflexivity | constructor].
      + intros r Hr. cbn [tstmt]. split_lits. rewrite Px by reflexivity. repeat lx1. lx_done.
    - exists (sx ++ S " --"). split.
      + eapply chain_eq; [eapply (chain_app cfg _ _ _ [S "--"] Cx); [|discriminate]|reflexivity].
        constructor; [apply free_tktext; reflexivity | constructor].
      + intros r Hr. cbn [tstmt]. split_lits. rewrite Px by reflexivity. repeat lx1. lx_done.
  Qed.

  Lemma qs_return es : Forall Qe es -> Qs (SReturn es).
  Proof.
    intros IHe. start Ho Hd.
    match goal with H : Forall2 dec (map _ es) ?l |- _ =>
      destruct (dec_exprs_join es IHe ltac:(assumption) l H) as (xs & HF & HP); clear H end.
    exists (S "return " ++ join comma xs). split.
    - apply leaf_chain. rewrite <- (gReturn_eq Htab).
      eapply free_eq; [apply (free_return cfg Htab _ xs HF) | rewrite app_nil_r; reflexivity].
    - intros r Hr. cbn [tstmt]. split_lits. repeat lx1. rewrite HP by exact Hr. lx_done.
  Qed.

  Lemma if_head_dec init cond : OptP Qs init -> Qe cond -> opt_ok stmt_ok init = true -> expr_ok cond = true ->
    forall la lc, Forall2 dec (opt_items (fun s => [CStmt (bstmt s)]) init) la -> Forall2 dec (bexpr cond) lc ->
    exists hx, cfree (gIf 0 (la ++ [CStmt lc])) hx /\
               piece hx (tkw (S "if") :: topt (fun s => tstmt s ++ [top (S ";")]) init ++ texpr cond).
  Proof.
    intros IHi IHc Hoi Hoc la lc Ha Hc. destruct (IHc Hoc lc Hc) as (sc & Cc & Pc & _).
    destruct init as [i|]; cbn [OptP opt_ok opt_items topt] in *; dinv.
    - uses IHi i as (si & Ci & Pi).
      exists (S "if " ++ si ++ S ";" ++ sc). split.
      + eapply free_eq; [apply (free_if cfg Htab [_; _] [si; sc])|cbn [join]; rewrite app_nil_r, <- ?app_assoc; reflexivity].
        constructor; [apply chain_good, Ci|]. constructor; [apply chain_good, Cc | constructor].
      + intros r Hr. split_lits. repeat lx1. rewrite Pi by reflexivity. repeat lx1. rewrite Pc by exact Hr. lx_done.
    - exists (S "if " ++ sc). split.
      + eapply free_eq; [apply (free_if cfg Htab [_] [sc])|cbn [join]; rewrite app_nil_r; reflexivity].
        constructor; [apply chain_good, Cc | constructor].
      + intros r Hr. split_lits. repeat lx1. rewrite Pc by exact Hr. lx_done.
  Qed.

  Lemma qs_if init cond body els : OptP Qs init -> Qe cond -> Forall Qs body -> OptP Qs els -> Qs (SIf init cond body els).
  Proof.
    intros IHi IHc IHb IHe Ho l' Hd. cbn [stmt_ok] in Ho. ok_split Ho. cbn [bstmt] in Hd.
    destruct els as [e|]; cbn [opt_items app OptP opt_ok] in *; tbl Hd; dinv.
    - uses IHe e as (se & Ce & Pe).
      match goal with Ha : Forall2 dec (opt_items _ init) ?la, Hc : Forall2 dec (bexpr cond) ?lc |- _ =>
        destruct (if_head_dec init cond IHi IHc ltac:(assumption) ltac:(assumption) la lc Ha Hc) as (hx & Fh & Ph) end.
      rewrite <- (gIf_eq Htab), <- (gBlock_eq Htab).
      match goal with H : decm _ ?lm, Fh' : CanonProofs.free cfg (gIf 0 ?g) hx, Ce' : chain cfg ?lse se |- _ =>
        destruct (body_tail [gIf 0 g] [hx] body lm [CTok (TkText (S "else")); CStmt lse] [S "else"; se]) as (bx & Cb & Pb);
          [|exact IHb|assumption|exact H| |ctx_false|] end.
      + constructor; [exact Fh | constructor].
      + constructor; [apply free_tktext; reflexivity|]. constructor; [apply chain_operand, Ce | constructor].
      + exists (hx ++ sp ++ bx ++ S " else " ++ se). split; [eapply chain_eq; [exact Cb | reflexivity]|].
        intros r Hr. cbn [tstmt topt]. split_lits. rewrite Ph by reflexivity. repeat lx1. rewrite Pb. repeat lx1.
        rewrite Pe by exact Hr. lx_done.
    - match goal with Ha : Forall2 dec (opt_items _ init) ?la, Hc : Forall2 dec (bexpr cond) ?lc |- _ =>
        destruct (if_head_dec init cond IHi IHc ltac:(assumption) ltac:(assumption) la lc Ha Hc) as (hx & Fh & Ph) end.
      rewrite <- (gIf_eq Htab), <- (gBlock_eq Htab).
      match goal with H : decm _ ?lm, Fh' : CanonProofs.free cfg (gIf 0 ?g) hx |- _ =>
        destruct (body_tail [gIf 0 g] [hx] body lm [] []) as (bx & Cb & Pb);
          [|exact IHb|assumption|exact H|constructor|ctx_false|] end.
      + constructor; [exact Fh | constructor].
      + exists (hx ++ sp ++ bx). split; [eapply chain_eq; [exact Cb | reflexivity]|].
        intros r Hr. cbn [tstmt topt]. rewrite <- !app_assoc. rewrite Ph by reflexivity. repeat lx1. rewrite Pb.
        rewrite app_nil_r. lx_done.
  Qed.

  (* a loop: For(head..).Block(body..) *)
  Lemma for_tail hd hx body lm : cfree (gFor 0 hd) hx -> Forall Qs body -> forallb stmt_ok body = true ->
    decm (map (fun s => CStmt (bstmt s)) body) lm ->
    exists bx, chain cfg [gFor 0 hd; gBlock 1 lm] (hx ++ sp ++ bx) /\ lfree bx (tbraces (map tstmt body)).
  Proof.
    intros Fh IHb Ho Hd.
    destruct (body_tail [gFor 0 hd] [hx] body lm [] []) as (bx & Cb & Pb);
      [constructor; [exact Fh | constructor]|exact IHb|exact Ho|exact Hd|constructor|ctx_false|].
    exists bx. split; [eapply chain_eq; [exact Cb | reflexivity] | exact Pb].
  Qed.

  Ltac fold_for := rewrite <- (gFor_eq Htab), <- (gBlock_eq Htab).

  Lemma qs_for init cond post body :
    OptP Qs init -> OptP Qe cond -> OptP Qs post -> Forall Qs body -> Qs (SFor init cond post body).
  Proof.
    intros IHi IHc IHp IHb. start Ho Hd.
    match goal with H : dec (opt_item bstmt init) ?c |- _ =>
      destruct (dec_opt_stmt init IHi ltac:(assumption) c H) as (si & Gi & Pi); clear H end.
    match goal with H : dec (opt_item bexpr cond) ?c |- _ =>
      destruct (dec_opt_expr cond IHc ltac:(assumption) c H) as (sc & Gc & Pc & _); clear H end.
    match goal with H : dec (opt_item bstmt post) ?c |- _ =>
      destruct (dec_opt_stmt post IHp ltac:(assumption) c H) as (sq & Gq & Pq); clear H end.
    fold_for.
    match goal with H : decm _ ?lm |- chain cfg [gFor 0 ?hd; _] _ /\ _ => idtac | H : decm _ ?lm |- exists x, chain cfg [gFor 0 ?hd; _] _ /\ _ =>
      destruct (for_tail hd (S "for " ++ si ++ S ";" ++ sc ++ S ";" ++ sq) body lm) as (bx & Cb & Pb);
        [|exact IHb|assumption|exact H|] end.
    - eapply free_eq; [apply (free_for cfg Htab [_; _; _] [si; sc; sq])|cbn [join]; rewrite app_nil_r, <- ?app_assoc; reflexivity].
      constructor; [exact Gi|]. constructor; [exact Gc|]. constructor; [exact Gq | constructor].
    - eexists. split; [exact Cb|]. intros r Hr. cbn [tstmt]. split_lits. repeat lx1.
      rewrite Pi by reflexivity. repeat lx1. rewrite Pc by reflexivity. repeat lx1. rewrite Pq by reflexivity.
      repeat lx1. rewrite Pb. lx_done.
  Qed.

  Lemma qs_while cond body : Qe cond -> Forall Qs body -> Qs (SWhile cond body).
  Proof.
    intros IHc IHb. start Ho Hd. usee IHc cond as (sc & Cc & Pc & _). fold_for.
    match goal with H : decm _ ?lm |- exists x, chain cfg [gFor 0 ?hd; _] _ /\ _ =>
      destruct (for_tail hd (S "for " ++ sc) body lm) as (bx & Cb & Pb); [|exact IHb|assumption|exact H|] end.
    - eapply free_eq; [apply (free_for cfg Htab [_] [sc])|cbn [join]; rewrite app_nil_r; reflexivity].
      constructor; [apply chain_good, Cc | constructor].
    - eexists. split; [exact Cb|]. intros r Hr. cbn [tstmt]. split_lits. repeat lx1.
      rewrite Pc by reflexivity. repeat lx1. rewrite Pb. lx_done.
  Qed.

  Lemma qs_loop body : Forall Qs body -> Qs (SLoop body).
  Proof.
    intros IHb. start Ho Hd. fold_for.
    match goal with H : decm _ ?lm |- exists x, chain cfg [gFor 0 ?hd; _] _ /\ _ =>
      destruct (for_tail hd (S "for ") body lm) as (bx & Cb & Pb); [|exact IHb|assumption|exact H|] end.
    - eapply free_eq; [apply (free_for cfg Htab [] [])|reflexivity]. constructor.
    - eexists. split; [exact Cb|]. intros r Hr. cbn [tstmt]. split_lits. repeat lx1. rewrite Pb. lx_done.
  Qed.

  Lemma qs_range k v def x body : Qe k -> OptP Qe v -> Qe x -> Forall Qs body -> Qs (SRange k v def x body).
  Proof.
    intros IHk IHv IHx IHb Ho l' Hd. cbn [stmt_ok] in Ho. ok_split Ho. cbn [bstmt] in Hd.
    destruct v as [v|]; cbn [opt_items OptP opt_ok] in *; tbl Hd; dinv;
      usee IHk k as (sk & Ck & Pk & _); usee IHx x as (sx & Cx & Px & _); try usee IHv v as (sv & Cv & Pv & _).
    - fold_for.
      match goal with H : decm _ ?lm |- exists x, chain cfg [gFor 0 ?hd; _] _ /\ _ =>
        destruct (for_tail hd (S "for " ++ (sk ++ comma ++ sv) ++ sp ++ (if def then S ":=" else S "=") ++ sp ++ S "range" ++ sp ++ sx) body lm)
          as (bx & Cb & Pb); [|exact IHb|assumption|exact H|] end.
      + eapply free_eq; [eapply (free_for cfg Htab [_] [_])|cbn [join]; rewrite app_nil_r; reflexivity].
        constructor; [|constructor]. apply chain_good.
        eapply chain_eq; [eapply (chain_free cfg _ [sk ++ comma ++ sv; (if def then S ":=" else S "="); S "range"; sx]); [|discriminate]|reflexivity].
        constructor; [|constructor; [destruct def; apply free_tktext; reflexivity|
                       constructor; [apply free_tktext; reflexivity|constructor; [apply chain_operand, Cx|constructor]]]].
        rewrite <- (gList_eq Htab).
        eapply free_eq; [apply (free_list cfg Htab _ [_] sk [sv])|reflexivity].
        constructor; [apply chain_good, Ck|]. constructor; [apply chain_good, Cv | constructor].
      + eexists. split; [exact Cb|]. intros r Hr. cbn [tstmt topt]. split_lits. repeat lx1.
        rewrite Pk by reflexivity. repeat lx1. rewrite Pv by reflexivity.
        destruct def; repeat lx1; rewrite Px by reflexivity; repeat lx1; rewrite Pb; lx_done.
    - fold_for.
      match goal with H : decm _ ?lm |- exists x, chain cfg [gFor 0 ?hd; _] _ /\ _ =>
        destruct (for_tail hd (S "for " ++ sk ++ sp ++ (if def then S ":=" else S "=") ++ sp ++ S "range" ++ sp ++ sx) body lm)
          as (bx & Cb & Pb); [|exact IHb|assumption|exact H|] end.
      + eapply free_eq; [eapply (free_for cfg Htab [_] [_])|cbn [join]; rewrite app_nil_r; reflexivity].
        constructor; [|constructor]. apply chain_good.
        eapply chain_eq; [eapply (chain_free cfg _ [sk; (if def then S ":=" else S "="); S "range"; sx]); [|discriminate]|reflexivity].
        constructor; [|constructor; [destruct def; apply free_tktext; reflexivity|
                       constructor; [apply free_tktext; reflexivity|constructor; [apply chain_operand, Cx|constructor]]]].
        rewrite <- (gList_eq Htab).
        eapply free_eq; [apply (free_list cfg Htab _ [] sk [])|reflexivity].
        constructor; [apply chain_good, Ck | constructor].
      + eexists. split; [exact Cb|]. intros r Hr. cbn [tstmt topt]. split_lits. repeat lx1.
        rewrite Pk by reflexivity.
        destruct def; repeat lx1; rewrite Px by reflexivity; repeat lx1; rewrite Pb; lx_done.
  Qed.

  (* ---- switch: the items of its Block are the clauses *)
  Lemma clauses_R cls : Forall Qc cls -> forallb clause_ok cls = true ->
    Forall2 (R cfg) (map clause_items cls) (map tclause cls).
  Proof.
    induction 1 as [|c cls Hc _ IH]; intros Ho; cbn [map]; [constructor|].
    cbn [forallb] in Ho. apply andb_true_iff in Ho. destruct Ho as [Ho1 Ho2].
    constructor; [exact (Hc Ho1) | exact (IH Ho2)].
  Qed.

  Lemma map_bclause cls : map bclause cls = map CStmt (map clause_items cls).
  Proof. rewrite map_map. apply map_ext. intros c. apply bclause_items. Qed.

  Lemma switch_tail hd hxs cls lm : Forall2 (good cfg) hd hxs -> Forall Qc cls -> forallb clause_ok cls = true ->
    decm (map bclause cls) lm ->
    exists bx, chain cfg [gSwitch 0 hd; gBlock 1 lm] ((S "switch " ++ join (S ";") hxs) ++ sp ++ bx) /\
               lfree bx (tbraces (map tclause cls)).
  Proof.
    intros Hh IHc Ho Hd. rewrite map_bclause in Hd.
    destruct (block_tail [gSwitch 0 hd] [S "switch " ++ join (S ";") hxs] (map clause_items cls) (map tclause cls) lm [] [])
      as (bx & Cb & Pb); [|exact (clauses_R cls IHc Ho)|exact Hd|constructor|ctx_false|].
    - constructor; [|constructor]. eapply free_eq; [apply (free_switch cfg Htab hd hxs Hh) | rewrite app_nil_r; reflexivity].
    - exists bx. split; [eapply chain_eq; [exact Cb | reflexivity] | exact Pb].
  Qed.

  Lemma qs_switch init tag cls : OptP Qs init -> OptP Qe tag -> Forall Qc cls -> Qs (SSwitch init tag cls).
  Proof.
    intros IHi IHt IHc Ho l' Hd. cbn [stmt_ok] in Ho. ok_split Ho. cbn [bstmt] in Hd.
    destruct init as [i|], tag as [t|]; cbn [OptP opt_ok] in *; tbl Hd; dinv;
      try uses IHi i as (si & Ci & Pi); try usee IHt t as (st & Ct & Pt & _);
      rewrite <- (gSwitch_eq Htab), <- (gBlock_eq Htab).
    - match goal with H : decm _ ?lm |- exists x, chain cfg [gSwitch 0 ?hd; _] _ /\ _ =>
        destruct (switch_tail hd [si; st] cls lm) as (bx & Cb & Pb); [|exact IHc|assumption|exact H|] end.
      + constructor; [apply chain_good, Ci|]. constructor; [apply chain_good, Ct | constructor].
      + eexists. split; [exact Cb|]. intros r Hr. cbn [tstmt topt join]. split_lits. repeat lx1.
        rewrite Pi by reflexivity. repeat lx1. rewrite Pt by reflexivity. repeat lx1. rewrite Pb. lx_done.
    - match goal with H : decm _ ?lm |- exists x, chain cfg [gSwitch 0 ?hd; _] _ /\ _ =>
        destruct (switch_tail hd [si; []] cls lm) as (bx & Cb & Pb); [|exact IHc|assumption|exact H|] end.
      + constructor; [apply chain_good, Ci|]. constructor; [apply good_empty | constructor].
      + eexists. split; [exact Cb|]. intros r Hr. cbn [tstmt topt join]. split_lits. repeat lx1.
        rewrite Pi by reflexivity. cbn [app]. repeat lx1. rewrite Pb. lx_done.
    - match goal with H : decm _ ?lm |- exists x, chain cfg [gSwitch 0 ?hd; _] _ /\ _ =>
        destruct (switch_tail hd [st] cls lm) as (bx & Cb & Pb); [|exact IHc|assumption|exact H|] end.
      + constructor; [apply chain_good, Ct | constructor].
      + eexists. split; [exact Cb|]. intros r Hr. cbn [tstmt topt join]. split_lits. repeat lx1.
        rewrite Pt by reflexivity. repeat lx1. rewrite Pb. lx_done.
    - match goal with H : decm _ ?lm |- exists x, chain cfg [gSwitch 0 ?hd; _] _ /\ _ =>
        destruct (switch_tail hd [] cls lm) as (bx & Cb & Pb); [|exact IHc|assumption|exact H|] end.
      + constructor.
      + eexists. split; [exact Cb|]. intros r Hr. cbn [tstmt topt join]. split_lits. cbn [app]. repeat lx1.
        rewrite Pb. lx_done.
  Qed.

  Lemma qs_select cls : Forall Qc cls -> Qs (SSelect cls).
  Proof.
    intros IHc Ho l' Hd. cbn [stmt_ok] in Ho. cbn [bstmt] in Hd. tbl Hd. dinv. rewrite <- (gBlock_eq Htab).
    match goal with H : decm _ ?lm |- _ => rewrite map_bclause in H;
      destruct (block_tail [CTok (TkText (S "select"))] [S "select"] (map clause_items cls) (map tclause cls) lm [] [])
        as (bx & Cb & Pb);
        [|exact (clauses_R cls IHc Ho)|exact H|constructor|intros suf; rewrite (gBlock_eq Htab); reflexivity|] end.
    - constructor; [apply free_tktext; reflexivity | constructor].
    - exists (S "select" ++ sp ++ bx). split; [eapply chain_eq; [exact Cb | reflexivity]|].
      intros r Hr. cbn [tstmt]. rewrite <- !app_assoc. repeat lx1. rewrite Pb. lx_done.
  Qed.

  (* the guard of a type switch: [b :=] x .(type) *)
  Lemma guard_dec bind x : Qe x -> expr_ok x = true -> opt_ok ident_ok bind = true ->
    forall c', dec (CStmt (match bind with
                           | Some b => [MiniGo.id b; op (S ":="); CStmt (bexpr x ++ [gAssert 0 [CStmt [kw (S "Type")]]])]
                           | None => bexpr x ++ [gAssert 0 [CStmt [kw (S "Type")]]]
                           end)) c' ->
    exists gx, good cfg c' gx /\
      piece gx (topt (fun b => [tid b; top (S ":=")]) bind ++ texpr x ++ [top (S "."); top (S "("); tkw (S "type"); top (S ")")]).
  Proof.
    intros IHx Hox Hob c' Hd.
    assert (HG : forall lg, Forall2 dec (bexpr x ++ [gAssert 0 [CStmt [kw (S "Type")]]]) lg ->
              exists g, chain cfg lg g /\ piece g (texpr x ++ [top (S "."); top (S "("); tkw (S "type"); top (S ")")])).
    { intros lg Hlg. tbl Hlg. dinv. usee IHx x as (sx & Cx & Px & _).
      exists (sx ++ S " .(type)"). split.
      - eapply chain_eq; [eapply (chain_app cfg _ _ _ [_] Cx); [|discriminate]|].
        + constructor; [|constructor]. rewrite <- (gAssert_eq Htab). apply (free_assert cfg Htab [_] [S "type"]).
          constructor; [|constructor]. apply chain_good, leaf_chain, free_tktext. reflexivity.
        + reflexivity.
      - intros r Hr. split_lits. rewrite Px by reflexivity. repeat lx1. rewrite g_dot_paren. repeat lx1. lx_done. }
    destruct bind as [b|]; cbn [opt_ok topt] in *.
    - unfold MiniGo.id, op in Hd. apply dec_stmt_inv in Hd. destruct Hd as (l3 & -> & H3).
      inversion H3 as [|? c1 ? r1 Hc1 H4]; subst. inversion H4 as [|? c2 ? r2 Hc2 H5]; subst.
      inversion H5 as [|? c3 ? r3 Hc3 H6]; subst. inversion H6; subst.
      apply dec_tok_inv in Hc1. apply dec_tok_inv in Hc2. subst. apply dec_stmt_inv in Hc3. destruct Hc3 as (lg & -> & Hlg).
      destruct (HG lg Hlg) as (g & Cg & Pg).
      exists (b ++ S " := " ++ g). split.
      + apply chain_good. eapply chain_eq; [apply (chain_free cfg _ [b; S ":="; g]); [|discriminate]|reflexivity].
        constructor; [apply free_tkid|]. constructor; [apply free_tktext; reflexivity|].
        constructor; [apply chain_operand, Cg | constructor].
      + intros r Hr. split_lits. cbn [app]. repeat lx1. rewrite Pg by exact Hr. lx_done.
    - apply dec_stmt_inv in Hd. destruct Hd as (lg & -> & Hlg). destruct (HG lg Hlg) as (g & Cg & Pg).
      exists g. split; [apply chain_good, Cg | exact Pg].
  Qed.

  Lemma qs_typeswitch init bind x cls : OptP Qs init -> Qe x -> Forall Qc cls -> Qs (STypeSwitch init bind x cls).
  Proof.
    intros IHi IHx IHc Ho l' Hd. cbn [stmt_ok] in Ho. ok_split Ho. cbn [bstmt] in Hd.
    rewrite (gSwitch_eq Htab), (gBlock_eq Htab) in Hd.
    inversion Hd as [|? c1 ? r1 Hc1 H2]; subst. inversion H2 as [|? c2 ? r2 Hc2 H3]; subst. inversion H3; subst.
    apply dec_flat_inv in Hc1. destruct Hc1 as (lh & -> & Hlh). apply dec_multi_inv in Hc2. destruct Hc2 as (lm & -> & Hlm).
    apply Forall2_app_inv_l in Hlh. destruct Hlh as (li & lgd & Hli & Hlgd & ->).
    inversion Hlgd as [|? cg ? rg Hcg Hnil]; subst. inversion Hnil; subst.
    destruct (guard_dec bind x IHx ltac:(assumption) ltac:(assumption) cg Hcg) as (gx & Gg & Pg).
    rewrite <- (gSwitch_eq Htab), <- (gBlock_eq Htab).
    destruct init as [i|]; cbn [OptP opt_ok opt_items] in *.
    - inversion Hli as [|? ci ? ri Hci Hn2]; subst. inversion Hn2; subst.
      apply dec_stmt_inv in Hci. destruct Hci as (ls & -> & Hls).
      destruct (IHi ltac:(assumption) ls Hls) as (si & Ci & Pi).
      destruct (switch_tail [CStmt ls; cg] [si; gx] cls lm) as (bx & Cb & Pb); [|exact IHc|assumption|exact Hlm|].
      + constructor; [apply chain_good, Ci|]. constructor; [exact Gg | constructor].
      + eexists. split; [exact Cb|]. intros r Hr. cbn [tstmt topt join]. split_lits. repeat lx1.
        rewrite Pi by reflexivity. repeat lx1. rewrite Pg by reflexivity. repeat lx1. rewrite Pb. lx_done.
    - inversion Hli; subst.
      destruct (switch_tail [cg] [gx] cls lm) as (bx & Cb & Pb); [|exact IHc|assumption|exact Hlm|].
      + constructor; [exact Gg | constructor].
      + eexists. split; [exact Cb|]. intros r Hr. cbn [tstmt topt join]. split_lits. cbn [app]. repeat lx1.
        rewrite Pg by reflexivity. repeat lx1. rewrite Pb. lx_done.
  Qed.

  Lemma qs_block body : Forall Qs body -> Qs (SBlock body).
  Proof.
    intros IHb. start Ho Hd. rewrite <- (gBlock_eq Htab).
    match goal with H : decm _ ?lm |- _ =>
      destruct (body_tail [] [] body lm [] []) as (bx & Cb & Pb);
        [constructor|exact IHb|assumption|exact H|constructor|intros suf; rewrite (gBlock_eq Htab); reflexivity|] end.
    exists bx. split; [eapply chain_eq; [exact Cb | reflexivity]|].
    intros r Hr. cbn [tstmt]. rewrite Pb. lx_done.
  Qed.

  Lemma branch_dec m w l : kw m = CTok (TkText w) -> str_eqb w s_default = false -> word_ok w = true ->
    opt_ok ident_ok l = true ->
    forall l', Forall2 dec (kw m :: opt_items (fun x => [MiniGo.id x]) l) l' ->
    exists x, chain cfg l' x /\ piece x ((word_class w, w) :: topt (fun x => [tid x]) l).
  Proof.
    intros Hm Hw Hwo Ho l' Hd. rewrite Hm in Hd. destruct l as [x|]; cbn [opt_items opt_ok topt] in *; tbl Hd; dinv.
    - exists (w ++ sp ++ x). split.
      + eapply chain_eq; [apply (chain_free cfg _ [w; x]); [|discriminate]|reflexivity].
        constructor; [apply free_tktext, Hw|]. constructor; [apply free_tkid | constructor].
      + intros r Hr. rewrite <- !app_assoc. rewrite g_word by lx_side. repeat lx1. lx_done.
    - exists w. split; [apply leaf_chain, free_tktext, Hw|].
      intros r Hr. rewrite g_word by lx_side. lx_done.
  Qed.

  Lemma qs_break l : Qs (SBreak l).
  Proof. intros Ho l' Hd. exact (branch_dec _ (S "break") l (kw_Break Htab) eq_refl eq_refl Ho l' Hd). Qed.
  Lemma qs_continue l : Qs (SContinue l).
  Proof. intros Ho l' Hd. exact (branch_dec _ (S "continue") l (kw_Continue Htab) eq_refl eq_refl Ho l' Hd). Qed.

  Lemma kw_call_dec m w f args ddd : kw m = CTok (TkText w) -> str_eqb w s_default = false -> word_ok w = true ->
    Qe f -> Forall Qe args -> expr_ok f = true -> forallb expr_ok args = true ->
    forall l', Forall2 dec [kw m; CStmt (bexpr f ++ [gCall 0 (call_args ddd (map bexpr args))])] l' ->
    exists x, chain cfg l' x /\
      piece x ((word_class w, w) :: texpr f ++ top (S "(") :: targs ddd (map texpr args) ++ [top (S ")")]).
  Proof.
    intros Hm Hw Hwo IHf IHa Hof Hoa l' Hd. rewrite Hm in Hd.
    inversion Hd as [|? c1 ? r1 Hc1 Hd1]; subst. inversion Hd1 as [|? c2 ? r2 Hc2 Hd2]; subst. inversion Hd2; subst.
    apply dec_tok_inv in Hc1. subst c1. apply dec_stmt_inv in Hc2. destruct Hc2 as (lc & -> & Hlc).
    destruct (call_tail f args ddd IHf IHa Hof Hoa lc Hlc) as (sc & Cc & Pc & _).
    exists (w ++ sp ++ sc). split.
    - eapply chain_eq; [eapply (chain_free cfg _ [w; sc]); [|discriminate]|reflexivity].
      constructor; [apply free_tktext, Hw|]. constructor; [apply chain_operand, Cc | constructor].
    - intros r Hr. rewrite <- !app_assoc. rewrite g_word by lx_side. repeat lx1. rewrite Pc by exact Hr. lx_done.
  Qed.

  Lemma qs_go f args ddd : Qe f -> Forall Qe args -> Qs (SGo f args ddd).
  Proof.
    intros IHf IHa Ho l' Hd. cbn [stmt_ok] in Ho. ok_split Ho. cbn [bstmt] in Hd.
    exact (kw_call_dec _ (S "go") f args ddd (kw_Go Htab) eq_refl eq_refl IHf IHa Ho Hok l' Hd).
  Qed.
  Lemma qs_defer f args ddd : Qe f -> Forall Qe args -> Qs (SDefer f args ddd).
  Proof.
    intros IHf IHa Ho l' Hd. cbn [stmt_ok] in Ho. ok_split Ho. cbn [bstmt] in Hd.
    exact (kw_call_dec _ (S "defer") f args ddd (kw_Defer Htab) eq_refl eq_refl IHf IHa Ho Hok l' Hd).
  Qed.

  (* the optional type and the optional initialiser of a var statement / a value spec *)
  Lemma tyval_dec t e : OptP Qe e -> opt_ok ty_ok t = true -> opt_ok expr_ok e = true ->
    forall l', Forall2 dec (opt_items (fun t => [CStmt (bty t)]) t ++ opt_items (fun e => [op (S "="); CStmt (bexpr e)]) e) l' ->
    exists xs, Forall2 cfree l' xs /\
      forall hx htk r, piece hx htk -> bndb r = true -> hx <> [] ->
        golex (join sp (hx :: xs) ++ r) = pre (htk ++ topt tty t ++ topt (fun e => top (S "=") :: texpr e) e) (golex r).
  Proof.
    intros IHe Hot Hoe l' Hd.
    destruct t as [t|], e as [e|]; cbn [opt_items app OptP opt_ok topt] in *; tbl Hd; dinv;
      try uset (all_Qt t) t as (xt & Ct & Pt0 & _);
      try usee IHe e as (se & Ce & Pe & _).
    - exists [xt; S "="; se]. split.
      + constructor; [apply chain_operand, Ct|]. constructor; [apply free_tktext; reflexivity|].
        constructor; [apply chain_operand, Ce | constructor].
      + intros hx htk r Hh Hr Hne. destruct hx as [|h0 hx]; [congruence|]. cbn [join]. rewrite <- !app_assoc.
        rewrite Hh by reflexivity. repeat lx1. rewrite Pt0 by reflexivity. repeat lx1.
        rewrite Pe by exact Hr. lx_done.
    - exists [xt]. split.
      + constructor; [apply chain_operand, Ct | constructor].
      + intros hx htk r Hh Hr Hne. destruct hx as [|h0 hx]; [congruence|]. cbn [join]. rewrite <- !app_assoc.
        rewrite Hh by reflexivity. repeat lx1. rewrite Pt0 by exact Hr. lx_done.
    - exists [S "="; se]. split.
      + constructor; [apply free_tktext; reflexivity|]. constructor; [apply chain_operand, Ce | constructor].
      + intros hx htk r Hh Hr Hne. destruct hx as [|h0 hx]; [congruence|]. cbn [join]. rewrite <- !app_assoc.
        rewrite Hh by reflexivity. repeat lx1. rewrite Pe by exact Hr. lx_done.
    - exists []. split; [constructor|].
      intros hx htk r Hh Hr Hne. cbn [join]. rewrite Hh by exact Hr. rewrite app_nil_r. reflexivity.
  Qed.

  Lemma qs_var x t e : OptP Qe e -> Qs (SVar x t e).
  Proof.
    intros IHe Ho l' Hd. cbn [stmt_ok] in Ho. ok_split Ho. cbn [bstmt] in Hd.
    apply Forall2_app_inv_l in Hd. destruct Hd as (la & lb & H1 & H2 & ->).
    apply dec_flat_same in H1; [subst la | rewrite (kw_Var Htab); reflexivity].
    destruct (tyval_dec t e IHe ltac:(assumption) ltac:(assumption) lb H2) as (xs & HF & HL).
    exists (join sp ([S "var"; x] ++ xs)). split.
    - apply (chain_free cfg); [|discriminate]. apply Forall2_app; [|exact HF].
      constructor; [apply (free_kw_text cfg _ _ (kw_Var Htab)); reflexivity|]. constructor; [apply free_id | constructor].
    - intros r Hr. cbn [tstmt app].
      assert (E : join sp (S "var" :: x :: xs) = S "var" ++ sp ++ join sp (x :: xs)) by reflexivity.
      rewrite E, <- !app_assoc. repeat lx1.
      rewrite (HL x [tid x] r) by first [assumption | intros r0 Hr0; apply g_id; assumption | destruct x; [discriminate|discriminate]].
      lx_done.
  Qed.

  Lemma qs_labeled l s0 : Qs s0 -> Qs (SLabeled l s0).
  Proof.
    intros IHs. start Ho Hd. uses IHs s0 as (ss & Cs & Ps0).
    exists (l ++ S " : " ++ ss). split.
    - eapply chain_eq; [apply (chain_free cfg _ [l; S ":"; ss]); [|discriminate]|reflexivity].
      constructor; [apply free_tkid|]. constructor; [apply free_tktext; reflexivity|].
      constructor; [apply chain_operand, Cs | constructor].
    - intros r Hr. cbn [tstmt]. split_lits. repeat lx1. rewrite Ps0 by exact Hr. lx_done.
  Qed.

  Lemma qs_goto l : Qs (SGoto l).
  Proof.
    start Ho Hd. exists (S "goto " ++ l). split.
    - eapply chain_eq; [apply (chain_free cfg _ [S "goto"; l]); [|discriminate]|reflexivity].
      constructor; [apply free_tktext; reflexivity|]. constructor; [apply free_tkid | constructor].
    - intros r Hr. cbn [tstmt]. split_lits. repeat lx1. lx_done.
  Qed.

  Lemma qs_fallthrough : Qs SFallthrough.
  Proof.
    start Ho Hd. exists (S "fallthrough"). split; [apply leaf_chain, free_tktext; reflexivity|].
    intros r Hr. cbn [tstmt]. repeat lx1. lx_done.
  Qed.

  Lemma qs_send c v : Qe c -> Qe v -> Qs (SSend c v).
  Proof.
    intros IHc IHv. start Ho Hd. usee IHc c as (sc & Cc & Pc & _). usee IHv v as (sv & Cv & Pv & _).
    exists (sc ++ S " <- " ++ sv). split.
    - eapply chain_eq; [apply (chain_app cfg _ _ _ [S "<-"; sv] Cc); [|discriminate]|reflexivity].
      constructor; [apply free_tktext; reflexivity|]. constructor; [apply chain_operand, Cv | constructor].
    - intros r Hr. cbn [tstmt]. split_lits. rewrite Pc by reflexivity. repeat lx1. rewrite Pv by exact Hr. lx_done.
  Qed.

  (* ---- clauses: the Block after Case / Default has no braces, its text ends the clause *)
  Lemma chain_case_block h hx items bxs : cfree h hx -> Forall2 (good cfg) items bxs ->
    (forall suf, case_ctx (h :: gBlock 1 items :: suf) (gBlock 1 items) = true) ->
    chain cfg [h; gBlock 1 items] (hx ++ sp ++ lines bxs).
  Proof.
    intros Hh Hit Hctx suf. exists [hx; lines bxs]. split; [discriminate|]. split; [|reflexivity].
    constructor; [apply free_item, Hh|]. constructor; [|constructor].
    pose proof (item_block cfg Htab ([h; gBlock 1 items] ++ suf) items bxs Hit) as H.
    cbn [app] in H. rewrite Hctx in H. exact H.
  Qed.

  Lemma clause_tail h hx htk body lm :
    cfree h hx -> (forall r, golex (hx ++ sp ++ r) = pre htk (golex r)) ->
    (forall suf, case_ctx (h :: gBlock 1 lm :: suf) (gBlock 1 lm) = true) ->
    open_end false (CStmt [h; gBlock 1 lm]) = last_sat (open_end false) lm ->
    Forall Qs body -> forallb stmt_ok body = true -> decm (map (fun s => CStmt (bstmt s)) body) lm ->
    exists x, chain cfg [h; gBlock 1 lm] x /\ pieceN x (htk ++ concat (map tstmt body)) /\
              (open_end false (CStmt [h; gBlock 1 lm]) = false -> piece x (htk ++ concat (map tstmt body))).
  Proof.
    intros Fh Ph Hctx Hop IHb Ho Hd. rewrite <- map_map in Hd.
    destruct (decm_lines cfg _ _ Hd (map bstmt body) (map tstmt body) eq_refl (body_R body IHb Ho))
      as (bxs & HF & HN & HP & _).
    exists (hx ++ sp ++ lines bxs). split; [apply chain_case_block; assumption|]. split.
    - intros r Hr. rewrite <- !app_assoc. rewrite Ph. rewrite HN by exact Hr. rewrite pre_pre. reflexivity.
    - intros Hc r Hr. rewrite Hop in Hc. rewrite <- !app_assoc. rewrite Ph. rewrite (HP Hc) by exact Hr.
      rewrite pre_pre. reflexivity.
  Qed.

  Lemma qc_case e es body : Qe e -> Forall Qe es -> Forall Qs body -> Qc (CCase e es body).
  Proof.
    intros IHe IHes IHb Ho its' Hd. cbn [clause_ok] in Ho. ok_split Ho. cbn [clause_items] in Hd. tbl Hd. dinv.
    match goal with H1 : Forall2 dec (bexpr e) ?le, H2 : Forall2 dec (map _ es) ?l2 |- _ =>
      destruct (dec_exprs1 e es IHe IHes ltac:(assumption) ltac:(assumption) le l2 H1 H2) as (x1 & xs1 & HF1 & HP1); clear H1 H2 end.
    rewrite <- (gCase_eq Htab), <- (gBlock_eq Htab).
    match goal with H : decm _ ?lm |- exists x, chain cfg [?h; _] _ /\ _ =>
      destruct (clause_tail h (S "case " ++ join comma (x1 :: xs1) ++ S ":")
                  (tkw (S "case") :: tcommas (map texpr (e :: es)) ++ [top (S ":")]) body lm) as (x & Cx & Nx & Px);
        [| | | |exact IHb|assumption|exact H|] end.
    - apply (free_case cfg Htab _ _ HF1).
    - intros r. split_lits. repeat lx1. rewrite HP1 by reflexivity. rewrite g_colon by reflexivity. repeat lx1. lx_done.
    - intros suf. rewrite (gCase_eq Htab), (gBlock_eq Htab). reflexivity.
    - rewrite (gCase_eq Htab), (gBlock_eq Htab). reflexivity.
    - exists x. cbn [tclause].
      replace (tkw (S "case") :: tcommas (map texpr (e :: es)) ++ top (S ":") :: concat (map tstmt body))
        with ((tkw (S "case") :: tcommas (map texpr (e :: es)) ++ [top (S ":")]) ++ concat (map tstmt body))
        by (cbn [app]; rewrite <- app_assoc; reflexivity).
      split; [exact Cx|]. split; [exact Nx | exact Px].
  Qed.

  Lemma qc_default body : Forall Qs body -> Qc (CDefault body).
  Proof.
    intros IHb Ho its' Hd. cbn [clause_ok] in Ho. cbn [clause_items] in Hd. tbl Hd. dinv.
    rewrite <- (gBlock_eq Htab).
    match goal with H : decm _ ?lm |- exists x, chain cfg [?h; _] _ /\ _ =>
      destruct (clause_tail h (S "default:") [tkw (S "default"); top (S ":")] body lm) as (x & Cx & Nx & Px);
        [| | | |exact IHb|assumption|exact H|] end.
    - split; intros; reflexivity.
    - intros r. change (S "default:") with (S "default" ++ S ":"). rewrite <- !app_assoc.
      rewrite lex_word' by reflexivity. rewrite g_colon by reflexivity. repeat lx1. lx_done.
    - intros suf. rewrite (gBlock_eq Htab). reflexivity.
    - rewrite (gBlock_eq Htab). reflexivity.
    - exists x. split; [exact Cx|]. split; [exact Nx | exact Px].
  Qed.

  Lemma qc_comm s0 body : Qs s0 -> Forall Qs body -> Qc (CComm s0 body).
  Proof.
    intros IHs IHb Ho its' Hd. cbn [clause_ok] in Ho. ok_split Ho. cbn [clause_items] in Hd.
    rewrite (gCase_eq Htab), (gBlock_eq Htab) in Hd.
    inversion Hd as [|? c1 ? r1 Hc1 H2]; subst. inversion H2 as [|? c2 ? r2 Hc2 H3]; subst. inversion H3; subst.
    apply dec_flat_inv in Hc1. destruct Hc1 as (lh & -> & Hlh). apply dec_multi_inv in Hc2. destruct Hc2 as (lm & -> & Hlm).
    inversion Hlh as [|? cs ? rs Hcs Hn]; subst. inversion Hn; subst.
    apply dec_stmt_inv in Hcs. destruct Hcs as (ls & -> & Hls).
    destruct (IHs Ho ls Hls) as (ss & Cs & Ps0).
    rewrite <- (gCase_eq Htab), <- (gBlock_eq Htab).
    destruct (clause_tail (gCase 0 [CStmt ls]) (S "case " ++ join comma [ss] ++ S ":")
                (tkw (S "case") :: tstmt s0 ++ [top (S ":")]) body lm) as (x & Cx & Nx & Px);
      [| | | |exact IHb|assumption|exact Hlm|].
    - apply (free_case cfg Htab [_] [ss]). constructor; [apply chain_good, Cs | constructor].
    - intros r. cbn [join]. split_lits. repeat lx1. rewrite Ps0 by reflexivity. rewrite g_colon by reflexivity.
      repeat lx1. lx_done.
    - intros suf. rewrite (gCase_eq Htab), (gBlock_eq Htab). reflexivity.
    - rewrite (gCase_eq Htab), (gBlock_eq Htab). reflexivity.
    - exists x. cbn [tclause].
      replace (tkw (S "case") :: tstmt s0 ++ top (S ":") :: concat (map tstmt body))
        with ((tkw (S "case") :: tstmt s0 ++ [top (S ":")]) ++ concat (map tstmt body))
        by (cbn [app]; rewrite <- app_assoc; reflexivity).
      split; [exact Cx|]. split; [exact Nx | exact Px].
  Qed.

  Lemma qc_type t ts body : Forall Qs body -> Qc (CType t ts body).
  Proof.
    intros IHb Ho its' Hd. cbn [clause_ok] in Ho. ok_split Ho. cbn [clause_items] in Hd.
    rewrite (gCase_eq Htab), (gBlock_eq Htab) in Hd.
    inversion Hd as [|? c1 ? r1 Hc1 H2]; subst. inversion H2 as [|? c2 ? r2 Hc2 H3]; subst. inversion H3; subst.
    apply dec_flat_inv in Hc1. destruct Hc1 as (lh & -> & Hlh). apply dec_multi_inv in Hc2. destruct Hc2 as (lm & -> & Hlm).
    assert (Hts : forallb ty_ok (t :: ts) = true) by (cbn [forallb]; apply andb_true_iff; split; assumption).
    destruct (dec_tys (t :: ts) (all_Qt_tys _) Hts lh Hlh) as (xs & HF & HP).
    rewrite <- (gCase_eq Htab), <- (gBlock_eq Htab).
    destruct (clause_tail (gCase 0 lh) (S "case " ++ join comma xs ++ S ":")
                (tkw (S "case") :: tcommas (map tty (t :: ts)) ++ [top (S ":")]) body lm) as (x & Cx & Nx & Px);
      [| | | |exact IHb|assumption|exact Hlm|].
    - apply (free_case cfg Htab _ _ HF).
    - intros r. split_lits. repeat lx1. rewrite (Forall2_piece_join xs _ HP) by reflexivity.
      rewrite g_colon by reflexivity. repeat lx1. lx_done.
    - intros suf. rewrite (gCase_eq Htab), (gBlock_eq Htab). reflexivity.
    - rewrite (gCase_eq Htab), (gBlock_eq Htab). reflexivity.
    - exists x. cbn [tclause].
      replace (tkw (S "case") :: tcommas (map tty (t :: ts)) ++ top (S ":") :: concat (map tstmt body))
        with ((tkw (S "case") :: tcommas (map tty (t :: ts)) ++ [top (S ":")]) ++ concat (map tstmt body))
        by (cbn [app]; rewrite <- app_assoc; reflexivity).
      split; [exact Cx|]. split; [exact Nx | exact Px].
  Qed.

  (* ---- all trees *)
  Theorem all_dec : (forall e, Qe e) /\ (forall s, Qs s) /\ (forall c, Qc c).
  Proof.
    exact (mini_ind Qe Qs Qc qe_id qe_int qe_str qe_bool qe_nil qe_un qe_bin qe_call qe_index qe_slice
             qe_slice3 qe_sel qe_paren qe_comp qe_keyed qe_func qe_assert qs_expr qs_assign qs_incdec qs_return qs_if qs_for
             qs_while qs_loop qs_range qs_switch qs_block qs_break qs_continue qs_go qs_defer qs_var
             qs_labeled qs_goto qs_fallthrough qs_send qs_select qs_typeswitch qc_case qc_default qc_comm qc_type).
  Qed.

  Lemma all_Qs body : Forall Qs body.
  Proof. apply Forall_forall. intros s _. exact (proj1 (proj2 all_dec) s). Qed.

  (* ---- declarations *)
  Definition Qd (d : decl) : Prop :=
    decl_ok d = true -> forall l', Forall2 dec (bdecl d) l' -> exists x, chain cfg l' x /\ piece x (tdecl d).

  Definition spec_items (sp0 : spec) : list code :=
    match sp0 with
    | (n, t, e) => MiniGo.id n :: opt_items (fun t => [CStmt (bty t)]) t ++ opt_items (fun e => [op (S "="); CStmt (bexpr e)]) e
    end.

  Lemma bspec_items sp0 : bspec sp0 = CStmt (spec_items sp0).
  Proof. destruct sp0 as [[n t] e]. reflexivity. Qed.

  Lemma spec_R sp0 : spec_ok sp0 = true -> R cfg (spec_items sp0) (tspec sp0).
  Proof.
    destruct sp0 as [[n t] e]. unfold spec_ok. intros Ho. ok_split Ho. apply R_of_piece. intros its' Hd.
    cbn [spec_items] in Hd. inversion Hd as [|? c1 ? lb Hc1 H2]; subst. unfold MiniGo.id in Hc1.
    apply dec_tok_inv in Hc1. subst c1.
    assert (IHe : OptP Qe e) by (destruct e as [e|]; [exact (proj1 all_dec e) | exact I]).
    destruct (tyval_dec t e IHe ltac:(assumption) ltac:(assumption) lb H2) as (xs & HF & HL).
    exists (join sp (n :: xs)). split.
    - apply (chain_free cfg (CTok (TkId n) :: lb) (n :: xs)); [|discriminate]. constructor; [apply free_tkid | exact HF].
    - intros r Hr. unfold tspec.
      rewrite (HL n [tid n] r) by first [assumption | intros r0 Hr0; apply g_id; assumption | destruct n; discriminate].
      reflexivity.
  Qed.

  Lemma specs_R specs : forallb spec_ok specs = true -> Forall2 (R cfg) (map spec_items specs) (map tspec specs).
  Proof.
    induction specs as [|s0 specs IH]; intros Ho; cbn [map]; [constructor|].
    cbn [forallb] in Ho. apply andb_true_iff in Ho. destruct Ho as [Ho1 Ho2].
    constructor; [apply spec_R, Ho1 | exact (IH Ho2)].
  Qed.

  Lemma defs_dec m w specs : kw m = CTok (TkText w) -> str_eqb w s_default = false -> word_ok w = true ->
    forallb spec_ok specs = true ->
    forall l', Forall2 dec [kw m; gDefs 0 (map bspec specs)] l' ->
    exists x, chain cfg l' x /\ piece x ((word_class w, w) :: tparens (map tspec specs)).
  Proof.
    intros Hm Hw Hwo Ho l' Hd. rewrite Hm in Hd. tbl Hd. dinv.
    match goal with H : decm (map bspec specs) ?lm |- _ =>
      assert (E : map bspec specs = map CStmt (map spec_items specs))
        by (rewrite map_map; apply map_ext; intros c; apply bspec_items);
      rewrite E in H;
      destruct (decm_lines cfg _ _ H (map spec_items specs) (map tspec specs) eq_refl (specs_R specs Ho))
        as (bxs & HF & HN & _ & HE) end.
    exists (w ++ sp ++ parens_lines bxs). split.
    - eapply chain_eq; [apply (chain_free cfg _ [w; parens_lines bxs]); [|discriminate]|reflexivity].
      constructor; [apply free_tktext, Hw|]. constructor; [|constructor].
      rewrite <- (gDefs_eq Htab). apply (free_defs cfg Htab _ bxs HF).
    - intros r Hr. rewrite <- !app_assoc. rewrite g_word by lx_side. repeat lx1.
      unfold parens_lines, tparens. rewrite <- !app_assoc. rewrite g_fop by in_tac.
      destruct bxs as [|b bxs].
      + assert (E2 : map tspec specs = []) by (destruct specs; [reflexivity | specialize (HE eq_refl); discriminate]).
        rewrite E2. cbn [lines map concat_str app concat]. rewrite g_fop by in_tac. lx_done.
      + rewrite HN by apply bndN_nl. rewrite g_nl. rewrite g_fop by in_tac. lx_done.
  Qed.

  Lemma all_Qd d : Qd d.
  Proof.
    destruct d as [name ps res body|recv name ps res body|specs|specs|name t]; intros Ho l' Hd; cbn [decl_ok] in Ho; cbn [bdecl] in Hd.
    - ok_split Ho. cbn [app] in Hd.
      inversion Hd as [|? c1 ? l1 Hc1 Hd1]; subst. inversion Hd1 as [|? c0 ? l0 Hc0 Hd0]; subst.
      inversion Hd0 as [|? c2 ? l2 Hc2 Hd2]; subst.
      apply Forall2_app_inv_l in Hd2. destruct Hd2 as (lr & lb & Hlr & Hbl & ->).
      rewrite (kw_Func Htab) in Hc1. apply dec_tok_inv in Hc1. subst c1. unfold MiniGo.id in Hc0. apply dec_tok_inv in Hc0. subst c0.
      destruct (func_tail [kw (S "Func"); MiniGo.id name] [CTok (TkText (S "func")); CTok (TkId name)] [S "func"; name]
                  ps res body (c2 :: lr) lb) as (px & rxs & bx & Cb & Pp & Pr & Pb);
        [| |ctx3 res|assumption|assumption|exact (all_Qs body)|assumption|constructor; assumption|exact Hbl|].
      + rewrite (kw_Func Htab). constructor; [constructor|]. constructor; [constructor | constructor].
      + constructor; [apply free_tktext; reflexivity|]. constructor; [apply free_tkid | constructor].
      + exists (S "func" ++ sp ++ name ++ sp ++ px ++ rtext rxs ++ sp ++ bx). split.
        * eapply chain_eq; [exact Cb|]. rewrite func_text by discriminate. cbn [join]. rewrite <- !app_assoc. reflexivity.
        * intros r Hr. cbn [tdecl]. rewrite <- !app_assoc. repeat lx1. rewrite Pp. rewrite Pr by reflexivity. repeat lx1.
          rewrite Pb. lx_done.
    - ok_split Ho. cbn [app] in Hd.
      inversion Hd as [|? c1 ? l1 Hc1 Hd1]; subst. inversion Hd1 as [|? cr ? l3 Hcr Hd3]; subst.
      inversion Hd3 as [|? c0 ? l0 Hc0 Hd0]; subst. inversion Hd0 as [|? c2 ? l2 Hc2 Hd2]; subst.
      apply Forall2_app_inv_l in Hd2. destruct Hd2 as (lr & lb & Hlr & Hbl & ->).
      rewrite (kw_Func Htab) in Hc1. apply dec_tok_inv in Hc1. subst c1. unfold MiniGo.id in Hc0. apply dec_tok_inv in Hc0. subst c0.
      assert (Hrecv : forallb param_ok [recv] = true).
      { cbn [forallb]. unfold param_ok, param_ok_with. apply andb_true_iff. split; [apply andb_true_iff; split; assumption | reflexivity]. }
      destruct (dec_params_P [recv] (all_Qt_params [recv]) Hrecv cr Hcr) as (rx & Fr & Prx).
      destruct (func_tail [kw (S "Func"); bparams [recv]; MiniGo.id name] [CTok (TkText (S "func")); cr; CTok (TkId name)]
                  [S "func"; rx; name] ps res body (c2 :: lr) lb) as (px & rxs & bx & Cb & Pp & Pr & Pb);
        [| |ctx3 res|assumption|assumption|exact (all_Qs body)|assumption|constructor; assumption|exact Hbl|].
      + rewrite (kw_Func Htab). constructor; [constructor|]. constructor; [exact Hcr|]. constructor; [constructor | constructor].
      + constructor; [apply free_tktext; reflexivity|]. constructor; [exact Fr|]. constructor; [apply free_tkid | constructor].
      + exists (S "func" ++ sp ++ rx ++ sp ++ name ++ sp ++ px ++ rtext rxs ++ sp ++ bx). split.
        * eapply chain_eq; [exact Cb|]. rewrite func_text by discriminate. cbn [join]. rewrite <- !app_assoc. reflexivity.
        * intros r Hr. cbn [tdecl]. rewrite <- !app_assoc. repeat lx1. rewrite Prx. repeat lx1. rewrite Pp.
          rewrite Pr by reflexivity. repeat lx1. rewrite Pb. lx_done.
    - exact (defs_dec _ (S "var") specs (kw_Var Htab) eq_refl eq_refl Ho l' Hd).
    - exact (defs_dec _ (S "const") specs (kw_Const Htab) eq_refl eq_refl Ho l' Hd).
    - ok_split Ho. rewrite (kw_Type Htab) in Hd. unfold MiniGo.id in Hd. dinv. uset (all_Qt t) t as (xt & Ct & Pt0 & _).
      exists (S "type " ++ name ++ sp ++ xt). split.
      + eapply chain_eq; [apply (chain_free cfg _ [S "type"; name; xt]); [|discriminate]|reflexivity].
        constructor; [apply free_tktext; reflexivity|]. constructor; [apply free_tkid|].
        constructor; [apply chain_operand, Ct | constructor].
      + intros r Hr. cbn [tdecl]. split_lits. repeat lx1. rewrite Pt0 by exact Hr. lx_done.
  Qed.

  Lemma decls_R ds : forallb decl_ok ds = true -> Forall2 (R cfg) (map bdecl ds) (map tdecl ds).
  Proof.
    induction ds as [|d ds IH]; intros Ho; cbn [map]; [constructor|].
    cbn [forallb] in Ho. apply andb_true_iff in Ho. destruct Ho as [Ho1 Ho2].
    constructor; [apply R_of_piece; exact (all_Qd d Ho1) | exact (IH Ho2)].
  Qed.

  (* ---- THE THEOREMS, per syntactic class *)
  Theorem dec_tokens_expr a c' ctx t t' s : expr_ok a = true -> dec (build_expr a) c' ->
    render cfg ctx t c' = Ok (t', s) -> golex s = Some (texpr a).
  Proof.
    intros Ho Hd Hr. apply dec_stmt_inv in Hd. destruct Hd as (l' & -> & Hl).
    destruct (proj1 all_dec a Ho l' Hl) as (x & Cx & Px & _).
    rewrite (render_of_chain cfg l' x Cx ctx t) in Hr. injection Hr as _ <-. apply piece_golex, Px.
  Qed.

  Theorem dec_tokens_type a c' ctx t t' s : ty_ok a = true -> dec (build_type a) c' ->
    render cfg ctx t c' = Ok (t', s) -> golex s = Some (tty a).
  Proof.
    intros Ho Hd Hr. apply dec_stmt_inv in Hd. destruct Hd as (l' & -> & Hl).
    destruct (all_Qt a Ho l' Hl) as (x & Cx & Px & _).
    rewrite (render_of_chain cfg l' x Cx ctx t) in Hr. injection Hr as _ <-. apply piece_golex, Px.
  Qed.

  Theorem dec_tokens_stmt a c' ctx t t' s : stmt_ok a = true -> dec (build_stmt a) c' ->
    render cfg ctx t c' = Ok (t', s) -> golex s = Some (tstmt a).
  Proof.
    intros Ho Hd Hr. apply dec_stmt_inv in Hd. destruct Hd as (l' & -> & Hl).
    destruct (proj1 (proj2 all_dec) a Ho l' Hl) as (x & Cx & Px).
    rewrite (render_of_chain cfg l' x Cx ctx t) in Hr. injection Hr as _ <-. apply piece_golex, Px.
  Qed.

  Theorem dec_tokens_decl a c' ctx t t' s : decl_ok a = true -> dec (build_decl a) c' ->
    render cfg ctx t c' = Ok (t', s) -> golex s = Some (tdecl a).
  Proof.
    intros Ho Hd Hr. apply dec_stmt_inv in Hd. destruct Hd as (l' & -> & Hl).
    destruct (all_Qd a Ho l' Hl) as (x & Cx & Px).
    rewrite (render_of_chain cfg l' x Cx ctx t) in Hr. injection Hr as _ <-. apply piece_golex, Px.
  Qed.
End Main.

(* ------------------------------------------------------------------ the file *)
Theorem dec_tokens_file name ds f t s : tables_ok = true -> ident_ok name = true -> forallb decl_ok ds = true ->
  dec_file name ds f -> file_raw f = Ok (t, s) -> golex s = Some (tfile name ds).
Proof.
  intros Htab Hn Hds (items & Hd & ->) H. unfold build_decl in Hd. rewrite <- map_map in Hd.
  destruct (decm_lines (mkcfg [] [] []) _ _ Hd (map bdecl ds) (map tdecl ds) eq_refl
              (decls_R (mkcfg [] [] []) Htab ds Hds)) as (xs & HF & HN & _ & _).
  rewrite fold_add_items in H. cbn [new_file f_name f_path f_prefix f_hints f_imports
    f_comments f_headers f_cgo f_noformat f_canonical f_items app] in H.
  unfold file_raw, file_group in H. cbn [f_items f_imports f_cgo file_cfg f_path f_prefix f_hints] in H.
  rewrite (render_group_ok (mkcfg [] [] []) 0 [] [] [] [] true _ _ HF) in H; [|reflexivity].
  cbn [bind fst snd] in H. rewrite group_text_multi_nosep, <- lines_eq in H. unfold closer in H.
  change (str_eqb [] s_block && false) with false in H. cbv iota in H. cbn [nonempty] in H.
  rewrite andb_false_r in H. injection H as _ <-.
  match goal with |- golex ?txt = _ =>
    replace txt with (S "package " ++ name ++ nl ++ nl ++ lines xs)
      by (unfold file_head; cbn; rewrite ?app_nil_r, <- ?app_assoc; reflexivity) end.
  unfold tfile. rewrite <- (app_nil_r (lines xs)).
  split_lits. repeat lx1. rewrite HN by apply bndN_nil. cbn [golex lexk pre]. rewrite app_nil_r. reflexivity.
Qed.

(* ================================================================== F. the scanner at a comment; a decoration using every position *)
(* standing at the text of a comment (before a newline or the end of the text) the scanner reads
   ALL of it and nothing more as ONE lexeme, which is not a token *)
Lemma tok_at_block b r : contains (S "*/") b = false ->
  tok_at ((S "/*" ++ b ++ S "*/") ++ r) = Some (None, length (S "/*" ++ b ++ S "*/")).
Proof.
  intros Hb. rewrite <- !app_assoc.
  change (S "/*" ++ b ++ S "*/" ++ r) with (x2f :: x2a :: (b ++ S "*/" ++ r)). rewrite tok_at_slash.
  change (beq x2f x2a) with false. change (beq x2a x2a) with true. cbv iota.
  rewrite (block_len_close b r Hb). cbn [option_map].
  change (S "/*" ++ b ++ S "*/") with (x2f :: x2a :: (b ++ [x2a; x2f])).
  cbn [length]. rewrite app_length. cbn [length]. repeat f_equal; lia.
Qed.

Lemma tok_at_line u r : forallb not_nl u = true -> bndN r ->
  tok_at ((S "//" ++ u) ++ r) = Some (None, length (S "//" ++ u)).
Proof.
  intros Hu Hr. rewrite <- app_assoc.
  assert (Hh : hd_is not_nl r = false) by (destruct Hr as [-> | [r' ->]]; reflexivity).
  change (S "//" ++ u ++ r) with (x2f :: x2f :: (u ++ r)). rewrite tok_at_slash.
  change (beq x2f x2f) with true. cbv iota.
  rewrite (take_while_app not_nl u r Hu Hh). reflexivity.
Qed.

Lemma comment_lexeme t r : comment_dom t = true -> bndN r ->
  tok_at (comment_text t ++ r) = Some (None, length (comment_text t)) /\ has_prefix (S "/") (comment_text t) = true.
Proof.
  intros Hd Hr. destruct (comment_dom_parts t Hd) as (H1 & H2 & H3).
  unfold comment_text. rewrite H1, H2. cbn [orb].
  destruct (contains_byte x0a t) eqn:En.
  - split; [|reflexivity].
    replace (S "/*" ++ [x0a] ++ t ++ (if has_suffix [x0a] t then [] else [x0a]) ++ S "*/")
      with (S "/*" ++ ([x0a] ++ t ++ (if has_suffix [x0a] t then [] else [x0a])) ++ S "*/")
      by (rewrite <- !app_assoc; reflexivity).
    apply tok_at_block.
    change ([x0a] ++ t ++ (if has_suffix [x0a] t then [] else [x0a]))
      with (x0a :: (t ++ (if has_suffix [x0a] t then [] else [x0a]))).
    rewrite contains_cons. apply orb_false_iff. split; [reflexivity|].
    destruct (has_suffix [x0a] t); [rewrite app_nil_r; exact H3 | apply no_close_snoc, H3].
  - split; [|reflexivity]. change (S "// " ++ t) with (S "//" ++ (x20 :: t)).
    apply tok_at_line; [|exact Hr]. cbn [forallb]. rewrite (no_nl_forall t En). reflexivity.
Qed.

Lemma saturate_dec own endc : comment_dom own = true -> comment_dom endc = true ->
  forall c, dec c (saturate own endc c).
Proof.
  intros Ho He.
  induction c as [| | |t|gid name o cl sep multi items IH|items IH|pairs _|kvs|s] using code_ind';
    try (cbn [saturate]; constructor).
  - destruct multi; cbn [saturate].
    + apply dec_multi. induction IH as [|x l Hx _ IHl]; cbn [flat_map app].
      * apply decm_own; [exact Ho | constructor].
      * apply decm_own; [exact Ho|].
        destruct x as [| | |t|g n o2 cl2 s2 m l2|l2|d|kvs|s0];
          try (apply decm_item; [exact Hx | exact IHl]).
        { destruct m; cbn [saturate] in Hx |- *; (apply decm_item; [exact Hx | exact IHl]). }
        cbn [saturate] in Hx |- *. inversion Hx; subst.
        destruct (open_end false (CStmt (map (saturate own endc) l2))) eqn:Eo.
        -- apply decm_item; [exact Hx | exact IHl].
        -- apply decm_end; [exact He | assumption | exact Eo | exact IHl].
    + apply dec_flat. induction IH; cbn [map]; constructor; assumption.
  - induction IH; cbn [map]; constructor; assumption.
Qed.

(* ---- corollaries stated in Props/C15_tokens.v *)
Lemma dec_tokens_unchanged cfg : tables_ok = true -> forall (a : decl) c' ctx t t' s t0' s0,
  decl_ok a = true -> dec (build_decl a) c' ->
  render cfg ctx t (build_decl a) = Ok (t0', s0) -> render cfg ctx t c' = Ok (t', s) ->
  golex s = golex s0.
Proof.
  intros Htab a c' ctx t t' s t0' s0 Ha Hd H0 H.
  rewrite (dec_tokens_decl cfg Htab a c' ctx t t' s Ha Hd H).
  symmetry. exact (render_tokens_decl cfg Htab a ctx t t0' s0 Ha H0).
Qed.

Lemma comment_styles t : comment_dom t = true ->
  comment_text t =
  if contains_byte x0a t then S "/*" ++ [x0a] ++ t ++ (if has_suffix [x0a] t then [] else [x0a]) ++ S "*/"
  else S "// " ++ t.
Proof.
  intros H. destruct (comment_dom_parts t H) as (H1 & H2 & _). unfold comment_text. rewrite H1, H2. reflexivity.
Qed.

Lemma comment_lexeme_skipped t r : comment_dom t = true -> bndN r ->
  tok_at (comment_text t ++ r) = Some (None, length (comment_text t)) /\
  has_prefix (S "/") (comment_text t) = true /\
  golex (comment_text t ++ r) = golex r.
Proof.
  intros Hd Hr. destruct (comment_lexeme t r Hd Hr) as [H1 H2].
  split; [exact H1|]. split; [exact H2 | exact (g_comment t r Hd Hr)].
Qed.
