(* C01: the tables of constructs against the reference syntax (Spec/GoSyntax.v), the emit spec
   instantiated with the rows of the generated table, and the bracket-count theorem. *)
From Jen Require Import Base.Bytes Base.Sort Model.Code Model.Naming Model.Render Model.FileRender Model.Exec.
From Jen Require Import Gen.Tables Gen.Goroot Spec.GoSyntax.
From Jen Require Import Proofs.NamingProofs Proofs.NullProofs Proofs.CommentProofs Proofs.EmitProofs.
From Coq Require Import Lia Permutation.

(* ------------------------------------------------------------------ small tools *)
Definition mem (x : str) (l : list str) : bool := existsb (str_eqb x) l.

Lemma mem_In x l : mem x l = true <-> In x l.
Proof.
  unfold mem. rewrite existsb_exists. split.
  - intros (y & Hy & E). apply str_eqb_eq in E. subst. exact Hy.
  - intros H. exists x. split; [exact H | apply str_eqb_refl].
Qed.

Lemma mem_not_In x l : mem x l = false <-> ~ In x l.
Proof. rewrite <- mem_In. destruct (mem x l); split; congruence. Qed.

Definition s_kw : str := S "keywordToken".
Definition s_idt : str := S "identifierToken".

(* ------------------------------------------------------------------ the group table *)
Definition row_matches (s : syntax_row) (g : group_row) : bool :=
  str_eqb (gr_method g) (sy_method s) && str_eqb (gr_name g) (to_lower (sy_method s)) &&
  str_eqb (gr_open g) (sy_open s) && str_eqb (gr_close g) (sy_close s) &&
  str_eqb (gr_sep g) (sy_sep s) && Bool.eqb (gr_multi g) (sy_multi s) && negb (gr_func g).

Lemma row_matches_spec s g : row_matches s g = true ->
  gr_method g = sy_method s /\ gr_name g = to_lower (sy_method s) /\
  gr_open g = sy_open s /\ gr_close g = sy_close s /\ gr_sep g = sy_sep s /\
  gr_multi g = sy_multi s /\ gr_func g = false.
Proof.
  unfold row_matches. intros H.
  apply andb_true_iff in H. destruct H as [H H7]. apply andb_true_iff in H. destruct H as [H H6].
  apply andb_true_iff in H. destruct H as [H H5]. apply andb_true_iff in H. destruct H as [H H4].
  apply andb_true_iff in H. destruct H as [H H3]. apply andb_true_iff in H. destruct H as [H1 H2].
  apply str_eqb_eq in H1, H2, H3, H4, H5. apply Bool.eqb_prop in H6. apply negb_true_iff in H7.
  repeat split; assumption.
Qed.

(* every row of the reference table occurs in the table compiled into jennifer, under the
   same method name, with the internal name = the method name in lower case (the renderer's
   special cases test the internal names block, case, types, values) and identical
   opener / closer / separator / multi *)
Theorem table_conforms : forall s, In s go_syntax ->
  exists g, In g group_table /\
    gr_method g = sy_method s /\ gr_name g = to_lower (sy_method s) /\
    gr_open g = sy_open s /\ gr_close g = sy_close s /\ gr_sep g = sy_sep s /\
    gr_multi g = sy_multi s /\ gr_func g = false.
Proof.
  assert (H : forallb (fun s => existsb (row_matches s) group_table) go_syntax = true)
    by (vm_compute; reflexivity).
  intros s Hin. rewrite forallb_forall in H. specialize (H s Hin).
  apply existsb_exists in H. destruct H as (g & Hg & Hm).
  exists g. split; [exact Hg | apply row_matches_spec; exact Hm].
Qed.

(* what is compiled is what genjen's data says, and the extractor met nothing it could not read *)
Theorem tables_agree :
  group_table = data_group_table /\ token_table = data_token_table /\ table_problems = [].
Proof. repeat split; vm_compute; reflexivity. Qed.

(* the interpreter of cases (Model/Exec.v) finds each row under its method name: names are unique *)
Theorem methods_unique :
  Forall (fun g => find_group (gr_method g) = Some g) group_table /\
  Forall (fun r => find_token (tr_method r) = Some r) token_table.
Proof. split; repeat constructor. Qed.

Definition func_matches (g p : group_row) : bool :=
  negb (gr_func p) && str_eqb (gr_method g) (gr_method p ++ S "Func") &&
  str_eqb (gr_name g) (gr_name p) && str_eqb (gr_open g) (gr_open p) &&
  str_eqb (gr_close g) (gr_close p) && str_eqb (gr_sep g) (gr_sep p) &&
  Bool.eqb (gr_multi g) (gr_multi p).

(* every ...Func row builds the same group as its plain variant *)
Theorem func_variants_agree : forall g, In g group_table -> gr_func g = true ->
  exists p, In p group_table /\ gr_func p = false /\ gr_method g = gr_method p ++ S "Func" /\
    gr_name g = gr_name p /\ gr_open g = gr_open p /\ gr_close g = gr_close p /\
    gr_sep g = gr_sep p /\ gr_multi g = gr_multi p.
Proof.
  assert (H : forallb (fun g => negb (gr_func g) || existsb (func_matches g) group_table) group_table = true)
    by (vm_compute; reflexivity).
  intros g Hin Hf. rewrite forallb_forall in H. specialize (H g Hin). rewrite Hf in H. cbn [negb orb] in H.
  apply existsb_exists in H. destruct H as (p & Hp & Hm). exists p. split; [exact Hp|].
  unfold func_matches in Hm.
  apply andb_true_iff in Hm. destruct Hm as [Hm H7]. apply andb_true_iff in Hm. destruct Hm as [Hm H6].
  apply andb_true_iff in Hm. destruct Hm as [Hm H5]. apply andb_true_iff in Hm. destruct Hm as [Hm H4].
  apply andb_true_iff in Hm. destruct Hm as [Hm H3]. apply andb_true_iff in Hm. destruct Hm as [H1 H2].
  apply negb_true_iff in H1. apply str_eqb_eq in H2, H3, H4, H5, H6. apply Bool.eqb_prop in H7.
  repeat split; assumption.
Qed.

(* openers and closers of every row are balanced pairs, separators contain no bracket *)
Theorem delimiters_balanced :
  forallb (fun g => brackets_match (gr_open g ++ gr_close g) && brackets_match (gr_sep g)) group_table = true.
Proof. vm_compute. reflexivity. Qed.

(* ------------------------------------------------------------------ the token table *)
Definition token_ok (r : token_row) : bool :=
  str_eqb (tr_text r) (to_lower (tr_method r)) &&
  (if mem (tr_text r) go_keywords then str_eqb (tr_type r) s_kw
   else str_eqb (tr_type r) s_idt &&
        (mem (tr_text r) go_universe || mem (tr_text r) conventional_identifiers) &&
        negb (str_eqb (tr_text r) s_default)).

Lemma token_table_ok : forallb token_ok token_table = true.
Proof. vm_compute. reflexivity. Qed.

(* every one-token construct writes exactly the Go token it is named after: the text is the
   method name in lower case; it is a keyword token iff the text is one of Go's keywords, else
   an identifier token whose text is predeclared in Go's universe block (or `err`, the
   README's helper); rendering writes the text unchanged, except `default`, written `default:` *)
Theorem tokens_conform : forall r, In r token_table ->
  tr_text r = to_lower (tr_method r) /\
  ((In (tr_text r) go_keywords /\ tr_type r = s_kw /\ token_of_row r = TkText (tr_text r)) \/
   (~ In (tr_text r) go_keywords /\ tr_type r = s_idt /\ token_of_row r = TkId (tr_text r) /\
    (In (tr_text r) go_universe \/ In (tr_text r) conventional_identifiers))) /\
  forall cfg t, render_token cfg t (token_of_row r) =
                Ok (t, if str_eqb (tr_text r) s_default then S "default:" else tr_text r).
Proof.
  intros r Hin. pose proof token_table_ok as H. rewrite forallb_forall in H. specialize (H r Hin).
  unfold token_ok in H. apply andb_true_iff in H. destruct H as [H1 H2]. apply str_eqb_eq in H1.
  split; [exact H1|]. destruct (mem (tr_text r) go_keywords) eqn:Ek.
  - apply str_eqb_eq in H2.
    assert (Ht : token_of_row r = TkText (tr_text r)) by (unfold token_of_row; rewrite H2; reflexivity).
    split; [left; split; [apply mem_In; exact Ek | split; assumption]|].
    intros cfg t. rewrite Ht. cbn [render_token].
    destruct (str_eqb_spec (tr_text r) s_default) as [->|Hne]; [reflexivity | rewrite app_nil_r; reflexivity].
  - apply andb_true_iff in H2. destruct H2 as [H2 H4]. apply andb_true_iff in H2. destruct H2 as [H2 H3].
    apply str_eqb_eq in H2. apply negb_true_iff in H4.
    assert (Ht : token_of_row r = TkId (tr_text r)) by (unfold token_of_row; rewrite H2; reflexivity).
    split.
    + right. split; [apply mem_not_In; exact Ek|]. split; [exact H2|]. split; [exact Ht|].
      apply orb_true_iff in H3. destruct H3 as [H3|H3]; [left | right]; apply mem_In; exact H3.
    + intros cfg t. rewrite Ht, H4. reflexivity.
Qed.

Lemma default_has_colon cfg t : render_token cfg t (TkText (S "default")) = Ok (t, S "default:").
Proof. reflexivity. Qed.

(* where each of Go's 25 keywords is written: by a keyword token, as the opener of a
   group (`if `, `for `, `switch `, `case `, `return `, `map[`, `struct{`, `interface{`), or
   by the File (`package`, `import`) *)
Definition keyword_home (k : str) : bool :=
  existsb (fun r => str_eqb (tr_text r) k && str_eqb (tr_type r) s_kw) token_table ||
  existsb (fun g => str_eqb (gr_open g) (k ++ S " ") || str_eqb (gr_open g) (k ++ S "{") ||
                    str_eqb (gr_open g) (k ++ S "[")) group_table ||
  mem k file_keywords.

Theorem keywords_covered :
  forallb keyword_home go_keywords = true /\
  forallb (fun k => mem k go_keywords) spec_keywords = true /\
  forallb (fun k => mem k spec_keywords) go_keywords = true.
Proof. repeat split; vm_compute; reflexivity. Qed.

(* every predeclared identifier of the installed Go has a construct: an identifier token or
   a built-in call `name(` *)
Definition universe_home (u : str) : bool :=
  existsb (fun r => str_eqb (tr_text r) u && str_eqb (tr_type r) s_idt) token_table ||
  existsb (fun g => str_eqb (gr_open g) (u ++ S "(")) group_table.

Theorem universe_covered : forallb universe_home go_universe = true.
Proof. vm_compute. reflexivity. Qed.

(* ------------------------------------------------------------------ the emit spec, per row *)
(* the Group a construct of the table builds (as Model/Exec.v builds it) *)
Definition group_of_row (gid : N) (r : group_row) (items : list code) : code :=
  CGroup gid (gr_name r) (gr_open r) (gr_close r) (gr_sep r) (gr_multi r) items.

Lemma row_multi_no_sep row : In row group_table -> gr_multi row = true -> gr_sep row = [].
Proof.
  intros Hin Hm. pose proof multi_rows_no_separator as H. rewrite forallb_forall in H.
  specialize (H row Hin). rewrite Hm in H. cbn [negb orb] in H. destruct (gr_sep row); [reflexivity | discriminate].
Qed.

Lemma closer_no_sep {A} cl (xs : list A) :
  closer [] true cl xs = if negb (is_nil xs) && nonempty cl then [x0a] else [].
Proof. unfold closer. rewrite andb_true_r. reflexivity. Qed.

(* For EVERY construct of the generated table, every arity, every items: the text is
   opener ++ body ++ closer, where the body of a one-line construct is the texts of the
   non-null items joined by the row's separator, and the body of a multi-line construct is
   newline + text for each non-null item and a newline before a non-empty closer (if anything
   was written).  [block] after case/default: no braces.  [types] with only null items: nothing. *)
Theorem render_row_spec : forall row, In row group_table ->
  forall cfg ctx t gid items t' out,
  render cfg ctx t (group_of_row gid row items) = Ok (t', out) ->
  let blank := str_eqb (gr_name row) s_block && ctx in
  let o := if blank then [] else gr_open row in
  let cl := if blank then [] else gr_close row in
  (gr_name row = s_types /\ forallb (is_null cfg t) items = true /\ t' = t /\ out = []) \/
  exists xs, item_texts cfg (render cfg) t items t' xs /\
    out = o ++ (if gr_multi row
                then concat_str (map (fun x => x0a :: x) xs) ++
                     (if negb (is_nil xs) && nonempty cl then [x0a] else [])
                else join (gr_sep row) xs) ++ cl.
Proof.
  intros row Hin cfg ctx t gid items t' out H blank o cl. unfold group_of_row in H.
  destruct (render_group_emit _ _ _ _ _ _ _ _ _ _ _ _ H) as [(Hty & Ht & Ho) | (_ & xs & Hi & Ho)].
  - left. apply andb_true_iff in Hty. destruct Hty as [Hn Ha]. apply str_eqb_eq in Hn. auto.
  - right. exists xs. split; [exact Hi|]. rewrite Ho. fold blank. fold o. fold cl. f_equal.
    destruct (gr_multi row) eqn:Em.
    + rewrite (row_multi_no_sep row Hin Em), group_text_multi_nosep, closer_no_sep, <- app_assoc. reflexivity.
    + rewrite group_text_join_flat, closer_flat. reflexivity.
Qed.

(* ... and in closed form when the items are settled at the table (Proofs/EmitProofs.v) *)
Theorem render_row_settled : forall row, In row group_table -> gr_multi row = false ->
  forall cfg t txt ctx gid items,
  settled_items cfg t txt items -> no_values_panic cfg t (gr_name row) (length items) items ->
  let live := filter (live_item cfg t) items in
  let blank := str_eqb (gr_name row) s_block && ctx in
  render cfg ctx t (group_of_row gid row items) =
  Ok (t, if str_eqb (gr_name row) s_types && is_nil live then []
         else (if blank then [] else gr_open row) ++ join (gr_sep row) (map txt live) ++
              (if blank then [] else gr_close row)).
Proof.
  intros row Hin Hm cfg t txt ctx gid items Hs Hv live blank. unfold group_of_row.
  rewrite (render_group_settled cfg t txt ctx gid _ _ _ _ _ items Hs Hv). fold live. fold blank.
  rewrite Hm, closer_flat, group_text_join_flat. reflexivity.
Qed.

(* ------------------------------------------------------------------ brackets *)
(* A necessary condition for the output to parse, for EVERY tree, arity and depth: if the
   delimiters of every group in the tree are balanced pairs (true of every row of the table:
   delimiters_balanced) and every leaf text has as many `(` as `)`, `[` as `]`, `{` as `}`
   (bracket-free identifiers, keywords and operators, numbers, typed literals `int8(1)`,
   `[]`, ...), so has the rendered text - whatever names the imports get. *)
Definition bal (s : str) : Prop := brackets_match s = true.

Lemma count_byte_app b x y : count_byte b (x ++ y) = count_byte b x + count_byte b y.
Proof. unfold count_byte. rewrite filter_app, app_length. reflexivity. Qed.

Lemma bal_iff s : bal s <->
  count_byte x28 s = count_byte x29 s /\ count_byte x5b s = count_byte x5d s /\
  count_byte x7b s = count_byte x7d s.
Proof.
  unfold bal, brackets_match. rewrite !andb_true_iff, !Nat.eqb_eq. tauto.
Qed.

Lemma bal_nil : bal [].
Proof. reflexivity. Qed.

Lemma bal_app x y : bal x -> bal y -> bal (x ++ y).
Proof. rewrite !bal_iff, !count_byte_app. lia. Qed.

Lemma bal_wrap o x c : bal (o ++ c) -> bal x -> bal (o ++ x ++ c).
Proof. rewrite !bal_iff, !count_byte_app. lia. Qed.

Definition token_brackets_ok (tk : token) : bool :=
  match tk with
  | TkPkg _ => true                 (* the name comes from the import table: see [Hreg] *)
  | TkId s => brackets_match s
  | TkText s => brackets_match s
  | TkLit l => match lit_text l with Ok x => brackets_match x | Panic _ => true end
  | TkRune r => brackets_match (rune_text r)
  | TkByte b => brackets_match (byte_text b)
  | TkNull => true
  end.

Fixpoint brackets_ok (c : code) : bool :=
  match c with
  | CNil | CNilStmt | CNilGroup => true
  | CTok tk => token_brackets_ok tk
  | CGroup _ _ o cl sep _ items =>
    brackets_match (o ++ cl) && brackets_match sep && forallb brackets_ok items
  | CStmt items => forallb brackets_ok items
  | CDict pairs => forallb (fun kv => brackets_ok (fst kv) && brackets_ok (snd kv)) pairs
  | CTag kvs => brackets_match (tag_text kvs)
  | CComment s => brackets_match (comment_text s)
  end.

Section Brackets.
  Variable cfg : config.
  (* an invariant of import tables under which registered names are bracket-free *)
  Variable P : table -> Prop.
  Hypothesis Hreg : forall t p t' n, P t -> register cfg t p = Ok (t', n) -> P t' /\ bal n.

  Definition good_fn (f : table -> result (table * str)) : Prop :=
    forall t t' s, P t -> f t = Ok (t', s) -> P t' /\ bal s.
  Definition good (c : code) : Prop := forall ctx, good_fn (fun t => render cfg ctx t c).

  Lemma prereg_P c t t0 :
    match c with
    | CTok (TkPkg p) => bind (register cfg t p) (fun r => Ok (fst r))
    | _ => Ok t
    end = Ok t0 -> P t -> P t0.
  Proof.
    intros H HP.
    destruct c as [| | |tk| | | | |]; try (injection H as <-; exact HP).
    destruct tk; try (injection H as <-; exact HP).
    destruct (register cfg t path) as [[t1 n]|m] eqn:E; [|discriminate]. cbn [bind fst] in H.
    injection H as <-. exact (proj1 (Hreg _ _ _ _ HP E)).
  Qed.

  Lemma group_loop_bal name sep multi n items : bal sep -> Forall good items ->
    forall t first t' isn s, P t ->
      group_loop cfg (render cfg) name sep multi n t first items = Ok (t', isn, s) -> P t' /\ bal s.
  Proof.
    intros Hsep Hg. induction Hg as [|c l Hc _ IH]; intros t first t' isn s HP H.
    - cbn in H. injection H as <- <- <-. split; [exact HP | apply bal_nil].
    - cbn [group_loop] in H.
      destruct (match c with
                | CTok (TkPkg p) => bind (register cfg t p) (fun r => Ok (fst r))
                | _ => Ok t
                end) as [t0|m0] eqn:E0; [|discriminate].
      pose proof (prereg_P _ _ _ E0 HP) as HP0. cbn [bind] in H.
      destruct (is_null cfg t0 c); [exact (IH _ _ _ _ _ HP0 H)|].
      destruct (str_eqb name s_values && is_dict c && Nat.ltb 1 n); [discriminate|].
      destruct (render cfg false t0 c) as [[t1 s1]|m1] eqn:E1; [|discriminate]. cbn [bind fst snd] in H.
      destruct (Hc false _ _ _ HP0 E1) as [HP1 Hb1].
      destruct (group_loop cfg (render cfg) name sep multi n t1 false l) as [[[t2 i2] s2]|m2] eqn:E2; [|discriminate].
      cbn [bind fst snd] in H. injection H as <- <- <-.
      destruct (IH _ _ _ _ _ HP1 E2) as [HP2 Hb2]. split; [exact HP2|].
      apply bal_app; [destruct first; [apply bal_nil | exact Hsep]|].
      apply bal_app; [destruct multi; reflexivity|]. apply bal_app; assumption.
  Qed.

  Lemma stmt_loop_bal all items : Forall good items ->
    forall t first t' s, P t -> stmt_loop cfg (render cfg) all t first items = Ok (t', s) -> P t' /\ bal s.
  Proof.
    intros Hg. induction Hg as [|c l Hc _ IH]; intros t first t' s HP H.
    - cbn in H. injection H as <- <-. split; [exact HP | apply bal_nil].
    - cbn [stmt_loop] in H. destruct (is_null cfg t c); [exact (IH _ _ _ _ HP H)|].
      destruct (render cfg (case_ctx all c) t c) as [[t1 s1]|m1] eqn:E1; [|discriminate]. cbn [bind fst snd] in H.
      destruct (Hc _ _ _ _ HP E1) as [HP1 Hb1].
      destruct (stmt_loop cfg (render cfg) all t1 false l) as [[t2 s2]|m2] eqn:E2; [|discriminate].
      cbn [bind fst snd] in H. injection H as <- <-.
      destruct (IH _ _ _ _ HP1 E2) as [HP2 Hb2]. split; [exact HP2|].
      apply bal_app; [destruct first; reflexivity|]. apply bal_app; assumption.
  Qed.

  Definition entry_good (e : dict_entry) : Prop := good_fn (snd (fst e)) /\ good_fn (snd e).

  Lemma dict_pass1_bal pairs : Forall (fun kv => good (fst kv) /\ good (snd kv)) pairs ->
    forall t t' es, P t -> dict_pass1 cfg (render cfg) t pairs = Ok (t', es) -> P t' /\ Forall entry_good es.
  Proof.
    intros Hg. induction Hg as [|kv l [Hk Hv] _ IH]; intros t t' es HP H.
    - cbn in H. injection H as <- <-. split; [exact HP | constructor].
    - cbn [dict_pass1] in H.
      destruct (is_null cfg t (fst kv) || is_null cfg t (snd kv)); [exact (IH _ _ _ HP H)|].
      destruct (render cfg false t (fst kv)) as [[t1 s1]|m1] eqn:E1; [|discriminate]. cbn [bind fst snd] in H.
      destruct (Hk _ _ _ _ HP E1) as [HP1 _].
      destruct (dict_pass1 cfg (render cfg) t1 l) as [[t2 es2]|m2] eqn:E2; [|discriminate].
      cbn [bind fst snd] in H. injection H as <- <-.
      destruct (IH _ _ _ HP1 E2) as [HP2 Hes]. split; [exact HP2|].
      constructor; [|exact Hes]. split; cbn [fst snd]; [apply Hk | apply Hv].
  Qed.

  Lemma dict_pass2_bal several l : Forall entry_good l ->
    forall t first t' s, P t -> dict_pass2 several t first l = Ok (t', s) -> P t' /\ bal s.
  Proof.
    intros Hg. induction Hg as [|e l [Hk Hv] _ IH]; intros t first t' s HP H.
    - cbn in H. injection H as <- <-. split; [exact HP | apply bal_nil].
    - cbn [dict_pass2] in H.
      destruct (snd (fst e) t) as [[t1 s1]|m1] eqn:E1; [|discriminate]. cbn [bind fst snd] in H.
      destruct (Hk _ _ _ HP E1) as [HP1 Hb1].
      destruct (snd e t1) as [[t2 s2]|m2] eqn:E2; [|discriminate]. cbn [bind fst snd] in H.
      destruct (Hv _ _ _ HP1 E2) as [HP2 Hb2].
      destruct (dict_pass2 several t2 false l) as [[t3 s3]|m3] eqn:E3; [|discriminate].
      cbn [bind fst snd] in H. injection H as <- <-.
      destruct (IH _ _ _ _ HP2 E3) as [HP3 Hb3]. split; [exact HP3|].
      apply bal_app; [destruct (first && several); reflexivity|].
      apply bal_app; [exact Hb1|].
      apply (bal_app (S ":") (s2 ++ (if several then S "," ++ s_nl else []) ++ s3) eq_refl).
      apply bal_app; [exact Hb2|].
      apply bal_app; [destruct several; reflexivity | exact Hb3].
  Qed.

  Lemma Forall_good (Q : code -> Prop) items :
    Forall (fun c => brackets_ok c = true -> Q c) items -> forallb brackets_ok items = true -> Forall Q items.
  Proof.
    induction 1 as [|c l Hc _ IH]; intros H; [constructor|]. cbn [forallb] in H.
    apply andb_true_iff in H. destruct H as [H1 H2]. constructor; [apply Hc; exact H1 | apply IH; exact H2].
  Qed.

  Theorem render_brackets : forall c, brackets_ok c = true -> good c.
  Proof.
    induction c as [| | |tk|gid name o cl sep multi items IH|items IH|pairs IH|kvs|s] using code_ind';
      intros Hok ctx t t' out HP H; cbn [render] in H; try discriminate.
    - (* token *)
      destruct tk; cbn [render_token] in H; cbn [brackets_ok token_brackets_ok] in Hok.
      + exact (Hreg _ _ _ _ HP H).
      + injection H as <- <-. split; assumption.
      + injection H as <- <-. split; [exact HP|]. apply bal_app; [exact Hok|].
        destruct (str_eqb s s_default); reflexivity.
      + destruct (lit_text l) as [x|m]; [|discriminate]. cbn [bind] in H. injection H as <- <-. split; assumption.
      + injection H as <- <-. split; assumption.
      + injection H as <- <-. split; assumption.
      + injection H as <- <-. split; [exact HP | apply bal_nil].
    - (* group *)
      cbn [brackets_ok] in Hok. apply andb_true_iff in Hok. destruct Hok as [Hok Hitems].
      apply andb_true_iff in Hok. destruct Hok as [Hoc Hsep].
      destruct (str_eqb name s_types && forallb (is_null cfg t) items).
      { injection H as <- <-. split; [exact HP | apply bal_nil]. }
      destruct (group_loop cfg (render cfg) name sep multi (length items) t true items) as [[[t1 isn] s1]|m] eqn:E;
        [|discriminate].
      cbn [bind fst snd] in H. injection H as <- <-.
      destruct (group_loop_bal name sep multi (length items) items Hsep (Forall_good good items IH Hitems) _ _ _ _ _ HP E)
        as [HP1 Hb1].
      split; [exact HP1|].
      assert (Hcl : bal (if negb isn && multi && nonempty (if str_eqb name s_block && ctx then [] else cl)
                         then if str_eqb sep s_comma then s_comma ++ s_nl else s_nl else [])).
      { destruct (negb isn && multi && nonempty (if str_eqb name s_block && ctx then [] else cl));
          [destruct (str_eqb sep s_comma)|]; reflexivity. }
      destruct (str_eqb name s_block && ctx).
      + cbn [app]. rewrite app_nil_r. apply bal_app; assumption.
      + rewrite (app_assoc s1). apply bal_wrap; [exact Hoc|]. apply bal_app; assumption.
    - (* statement *)
      cbn [brackets_ok] in Hok. exact (stmt_loop_bal items items (Forall_good good items IH Hok) _ _ _ _ HP H).
    - (* dict *)
      cbn [brackets_ok] in Hok.
      assert (Hp : Forall (fun kv => good (fst kv) /\ good (snd kv)) pairs).
      { clear -IH Hok. induction IH as [|kv l [Hk Hv] _ IHl]; [constructor|]. cbn [forallb] in Hok.
        apply andb_true_iff in Hok. destruct Hok as [H1 H2]. apply andb_true_iff in H1. destruct H1 as [Ha Hb].
        constructor; [split; [apply Hk; exact Ha | apply Hv; exact Hb] | apply IHl; exact H2]. }
      destruct (dict_pass1 cfg (render cfg) t pairs) as [[t1 es]|m] eqn:E1; [|discriminate]. cbn [bind fst snd] in H.
      destruct (dict_pass1_bal pairs Hp _ _ _ HP E1) as [HP1 Hes].
      assert (Hsorted : Forall entry_good (isort_by dict_key es)).
      { rewrite Forall_forall in *. intros x Hx. apply Hes. apply (isort_by_In dict_key). exact Hx. }
      exact (dict_pass2_bal _ _ Hsorted _ _ _ _ HP1 H).
    - injection H as <- <-. split; [exact HP | exact Hok].
    - injection H as <- <-. split; [exact HP | exact Hok].
  Qed.
End Brackets.

(* the invariant: the import table invariants of Proofs/NamingProofs.v (C05) - every name in
   the table is `_`, `.`, `C` or an identifier *)
Lemma ident_char_no_bracket b : ident_char b = true ->
  beq x28 b = false /\ beq x29 b = false /\ beq x5b b = false /\ beq x5d b = false /\
  beq x7b b = false /\ beq x7d b = false.
Proof. destruct b; intros H; vm_compute in H; try discriminate H; vm_compute; repeat split; reflexivity. Qed.

Lemma ident_chars_count k s : In k [x28; x29; x5b; x5d; x7b; x7d] ->
  forallb ident_char s = true -> count_byte k s = 0.
Proof.
  intros Hk. induction s as [|b s IH]; intros H; [reflexivity|]. cbn [forallb] in H.
  apply andb_true_iff in H. destruct H as [Hb Hs]. unfold count_byte in *. cbn [filter].
  destruct (ident_char_no_bracket b Hb) as (H1 & H2 & H3 & H4 & H5 & H6).
  assert (E : beq k b = false).
  { cbn [In] in Hk. destruct Hk as [<-|[<-|[<-|[<-|[<-|[<-|[]]]]]]]; assumption. }
  rewrite E. apply IH. exact Hs.
Qed.

Lemma legal_name_bal n : legal_name n -> bal n.
Proof.
  intros [->|[->|[->|[Hi _]]]]; try reflexivity.
  apply is_ident_chars in Hi. apply bal_iff.
  rewrite !(ident_chars_count _ n) by (cbn [In]; tauto || exact Hi). repeat split; reflexivity.
Qed.

Definition table_ok (t : table) : Prop := Inv t /\ Legal t.

Lemma register_table_ok cfg : cfg_ok cfg ->
  forall t p t' n, table_ok t -> register cfg t p = Ok (t', n) -> table_ok t' /\ bal n.
Proof.
  intros Hcfg t p t' n [HI HL] Hr.
  pose proof (register_Inv cfg Hcfg _ _ _ _ HI Hr) as HI'.
  pose proof (register_Legal cfg Hcfg _ _ _ _ HI HL Hr) as HL'.
  split; [split; assumption|].
  destruct (is_local cfg p) eqn:El.
  - unfold register in Hr. rewrite El in Hr. injection Hr as <- <-. reflexivity.
  - pose proof (register_returns_entry cfg Hcfg _ _ _ _ El Hr) as Hk. unfold registered_name in Hk.
    destruct (alookup p t') as [d|] eqn:Ea; [|discriminate].
    destruct (str_eqb (id_name d) [] || str_eqb (id_name d) s_us); [discriminate|].
    injection Hk as <-. apply legal_name_bal. apply (HL' p d). apply alookup_In. exact Ea.
Qed.

(* BRACKET COUNTS: for every tree whose group delimiters are balanced pairs and whose leaf
   texts have equal counts of each bracket kind, rendered from any import table that
   satisfies the naming invariants (the empty table of a new File; any table reached by
   rendering, Anon, ImportName ...: Proofs/NamingProofs.v history_Inv), under hints that are
   identifiers: the output has as many `(` as `)`, `[` as `]`, `{` as `}`, and the table
   still satisfies the invariants. *)
Theorem bracket_counts_equal cfg : cfg_ok cfg ->
  forall c, brackets_ok c = true ->
  forall ctx t t' out, Inv t -> Legal t -> render cfg ctx t c = Ok (t', out) ->
    brackets_match out = true /\ Inv t' /\ Legal t'.
Proof.
  intros Hcfg c Hok ctx t t' out HI HL H.
  destruct (render_brackets cfg table_ok (register_table_ok cfg Hcfg) c Hok ctx t t' out (conj HI HL) H)
    as [[HI' HL'] Hb].
  split; [exact Hb | split; assumption].
Qed.

(* every construct of the table keeps the condition: a group built by a row of the table
   from good items is good *)
Lemma row_brackets_ok row gid items : In row group_table ->
  forallb brackets_ok items = true -> brackets_ok (group_of_row gid row items) = true.
Proof.
  intros Hin Hi. pose proof delimiters_balanced as H. rewrite forallb_forall in H. specialize (H row Hin).
  unfold group_of_row. cbn [brackets_ok]. rewrite H, Hi. reflexivity.
Qed.
