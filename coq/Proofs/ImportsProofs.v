(* The import block (Model/FileRender.v, render_imports) as a function of the SET of table
   entries: every entry once, sorted by path, alias shown iff the entry says so and the
   path is not "C"; "C" moved under the preamble iff a preamble exists. *)
From Jen Require Import Base.Bytes Base.Sort Model.Code Model.Naming Model.Render Model.FileRender GoStd.Quote.
From Jen Require Import Proofs.DictProofs.
From Coq Require Import Lia Permutation Sorted.

(* the main import declaration for a list of entries *)
Definition main_block (l : table) : str :=
  match l with
  | [] => []
  | [e] => S "import " ++ import_spec (fst e) (snd e) ++ [x0a; x0a]
  | _ => S "import (" ++ [x0a] ++
         concat_str (map (fun e => import_spec (fst e) (snd e) ++ [x0a]) (isort_by fst l)) ++
         S ")" ++ [x0a; x0a]
  end.

Definition preamble_block (cgo : list str) : str :=
  concat_str (map (fun c => comment_text (trim_raw_preamble c) ++ [x0a]) cgo) ++ S "import " ++ [c_dq] ++ S "C" ++ [c_dq] ++ [x0a; x0a].

Lemma render_imports_preamble t cgo : cgo <> [] ->
  render_imports t cgo = main_block (filter (fun e => negb (str_eqb (fst e) s_C)) t) ++ preamble_block cgo.
Proof.
  intros Hne. unfold render_imports, main_block, preamble_block.
  assert (Hn : nonempty_list cgo = true) by (destruct cgo; [congruence | reflexivity]).
  rewrite Hn, orb_true_r. cbn [andb].
  assert (Hf : filter (fun e : str * importdef => negb (str_eqb (fst e) s_C && true)) t =
               filter (fun e => negb (str_eqb (fst e) s_C)) t).
  { apply filter_ext. intros e. rewrite andb_true_r. reflexivity. }
  rewrite Hf. reflexivity.
Qed.

Lemma render_imports_plain t : render_imports t [] = main_block t.
Proof.
  unfold render_imports, main_block. cbn [nonempty_list andb]. rewrite andb_false_r. cbn [andb].
  assert (Hf : filter (fun e : str * importdef => negb (str_eqb (fst e) s_C && false)) t = t).
  { induction t as [|e l IH]; [reflexivity|]. cbn [filter]. rewrite andb_false_r. cbn [negb]. f_equal. exact IH. }
  rewrite Hf, app_nil_r. reflexivity.
Qed.

Lemma main_block_perm (l l' : table) : NoDup (akeys l) -> Permutation l l' -> main_block l = main_block l'.
Proof.
  intros Hnd Hp. pose proof (isort_by_perm_invariant fst l l' Hnd Hp) as Hs.
  pose proof (Permutation_length Hp) as Hl.
  destruct l as [|a [|b l0]], l' as [|a' [|b' l0']]; try discriminate; try reflexivity.
  - apply Permutation_length_1 in Hp. subst. reflexivity.
  - unfold main_block. rewrite Hs. reflexivity.
Qed.

(* the block does not depend on the order in which the import table is traversed *)
Theorem render_imports_perm t t' cgo :
  NoDup (akeys t) -> Permutation t t' -> render_imports t cgo = render_imports t' cgo.
Proof.
  intros Hnd Hp. destruct cgo as [|c cgo].
  - rewrite !render_imports_plain. apply main_block_perm; assumption.
  - rewrite !render_imports_preamble by discriminate. f_equal.
    apply main_block_perm; [|apply filter_perm; exact Hp].
    clear -Hnd. induction t as [|e l IH]; [constructor|]. cbn [filter]. inversion Hnd as [|? ? Hni Hnd']; subst.
    destruct (negb (str_eqb (fst e) s_C)); [|apply IH; exact Hnd'].
    cbn [akeys map]. constructor; [|apply IH; exact Hnd'].
    intros Hin. apply Hni. unfold akeys in *. rewrite in_map_iff in *. destruct Hin as (x & Hx & Hin).
    exists x. split; [exact Hx|]. apply filter_In in Hin. tauto.
Qed.

(* every entry appears exactly once, in path order *)
Theorem main_block_lists_all (l : table) :
  Permutation (isort_by fst l) l /\ StronglySorted (key_le fst) (isort_by fst l).
Proof. split; [apply isort_by_perm | apply isort_by_sorted]. Qed.
