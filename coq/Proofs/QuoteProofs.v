(* strconv.Quote / QuoteRune round trips: reading back a quoted string with the Go literal
   scanner gives exactly the original bytes and stops exactly at the closing quote - for
   every byte string and every printability predicate that rejects newline. *)
From Jen Require Import Base.Bytes Base.Utf8 GoStd.Quote.
From Coq Require Import ZifyN ZifyNat ZifyBool.
Ltac Zify.zify_post_hook ::= Z.div_mod_to_equations.
Local Open Scope N_scope.

Definition is_quote (q : byte) : Prop := q = c_dq \/ q = c_sq.

(* ---- hex digits ---- *)
Lemma b2n_hex_digit d : d < 16 ->
  b2n (hex_digit d) = if d <? 10 then 48 + d else 87 + d.
Proof. intros H. unfold hex_digit. apply b2n_n2b. destruct (d <? 10) eqn:E; lia. Qed.

Lemma unhex_hex_digit d : d < 16 -> unhex (hex_digit d) = Some d.
Proof.
  intros H. unfold unhex. cbv zeta. rewrite (b2n_hex_digit d H).
  destruct (d <? 10) eqn:E.
  - assert (H1 : ((48 <=? 48 + d) && (48 + d <=? 57)) = true) by lia. rewrite H1. f_equal. lia.
  - assert (H1 : ((48 <=? 87 + d) && (87 + d <=? 57)) = false) by lia.
    assert (H2 : ((97 <=? 87 + d) && (87 + d <=? 102)) = true) by lia.
    rewrite H1, H2. f_equal. lia.
Qed.

(* a hex digit is an ASCII letter or digit *)
Lemma hex_digit_range d : d < 16 -> 48 <= b2n (hex_digit d) <= 102.
Proof. intros H. rewrite (b2n_hex_digit d H). destruct (d <? 10) eqn:E; lia. Qed.

Lemma nib_eq y : y = y / 16 * 16 + y mod 16.
Proof. lia. Qed.

(* ---- prepend ---- *)
Lemma prepend_prepend a b o : prepend a (prepend b o) = prepend (a ++ b) o.
Proof. destruct o as [[v r]|]; simpl; [rewrite app_assoc|]; reflexivity. Qed.

Lemma prepend_nil o : prepend [] o = o.
Proof. destruct o as [[v r]|]; reflexivity. Qed.

(* ---- one-step unfoldings of the literal reader ---- *)
Lemma unq_close q t : unq q (q :: t) = Some ([], t).
Proof. simpl. rewrite beq_refl. reflexivity. Qed.

Lemma unq_raw1 q c t : c <> q -> c <> c_nl -> c <> c_bs -> unq q (c :: t) = prepend [c] (unq q t).
Proof.
  intros H1 H2 H3. cbn [unq].
  apply beq_neq in H1, H2, H3. rewrite H1, H2, H3. reflexivity.
Qed.

Lemma unq_raw q p X :
  Forall (fun c => c <> q /\ c <> c_nl /\ c <> c_bs) p -> unq q (p ++ X) = prepend p (unq q X).
Proof.
  induction p as [|c p IH]; intros H; simpl app.
  - symmetry. apply prepend_nil.
  - inversion H as [|? ? [H1 [H2 H3]] H']; subst.
    rewrite unq_raw1 by assumption. rewrite IH by assumption.
    rewrite prepend_prepend. reflexivity.
Qed.

Lemma unq_simple q e v X : is_quote q -> simple_escape q e = Some v ->
  unq q (c_bs :: e :: X) = prepend [v] (unq q X).
Proof. intros [-> | ->] H; cbn [unq]; cbn [beq Byte.eqb]; simpl beq; rewrite H; reflexivity. Qed.

Lemma unq_x q h1 h2 X : is_quote q ->
  unq q (c_bs :: x78 :: h1 :: h2 :: X) =
  match unhex h1, unhex h2 with
  | Some a, Some b => prepend [n2b (a * 16 + b)] (unq q X)
  | _, _ => None
  end.
Proof. intros [-> | ->]; reflexivity. Qed.

Lemma unq_u q h1 h2 h3 h4 X : is_quote q ->
  unq q (c_bs :: x75 :: h1 :: h2 :: h3 :: h4 :: X) =
  match unhex h1, unhex h2, unhex h3, unhex h4 with
  | Some a, Some b, Some c', Some d =>
    let v := ((a * 16 + b) * 16 + c') * 16 + d in
    if valid_rune v then prepend (encode_rune v) (unq q X) else None
  | _, _, _, _ => None
  end.
Proof. intros [-> | ->]; reflexivity. Qed.

Lemma unq_U q h1 h2 h3 h4 h5 h6 h7 h8 X : is_quote q ->
  unq q (c_bs :: x55 :: h1 :: h2 :: h3 :: h4 :: h5 :: h6 :: h7 :: h8 :: X) =
  match unhex h1, unhex h2, unhex h3, unhex h4, unhex h5, unhex h6, unhex h7, unhex h8 with
  | Some a, Some b, Some c', Some d, Some e', Some f, Some g, Some h =>
    let v := ((((((a * 16 + b) * 16 + c') * 16 + d) * 16 + e') * 16 + f) * 16 + g) * 16 + h in
    if valid_rune v then prepend (encode_rune v) (unq q X) else None
  | _, _, _, _, _, _, _, _ => None
  end.
Proof. intros [-> | ->]; reflexivity. Qed.

(* ---- escape chunks ---- *)
Lemma unq_hex2 q n X : is_quote q -> n < 256 ->
  unq q (c_bs :: x78 :: hex2 n ++ X) = prepend [n2b n] (unq q X).
Proof.
  intros Hq Hn. unfold hex2. cbn [app]. rewrite unq_x by exact Hq.
  assert (D : forall x, x mod 16 < 16) by (intros x; apply N.mod_lt; discriminate).
  rewrite !unhex_hex_digit by apply D.
  assert (E : n / 16 mod 16 = n / 16) by (apply N.mod_small; apply N.div_lt_upper_bound; lia).
  rewrite E. pose proof (nib_eq n) as A0. do 3 f_equal. lia.
Qed.

Lemma hex4_value r : r < 65536 ->
  ((r / 4096 mod 16 * 16 + r / 256 mod 16) * 16 + r / 16 mod 16) * 16 + r mod 16 = r.
Proof.
  intros H.
  pose proof (nib_eq r) as A0.
  pose proof (nib_eq (r / 16)) as A1. rewrite (N.div_div r 16 16) in A1 by lia. change (16 * 16) with 256 in A1.
  pose proof (nib_eq (r / 256)) as A2. rewrite (N.div_div r 256 16) in A2 by lia. change (256 * 16) with 4096 in A2.
  assert (A3 : r / 4096 mod 16 = r / 4096).
  { apply N.mod_small. apply N.div_lt_upper_bound; lia. }
  rewrite A3.
  set (d0 := r mod 16) in *. set (d1 := r / 16 mod 16) in *. set (d2 := r / 256 mod 16) in *.
  set (y1 := r / 16) in *. set (y2 := r / 256) in *. set (y3 := r / 4096) in *.
  clearbody d0 d1 d2 y1 y2 y3. lia.
Qed.

Lemma hex8_value r : r < 4294967296 ->
  ((((((r / 65536 / 4096 mod 16 * 16 + r / 65536 / 256 mod 16) * 16 + r / 65536 / 16 mod 16) * 16 + r / 65536 mod 16)
      * 16 + r / 4096 mod 16) * 16 + r / 256 mod 16) * 16 + r / 16 mod 16) * 16 + r mod 16 = r.
Proof.
  intros H.
  assert (Hhi : r / 65536 < 65536) by (apply N.div_lt_upper_bound; lia).
  rewrite (hex4_value (r / 65536) Hhi).
  pose proof (nib_eq r) as A0.
  pose proof (nib_eq (r / 16)) as A1. rewrite (N.div_div r 16 16) in A1 by lia. change (16 * 16) with 256 in A1.
  pose proof (nib_eq (r / 256)) as A2. rewrite (N.div_div r 256 16) in A2 by lia. change (256 * 16) with 4096 in A2.
  pose proof (nib_eq (r / 4096)) as A3. rewrite (N.div_div r 4096 16) in A3 by lia. change (4096 * 16) with 65536 in A3.
  set (d0 := r mod 16) in *. set (d1 := r / 16 mod 16) in *. set (d2 := r / 256 mod 16) in *.
  set (d3 := r / 4096 mod 16) in *.
  set (y1 := r / 16) in *. set (y2 := r / 256) in *. set (y3 := r / 4096) in *. set (y4 := r / 65536) in *.
  clearbody d0 d1 d2 d3 y1 y2 y3 y4. lia.
Qed.

Lemma unq_hex4 q r X : is_quote q -> r < 65536 -> valid_rune r = true ->
  unq q (c_bs :: x75 :: hex4 r ++ X) = prepend (encode_rune r) (unq q X).
Proof.
  intros Hq Hr Hv. unfold hex4. cbn [app]. rewrite unq_u by exact Hq.
  assert (D : forall x, x mod 16 < 16) by (intros x; apply N.mod_lt; discriminate).
  rewrite !unhex_hex_digit by apply D. cbv zeta.
  rewrite (hex4_value r Hr), Hv. reflexivity.
Qed.

Lemma unq_hex8 q r X : is_quote q -> r < 4294967296 -> valid_rune r = true ->
  unq q (c_bs :: x55 :: hex8 r ++ X) = prepend (encode_rune r) (unq q X).
Proof.
  intros Hq Hr Hv. unfold hex8, hex4. cbn [app]. rewrite unq_U by exact Hq.
  assert (D : forall x, x mod 16 < 16) by (intros x; apply N.mod_lt; discriminate).
  rewrite !unhex_hex_digit by apply D. cbv zeta.
  rewrite (hex8_value r Hr), Hv. reflexivity.
Qed.

(* ---- encodings ---- *)
Lemma encode_rune_ascii r : r < 0x80 -> encode_rune r = [n2b r].
Proof.
  intros H. unfold encode_rune, encodeN.
  assert (E : (r <? 0x80) = true) by lia. rewrite E. reflexivity.
Qed.

Lemma encodeN_high r : 0x80 <= r -> Forall (fun b => 0x80 <= b < 256) (encodeN r).
Proof.
  intros H. unfold encodeN, valid_rune, max_rune.
  assert (E1 : (r <? 0x80) = false) by lia. rewrite E1.
  destruct (r <? 0x800) eqn:E2; [repeat constructor; lia|].
  destruct (negb _) eqn:E3; [repeat constructor; lia|].
  destruct (r <? 0x10000) eqn:E4; repeat constructor; lia.
Qed.

Lemma encode_rune_high r : 0x80 <= r -> Forall (fun c => 0x80 <= b2n c) (encode_rune r).
Proof.
  intros H. unfold encode_rune. pose proof (encodeN_high r H) as Hh.
  induction Hh as [|x l Hx Hl IH]; simpl; constructor; [|exact IH].
  rewrite b2n_n2b by lia. lia.
Qed.

Lemma n2b_neq r c : r < 256 -> r <> b2n c -> n2b r <> c.
Proof. intros Hr Hne E. apply Hne. rewrite <- E. symmetry. apply b2n_n2b. exact Hr. Qed.

Section WithPrint.
  Variable is_print : N -> bool.
  Hypothesis print_nl : is_print 10 = false.

  Lemma unq_escaped_rune q r X : is_quote q -> valid_rune r = true ->
    unq q (escaped_rune is_print (b2n q) r ++ X) = prepend (encode_rune r) (unq q X).
  Proof.
    intros Hq Hv. unfold escaped_rune.
    assert (Hqn : b2n q = 34 \/ b2n q = 39) by (destruct Hq as [-> | ->]; [left | right]; reflexivity).
    destruct ((r =? b2n q) || (r =? 92)) eqn:E0.
    { assert (Hr : r < 0x80) by lia.
      rewrite encode_rune_ascii by exact Hr. cbn [app].
      apply unq_simple; [exact Hq|].
      destruct (r =? 92) eqn:E92.
      - assert (r = 92) by lia. subst r. destruct Hq as [-> | ->]; reflexivity.
      - assert (r = b2n q) by lia. subst r. rewrite n2b_b2n. destruct Hq as [-> | ->]; reflexivity. }
    destruct (is_print r) eqn:Ep.
    { apply unq_raw.
      destruct (r <? 0x80) eqn:Ea.
      - rewrite encode_rune_ascii by lia. constructor; [|constructor].
        assert (Hr10 : r <> 10) by (intros ->; congruence).
        assert (Hrq : r <> b2n q) by lia.
        assert (Hr92 : r <> 92) by lia.
        assert (Hr256 : r < 256) by lia.
        split; [|split]; apply n2b_neq; try exact Hr256.
        + exact Hrq.
        + change (b2n c_nl) with 10. exact Hr10.
        + change (b2n c_bs) with 92. exact Hr92.
      - pose proof (encode_rune_high r ltac:(lia)) as Hh.
        eapply Forall_impl; [|exact Hh]. intros c Hc. cbv beta in Hc.
        split; [|split]; intros ->.
        + destruct Hq as [-> | ->]; cbn in Hc; lia.
        + cbn in Hc; lia.
        + cbn in Hc; lia. }
    destruct (r =? 7) eqn:E7; [assert (r = 7) by lia; subst r; apply unq_simple; [exact Hq | destruct Hq as [-> | ->]; reflexivity]|].
    destruct (r =? 8) eqn:E8; [assert (r = 8) by lia; subst r; apply unq_simple; [exact Hq | destruct Hq as [-> | ->]; reflexivity]|].
    destruct (r =? 12) eqn:E12; [assert (r = 12) by lia; subst r; apply unq_simple; [exact Hq | destruct Hq as [-> | ->]; reflexivity]|].
    destruct (r =? 10) eqn:E10; [assert (r = 10) by lia; subst r; apply unq_simple; [exact Hq | destruct Hq as [-> | ->]; reflexivity]|].
    destruct (r =? 13) eqn:E13; [assert (r = 13) by lia; subst r; apply unq_simple; [exact Hq | destruct Hq as [-> | ->]; reflexivity]|].
    destruct (r =? 9) eqn:E9; [assert (r = 9) by lia; subst r; apply unq_simple; [exact Hq | destruct Hq as [-> | ->]; reflexivity]|].
    destruct (r =? 11) eqn:E11; [assert (r = 11) by lia; subst r; apply unq_simple; [exact Hq | destruct Hq as [-> | ->]; reflexivity]|].
    destruct ((r <? 32) || (r =? 127)) eqn:Ec.
    { rewrite encode_rune_ascii by lia. apply unq_hex2; [exact Hq | lia]. }
    rewrite Hv. cbn [negb].
    destruct (r <? 0x10000) eqn:Eu.
    { apply unq_hex4; [exact Hq | lia | exact Hv]. }
    apply unq_hex8; [exact Hq | | exact Hv].
    unfold valid_rune, max_rune in Hv. lia.
  Qed.

  (* one loop iteration: the emitted chunk reads back as the bytes it consumed *)
  Lemma quote_step_spec q b0 t X : is_quote q ->
    let s := b0 :: t in
    let cw := quote_step is_print (b2n q) s in
    (1 <= snd cw <= length s)%nat /\
    unq q (fst cw ++ X) = prepend (firstn (snd cw) s) (unq q X).
  Proof.
    intros Hq s cw. subst cw. unfold quote_step. subst s.
    destruct (decode_rune (b0 :: t)) as [r w] eqn:Ed.
    destruct (Nat.eqb w 1 && (r =? rune_error)) eqn:Ee.
    - cbn [fst snd]. split; [simpl; lia|].
      rewrite <- app_comm_cons. rewrite <- app_comm_cons.
      rewrite unq_hex2; [|exact Hq | apply b2n_lt].
      rewrite n2b_b2n. reflexivity.
    - cbn [fst snd].
      assert (Hw : (1 <= w)%nat).
      { pose proof (decode_rune_width_pos b0 t) as Hp. rewrite Ed in Hp. cbn [snd] in Hp. lia. }
      assert (Hok : decode_ok (r, w) = true).
      { unfold decode_ok. cbn [fst snd].
        destruct (r =? rune_error) eqn:Er; [|reflexivity].
        destruct (Nat.leb w 1) eqn:El; [|reflexivity].
        apply Nat.leb_le in El. assert (w = 1%nat) by lia. subst w.
        rewrite Nat.eqb_refl in Ee. discriminate. }
      destruct (encode_decode_rune _ _ _ Ed Hok) as (Hv & Henc & Hlen & _).
      split; [exact Hlen|].
      rewrite <- Henc. apply unq_escaped_rune; assumption.
  Qed.

  Theorem unq_quote_body q : is_quote q ->
    forall fuel s rest, (length s <= fuel)%nat ->
      unq q (quote_body is_print (b2n q) fuel s ++ q :: rest) = Some (s, rest).
  Proof.
    intros Hq. induction fuel as [|fuel IH]; intros s rest Hlen.
    - destruct s; [|simpl in Hlen; lia]. simpl. apply unq_close.
    - destruct s as [|b0 t]; [simpl; apply unq_close|].
      cbn [quote_body].
      pose proof (quote_step_spec q b0 t (quote_body is_print (b2n q) fuel
                    (skipn (snd (quote_step is_print (b2n q) (b0 :: t))) (b0 :: t)) ++ q :: rest) Hq) as Hs.
      cbv zeta in Hs. destruct (quote_step is_print (b2n q) (b0 :: t)) as [chunk w] eqn:Eq.
      cbn [fst snd] in Hs. destruct Hs as [Hw Hu].
      rewrite <- app_assoc. rewrite Hu.
      rewrite IH.
      + cbn [prepend]. rewrite firstn_skipn. reflexivity.
      + rewrite skipn_length. cbn [length] in *. lia.
  Qed.

  (* strconv.Quote: scanning the literal gives back s and stops right after it *)
  Theorem scan_Quote s rest :
    scan_string_lit (Quote is_print s ++ rest) = Some (s, rest).
  Proof.
    unfold Quote, quote_with, scan_string_lit. cbn [app].
    change (beq c_dq c_dq) with true. cbv iota.
    rewrite <- app_assoc. cbn [app].
    apply (unq_quote_body c_dq); [left; reflexivity | apply le_n].
  Qed.

  Corollary Quote_roundtrip s : go_string_value (Quote is_print s) = Some s.
  Proof.
    unfold go_string_value. rewrite <- (app_nil_r (Quote is_print s)).
    rewrite scan_Quote. reflexivity.
  Qed.
End WithPrint.

(* ---- the shape of quoted text: a sequence of chunks, each either raw bytes free of
   quote / backslash / newline, or a backslash, one byte, and such raw bytes.  Every
   left-to-right consumer that respects this shape (Go's scanner, reflect.StructTag)
   therefore finds the closing quote where Quote put it. ---- *)
Definition plain (q c : byte) : Prop := c <> q /\ c <> c_bs /\ c <> c_nl.

Inductive chunk_ok (q : byte) : str -> Prop :=
| ck_raw p : Forall (plain q) p -> chunk_ok q p
| ck_esc e tail : e <> c_nl -> Forall (plain q) tail -> chunk_ok q (c_bs :: e :: tail).

Lemma hex_digit_plain q d : is_quote q -> d < 16 -> plain q (hex_digit d).
Proof.
  intros Hq Hd. pose proof (b2n_hex_digit d Hd) as Hb.
  assert (Hr : (48 <= b2n (hex_digit d) <= 57) \/ (97 <= b2n (hex_digit d) <= 102)).
  { rewrite Hb. destruct (d <? 10) eqn:E; lia. }
  repeat split; intros E; rewrite E in Hr; [destruct Hq as [-> | ->]|..]; cbn in Hr; lia.
Qed.

Lemma mod16_lt x : x mod 16 < 16.
Proof. apply N.mod_lt. discriminate. Qed.

Lemma hex2_plain q n : is_quote q -> Forall (plain q) (hex2 n).
Proof. intros Hq. unfold hex2. repeat (apply Forall_cons; [apply hex_digit_plain; [exact Hq | apply mod16_lt]|]). apply Forall_nil. Qed.
Lemma hex4_plain q n : is_quote q -> Forall (plain q) (hex4 n).
Proof. intros Hq. unfold hex4. repeat (apply Forall_cons; [apply hex_digit_plain; [exact Hq | apply mod16_lt]|]). apply Forall_nil. Qed.
Lemma hex8_plain q n : is_quote q -> Forall (plain q) (hex8 n).
Proof. intros Hq. unfold hex8. apply Forall_app. split; apply hex4_plain; exact Hq. Qed.

Section Shape.
  Variable is_print : N -> bool.
  Hypothesis print_nl : is_print 10 = false.

  Lemma escaped_rune_ok q r : is_quote q -> chunk_ok q (escaped_rune is_print (b2n q) r).
  Proof.
    intros Hq. unfold escaped_rune.
    destruct ((r =? b2n q) || (r =? 92)) eqn:E0.
    { apply ck_esc; [|constructor]. apply n2b_neq; [destruct Hq as [-> | ->]; cbn in E0; lia|].
      change (b2n c_nl) with 10. destruct Hq as [-> | ->]; cbn in E0; lia. }
    destruct (is_print r) eqn:Ep.
    { apply ck_raw.
      destruct (r <? 0x80) eqn:Ea.
      - rewrite encode_rune_ascii by lia. constructor; [|constructor].
        assert (Hr10 : r <> 10) by (intros ->; congruence).
        assert (Hr256 : r < 256) by lia.
        split; [|split]; apply n2b_neq; try exact Hr256.
        + lia.
        + change (b2n c_bs) with 92. lia.
        + change (b2n c_nl) with 10. exact Hr10.
      - pose proof (encode_rune_high r ltac:(lia)) as Hh.
        eapply Forall_impl; [|exact Hh]. intros c Hc. cbv beta in Hc.
        split; [|split]; intros ->.
        + destruct Hq as [-> | ->]; cbn in Hc; lia.
        + cbn in Hc; lia.
        + cbn in Hc; lia. }
    destruct (r =? 7); [apply ck_esc; [discriminate | constructor]|].
    destruct (r =? 8); [apply ck_esc; [discriminate | constructor]|].
    destruct (r =? 12); [apply ck_esc; [discriminate | constructor]|].
    destruct (r =? 10); [apply ck_esc; [discriminate | constructor]|].
    destruct (r =? 13); [apply ck_esc; [discriminate | constructor]|].
    destruct (r =? 9); [apply ck_esc; [discriminate | constructor]|].
    destruct (r =? 11); [apply ck_esc; [discriminate | constructor]|].
    destruct ((r <? 32) || (r =? 127)); [apply ck_esc; [discriminate | apply hex2_plain; exact Hq]|].
    destruct (negb (valid_rune r)); [apply ck_esc; [discriminate | apply hex4_plain; exact Hq]|].
    destruct (r <? 0x10000); (apply ck_esc; [discriminate|]); [apply hex4_plain | apply hex8_plain]; exact Hq.
  Qed.

  Lemma quote_step_ok q s : is_quote q -> chunk_ok q (fst (quote_step is_print (b2n q) s)).
  Proof.
    intros Hq. unfold quote_step. destruct s as [|b0 t]; [apply ck_raw; constructor|].
    destruct (decode_rune (b0 :: t)) as [r w].
    destruct (Nat.eqb w 1 && (r =? rune_error)); cbn [fst].
    - apply ck_esc; [discriminate | apply hex2_plain; exact Hq].
    - apply escaped_rune_ok. exact Hq.
  Qed.

  Section Consumer.
    Variable q : byte.
    Hypothesis Hq : is_quote q.
    Variable f : str -> option (str * str).
    Hypothesis f_chunk : forall c X, chunk_ok q c -> f (c ++ X) = prepend c (f X).

    Lemma consumer_quote_body fuel s X :
      f (quote_body is_print (b2n q) fuel s ++ X) = prepend (quote_body is_print (b2n q) fuel s) (f X).
    Proof.
      revert s. induction fuel as [|fuel IH]; intros s; cbn [quote_body].
      - cbn [app]. symmetry. apply prepend_nil.
      - destruct s as [|b0 t]; [cbn [app]; symmetry; apply prepend_nil|].
        pose proof (quote_step_ok q (b0 :: t) Hq) as Hc.
        destruct (quote_step is_print (b2n q) (b0 :: t)) as [chunk w]. cbn [fst] in Hc.
        rewrite <- app_assoc. rewrite f_chunk by exact Hc. rewrite IH.
        apply prepend_prepend.
    Qed.
  End Consumer.

  Lemma chunk_ok_no_nl q c : chunk_ok q c -> ~ In c_nl c.
  Proof.
    intros [p Hp | e tail He Ht].
    - rewrite Forall_forall in Hp. intros Hin. destruct (Hp _ Hin) as (_ & _ & H). congruence.
    - rewrite Forall_forall in Ht. intros [E | [E | Hin]].
      + discriminate.
      + congruence.
      + destruct (Ht _ Hin) as (_ & _ & H). congruence.
  Qed.

  Lemma quote_body_no_nl q fuel s : is_quote q -> ~ In c_nl (quote_body is_print (b2n q) fuel s).
  Proof.
    intros Hq. revert s. induction fuel as [|fuel IH]; intros s; cbn [quote_body]; [intros []|].
    destruct s as [|b0 t]; [intros []|].
    pose proof (quote_step_ok q (b0 :: t) Hq) as Hc.
    destruct (quote_step is_print (b2n q) (b0 :: t)) as [chunk w]. cbn [fst] in Hc.
    intros Hin. apply in_app_or in Hin. destruct Hin as [Hin | Hin].
    - exact (chunk_ok_no_nl q chunk Hc Hin).
    - exact (IH _ Hin).
  Qed.
End Shape.
