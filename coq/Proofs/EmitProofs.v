(* THE EMIT SPEC (C01, C13): the text a group or a statement produces, as a function of the
   texts of its non-null items.

   Rendering threads the import table, so the spec is relational against the
   implementation-shaped loops (Model/Render.v group_loop, stmt_loop) with an ARBITRARY
   recursive renderer [rec]:

     item_texts cfg rec t items t' xs      (Proofs/CommentProofs.v)
     stmt_texts cfg rec all t items t' xs  (here)

   say: xs are the texts [rec] produced for exactly the items that were not null when the
   loop reached them, in order, and t' is the table after the last of them.  The text is
   then the pure function

     group_text sep multi first xs         (Proofs/CommentProofs.v; "emit")
       = concat over j of (sep unless it is the first item written) ++ ("\n" if multi) ++ x_j

   Nothing of Proofs/CommentProofs.v is duplicated here: group_text, item_texts,
   group_loop_text (the loop lemma), multi_group_layout (C15_multi_group_newline: every item
   of a separator-less multi-line group stands between newlines) and file_head_layout are
   used as they are. *)
From Jen Require Import Base.Bytes Model.Code Model.Naming Model.Render Model.FileRender Gen.Tables.
From Jen Require Import Proofs.NullProofs Proofs.CommentProofs.
From Coq Require Import Lia.

(* ------------------------------------------------------------------ the pure function *)
(* what stands in front of an item text besides the separator *)
Definition item_pre (multi : bool) (x : str) : str := (if multi then s_nl else []) ++ x.

Lemma group_text_app sep multi first a b :
  group_text sep multi first (a ++ b) =
  group_text sep multi first a ++ group_text sep multi (first && is_nil a) b.
Proof.
  revert first. induction a as [|x a IH]; intros first; cbn [app group_text is_nil].
  - rewrite andb_true_r. reflexivity.
  - rewrite IH, andb_false_r. cbn [andb]. rewrite <- !app_assoc. reflexivity.
Qed.

Lemma join_cons sep y ys : join sep (y :: ys) = y ++ concat_str (map (app sep) ys).
Proof.
  revert y. induction ys as [|z zs IH]; intros y; [cbn; rewrite app_nil_r; reflexivity|].
  change (join sep (y :: z :: zs)) with (y ++ sep ++ join sep (z :: zs)).
  rewrite IH. cbn [map concat_str]. rewrite <- app_assoc. reflexivity.
Qed.

Lemma group_text_rest sep multi xs :
  group_text sep multi false xs = concat_str (map (fun x => sep ++ item_pre multi x) xs).
Proof.
  induction xs as [|x xs IH]; [reflexivity|]. cbn [group_text map concat_str]. rewrite IH.
  unfold item_pre. rewrite <- !app_assoc. reflexivity.
Qed.

(* EMIT = INTERCALATE: the items (each preceded by a newline in a multi-line group) joined by
   the separator - between any two neighbours exactly one separator, none before the first,
   none after the last *)
Theorem group_text_join sep multi xs :
  group_text sep multi true xs = join sep (map (item_pre multi) xs).
Proof.
  destruct xs as [|x xs]; [reflexivity|]. cbn [group_text map]. rewrite join_cons, group_text_rest, map_map.
  unfold item_pre. cbn [app]. rewrite <- app_assoc. reflexivity.
Qed.

Corollary group_text_join_flat sep xs : group_text sep false true xs = join sep xs.
Proof.
  rewrite group_text_join. f_equal. rewrite <- (map_id xs) at 2. apply map_ext. reflexivity.
Qed.

(* SEPARATOR COUNT, on the bytes: besides the item texts the loop writes exactly
   (k - 1) separators (k if something was written before) and, in a multi-line group, k newlines *)
Theorem emit_separator_count sep multi first xs :
  length (group_text sep multi first xs) =
  length (concat_str xs) + (length xs - (if first then 1 else 0)) * length sep +
  (if multi then length xs else 0).
Proof.
  revert first. induction xs as [|x xs IH]; intros first.
  - destruct first, multi; reflexivity.
  - cbn [group_text concat_str length]. rewrite !app_length, IH.
    destruct first, multi; cbn [length s_nl Nat.sub Nat.mul]; rewrite ?Nat.sub_0_r; lia.
Qed.

(* ... and, for the one-byte separators of the table (`,` `:` `;` `|`), by counting: if the
   separator byte occurs in no item text, it occurs exactly k - 1 times in the list *)
Definition countb (b : byte) (s : str) : nat := length (filter (beq b) s).

Lemma countb_app b a c : countb b (a ++ c) = countb b a + countb b c.
Proof. unfold countb. rewrite filter_app, app_length. reflexivity. Qed.

Theorem emit_separator_occurrences b multi first xs :
  b <> x0a -> Forall (fun x => countb b x = 0) xs ->
  countb b (group_text [b] multi first xs) = length xs - (if first then 1 else 0).
Proof.
  intros Hb Hxs. revert first. induction Hxs as [|x xs Hx _ IH]; intros first.
  - destruct first; reflexivity.
  - cbn [group_text length]. rewrite !countb_app, Hx, IH.
    assert (Hnl : countb b s_nl = 0).
    { unfold countb, s_nl. cbn [filter]. apply beq_neq in Hb. rewrite Hb. reflexivity. }
    assert (Hs : countb b [b] = 1) by (unfold countb; cbn [filter]; rewrite beq_refl; reflexivity).
    destruct first, multi; rewrite ?Hnl, ?Hs; change (countb b []) with 0; lia.
Qed.

(* a multi-line group, any separator: every item text is directly preceded by a newline *)
Lemma group_text_multi_split sep first xs1 x xs2 :
  group_text sep true first (xs1 ++ x :: xs2) =
  (group_text sep true first xs1 ++ (if first && is_nil xs1 then [] else sep)) ++ [x0a] ++ x ++
  group_text sep true false xs2.
Proof. rewrite group_text_app. cbn [group_text]. rewrite <- !app_assoc. reflexivity. Qed.

(* what Group.render writes between the last item and the closer *)
Definition closer {A} (sep : str) (multi : bool) (cl : str) (xs : list A) : str :=
  if negb (is_nil xs) && multi && nonempty cl
  then (if str_eqb sep s_comma then s_comma ++ s_nl else s_nl) else [].

Lemma closer_flat {A} sep cl (xs : list A) : closer sep false cl xs = [].
Proof. unfold closer. rewrite andb_false_r. reflexivity. Qed.

Lemma closer_map {A B} (f : A -> B) sep multi cl xs : closer sep multi cl (map f xs) = closer sep multi cl xs.
Proof. destruct xs; reflexivity. Qed.

(* ------------------------------------------------------------------ the loops *)
(* Group.renderItems: restated from CommentProofs.group_loop_text under the name the design uses *)
Lemma group_loop_emit cfg rec name sep multi n l t first t' isnull text :
  group_loop cfg rec name sep multi n t first l = Ok (t', isnull, text) ->
  exists xs, item_texts cfg rec t l t' xs /\ text = group_text sep multi first xs /\
             isnull = (first && is_nil xs).
Proof. apply group_loop_text. Qed.

Lemma item_texts_length cfg rec t l t' xs : item_texts cfg rec t l t' xs -> length xs <= length l.
Proof. induction 1; cbn [length]; lia. Qed.

Section Stmt.
  Variable cfg : config.
  Variable rec : renderer.
  Variable all : list code.     (* the whole statement: Block looks back at its predecessor *)

  (* the texts [rec] produced for the items of a statement that are not null, in order *)
  Inductive stmt_texts : table -> list code -> table -> list str -> Prop :=
  | st_nil t : stmt_texts t [] t []
  | st_null t c l t' xs :
      is_null cfg t c = true -> stmt_texts t l t' xs -> stmt_texts t (c :: l) t' xs
  | st_item t c l r1 t' xs :
      is_null cfg t c = false -> rec (case_ctx all c) t c = Ok r1 ->
      stmt_texts (fst r1) l t' xs -> stmt_texts t (c :: l) t' (snd r1 :: xs).

  Lemma stmt_loop_emit : forall l t first t' text,
    stmt_loop cfg rec all t first l = Ok (t', text) ->
    exists xs, stmt_texts t l t' xs /\ text = group_text (S " ") false first xs.
  Proof.
    induction l as [|c l IH]; intros t first t' text H.
    - cbn in H. injection H as <- <-. exists []. split; [constructor | reflexivity].
    - cbn [stmt_loop] in H. destruct (is_null cfg t c) eqn:En.
      + destruct (IH _ _ _ _ H) as (xs & Hi & Ht). exists xs. split; [apply st_null; assumption | exact Ht].
      + destruct (rec (case_ctx all c) t c) as [r1|m1] eqn:E1; [|discriminate]. cbn [bind] in H.
        destruct (stmt_loop cfg rec all (fst r1) false l) as [r2|m2] eqn:E2; [|discriminate].
        cbn [bind] in H. injection H as <- <-. destruct r2 as [t2 x2].
        destruct (IH _ _ _ _ E2) as (xs & Hi & Ht). exists (snd r1 :: xs).
        split; [eapply st_item; eassumption|]. cbn [fst snd group_text app]. rewrite Ht. reflexivity.
  Qed.

  Lemma stmt_texts_fun t l t1 xs : stmt_texts t l t1 xs ->
    forall t2 ys, stmt_texts t l t2 ys -> t1 = t2 /\ xs = ys.
  Proof.
    induction 1 as [t | t c l t' xs En Hi IH | t c l r1 t' xs En Er Hi IH]; intros t2 ys H2.
    - inversion H2; subst. split; reflexivity.
    - inversion H2 as [| ? ? ? ? ? En' Hi' | ? ? ? r1' ? ? En' Er' Hi']; subst; [apply IH; exact Hi' | congruence].
    - inversion H2 as [| ? ? ? ? ? En' Hi' | ? ? ? r1' ? ? En' Er' Hi']; subst; [congruence|].
      rewrite Er in Er'. injection Er' as <-. destruct (IH _ _ Hi') as [-> ->]. split; reflexivity.
  Qed.
End Stmt.

(* ------------------------------------------------------------------ render of a Group / Statement *)
(* GROUP: open, the emitted items, the line end before a non-empty closer of a multi-line
   group that wrote something (`,` newline if the separator is the comma), the closer.  A
   `block` directly after case/default in its statement ([ctx]) is written without its
   braces; a `types` group whose items are all null is written as nothing at all. *)
Theorem render_group_emit cfg ctx t gid name o cl sep multi items t' out :
  render cfg ctx t (CGroup gid name o cl sep multi items) = Ok (t', out) ->
  let blank := str_eqb name s_block && ctx in
  let o' := if blank then [] else o in
  let cl' := if blank then [] else cl in
  (str_eqb name s_types && forallb (is_null cfg t) items = true /\ t' = t /\ out = []) \/
  (str_eqb name s_types && forallb (is_null cfg t) items = false /\
   exists xs, item_texts cfg (render cfg) t items t' xs /\
     out = o' ++ group_text sep multi true xs ++ closer sep multi cl' xs ++ cl').
Proof.
  intros H blank o' cl'. cbn [render] in H.
  destruct (str_eqb name s_types && forallb (is_null cfg t) items) eqn:Et.
  { injection H as <- <-. left. repeat split; reflexivity. }
  right. split; [reflexivity|].
  destruct (group_loop cfg (render cfg) name sep multi (length items) t true items) as [r|m] eqn:E; [|discriminate].
  cbn [bind] in H. injection H as <- <-. destruct r as [[t1 isnull] text]. cbn [fst snd].
  destruct (group_loop_text cfg (render cfg) _ _ _ _ _ _ _ _ _ _ E) as (xs & Hi & Ht & Hn).
  exists xs. split; [exact Hi|]. subst text isnull. cbn [andb]. reflexivity.
Qed.

(* STATEMENT: the non-null items' texts joined by single spaces *)
Theorem render_stmt_emit cfg ctx t items t' out :
  render cfg ctx t (CStmt items) = Ok (t', out) ->
  exists xs, stmt_texts cfg (render cfg) items t items t' xs /\ out = join (S " ") xs.
Proof.
  cbn [render]. intros H. destruct (stmt_loop_emit _ _ _ _ _ _ _ _ H) as (xs & Hi & Ht).
  exists xs. split; [exact Hi|]. rewrite Ht. apply group_text_join_flat.
Qed.

(* ------------------------------------------------------------------ settled items *)
(* The special case where every item that is written renders at table [t] without changing
   it (literals, identifiers, keywords, operators, calls of such, qualified identifiers of
   packages already imported ...; as [settled] in Proofs/DictProofs.v): the result is a closed
   formula over the items that are not null at [t]. *)
Section Settled.
  Variable cfg : config.
  Variable t : table.
  Variable txt : code -> str.      (* the text an item renders to at this table *)

  Definition live_item (c : code) : bool := negb (is_null cfg t c).

  (* the registration the group loop performs for a package token before looking at it *)
  Definition prereg_fixed (c : code) : Prop :=
    match c with CTok (TkPkg p) => exists n, register cfg t p = Ok (t, n) | _ => True end.

  Definition settled_items (items : list code) : Prop :=
    forall c, In c items ->
      prereg_fixed c /\ (is_null cfg t c = false -> render cfg false t c = Ok (t, txt c)).

  (* the only failure of the loop itself: Values(Dict, more) *)
  Definition no_values_panic (name : str) (n : nat) (items : list code) : Prop :=
    forall c, In c items -> is_null cfg t c = false ->
      str_eqb name s_values && is_dict c && Nat.ltb 1 n = false.

  Lemma dict_free_no_panic name n items : dict_free name items -> no_values_panic name n items.
  Proof.
    intros [H|H] c Hin _; [rewrite H; reflexivity|].
    rewrite forallb_forall in H. specialize (H c Hin). apply negb_true_iff in H.
    rewrite H, andb_false_r. reflexivity.
  Qed.

  Lemma forallb_null_live items : forallb (is_null cfg t) items = is_nil (filter live_item items).
  Proof.
    induction items as [|c l IH]; [reflexivity|]. cbn [forallb filter].
    change (live_item c) with (negb (is_null cfg t c)).
    destruct (is_null cfg t c); cbn [negb andb]; [exact IH | reflexivity].
  Qed.

  Lemma group_loop_settled name sep multi n items :
    settled_items items -> no_values_panic name n items -> forall first,
    group_loop cfg (render cfg) name sep multi n t first items =
    Ok (t, first && is_nil (filter live_item items),
        group_text sep multi first (map txt (filter live_item items))).
  Proof.
    induction items as [|c l IH]; intros Hs Hv first.
    - cbn. rewrite andb_true_r. reflexivity.
    - assert (Hs' : settled_items l) by (intros x Hx; apply Hs; right; exact Hx).
      assert (Hv' : no_values_panic name n l) by (intros x Hx; apply Hv; right; exact Hx).
      destruct (Hs c (or_introl eq_refl)) as [Hp Hr].
      assert (Hp' : match c with
                    | CTok (TkPkg p) => bind (register cfg t p) (fun r => Ok (fst r))
                    | _ => Ok t
                    end = Ok t).
      { destruct c as [| | |tk| | | | |]; try reflexivity. destruct tk; try reflexivity.
        destruct Hp as [n0 Hp]. rewrite Hp. reflexivity. }
      cbn [group_loop filter]. rewrite Hp'. cbn [bind]. change (live_item c) with (negb (is_null cfg t c)).
      destruct (is_null cfg t c) eqn:En; cbn [negb].
      + apply IH; assumption.
      + rewrite (Hv c (or_introl eq_refl) En), (Hr eq_refl). cbn [bind fst snd].
        rewrite (IH Hs' Hv' false). cbn [bind fst snd andb map group_text is_nil].
        rewrite andb_false_r. reflexivity.
  Qed.

  (* GROUP, settled: exactly the items that are not null, in order *)
  Theorem render_group_settled ctx gid name o cl sep multi items :
    settled_items items -> no_values_panic name (length items) items ->
    let live := filter live_item items in
    let blank := str_eqb name s_block && ctx in
    let o' := if blank then [] else o in
    let cl' := if blank then [] else cl in
    render cfg ctx t (CGroup gid name o cl sep multi items) =
    Ok (t, if str_eqb name s_types && is_nil live then []
           else o' ++ group_text sep multi true (map txt live) ++ closer sep multi cl' live ++ cl').
  Proof.
    intros Hs Hv live blank o' cl'. cbn [render]. rewrite forallb_null_live. fold live.
    destruct (str_eqb name s_types && is_nil live); [reflexivity|].
    rewrite (group_loop_settled name sep multi (length items) items Hs Hv true). fold live.
    cbn [bind fst snd andb]. fold blank. fold o'. fold cl'.
    unfold closer. destruct live; reflexivity.
  Qed.

  (* C13, "the rendered list contains exactly the remaining items, in order, with n-1
     separators": a list-like group (one line) with nullish items anywhere in it is
     open ++ (the texts of the non-null items of the rest, joined by the separator) ++ close *)
  Lemma live_nullish_insert xs ns ys :
    forallb nullish ns = true -> filter live_item (xs ++ ns ++ ys) = filter live_item (xs ++ ys).
  Proof.
    intros H. rewrite !filter_app. f_equal.
    assert (Hn : filter live_item ns = []).
    { induction ns as [|c l IH]; [reflexivity|]. cbn [forallb] in H. apply andb_true_iff in H.
      destruct H as [Hc Hl]. cbn [filter]. change (live_item c) with (negb (is_null cfg t c)).
      rewrite (nullish_is_null cfg c Hc t). cbn [negb]. apply IH. exact Hl. }
    rewrite Hn. reflexivity.
  Qed.

  Lemma settled_nullish_insert xs ns ys :
    forallb nullish ns = true -> settled_items (xs ++ ys) -> settled_items (xs ++ ns ++ ys).
  Proof.
    intros Hn Hs c Hin. apply in_app_or in Hin. destruct Hin as [Hin|Hin].
    - apply Hs. apply in_or_app. left. exact Hin.
    - apply in_app_or in Hin. destruct Hin as [Hin|Hin].
      + rewrite forallb_forall in Hn. specialize (Hn c Hin). split.
        * destruct c as [| | |tk| | | | |]; try exact I. destruct tk; try exact I. discriminate.
        * rewrite (nullish_is_null cfg c Hn t). discriminate.
      + apply Hs. apply in_or_app. right. exact Hin.
  Qed.

  Theorem list_exactly_remaining_items ctx gid name o cl sep xs ns ys :
    forallb nullish ns = true -> settled_items (xs ++ ys) -> dict_free name (xs ++ ys) ->
    let live := filter live_item (xs ++ ys) in
    let blank := str_eqb name s_block && ctx in
    render cfg ctx t (CGroup gid name o cl sep false (xs ++ ns ++ ys)) =
    Ok (t, if str_eqb name s_types && is_nil live then []
           else (if blank then [] else o) ++ join sep (map txt live) ++ (if blank then [] else cl)).
  Proof.
    intros Hn Hs Hd live blank.
    assert (Hv : no_values_panic name (length (xs ++ ns ++ ys)) (xs ++ ns ++ ys)).
    { intros c Hin Hnull. apply (dict_free_no_panic name _ (xs ++ ys) Hd); [|exact Hnull].
      apply in_app_or in Hin. destruct Hin as [Hin|Hin]; [apply in_or_app; left; exact Hin|].
      apply in_app_or in Hin. destruct Hin as [Hin|Hin]; [|apply in_or_app; right; exact Hin].
      rewrite forallb_forall in Hn. rewrite (nullish_is_null cfg c (Hn c Hin) t) in Hnull. discriminate. }
    rewrite (render_group_settled ctx gid name o cl sep false _ (settled_nullish_insert xs ns ys Hn Hs) Hv).
    rewrite (live_nullish_insert xs ns ys Hn). fold live. fold blank.
    rewrite closer_flat, group_text_join_flat. reflexivity.
  Qed.

  (* Empty() - a token with empty text - is an item: it is never null, its text is "", and it
     takes its place between separators *)
  Theorem empty_takes_part ctx gid name o cl sep xs ys :
    settled_items (xs ++ CTok (TkText []) :: ys) -> dict_free name (xs ++ CTok (TkText []) :: ys) ->
    str_eqb name s_types = false ->
    let blank := str_eqb name s_block && ctx in
    render cfg ctx t (CGroup gid name o cl sep false (xs ++ CTok (TkText []) :: ys)) =
    Ok (t, (if blank then [] else o) ++
           join sep (map txt (filter live_item xs) ++ [] :: map txt (filter live_item ys)) ++
           (if blank then [] else cl)).
  Proof.
    intros Hs Hd Hty blank.
    pose proof (list_exactly_remaining_items ctx gid name o cl sep (xs ++ CTok (TkText []) :: ys) [] []
                  eq_refl) as H.
    cbn [app] in H. rewrite !app_nil_r in H. rewrite (H Hs Hd). clear H. rewrite Hty. cbn [andb].
    fold blank. rewrite filter_app, map_app. cbn [filter live_item is_null negb map].
    assert (He : txt (CTok (TkText [])) = []).
    { destruct (Hs (CTok (TkText [])) (in_elt _ _ _)) as [_ Hr].
      specialize (Hr eq_refl). cbn in Hr. injection Hr as Hr. symmetry. exact Hr. }
    rewrite He. reflexivity.
  Qed.

  (* STATEMENT, settled *)
  Lemma stmt_loop_settled all l :
    (forall c, In c l -> is_null cfg t c = false -> render cfg (case_ctx all c) t c = Ok (t, txt c)) ->
    forall first,
    stmt_loop cfg (render cfg) all t first l =
    Ok (t, group_text (S " ") false first (map txt (filter live_item l))).
  Proof.
    induction l as [|c l IH]; intros Hs first; [reflexivity|].
    cbn [stmt_loop filter]. change (live_item c) with (negb (is_null cfg t c)).
    destruct (is_null cfg t c) eqn:En; cbn [negb].
    - apply IH. intros x Hx. apply Hs. right. exact Hx.
    - rewrite (Hs c (or_introl eq_refl) En). cbn [bind fst snd].
      rewrite (IH (fun x Hx => Hs x (or_intror Hx)) false). reflexivity.
  Qed.

  Definition settled_stmt (items : list code) : Prop :=
    forall c, In c items -> is_null cfg t c = false -> render cfg (case_ctx items c) t c = Ok (t, txt c).

  Theorem render_stmt_settled ctx items :
    settled_stmt items ->
    render cfg ctx t (CStmt items) = Ok (t, join (S " ") (map txt (filter live_item items))).
  Proof.
    intros Hs. cbn [render]. rewrite (stmt_loop_settled items items Hs true).
    rewrite group_text_join_flat. reflexivity.
  Qed.
End Settled.

(* ------------------------------------------------------------------ the file *)
(* File.Render before formatting: header comments each on its line and an empty line (only
   if there are any), package comments each on its line, the package clause (with the
   canonical import path as a comment when set) and an empty line, the import block computed
   from the table AFTER the body was rendered, then the body: the file's non-null items, each
   preceded by a newline (a multi-line group without delimiters). *)
Theorem file_raw_layout f t raw :
  file_raw f = Ok (t, raw) ->
  exists xs, item_texts (file_cfg f) (render (file_cfg f)) (f_imports f) (f_items f) t xs /\
    raw = header_block (f_headers f) ++ comment_lines (f_comments f) ++ package_clause f ++
          render_imports t (f_cgo f) ++ concat_str (map (fun x => x0a :: x) xs).
Proof.
  unfold file_raw, file_group. intros H.
  destruct (render (file_cfg f) false (f_imports f) (CGroup 0 [] [] [] [] true (f_items f))) as [[t1 body]|m] eqn:E;
    [|discriminate].
  cbn [bind fst snd] in H. injection H as <- <-.
  destruct (render_group_emit _ _ _ _ _ _ _ _ _ _ _ _ E) as [(Hty & _) | (_ & xs & Hi & Hout)];
    [discriminate|].
  exists xs. split; [exact Hi|]. rewrite file_head_layout, <- !app_assoc. do 4 f_equal.
  rewrite Hout. change (str_eqb [] s_block && false) with false. cbv iota.
  rewrite group_text_multi_nosep. unfold closer. rewrite andb_false_r. cbn [app]. rewrite app_nil_r. reflexivity.
Qed.
