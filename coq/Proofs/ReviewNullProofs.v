(* Review item C13: null items vanish from a STATEMENT chain too - except where the inserted
   item separates a Block from the Case / default it follows.

   Statement.render asks, for every item that is a group, what the item IMMEDIATELY before
   the group's first occurrence is (Statement.previous, model: [prev_of] / [case_ctx]) -
   null or not.  A `block` group whose predecessor is a Case group or a `default` token is
   written without braces.  So inserting a null item between `Case(..)` and `Block(..)`
   brings the braces back: the text changes.  This file proves the invariance under the
   side condition that excludes exactly that adjacency, and nothing else. *)
From Jen Require Import Base.Bytes Base.Sort Model.Code Model.Naming Model.Render Gen.Tables.
From Jen Require Import Proofs.NullProofs.
From Coq Require Import Lia.
Local Open Scope bool_scope.

(* ------------------------------------------------------------------ vocabulary *)
Definition has_gid (g : N) (c : code) : bool :=
  match c with CGroup g' _ _ _ _ _ _ => N.eqb g' g | _ => false end.

Definition is_block (c : code) : bool :=
  match c with CGroup _ name _ _ _ _ _ => str_eqb name s_block | _ => false end.

(* the last item of a list is a Case group or a `default` token ([] : no) *)
Definition last_is_case (l : list code) : bool := is_case_or_default (last l CNil).

Definition hd_is_block (l : list code) : bool :=
  match l with y :: _ => is_block y | [] => false end.

(* THE SIDE CONDITION: if the item after the insertion point is a `block` group, the item
   in front of it answers the case/default test the same way before and after the
   insertion *)
Definition stmt_insert_ok (xs ns ys : list code) : Prop :=
  hd_is_block ys = true -> last_is_case (xs ++ ns) = last_is_case xs.

(* a group identity denotes one group: items of the chain with the same identity are the
   same value (in Go the identity is the pointer) *)
Definition gids_consistent (l : list code) : Prop :=
  forall a b g, In a l -> In b l -> has_gid g a = true -> has_gid g b = true -> a = b.

(* ------------------------------------------------------------------ Statement.previous *)
Fixpoint lasto (p : option code) (l : list code) : option code :=
  match l with [] => p | x :: r => lasto (Some x) r end.

Definition ocase (o : option code) : bool :=
  match o with Some p => is_case_or_default p | None => false end.

Lemma prev_of_cons g p x r :
  prev_of g p (x :: r) = if has_gid g x then p else prev_of g (Some x) r.
Proof. destruct x; reflexivity. Qed.

Lemma prev_of_app_hit g xs l : forall p,
  existsb (has_gid g) xs = true -> prev_of g p (xs ++ l) = prev_of g p xs.
Proof.
  induction xs as [|x xs IH]; intros p H; [discriminate|].
  cbn [app]. rewrite !prev_of_cons. cbn [existsb] in H.
  destruct (has_gid g x); [reflexivity|]. apply IH. exact H.
Qed.

Lemma prev_of_app_miss g xs l : forall p,
  existsb (has_gid g) xs = false -> prev_of g p (xs ++ l) = prev_of g (lasto p xs) l.
Proof.
  induction xs as [|x xs IH]; intros p H; [reflexivity|].
  cbn [app lasto]. rewrite prev_of_cons. cbn [existsb] in H. apply orb_false_iff in H.
  destruct H as [H1 H2]. rewrite H1. apply IH. exact H2.
Qed.

Lemma lasto_app p a b : lasto p (a ++ b) = lasto (lasto p a) b.
Proof. revert p. induction a as [|x a IH]; intros p; [reflexivity|]. cbn [app lasto]. apply IH. Qed.

Lemma lasto_last l : forall p, lasto p l = match l with [] => p | _ => Some (last l CNil) end.
Proof.
  induction l as [|x l IH]; intros p; [reflexivity|]. cbn [lasto]. rewrite IH.
  destruct l; reflexivity.
Qed.

Lemma ocase_lasto l : ocase (lasto None l) = last_is_case l.
Proof. rewrite lasto_last. destruct l; reflexivity. Qed.

Lemma existsb_has_gid_In g l : existsb (has_gid g) l = true -> exists x, In x l /\ has_gid g x = true.
Proof. intros H. apply existsb_exists in H. exact H. Qed.

Lemma In_has_gid g l x : In x l -> has_gid g x = true -> existsb (has_gid g) l = true.
Proof. intros Hin H. apply existsb_exists. exists x. split; assumption. Qed.

(* ------------------------------------------------------------------ the context of an item *)
Lemma case_ctx_prev all c :
  case_ctx all c = match c with CGroup g _ _ _ _ _ _ => ocase (prev_of g None all) | _ => false end.
Proof. destruct c; reflexivity. Qed.

(* the only items whose text depends on the context are `block` groups *)
Lemma render_ctx_nonblock cfg c : is_block c = false ->
  forall b b' t, render cfg b t c = render cfg b' t c.
Proof.
  destruct c as [| | |tk|gid name o cl sep multi items|items|pairs|kvs|s]; intros H b b' t; try reflexivity.
  cbn [is_block] in H. cbn [render]. rewrite H. reflexivity.
Qed.

(* KEY LEMMA: for a block group of the chain that is not itself one of the vanishing items,
   the answer of Statement.previous' case/default test is unchanged by the insertion *)
Lemma case_ctx_insert xs ns ys c :
  forallb nullish ns = true -> gids_consistent (xs ++ ns ++ ys) -> stmt_insert_ok xs ns ys ->
  In c (xs ++ ys) -> is_block c = true -> nullish c = false ->
  case_ctx (xs ++ ns ++ ys) c = case_ctx (xs ++ ys) c.
Proof.
  intros Hns Hcons Hok Hin Hb Hnn.
  destruct c as [| | |tk|g name o cl sep multi items|items|pairs|kvs|s]; try discriminate.
  set (c := CGroup g name o cl sep multi items) in *.
  assert (Hgc : has_gid g c = true) by (cbn; apply N.eqb_refl).
  rewrite !case_ctx_prev. unfold c. cbv iota. fold c.
  destruct (existsb (has_gid g) xs) eqn:Ex.
  - rewrite (prev_of_app_hit g xs (ns ++ ys) None Ex), (prev_of_app_hit g xs ys None Ex). reflexivity.
  - assert (Hcy : In c ys).
    { apply in_app_or in Hin. destruct Hin as [Hin|Hin]; [|exact Hin].
      rewrite (In_has_gid g xs c Hin Hgc) in Ex. discriminate. }
    rewrite (prev_of_app_miss g xs (ns ++ ys) None Ex), (prev_of_app_miss g xs ys None Ex).
    assert (En : existsb (has_gid g) ns = false).
    { destruct (existsb (has_gid g) ns) eqn:En; [|reflexivity]. exfalso.
      destruct (existsb_has_gid_In _ _ En) as (n & Hn & Hgn).
      assert (E : n = c).
      { apply (Hcons n c g); try assumption; apply in_or_app; right; apply in_or_app; [left | right]; assumption. }
      subst n. rewrite forallb_forall in Hns. rewrite (Hns _ Hn) in Hnn. discriminate. }
    rewrite (prev_of_app_miss g ns ys _ En).
    destruct ys as [|y ys']; [destruct Hcy|].
    rewrite !prev_of_cons. destruct (has_gid g y) eqn:Ey; [|reflexivity].
    assert (E : y = c).
    { apply (Hcons y c g); try assumption; apply in_or_app; right; apply in_or_app; right; [left; reflexivity | exact Hcy]. }
    rewrite <- lasto_app, !ocase_lasto. apply Hok. cbn [hd_is_block]. rewrite E. exact Hb.
Qed.

Section StmtNull.
  Variable cfg : config.

  (* Statement.render skips items that are null *)
  Lemma stmt_loop_skip all ns l t first :
    forallb nullish ns = true ->
    stmt_loop cfg (render cfg) all t first (ns ++ l) = stmt_loop cfg (render cfg) all t first l.
  Proof.
    induction ns as [|c ns IH]; intros H; [reflexivity|]. cbn [forallb] in H.
    apply andb_true_iff in H. destruct H as [Hc Hns]. cbn [app stmt_loop].
    rewrite (nullish_is_null cfg c Hc t). apply IH. exact Hns.
  Qed.

  Lemma stmt_loop_insert all xs ns ys : forallb nullish ns = true -> forall t first,
    stmt_loop cfg (render cfg) all t first (xs ++ ns ++ ys) = stmt_loop cfg (render cfg) all t first (xs ++ ys).
  Proof.
    intros Hns. induction xs as [|c xs IH]; intros t first; cbn [app].
    - apply stmt_loop_skip. exact Hns.
    - cbn [stmt_loop]. destruct (is_null cfg t c); [apply IH|].
      destruct (render cfg (case_ctx all c) t c) as [r1|m]; cbn [bind]; [|reflexivity].
      rewrite IH. reflexivity.
  Qed.

  (* the chain the context is computed from may be replaced by another one when every item
     that is written and is a block gets the same answer *)
  Lemma stmt_loop_ctx all all' l :
    (forall c, In c l -> nullish c = true \/ is_block c = false \/ case_ctx all c = case_ctx all' c) ->
    forall t first, stmt_loop cfg (render cfg) all t first l = stmt_loop cfg (render cfg) all' t first l.
  Proof.
    induction l as [|c l IH]; intros H t first; [reflexivity|]. cbn [stmt_loop].
    assert (IH' : forall t first, stmt_loop cfg (render cfg) all t first l = stmt_loop cfg (render cfg) all' t first l).
    { apply IH. intros x Hx. apply H. right. exact Hx. }
    destruct (is_null cfg t c) eqn:En; [apply IH'|].
    assert (Hr : render cfg (case_ctx all c) t c = render cfg (case_ctx all' c) t c).
    { destruct (H c (or_introl eq_refl)) as [Hn|[Hb|Hc]].
      - rewrite (nullish_is_null cfg c Hn t) in En. discriminate.
      - apply render_ctx_nonblock. exact Hb.
      - rewrite Hc. reflexivity. }
    rewrite Hr. destruct (render cfg (case_ctx all' c) t c) as [r1|m]; cbn [bind]; [|reflexivity].
    rewrite IH'. reflexivity.
  Qed.

  (* NULL INVARIANCE FOR STATEMENTS: inserting nullish items anywhere in a statement chain -
     any number, any position - changes neither the rendered bytes nor the import table, from
     every state and in every context, nor whether the statement itself is null; provided the
     insertion does not change what stands directly in front of a Block (stmt_insert_ok). *)
  Theorem stmt_null_invariance xs ns ys :
    forallb nullish ns = true -> gids_consistent (xs ++ ns ++ ys) -> stmt_insert_ok xs ns ys ->
    (forall ctx t, render cfg ctx t (CStmt (xs ++ ns ++ ys)) = render cfg ctx t (CStmt (xs ++ ys))) /\
    (forall t, is_null cfg t (CStmt (xs ++ ns ++ ys)) = is_null cfg t (CStmt (xs ++ ys))).
  Proof.
    intros Hns Hcons Hok. split.
    - intros ctx t. cbn [render]. rewrite stmt_loop_insert by exact Hns.
      apply stmt_loop_ctx. intros c Hin.
      destruct (nullish c) eqn:Hn; [left; reflexivity|]. right.
      destruct (is_block c) eqn:Hb; [|left; reflexivity]. right.
      apply case_ctx_insert; assumption.
    - intros t. cbn [is_null]. apply forallb_is_null_insert. exact Hns.
  Qed.

  (* ... and the two statements are interchangeable anywhere (closure under nesting with
     group_cong / stmt_cong of NullProofs.v) *)
  Theorem stmt_null_req xs ns ys :
    forallb nullish ns = true -> gids_consistent (xs ++ ns ++ ys) -> stmt_insert_ok xs ns ys ->
    req cfg (CStmt (xs ++ ns ++ ys)) (CStmt (xs ++ ys)).
  Proof.
    intros Hns Hcons Hok. destruct (stmt_null_invariance xs ns ys Hns Hcons Hok) as [H1 H2].
    split; [exact I|]. split; assumption.
  Qed.
End StmtNull.

(* the side condition in the words of the review: it holds whenever it is NOT the case that
   the item after the insertion point is a `block` group and (the last item before it is a
   Case group or a `default` token, or the last inserted item is one) *)
Lemma stmt_insert_ok_simple xs ns ys :
  hd_is_block ys && (last_is_case xs || last_is_case ns) = false -> stmt_insert_ok xs ns ys.
Proof.
  intros H Hb. rewrite Hb in H. cbn [andb] in H. apply orb_false_iff in H. destruct H as [H1 H2].
  rewrite H1. destruct ns as [|n ns'].
  - rewrite app_nil_r. exact H1.
  - rewrite <- ocase_lasto, lasto_app. cbn [lasto]. rewrite <- ocase_lasto in H2. exact H2.
Qed.

(* nothing else is excluded: an empty insertion, or an insertion in front of anything but a
   block, always meets the condition *)
Lemma stmt_insert_ok_nonblock xs ns ys : hd_is_block ys = false -> stmt_insert_ok xs ns ys.
Proof. intros H Hb. congruence. Qed.

(* items that the API can build are never both nullish and Case/default: a Case group has
   the opening text "case " *)
Lemma nullish_not_case_group gid o cl sep multi items :
  nonempty o = true -> nullish (CGroup gid s_case o cl sep multi items) = false.
Proof. intros H. cbn [nullish]. rewrite H. reflexivity. Qed.

(* distinct identities: the usual way to meet gids_consistent *)
Definition gid_list (l : list code) : list N :=
  flat_map (fun c => match c with CGroup g _ _ _ _ _ _ => [g] | _ => [] end) l.

Lemma gids_consistent_NoDup l : NoDup (gid_list l) -> gids_consistent l.
Proof.
  induction l as [|x l IH]; intros Hnd a b g Ha Hb Hga Hgb; [destruct Ha|].
  assert (Hin : forall y, In y l -> has_gid g y = true -> In g (gid_list l)).
  { intros y Hy Hgy. unfold gid_list. apply in_flat_map. exists y. split; [exact Hy|].
    destruct y; try discriminate. cbn in Hgy. apply N.eqb_eq in Hgy. subst. left. reflexivity. }
  assert (Hx : has_gid g x = true -> gid_list (x :: l) = g :: gid_list l).
  { intros Hgx. destruct x; try discriminate. cbn in Hgx. apply N.eqb_eq in Hgx. subst. reflexivity. }
  assert (Hnd' : NoDup (gid_list l)).
  { unfold gid_list in *. cbn [flat_map] in Hnd. destruct x; try exact Hnd. inversion Hnd; assumption. }
  destruct Ha as [<-|Ha], Hb as [<-|Hb].
  - reflexivity.
  - exfalso. rewrite (Hx Hga) in Hnd. inversion Hnd as [|? ? Hni _]; subst. apply Hni. eapply Hin; eassumption.
  - exfalso. rewrite (Hx Hgb) in Hnd. inversion Hnd as [|? ? Hni _]; subst. apply Hni. eapply Hin; eassumption.
  - apply (IH Hnd' a b g); assumption.
Qed.

(* ------------------------------------------------------------------ the exception is real *)
Definition ex_case : code :=
  CGroup 1 s_case (S "case ") (S ":") (S ",") false [CStmt [CTok (TkId (S "x"))]].
Definition ex_block : code :=
  CGroup 2 s_block (S "{") (S "}") [] true [CStmt [CTok (TkId (S "y"))]].

(* Case(x).Block(y) renders the block without braces; Case(x).Add(Null()).Block(y) - one null
   item in between - renders it WITH braces.  Also for the typed nil *Group (no panic in the
   model; none in /repo since 22d7055). *)
Lemma stmt_case_block_exception :
  let cfg := mkcfg [] [] [] in
  forallb nullish [CTok TkNull] = true /\
  gids_consistent ([ex_case] ++ [CTok TkNull] ++ [ex_block]) /\
  ~ stmt_insert_ok [ex_case] [CTok TkNull] [ex_block] /\
  render cfg false [] (CStmt ([ex_case] ++ [ex_block])) = Ok ([], S "case x: " ++ [x0a] ++ S "y") /\
  render cfg false [] (CStmt ([ex_case] ++ [CTok TkNull] ++ [ex_block])) =
    Ok ([], S "case x: {" ++ [x0a] ++ S "y" ++ [x0a] ++ S "}") /\
  render cfg false [] (CStmt ([ex_case] ++ [CNilGroup] ++ [ex_block])) =
    Ok ([], S "case x: {" ++ [x0a] ++ S "y" ++ [x0a] ++ S "}").
Proof.
  cbv zeta. split; [reflexivity|]. split.
  - apply gids_consistent_NoDup. vm_compute. repeat constructor; simpl; intuition discriminate.
  - split; [intros H; specialize (H eq_refl); vm_compute in H; discriminate|].
    repeat split; vm_compute; reflexivity.
Qed.
