(* C16 / C07 / C04, closing the gaps a review found in the first statements:

     isort_by_stable, isort_by_characterised   the sort is stable (ties keep the map order)
     dict_spec_general        what a Dict renders to from ANY table (no settledness): the
                              surviving pairs as (pure key text, pure value text) at the FINAL
                              table, sorted by key text
     dict_perm_general        two iteration orders give the same bytes and table when the
                              surviving KEYS are settled and distinct; values may register
     dict_equal_keys_refuted  with two equal key texts the output follows the map order
     tree_perm, maps_ok, render_tree_perm   the same for Dicts and Tags nested anywhere, side
                              condition at the starting table (kept by every registration)
     pure_maps_ok, render_tree_perm_covered   ... at a covered table: distinct pure key texts
     maps_okb                 an executable check of maps_ok
     maps_safe, render_tree_perm_threaded     ... side condition at the table each Dict is
                              REACHED with (follows the traversal); maps_ok implies it
     occs_iff_rendered_qual   occs = the paths of the rendered qualified identifiers *)
From Jen Require Import Base.Bytes Base.Sort Model.Code Model.Naming Model.Render Model.FileRender Gen.Tables.
From Jen Require Import Proofs.NamingProofs Proofs.RenderProofs Proofs.CommentProofs Proofs.EmitProofs
                        Proofs.DictProofs Proofs.OccsProofs Proofs.TagProofs Spec.Pure Proofs.PureProofs.
From Coq Require Import Lia Permutation Sorted.
Local Open Scope bool_scope.

(* ------------------------------------------------------------------ the sort is stable *)
Section StableSort.
  Context {A : Type} (key : A -> str).

  Definition has_key (k : str) (x : A) : bool := str_eqb (key x) k.

  Lemma insert_by_filter_key k x l :
    filter (has_key k) (insert_by key x l) = filter (has_key k) (x :: l).
  Proof.
    induction l as [|y l IH]; [reflexivity|]. cbn [insert_by].
    destruct (str_leb (key x) (key y)) eqn:E; [reflexivity|].
    cbn [filter] in *. rewrite IH. unfold has_key.
    destruct (str_eqb_spec (key x) k) as [Ex|Ex]; [|reflexivity].
    destruct (str_eqb_spec (key y) k) as [Ey|Ey]; [|reflexivity].
    rewrite Ex, Ey, str_leb_refl in E. discriminate.
  Qed.

  (* STABILITY: for every key text, the elements carrying it come out in the order in which
     they went in *)
  Lemma isort_by_stable k l : filter (has_key k) (isort_by key l) = filter (has_key k) l.
  Proof.
    induction l as [|x l IH]; [reflexivity|]. cbn [isort_by]. rewrite insert_by_filter_key.
    cbn [filter]. rewrite IH. reflexivity.
  Qed.

  Lemma filter_has_key_In k x l : In x (filter (has_key k) l) -> In x l /\ key x = k.
  Proof. intros H. apply filter_In in H. destruct H as [H1 H2]. split; [exact H1 | apply str_eqb_eq; exact H2]. Qed.

  (* ... and this determines the result: a list that is sorted by key and holds, for every
     key text, exactly the elements of l with that key in their order in l, IS isort_by l *)
  Lemma sorted_stable_unique l1 : forall l2,
    StronglySorted (key_le key) l1 -> StronglySorted (key_le key) l2 ->
    (forall k, filter (has_key k) l1 = filter (has_key k) l2) -> l1 = l2.
  Proof.
    induction l1 as [|x l1 IH]; intros l2 Hs1 Hs2 Hf.
    - destruct l2 as [|y l2]; [reflexivity|]. specialize (Hf (key y)). cbn [filter] in Hf.
      unfold has_key at 1 in Hf. rewrite str_eqb_refl in Hf. discriminate.
    - destruct l2 as [|y l2].
      { specialize (Hf (key x)). cbn [filter] in Hf. unfold has_key at 1 in Hf. rewrite str_eqb_refl in Hf. discriminate. }
      inversion Hs1 as [|? ? Hs1' Hall1]; subst. inversion Hs2 as [|? ? Hs2' Hall2]; subst.
      assert (Hk : key x = key y).
      { assert (Hx : In x (filter (has_key (key x)) (y :: l2))).
        { rewrite <- Hf. cbn [filter]. unfold has_key at 1. rewrite str_eqb_refl. left. reflexivity. }
        assert (Hy : In y (filter (has_key (key y)) (x :: l1))).
        { rewrite Hf. cbn [filter]. unfold has_key at 1. rewrite str_eqb_refl. left. reflexivity. }
        apply filter_has_key_In in Hx. apply filter_has_key_In in Hy. destruct Hx as [Hx _], Hy as [Hy _].
        rewrite Forall_forall in Hall1, Hall2. unfold key_le in *.
        destruct Hx as [Hx|Hx]; [congruence|]. destruct Hy as [Hy|Hy]; [congruence|].
        apply str_leb_antisym; [apply Hall1; exact Hy | apply Hall2; exact Hx]. }
      assert (Hxy : x = y).
      { pose proof (Hf (key x)) as H. cbn [filter] in H.
        assert (H1 : has_key (key x) x = true) by (unfold has_key; apply str_eqb_refl).
        assert (H2 : has_key (key x) y = true) by (unfold has_key; rewrite Hk; apply str_eqb_refl).
        rewrite H1, H2 in H. congruence. }
      subst y. f_equal. apply IH; try assumption.
      intros k. specialize (Hf k). cbn [filter] in Hf. destruct (has_key k x); congruence.
  Qed.

  Theorem isort_by_characterised l s :
    StronglySorted (key_le key) s -> (forall k, filter (has_key k) s = filter (has_key k) l) ->
    s = isort_by key l.
  Proof.
    intros Hs Hf. apply sorted_stable_unique; [exact Hs | apply isort_by_sorted|].
    intros k. rewrite isort_by_stable. apply Hf.
  Qed.
End StableSort.

(* ------------------------------------------------------------------ C16: Dict from any table *)
Section DictGeneral.
  Variable cfg : config.
  Hypothesis Hcfg : cfg_ok cfg.

  (* the PURE texts of a pair's key and value at a table *)
  Definition ktext (t : table) (kv : code * code) : str := the_text cfg t false (fst kv).
  Definition vtext (t : table) (kv : code * code) : str := the_text cfg t false (snd kv).

  Lemma live_ext t t' kv : ext cfg t t' -> live cfg t' kv = live cfg t kv.
  Proof. intros He. unfold live. rewrite !(is_null_ext cfg _ _ _ He). reflexivity. Qed.

  (* the pairs that survive are the same at the table a render starts from and at the one it
     leaves: no registration changes null-ness *)
  Lemma dict_live_final ctx t pairs t1 s :
    render cfg ctx t (CDict pairs) = Ok (t1, s) -> filter (live cfg t1) pairs = filter (live cfg t) pairs.
  Proof.
    intros H. destruct (render_stable cfg Hcfg _ _ _ _ _ H) as [He _].
    apply filter_ext. intros kv. apply live_ext. exact He.
  Qed.

  (* every surviving key and value has a pure text at the final table, and it is the text a
     render of it from the final table writes (without touching the table) *)
  Lemma dict_texts_exist ctx t pairs t1 s :
    render cfg ctx t (CDict pairs) = Ok (t1, s) ->
    forall kv, In kv pairs -> live cfg t1 kv = true ->
      ptext cfg t1 false (fst kv) = Ok (ktext t1 kv) /\ ptext cfg t1 false (snd kv) = Ok (vtext t1 kv) /\
      render cfg false t1 (fst kv) = Ok (t1, ktext t1 kv) /\ render cfg false t1 (snd kv) = Ok (t1, vtext t1 kv).
  Proof.
    intros H kv Hin Hl.
    destruct (render_factorisation cfg Hcfg _ _ _ _ _ H) as [Hp Hcov].
    rewrite ptext_dict in Hp.
    destruct (pdict_entries cfg t1 (ptext cfg t1) pairs) as [es|m] eqn:Ee; cbn [bind] in Hp; [|discriminate].
    destruct (pvalues (isort_by fst es)) as [kvs|m] eqn:Ev; cbn [bind] in Hp; [|discriminate].
    destruct (pdict_entries_spec cfg t1 _ _ _ Ee) as [-> Hkeys].
    assert (Hl' : In kv (filter (live cfg t1) pairs)) by (apply filter_In; split; assumption).
    assert (Hie : In (pentry_of (ptext cfg t1) kv)
                     (isort_by fst (map (pentry_of (ptext cfg t1)) (filter (live cfg t1) pairs)))).
    { apply isort_by_In. apply in_map. exact Hl'. }
    destruct (pvalues_In _ _ _ Ev Hie) as (v & Hv & _). cbn [pentry_of fst snd] in Hv.
    pose proof (Hkeys kv Hl') as Hk.
    assert (Ek : ptext cfg t1 false (fst kv) = Ok (ktext t1 kv)).
    { unfold ktext, the_text. rewrite Hk. reflexivity. }
    assert (Evv : ptext cfg t1 false (snd kv) = Ok (vtext t1 kv)).
    { unfold vtext, the_text. rewrite Hv. reflexivity. }
    split; [exact Ek|]. split; [exact Evv|].
    unfold covered in Hcov. rewrite occs_dict in Hcov.
    pose proof (reg_in_flat_map _ _ _ _ Hcov Hin) as Hr. unfold pair_occs, dead in Hr.
    unfold live in Hl. apply negb_true_iff in Hl. rewrite Hl in Hr.
    split.
    - rewrite (render_covered cfg t1 (fst kv) (reg_in_app_l _ _ _ Hr) false), Ek. reflexivity.
    - rewrite (render_covered cfg t1 (snd kv) (reg_in_app_r _ _ _ Hr) false), Evv. reflexivity.
  Qed.

  (* THE GENERAL DICT SPECIFICATION.  No hypothesis on the table or on what keys and values
     register: whenever a Dict renders, from any table t, what it wrote is the dict_body of
     the surviving pairs - each exactly once - as (pure key text, pure value text) at the
     final table t1, sorted by key text *)
  Theorem dict_spec_general ctx t pairs t1 s :
    render cfg ctx t (CDict pairs) = Ok (t1, s) ->
    s = dict_body (isort_by fst (map (fun kv => (ktext t1 kv, vtext t1 kv)) (filter (live cfg t1) pairs))).
  Proof.
    intros H. destruct (render_factorisation cfg Hcfg _ _ _ _ _ H) as [Hp _].
    rewrite (ptext_dict_ok cfg t1 ctx pairs) in Hp.
    - injection Hp as <-. reflexivity.
    - intros kv Hin Hl. destruct (dict_texts_exist _ _ _ _ _ H kv Hin Hl) as (Hk & Hv & _).
      split; eexists; eassumption.
  Qed.

  (* the same with null-ness judged at the table the render started from *)
  Corollary dict_spec_general_initial ctx t pairs t1 s :
    render cfg ctx t (CDict pairs) = Ok (t1, s) ->
    s = dict_body (isort_by fst (map (fun kv => (ktext t1 kv, vtext t1 kv)) (filter (live cfg t) pairs))).
  Proof. intros H. rewrite <- (dict_live_final _ _ _ _ _ H). apply (dict_spec_general _ _ _ _ _ H). Qed.

  (* Values(Dict{...}) *)
  Theorem values_dict_spec_general ctx gid t pairs t1 s :
    render cfg ctx t (CGroup gid s_values (S "{") (S "}") (S ",") false [CDict pairs]) = Ok (t1, s) ->
    s = S "{" ++ dict_body (isort_by fst (map (fun kv => (ktext t1 kv, vtext t1 kv)) (filter (live cfg t1) pairs))) ++ S "}".
  Proof.
    cbn [render]. change (str_eqb s_values s_types) with false. change (str_eqb s_values s_block) with false.
    cbn [andb group_loop length bind]. destruct (is_null cfg t (CDict pairs)) eqn:En.
    - cbn [bind fst snd negb andb nonempty app]. intros H. injection H as <- <-.
      apply dict_null_iff in En. rewrite En. reflexivity.
    - change (Nat.ltb 1 1) with false. rewrite andb_false_r.
      destruct (render cfg false t (CDict pairs)) as [[ta sa]|m] eqn:Er; cbn [bind fst snd]; [|discriminate].
      cbn [negb andb nonempty app]. intros H. injection H as <- <-.
      rewrite <- (dict_spec_general _ _ _ _ _ Er). rewrite !app_nil_r. reflexivity.
  Qed.
End DictGeneral.

(* ------------------------------------------------------------------ C07: one Dict, keys settled *)
Section DictPermGeneral.
  Variable cfg : config.
  Variable t : table.
  Variable txt : code -> str.

  (* every surviving KEY renders at t without registering anything (its packages are
     imported already); nothing is asked of the values *)
  Definition keys_settled (pairs : list (code * code)) : Prop :=
    forall kv, In kv pairs -> live cfg t kv = true -> render cfg false t (fst kv) = Ok (t, txt (fst kv)).

  Lemma dict_pass1_keys_settled pairs :
    keys_settled pairs ->
    dict_pass1 cfg (render cfg) t pairs = Ok (t, map (entry_of cfg txt) (filter (live cfg t) pairs)).
  Proof.
    induction pairs as [|kv l IH]; intros Hs; [reflexivity|]. cbn [dict_pass1 filter].
    assert (Hl : keys_settled l) by (intros x Hx; apply Hs; right; exact Hx).
    unfold live at 1. destruct (is_null cfg t (fst kv) || is_null cfg t (snd kv)) eqn:E; cbn [negb].
    - apply IH. exact Hl.
    - rewrite (Hs kv (or_introl eq_refl)) by (unfold live; rewrite E; reflexivity).
      cbn [bind fst snd]. rewrite (IH Hl). reflexivity.
  Qed.

  (* what the whole Dict does, then: the second pass over the surviving pairs sorted by key text *)
  Lemma dict_render_keys_settled ctx pairs :
    keys_settled pairs ->
    render cfg ctx t (CDict pairs) =
    let l := isort_by (fun kv => txt (fst kv)) (filter (live cfg t) pairs) in
    dict_pass2 (Nat.ltb 1 (length l)) t true (map (entry_of cfg txt) l).
  Proof.
    intros Hs. cbn [render]. rewrite (dict_pass1_keys_settled pairs Hs). cbn [bind fst snd].
    rewrite <- (isort_by_map (fun kv => txt (fst kv)) dict_key (entry_of cfg txt) (dict_key_entry cfg txt)).
    rewrite map_length. reflexivity.
  Qed.

  Lemma keys_settled_perm pairs pairs' : Permutation pairs pairs' -> keys_settled pairs -> keys_settled pairs'.
  Proof.
    intros Hp Hs kv Hin Hl. apply Hs; [|exact Hl].
    eapply Permutation_in; [apply Permutation_sym; exact Hp | exact Hin].
  Qed.

  (* ORDER INDEPENDENCE, general form: same result - text AND table, or the same panic - for
     any two iteration orders, whatever the values register *)
  Theorem dict_perm_general ctx pairs pairs' :
    keys_settled pairs -> Permutation pairs pairs' ->
    NoDup (map (fun kv => txt (fst kv)) (filter (live cfg t) pairs)) ->
    render cfg ctx t (CDict pairs) = render cfg ctx t (CDict pairs').
  Proof.
    intros Hs Hp Hnd.
    rewrite (dict_render_keys_settled ctx pairs Hs),
            (dict_render_keys_settled ctx pairs' (keys_settled_perm _ _ Hp Hs)).
    cbv zeta.
    rewrite (isort_by_perm_invariant (fun kv => txt (fst kv)) (filter (live cfg t) pairs) (filter (live cfg t) pairs') Hnd
               (filter_perm _ _ _ Hp)).
    reflexivity.
  Qed.
End DictPermGeneral.

(* keys that are covered at t (every path they need is registered) and have a pure text are
   settled, with the pure text *)
Lemma covered_keys_settled cfg t pairs :
  (forall kv, In kv pairs -> live cfg t kv = true ->
     covered cfg t (fst kv) /\ exists k, ptext cfg t false (fst kv) = Ok k) ->
  keys_settled cfg t (the_text cfg t false) pairs.
Proof.
  intros H kv Hin Hl. destruct (H kv Hin Hl) as [Hc [k Hk]].
  rewrite (render_covered cfg t (fst kv) Hc false). unfold the_text. rewrite Hk. reflexivity.
Qed.

(* With two surviving keys of EQUAL text the output follows the iteration order: the stable
   sort keeps the map order of the tie (jen/dict.go after c432903: sort.SliceStable over the
   slice filled in map order).  Two distinct keys, both `f()` (`f ()` before gofmt). *)
Definition eqkey_k1 : code := CStmt [CTok (TkId (S "f")); CGroup 1 (S "call") (S "(") (S ")") (S ",") false []].
Definition eqkey_k2 : code := CStmt [CTok (TkId (S "f")); CGroup 2 (S "call") (S "(") (S ")") (S ",") false []].
Definition eqkey_pairs : list (code * code) :=
  [(eqkey_k1, CStmt [CTok (TkLit (LInt 1))]); (eqkey_k2, CStmt [CTok (TkLit (LInt 2))])].

Theorem dict_equal_keys_refuted :
  exists cfg t txt pairs pairs',
    cfg_ok cfg /\ keys_settled cfg t txt pairs /\ Permutation pairs pairs' /\
    map (fun kv => txt (fst kv)) (filter (live cfg t) pairs) = [S "f ()"; S "f ()"] /\
    render cfg false t (CDict pairs) = Ok (t, [x0a] ++ S "f ():1," ++ [x0a] ++ S "f ():2," ++ [x0a]) /\
    render cfg false t (CDict pairs') = Ok (t, [x0a] ++ S "f ():2," ++ [x0a] ++ S "f ():1," ++ [x0a]).
Proof.
  exists (mkcfg [] [] []), [], (fun _ => S "f ()"), eqkey_pairs, (rev eqkey_pairs).
  split; [split; [intros p h E; discriminate | left; reflexivity]|].
  split.
  - intros kv [<-|[<-|[]]] _; vm_compute; reflexivity.
  - split; [apply perm_swap|]. split; [reflexivity|]. split; vm_compute; reflexivity.
Qed.

(* ------------------------------------------------------------------ C07: maps nested anywhere *)
(* [tree_perm c c']: c' is c with the pairs of any nested Dict and the entries of any nested
   Tag traversed in another order - two runs of the same program on the same construction *)
Inductive tree_perm : code -> code -> Prop :=
| tp_refl c : tree_perm c c
| tp_group gid name o cl sep multi items items' :
    Forall2 tree_perm items items' ->
    tree_perm (CGroup gid name o cl sep multi items) (CGroup gid name o cl sep multi items')
| tp_stmt items items' : Forall2 tree_perm items items' -> tree_perm (CStmt items) (CStmt items')
| tp_dict pairs pairs' pairs'' :
    Forall2 (fun kv kv' => tree_perm (fst kv) (fst kv') /\ tree_perm (snd kv) (snd kv')) pairs pairs' ->
    Permutation pairs' pairs'' ->
    tree_perm (CDict pairs) (CDict pairs'')
| tp_tag kvs kvs' : Permutation kvs kvs' -> tree_perm (CTag kvs) (CTag kvs').

Definition pair_perm (kv kv' : code * code) : Prop :=
  tree_perm (fst kv) (fst kv') /\ tree_perm (snd kv) (snd kv').

(* ---- list helpers ---- *)
Lemma Forall2_refl_all {A} (R : A -> A -> Prop) l : (forall x, R x x) -> Forall2 R l l.
Proof. intros H. induction l; constructor; auto. Qed.

Lemma Forall2_len2 {A B} (R : A -> B -> Prop) l l' : Forall2 R l l' -> length l = length l'.
Proof. induction 1; cbn [length]; congruence. Qed.

Lemma Forall2_impl_In {A B} (R R' : A -> B -> Prop) l l' :
  Forall2 R l l' -> (forall x x', In x l -> R x x' -> R' x x') -> Forall2 R' l l'.
Proof.
  induction 1 as [|x x' l l' Hx _ IH]; intros Hi; constructor.
  - apply Hi; [left; reflexivity | exact Hx].
  - apply IH. intros y y' Hy. apply Hi. right. exact Hy.
Qed.

Lemma Forall2_In_r {A B} (R : A -> B -> Prop) l l' x' :
  Forall2 R l l' -> In x' l' -> exists x, In x l /\ R x x'.
Proof.
  induction 1 as [|y y' l l' Hy _ IH]; intros Hin; [destruct Hin|].
  destruct Hin as [<-|Hin]; [exists y; split; [left; reflexivity | exact Hy]|].
  destruct (IH Hin) as (x & Hx & Hr). exists x. split; [right; exact Hx | exact Hr].
Qed.

Lemma Forall2_map_eq {A B C} (R : A -> B -> Prop) (f : A -> C) (g : B -> C) l l' :
  Forall2 R l l' -> (forall x x', R x x' -> f x = g x') -> map f l = map g l'.
Proof. induction 1 as [|x x' l l' Hx _ IH]; intros Hi; [reflexivity|]. cbn [map]. rewrite (Hi _ _ Hx), IH; auto. Qed.

Lemma forallb_perm {A} (f : A -> bool) l l' : Permutation l l' -> forallb f l = forallb f l'.
Proof.
  induction 1; cbn [forallb]; try reflexivity; try congruence.
  destruct (f x), (f y); reflexivity.
Qed.

Lemma forallb_Forall2 {A B} (f : A -> bool) (g : B -> bool) (R : A -> B -> Prop) l l' :
  Forall2 R l l' -> (forall x x', In x l -> R x x' -> f x = g x') -> forallb f l = forallb g l'.
Proof.
  induction 1 as [|x x' l l' Hx _ IH]; intros Hi; [reflexivity|]. cbn [forallb].
  rewrite (Hi x x' (or_introl eq_refl) Hx), IH; [reflexivity|]. intros y y' Hy. apply Hi. right. exact Hy.
Qed.

Lemma filter_Forall2 {A B} (f : A -> bool) (g : B -> bool) (R : A -> B -> Prop) l l' :
  Forall2 R l l' -> (forall x x', In x l -> R x x' -> f x = g x') -> Forall2 R (filter f l) (filter g l').
Proof.
  induction 1 as [|x x' l l' Hx _ IH]; intros Hi; [constructor|]. cbn [filter].
  rewrite <- (Hi x x' (or_introl eq_refl) Hx).
  assert (IH' : Forall2 R (filter f l) (filter g l')) by (apply IH; intros y y' Hy; apply Hi; right; exact Hy).
  destruct (f x); [constructor; assumption | exact IH'].
Qed.

Lemma insert_by_Forall2 {A B} (ka : A -> str) (kb : B -> str) (R : A -> B -> Prop) x x' l l' :
  (forall y y', R y y' -> ka y = kb y') -> R x x' -> Forall2 R l l' ->
  Forall2 R (insert_by ka x l) (insert_by kb x' l').
Proof.
  intros Hk Hx H. induction H as [|y y' l l' Hy Hl IH]; cbn [insert_by].
  - constructor; [exact Hx | constructor].
  - rewrite <- (Hk _ _ Hx), <- (Hk _ _ Hy). destruct (str_leb (ka x) (ka y)).
    + constructor; [exact Hx|]. constructor; assumption.
    + constructor; [exact Hy | exact IH].
Qed.

Lemma isort_by_Forall2 {A B} (ka : A -> str) (kb : B -> str) (R : A -> B -> Prop) l l' :
  (forall y y', R y y' -> ka y = kb y') -> Forall2 R l l' -> Forall2 R (isort_by ka l) (isort_by kb l').
Proof.
  intros Hk H. induction H as [|x x' l l' Hx _ IH]; cbn [isort_by]; [constructor|].
  apply insert_by_Forall2; assumption.
Qed.

(* ---- what tree_perm leaves alone ---- *)
Lemma tree_perm_is_dict c c' : tree_perm c c' -> is_dict c = is_dict c'.
Proof. destruct 1; reflexivity. Qed.

Lemma tree_perm_icd c c' : tree_perm c c' -> is_case_or_default c = is_case_or_default c'.
Proof. destruct 1; reflexivity. Qed.

Lemma tree_perm_prereg cfg t c c' : tree_perm c c' -> prereg cfg t c = prereg cfg t c'.
Proof. destruct 1; reflexivity. Qed.

Lemma tree_perm_pre_occ cfg c c' : tree_perm c c' -> pre_occ cfg c = pre_occ cfg c'.
Proof. destruct 1; reflexivity. Qed.

Definition orel (a b : option code) : Prop :=
  match a, b with
  | None, None => True
  | Some x, Some y => tree_perm x y
  | _, _ => False
  end.

Lemma prev_of_perm gid l l' : Forall2 tree_perm l l' ->
  forall p p', orel p p' -> orel (prev_of gid p l) (prev_of gid p' l').
Proof.
  induction 1 as [|x x' l l' Hx _ IH]; intros p p' Hp; cbn [prev_of]; [exact I|].
  destruct Hx as [c|g name o cl sep multi items items' HF|items items' HF|pairs pairs' pairs'' HF HP|kvs kvs' HP].
  - assert (Hc : orel (Some c) (Some c)) by apply tp_refl.
    destruct c; try (apply IH; exact Hc). destruct (N.eqb gid0 gid); [exact Hp | apply IH; exact Hc].
  - destruct (N.eqb g gid); [exact Hp|]. apply IH. apply tp_group. exact HF.
  - apply IH. apply tp_stmt. exact HF.
  - apply IH. eapply tp_dict; eassumption.
  - apply IH. apply tp_tag. exact HP.
Qed.

Lemma case_ctx_perm all all' c c' :
  Forall2 tree_perm all all' -> tree_perm c c' -> case_ctx all c = case_ctx all' c'.
Proof.
  intros Ha Hc.
  assert (Hg : forall gid,
             match prev_of gid None all with Some p => is_case_or_default p | None => false end =
             match prev_of gid None all' with Some p => is_case_or_default p | None => false end).
  { intros gid. pose proof (prev_of_perm gid all all' Ha None None I) as H.
    destruct (prev_of gid None all), (prev_of gid None all'); cbn [orel] in H; try contradiction;
      [apply tree_perm_icd; exact H | reflexivity]. }
  destruct Hc as [c| | | |]; try reflexivity; [destruct c; try reflexivity|]; apply Hg.
Qed.

Lemma is_null_tree_perm cfg t : forall c c', tree_perm c c' -> is_null cfg t c = is_null cfg t c'.
Proof.
  induction c as [| | |tk|gid name o cl sep multi items IH|items IH|pairs IH|kvs|s] using code_ind';
    intros c' H; inversion H as [|? ? ? ? ? ? ? items' HF|? items' HF|? pairs' pairs'' HF HP|? kvs' HP]; subst;
    try reflexivity.
  - cbn [is_null]. destruct (nonempty o || nonempty cl); [reflexivity|].
    apply (forallb_Forall2 _ _ _ _ _ HF). rewrite Forall_forall in IH. intros x x' Hx. apply IH. exact Hx.
  - cbn [is_null]. apply (forallb_Forall2 _ _ _ _ _ HF). rewrite Forall_forall in IH. intros x x' Hx. apply IH. exact Hx.
  - cbn [is_null]. rewrite <- (forallb_perm _ _ _ HP). apply (forallb_Forall2 _ _ _ _ _ HF).
    rewrite Forall_forall in IH. intros kv kv' Hin [Hk Hv]. destruct (IH kv Hin) as [Ik Iv].
    rewrite (Ik _ Hk), (Iv _ Hv). reflexivity.
  - cbn [is_null]. destruct kvs as [|a l], kvs' as [|a' l']; try reflexivity.
    + apply Permutation_nil in HP. discriminate.
    + apply Permutation_sym, Permutation_nil in HP. discriminate.
Qed.

Lemma live_tree_perm cfg t kv kv' : pair_perm kv kv' -> live cfg t kv = live cfg t kv'.
Proof.
  intros [Hk Hv]. unfold live. rewrite (is_null_tree_perm cfg t _ _ Hk), (is_null_tree_perm cfg t _ _ Hv). reflexivity.
Qed.

Section TreePerm.
  Variable cfg : config.
  Hypothesis Hcfg : cfg_ok cfg.
  Notation ext := (ext cfg).

  (* the text a render of c from t writes *)
  Definition rtxt (t : table) (c : code) : str :=
    match render cfg false t c with Ok (_, s) => s | Panic _ => [] end.

  (* THE SIDE CONDITION, at a table t.  Wherever the tree is written (items that are not
     null, pairs whose two sides are not null): the keys of a Tag are pairwise distinct (it
     is a Go map[string]string), and the surviving keys of a Dict render at t without
     changing the table - their packages are registered in t - to pairwise distinct texts.
     Nothing is asked of Dict values, of items, or of anything that is not written. *)
  Inductive maps_ok (t : table) : code -> Prop :=
  | mo_nil : maps_ok t CNil
  | mo_nils : maps_ok t CNilStmt
  | mo_nilg : maps_ok t CNilGroup
  | mo_tok tk : maps_ok t (CTok tk)
  | mo_com s : maps_ok t (CComment s)
  | mo_group gid name o cl sep multi items :
      Forall (fun x => is_null cfg t x = false -> maps_ok t x) items ->
      maps_ok t (CGroup gid name o cl sep multi items)
  | mo_stmt items :
      Forall (fun x => is_null cfg t x = false -> maps_ok t x) items -> maps_ok t (CStmt items)
  | mo_dict pairs :
      Forall (fun kv => live cfg t kv = true -> maps_ok t (fst kv) /\ maps_ok t (snd kv)) pairs ->
      (forall kv, In kv pairs -> live cfg t kv = true -> exists s, render cfg false t (fst kv) = Ok (t, s)) ->
      NoDup (map (fun kv => rtxt t (fst kv)) (filter (live cfg t) pairs)) ->
      maps_ok t (CDict pairs)
  | mo_tag kvs : NoDup (map fst kvs) -> maps_ok t (CTag kvs).

  Definition guarded (t : table) (items : list code) : Prop :=
    Forall (fun x => is_null cfg t x = false -> maps_ok t x) items.

  Lemma rtxt_ok t c s : render cfg false t c = Ok (t, s) -> rtxt t c = s.
  Proof. intros H. unfold rtxt. rewrite H. reflexivity. Qed.

  (* the condition is kept by every registration: it holds at all later tables *)
  Lemma maps_ok_ext : forall c t t', ext t t' -> maps_ok t c -> maps_ok t' c.
  Proof.
    induction c as [| | |tk|gid name o cl sep multi items IH|items IH|pairs IH|kvs|s] using code_ind';
      intros t t' He H; inversion H as [| | | | |? ? ? ? ? ? ? HG|? HG|? HG HK HN|? HN]; subst; try (constructor; fail).
    - apply mo_group. rewrite Forall_forall in *. intros x Hx Hn. apply (IH x Hx t t' He). apply HG; [exact Hx|].
      rewrite <- (is_null_ext cfg _ _ x He). exact Hn.
    - apply mo_stmt. rewrite Forall_forall in *. intros x Hx Hn. apply (IH x Hx t t' He). apply HG; [exact Hx|].
      rewrite <- (is_null_ext cfg _ _ x He). exact Hn.
    - assert (Hk' : forall kv, In kv pairs -> live cfg t' kv = true ->
                               render cfg false t' (fst kv) = Ok (t', rtxt t (fst kv))).
      { intros kv Hin Hl. rewrite (live_ext cfg _ _ kv He) in Hl. destruct (HK kv Hin Hl) as [s Hs].
        rewrite (rtxt_ok _ _ _ Hs). destruct (render_stable cfg Hcfg _ _ _ _ _ Hs) as [_ Hst]. apply Hst. exact He. }
      apply mo_dict.
      + rewrite Forall_forall in *. intros kv Hin Hl. rewrite (live_ext cfg _ _ kv He) in Hl.
        destruct (HG kv Hin Hl) as [Mk Mv]. destruct (IH kv Hin) as [Ik Iv].
        split; [apply (Ik t t' He Mk) | apply (Iv t t' He Mv)].
      + intros kv Hin Hl. eexists. apply Hk'; assumption.
      + rewrite (filter_ext (live cfg t') (live cfg t)) by (intros kv; apply live_ext; exact He).
        rewrite (map_ext_in (fun kv => rtxt t' (fst kv)) (fun kv => rtxt t (fst kv))); [exact HN|].
        intros kv Hin. apply filter_In in Hin. destruct Hin as [Hin Hl].
        apply rtxt_ok. apply Hk'; [exact Hin|]. rewrite (live_ext cfg _ _ kv He). exact Hl.
    - apply mo_tag. exact HN.
  Qed.

  Lemma guarded_ext t t' items : ext t t' -> guarded t items -> guarded t' items.
  Proof.
    intros He H. unfold guarded in *. rewrite Forall_forall in *. intros x Hx Hn.
    apply (maps_ok_ext x t t' He). apply H; [exact Hx|]. rewrite <- (is_null_ext cfg _ _ x He). exact Hn.
  Qed.

  Definition perm_ok (c : code) : Prop :=
    forall c' t ctx, tree_perm c c' -> maps_ok t c -> render cfg ctx t c = render cfg ctx t c'.

  Lemma group_loop_perm name sep multi n items items' :
    Forall perm_ok items -> Forall2 tree_perm items items' ->
    forall t first, guarded t items ->
    group_loop cfg (render cfg) name sep multi n t first items =
    group_loop cfg (render cfg) name sep multi n t first items'.
  Proof.
    intros HP H. revert HP. induction H as [|c c' l l' Hc Hl IH]; intros HP t first HG; [reflexivity|].
    inversion HP as [|? ? Pc Pl]; subst. inversion HG as [|? ? Gc Gl]; subst.
    cbn [group_loop]. fold (prereg cfg t c). fold (prereg cfg t c'). rewrite <- (tree_perm_prereg cfg t c c' Hc).
    destruct (prereg cfg t c) as [t0|m] eqn:Ep; cbn [bind]; [|reflexivity].
    destruct (prereg_stable cfg Hcfg _ _ _ Ep) as [He0 _].
    rewrite <- (is_null_tree_perm cfg t0 c c' Hc). destruct (is_null cfg t0 c) eqn:En.
    - apply IH; [exact Pl|]. exact (guarded_ext _ _ _ He0 Gl).
    - rewrite <- (tree_perm_is_dict c c' Hc).
      destruct (str_eqb name s_values && is_dict c && Nat.ltb 1 n); [reflexivity|].
      assert (Mc : maps_ok t0 c).
      { apply (maps_ok_ext c t t0 He0). apply Gc. rewrite <- (is_null_ext cfg _ _ c He0). exact En. }
      rewrite <- (Pc c' t0 false Hc Mc).
      destruct (render cfg false t0 c) as [[ta sa]|m] eqn:Er; cbn [bind fst snd]; [|reflexivity].
      destruct (render_stable cfg Hcfg _ _ _ _ _ Er) as [Hea _].
      rewrite (IH Pl ta false (guarded_ext _ _ _ (ext_trans cfg _ _ _ He0 Hea) Gl)). reflexivity.
  Qed.

  Lemma stmt_loop_perm all all' items items' :
    Forall2 tree_perm all all' -> Forall perm_ok items -> Forall2 tree_perm items items' ->
    forall t first, guarded t items ->
    stmt_loop cfg (render cfg) all t first items = stmt_loop cfg (render cfg) all' t first items'.
  Proof.
    intros Ha HP H. revert HP. induction H as [|c c' l l' Hc Hl IH]; intros HP t first HG; [reflexivity|].
    inversion HP as [|? ? Pc Pl]; subst. inversion HG as [|? ? Gc Gl]; subst.
    cbn [stmt_loop]. rewrite <- (is_null_tree_perm cfg t c c' Hc). destruct (is_null cfg t c) eqn:En.
    - apply IH; assumption.
    - rewrite <- (case_ctx_perm all all' c c' Ha Hc).
      rewrite <- (Pc c' t (case_ctx all c) Hc (Gc eq_refl)).
      destruct (render cfg (case_ctx all c) t c) as [[ta sa]|m] eqn:Er; cbn [bind fst snd]; [|reflexivity].
      destruct (render_stable cfg Hcfg _ _ _ _ _ Er) as [Hea _].
      rewrite (IH Pl ta false (guarded_ext _ _ _ Hea Gl)). reflexivity.
  Qed.

  (* a surviving pair and its counterpart: related, and both sides fit for the induction *)
  Definition pair_good (t : table) (kv kv' : code * code) : Prop :=
    pair_perm kv kv' /\ perm_ok (fst kv) /\ perm_ok (snd kv) /\ maps_ok t (fst kv) /\ maps_ok t (snd kv).

  Lemma dict_pass2_perm t several txt txt' L L' :
    Forall2 (pair_good t) L L' ->
    forall t0 first, ext t t0 ->
    dict_pass2 several t0 first (map (entry_of cfg txt) L) = dict_pass2 several t0 first (map (entry_of cfg txt') L').
  Proof.
    induction 1 as [|kv kv' L L' (Hp & Pk & Pv & Mk & Mv) _ IH]; intros t0 first He; [reflexivity|].
    cbn [map dict_pass2 entry_of fst snd].
    rewrite <- (Pk _ t0 false (proj1 Hp) (maps_ok_ext _ _ _ He Mk)).
    destruct (render cfg false t0 (fst kv)) as [[ta sa]|m] eqn:Ek; cbn [bind fst snd]; [|reflexivity].
    destruct (render_stable cfg Hcfg _ _ _ _ _ Ek) as [Hea _].
    pose proof (ext_trans cfg _ _ _ He Hea) as Ha.
    rewrite <- (Pv _ ta false (proj2 Hp) (maps_ok_ext _ _ _ Ha Mv)).
    destruct (render cfg false ta (snd kv)) as [[tb sb]|m] eqn:Ev; cbn [bind fst snd]; [|reflexivity].
    destruct (render_stable cfg Hcfg _ _ _ _ _ Ev) as [Heb _].
    rewrite (IH tb false (ext_trans cfg _ _ _ Ha Heb)). reflexivity.
  Qed.

  Lemma pair_good_key t kv kv' : pair_good t kv kv' -> rtxt t (fst kv) = rtxt t (fst kv').
  Proof. intros (Hp & Pk & _ & Mk & _). unfold rtxt. rewrite (Pk _ t false (proj1 Hp) Mk). reflexivity. Qed.

  (* TREES.  For every tree, every tree_perm-variant of it and every table at which the side
     condition holds: the same result - text and table, or the same panic *)
  Theorem render_tree_perm : forall c, perm_ok c.
  Proof.
    induction c as [| | |tk|gid name o cl sep multi items IH|items IH|pairs IH|kvs|s] using code_ind';
      intros c' t ctx Hp Hm;
      inversion Hp as [|? ? ? ? ? ? ? items' HF|? items' HF|? pairs' pairs'' HF HP|? kvs' HP]; subst;
      try reflexivity.
    - inversion Hm as [| | | | |? ? ? ? ? ? ? HG| | |]; subst. cbn [render].
      rewrite <- (forallb_Forall2 (is_null cfg t) (is_null cfg t) _ _ _ HF)
        by (intros x x' _ Hx; apply is_null_tree_perm; exact Hx).
      destruct (str_eqb name s_types && forallb (is_null cfg t) items); [reflexivity|].
      rewrite <- (Forall2_len2 _ _ _ HF).
      rewrite (group_loop_perm name sep multi (length items) items items' IH HF t true HG). reflexivity.
    - inversion Hm as [| | | | | |? HG| |]; subst. cbn [render].
      apply stmt_loop_perm; assumption.
    - inversion Hm as [| | | | | | |? HG HK HN|]; subst.
      assert (Hs : keys_settled cfg t (rtxt t) pairs).
      { intros kv Hin Hl. destruct (HK kv Hin Hl) as [s Hs]. rewrite (rtxt_ok _ _ _ Hs). exact Hs. }
      assert (HL : Forall2 (pair_good t) (filter (live cfg t) pairs) (filter (live cfg t) pairs')).
      { apply Forall2_impl_In with (R := pair_perm).
        - apply filter_Forall2; [exact HF|]. intros kv kv' _ Hr. apply live_tree_perm. exact Hr.
        - intros kv kv' Hin Hr. apply filter_In in Hin. destruct Hin as [Hin Hl].
          rewrite Forall_forall in IH, HG. destruct (IH kv Hin) as [Pk Pv]. destruct (HG kv Hin Hl) as [Mk Mv].
          repeat split; try assumption; apply Hr. }
      assert (Hs' : keys_settled cfg t (rtxt t) pairs').
      { intros kv' Hin' Hl'. destruct (Forall2_In_r _ _ _ _ HF Hin') as (kv & Hin & Hr).
        pose proof Hl' as Hl. rewrite <- (live_tree_perm cfg t kv kv' Hr) in Hl.
        rewrite Forall_forall in IH, HG. destruct (IH kv Hin) as [Pk _]. destruct (HG kv Hin Hl) as [Mk _].
        assert (E : render cfg false t (fst kv') = render cfg false t (fst kv))
          by (symmetry; apply Pk; [apply Hr | exact Mk]).
        unfold rtxt. rewrite E. apply Hs; assumption. }
      assert (Hkeys : map (fun kv => rtxt t (fst kv)) (filter (live cfg t) pairs) =
                      map (fun kv => rtxt t (fst kv)) (filter (live cfg t) pairs')).
      { apply (Forall2_map_eq _ _ _ _ _ HL). intros kv kv'. apply pair_good_key. }
      rewrite <- (dict_perm_general cfg t (rtxt t) ctx pairs' pairs'' Hs' HP) by (rewrite <- Hkeys; exact HN).
      rewrite (dict_render_keys_settled cfg t (rtxt t) ctx pairs Hs),
              (dict_render_keys_settled cfg t (rtxt t) ctx pairs' Hs').
      cbv zeta. rewrite !isort_by_length, (Forall2_len2 _ _ _ HL).
      apply dict_pass2_perm with (t := t); [|apply ext_refl].
      apply isort_by_Forall2; [|exact HL]. intros kv kv'. apply pair_good_key.
    - inversion Hm as [| | | | | | | |? HN]; subst. cbn [render].
      rewrite (tag_text_perm kvs kvs' HN HP). reflexivity.
  Qed.

  Corollary render_tree_perm_eq c c' t ctx :
    tree_perm c c' -> maps_ok t c -> render cfg ctx t c = render cfg ctx t c'.
  Proof. intros Hp Hm. apply render_tree_perm; assumption. Qed.
End TreePerm.

(* ---- the File ---- *)
Definition with_items (f : file) (items : list code) : file :=
  mkfile (f_name f) (f_path f) (f_prefix f) (f_hints f) (f_imports f) (f_comments f) (f_headers f)
         (f_cgo f) (f_noformat f) (f_canonical f) items.

(* two Files that are the same construction - equal in everything but the orders in which
   the maps inside their bodies are traversed - give the same source text and import table *)
Theorem file_raw_tree_perm f items' :
  cfg_ok (file_cfg f) -> Forall2 tree_perm (f_items f) items' ->
  maps_ok (file_cfg f) (f_imports f) (file_group f) ->
  file_raw (with_items f items') = file_raw f.
Proof.
  intros Hc HF Hm.
  change (file_raw (with_items f items')) with
    (bind (render (file_cfg f) false (f_imports f) (CGroup 0 [] [] [] [] true items')) (fun r =>
     Ok (fst r, file_head f ++ render_imports (fst r) (f_cgo f) ++ snd r))).
  unfold file_raw.
  rewrite <- (render_tree_perm_eq (file_cfg f) Hc (file_group f) (CGroup 0 [] [] [] [] true items')
                (f_imports f) false (tp_group _ _ _ _ _ _ _ _ HF) Hm).
  reflexivity.
Qed.

Corollary file_render_tree_perm fmt wfail f items' :
  cfg_ok (file_cfg f) -> Forall2 tree_perm (f_items f) items' ->
  maps_ok (file_cfg f) (f_imports f) (file_group f) ->
  snd (file_render fmt wfail (with_items f items')) = snd (file_render fmt wfail f) /\
  f_imports (fst (file_render fmt wfail (with_items f items'))) = f_imports (fst (file_render fmt wfail f)).
Proof.
  intros Hc HF Hm. unfold file_render. rewrite (file_raw_tree_perm f items' Hc HF Hm).
  destruct (file_raw f) as [[t raw]|m]; split; reflexivity.
Qed.

(* ---- the side condition at a covered table: distinct pure key texts ---- *)
Section CoveredMaps.
  Variable cfg : config.

  (* the same condition in terms of the pure text: the surviving keys of every written Dict
     have a pure text at t, and these are pairwise distinct *)
  Inductive pure_maps_ok (t : table) : code -> Prop :=
  | pmo_nil : pure_maps_ok t CNil
  | pmo_nils : pure_maps_ok t CNilStmt
  | pmo_nilg : pure_maps_ok t CNilGroup
  | pmo_tok tk : pure_maps_ok t (CTok tk)
  | pmo_com s : pure_maps_ok t (CComment s)
  | pmo_group gid name o cl sep multi items :
      Forall (fun x => is_null cfg t x = false -> pure_maps_ok t x) items ->
      pure_maps_ok t (CGroup gid name o cl sep multi items)
  | pmo_stmt items :
      Forall (fun x => is_null cfg t x = false -> pure_maps_ok t x) items -> pure_maps_ok t (CStmt items)
  | pmo_dict pairs :
      Forall (fun kv => live cfg t kv = true -> pure_maps_ok t (fst kv) /\ pure_maps_ok t (snd kv)) pairs ->
      (forall kv, In kv pairs -> live cfg t kv = true -> exists k, ptext cfg t false (fst kv) = Ok k) ->
      NoDup (map (fun kv => the_text cfg t false (fst kv)) (filter (live cfg t) pairs)) ->
      pure_maps_ok t (CDict pairs)
  | pmo_tag kvs : NoDup (map fst kvs) -> pure_maps_ok t (CTag kvs).

  Lemma covered_group_item t gid name o cl sep multi items x :
    covered cfg t (CGroup gid name o cl sep multi items) -> In x items -> is_null cfg t x = false -> covered cfg t x.
  Proof.
    intros Hcov Hin En. unfold covered in Hcov. rewrite occs_group in Hcov.
    destruct (str_eqb name s_types && forallb (is_null cfg t) items) eqn:Et.
    - apply andb_true_iff in Et. destruct Et as [_ Et]. rewrite forallb_forall in Et. rewrite (Et x Hin) in En. discriminate.
    - pose proof (reg_in_flat_map _ _ _ _ Hcov Hin) as Hr. unfold item_occs in Hr. rewrite En in Hr.
      exact (reg_in_app_r _ _ _ Hr).
  Qed.

  Lemma covered_stmt_item t items x :
    covered cfg t (CStmt items) -> In x items -> is_null cfg t x = false -> covered cfg t x.
  Proof.
    intros Hcov Hin En. unfold covered in Hcov. rewrite occs_stmt in Hcov.
    pose proof (reg_in_flat_map _ _ _ _ Hcov Hin) as Hr. unfold stmt_item_occs in Hr. rewrite En in Hr. exact Hr.
  Qed.

  Lemma covered_dict_pair t pairs kv :
    covered cfg t (CDict pairs) -> In kv pairs -> live cfg t kv = true ->
    covered cfg t (fst kv) /\ covered cfg t (snd kv).
  Proof.
    intros Hcov Hin Hl. unfold covered in Hcov. rewrite occs_dict in Hcov.
    pose proof (reg_in_flat_map _ _ _ _ Hcov Hin) as Hr. unfold pair_occs, dead in Hr.
    unfold live in Hl. apply negb_true_iff in Hl. rewrite Hl in Hr.
    split; [exact (reg_in_app_l _ _ _ Hr) | exact (reg_in_app_r _ _ _ Hr)].
  Qed.

  Lemma pure_maps_ok_covered : forall c t, covered cfg t c -> pure_maps_ok t c -> maps_ok cfg t c.
  Proof.
    induction c as [| | |tk|gid name o cl sep multi items IH|items IH|pairs IH|kvs|s] using code_ind';
      intros t Hcov H; inversion H as [| | | | |? ? ? ? ? ? ? HG|? HG|? HG HK HN|? HN]; subst; try (constructor; fail).
    - apply mo_group. rewrite Forall_forall in *. intros x Hx En. apply (IH x Hx).
      + eapply covered_group_item; eassumption.
      + apply HG; assumption.
    - apply mo_stmt. rewrite Forall_forall in *. intros x Hx En. apply (IH x Hx).
      + eapply covered_stmt_item; eassumption.
      + apply HG; assumption.
    - assert (Hk' : forall kv, In kv pairs -> live cfg t kv = true ->
                               render cfg false t (fst kv) = Ok (t, the_text cfg t false (fst kv))).
      { intros kv Hin Hl. destruct (covered_dict_pair _ _ _ Hcov Hin Hl) as [Ck _]. destruct (HK kv Hin Hl) as [k Hk].
        rewrite (render_covered cfg t (fst kv) Ck false). unfold the_text. rewrite Hk. reflexivity. }
      apply mo_dict.
      + rewrite Forall_forall in *. intros kv Hin Hl. destruct (covered_dict_pair _ _ _ Hcov Hin Hl) as [Ck Cv].
        destruct (HG kv Hin Hl) as [Mk Mv]. destruct (IH kv Hin) as [Ik Iv]. split; [apply Ik | apply Iv]; assumption.
      + intros kv Hin Hl. eexists. apply Hk'; assumption.
      + rewrite (map_ext_in (fun kv => rtxt cfg t (fst kv)) (fun kv => the_text cfg t false (fst kv))); [exact HN|].
        intros kv Hin. apply filter_In in Hin. destruct Hin as [Hin Hl]. apply rtxt_ok. apply Hk'; assumption.
    - apply mo_tag. exact HN.
  Qed.

  (* at a table that covers the tree the table never changes, and the condition is just:
     distinct key texts *)
  Theorem render_tree_perm_covered : cfg_ok cfg -> forall c c' t ctx,
    covered cfg t c -> pure_maps_ok t c -> tree_perm c c' ->
    render cfg ctx t c' = with_table t (ptext cfg t ctx c) /\ render cfg ctx t c = render cfg ctx t c'.
  Proof.
    intros Hcfg c c' t ctx Hcov Hm Hp.
    pose proof (render_tree_perm_eq cfg Hcfg c c' t ctx Hp (pure_maps_ok_covered c t Hcov Hm)) as E.
    split; [|exact E]. rewrite <- E. apply render_covered. exact Hcov.
  Qed.
End CoveredMaps.

(* ---- an executable check of the side condition (for examples) ---- *)
Fixpoint nodupb (l : list str) : bool :=
  match l with
  | [] => true
  | x :: r => negb (existsb (str_eqb x) r) && nodupb r
  end.

Lemma nodupb_sound l : nodupb l = true -> NoDup l.
Proof.
  induction l as [|x r IH]; intros H; [constructor|]. cbn [nodupb] in H. apply andb_true_iff in H. destruct H as [H1 H2].
  constructor; [|apply IH; exact H2]. intros Hin. apply negb_true_iff in H1.
  assert (E : existsb (str_eqb x) r = true) by (apply existsb_exists; exists x; split; [exact Hin | apply str_eqb_refl]).
  congruence.
Qed.

Definition def_eqb (a b : importdef) : bool :=
  str_eqb (id_name a) (id_name b) && Bool.eqb (id_alias a) (id_alias b).

Fixpoint table_eqb (a b : table) : bool :=
  match a, b with
  | [], [] => true
  | x :: a', y :: b' => str_eqb (fst x) (fst y) && def_eqb (snd x) (snd y) && table_eqb a' b'
  | _, _ => false
  end.

Lemma table_eqb_eq a : forall b, table_eqb a b = true -> a = b.
Proof.
  induction a as [|[p [n al]] a IH]; intros [|[q [m bl]] b] H; try discriminate; [reflexivity|].
  cbn [table_eqb fst snd] in H. apply andb_true_iff in H. destruct H as [H H3]. apply andb_true_iff in H. destruct H as [H1 H2].
  unfold def_eqb in H2. cbn [id_name id_alias] in H2. apply andb_true_iff in H2. destruct H2 as [H2 H4].
  apply str_eqb_eq in H1, H2. apply Bool.eqb_prop in H4. subst. rewrite (IH b H3). reflexivity.
Qed.

Section Check.
  Variable cfg : config.

  Definition key_settledb (t : table) (c : code) : bool :=
    match render cfg false t c with Ok (t', _) => table_eqb t' t | Panic _ => false end.

  Fixpoint maps_okb (t : table) (c : code) : bool :=
    match c with
    | CGroup _ _ _ _ _ _ items => forallb (fun x => is_null cfg t x || maps_okb t x) items
    | CStmt items => forallb (fun x => is_null cfg t x || maps_okb t x) items
    | CDict pairs =>
      forallb (fun kv => negb (live cfg t kv) ||
                         (maps_okb t (fst kv) && maps_okb t (snd kv) && key_settledb t (fst kv))) pairs &&
      nodupb (map (fun kv => rtxt cfg t (fst kv)) (filter (live cfg t) pairs))
    | CTag kvs => nodupb (map fst kvs)
    | _ => true
    end.

  Lemma maps_okb_sound t : forall c, maps_okb t c = true -> maps_ok cfg t c.
  Proof.
    induction c as [| | |tk|gid name o cl sep multi items IH|items IH|pairs IH|kvs|s] using code_ind';
      cbn [maps_okb]; intros H; try (constructor; fail).
    - apply mo_group. rewrite Forall_forall in *. rewrite forallb_forall in H. intros x Hx En.
      specialize (H x Hx). rewrite En in H. apply (IH x Hx). exact H.
    - apply mo_stmt. rewrite Forall_forall in *. rewrite forallb_forall in H. intros x Hx En.
      specialize (H x Hx). rewrite En in H. apply (IH x Hx). exact H.
    - apply andb_true_iff in H. destruct H as [H HN]. rewrite forallb_forall in H. rewrite Forall_forall in IH.
      assert (Hkv : forall kv, In kv pairs -> live cfg t kv = true ->
                               maps_okb t (fst kv) = true /\ maps_okb t (snd kv) = true /\ key_settledb t (fst kv) = true).
      { intros kv Hin Hl. specialize (H kv Hin). rewrite Hl in H. cbn [negb orb] in H.
        apply andb_true_iff in H. destruct H as [H H3]. apply andb_true_iff in H. destruct H as [H1 H2]. auto. }
      apply mo_dict.
      + rewrite Forall_forall. intros kv Hin Hl. destruct (Hkv kv Hin Hl) as (H1 & H2 & _).
        destruct (IH kv Hin) as [Ik Iv]. split; [apply Ik | apply Iv]; assumption.
      + intros kv Hin Hl. destruct (Hkv kv Hin Hl) as (_ & _ & H3). unfold key_settledb in H3.
        destruct (render cfg false t (fst kv)) as [[t' s]|m]; [|discriminate].
        apply table_eqb_eq in H3. subst t'. exists s. reflexivity.
      + apply nodupb_sound. exact HN.
    - apply mo_tag. apply nodupb_sound. exact H.
  Qed.
End Check.

(* ------------------------------------------------------------------ C04: occs in the property's words *)
(* a group holding exactly what Qual(p, n) puts into one: the package token, then the identifier *)
Definition qual_shaped (q : code) (p n : str) : Prop :=
  exists gid name o cl sep multi, q = CGroup gid name o cl sep multi [CTok (TkPkg p); CTok (TkId n)].

Lemma qual_is_qual_shaped gid p n : qual_shaped (qual gid p n) p n.
Proof. unfold qual. repeat eexists. Qed.

(* trees in which every package token sits in a group EXACTLY as Qual builds it *)
Fixpoint quals_only (c : code) : bool :=
  match c with
  | CTok (TkPkg _) => false
  | CGroup _ name o cl sep multi items =>
    if is_qual_items items
    then str_eqb name (S "qual") && str_eqb o [] && str_eqb cl [] && str_eqb sep (S ".") && negb multi
    else forallb quals_only items
  | CStmt items => forallb quals_only items
  | CDict pairs => forallb (fun kv => quals_only (fst kv) && quals_only (snd kv)) pairs
  | _ => true
  end.

Lemma quals_only_qual_only : forall c, quals_only c = true -> qual_only c = true.
Proof.
  induction c as [| | |tk|gid name o cl sep multi items IH|items IH|pairs IH|kvs|s] using code_ind';
    cbn [quals_only qual_only]; intros H; try reflexivity; try exact H.
  - destruct (is_qual_items items); [reflexivity|]. cbn [orb]. rewrite forallb_forall in *. rewrite Forall_forall in IH.
    intros x Hx. apply (IH x Hx). apply H. exact Hx.
  - rewrite forallb_forall in *. rewrite Forall_forall in IH. intros x Hx. apply (IH x Hx). apply H. exact Hx.
  - rewrite forallb_forall in *. rewrite Forall_forall in IH. intros kv Hin. specialize (H kv Hin).
    apply andb_true_iff in H. destruct H as [H1 H2]. destruct (IH kv Hin) as [Ik Iv]. rewrite (Ik H1), (Iv H2). reflexivity.
Qed.

Section RenderedQuals.
  Variable cfg : config.
  Variable t : table.

  (* a written qualified identifier of a non-local path puts its path into occs - for EVERY tree *)
  Lemma rendered_qual_in_occs q p n c :
    qual_shaped q p n -> is_local cfg p = false -> rendered_in cfg t q c -> In p (occs cfg t c).
  Proof.
    intros (gid & name & o & cl & sep & multi & ->) Hl H.
    induction H as [|gid' name' o' cl' sep' multi' items x Et Hin En _ IH|items x Hin En _ IH
                    |pairs kv Hin Hlv _ IH|pairs kv Hin Hlv _ IH].
    - rewrite occs_group. cbn [forallb is_null]. rewrite !andb_false_r.
      cbn [flat_map]. apply in_or_app. left. apply pkg_item_occs. split; [exact Hl | reflexivity].
    - rewrite occs_group, Et. apply in_flat_map. exists x. split; [exact Hin|]. unfold item_occs. rewrite En.
      apply in_or_app. right. exact IH.
    - rewrite occs_stmt. apply in_flat_map. exists x. split; [exact Hin|]. unfold stmt_item_occs. rewrite En. exact IH.
    - rewrite occs_dict. apply in_flat_map. exists kv. split; [exact Hin|]. unfold pair_occs, dead.
      unfold live in Hlv. apply negb_true_iff in Hlv. rewrite Hlv. apply in_or_app. left. exact IH.
    - rewrite occs_dict. apply in_flat_map. exists kv. split; [exact Hin|]. unfold pair_occs, dead.
      unfold live in Hlv. apply negb_true_iff in Hlv. rewrite Hlv. apply in_or_app. right. exact IH.
  Qed.

  (* ... and, when package tokens occur only inside such groups, every path of occs is the
     path of a written one *)
  Lemma occs_has_rendered_qual : forall c, qual_only c = true -> forall p, In p (occs cfg t c) ->
    exists q n, qual_shaped q p n /\ rendered_in cfg t q c.
  Proof.
    induction c as [| | |tk|gid name o cl sep multi items IH|items IH|pairs IH|kvs|s] using code_ind';
      intros Hq p Hp; try (destruct Hp; fail).
    - destruct tk; try (destruct Hp; fail). discriminate.
    - rewrite occs_group in Hp. cbn [qual_only] in Hq.
      destruct (str_eqb name s_types && forallb (is_null cfg t) items) eqn:Et; [destruct Hp|].
      destruct (is_qual_items items) eqn:Eq.
      + apply is_qual_items_inv in Eq. destruct Eq as (p0 & n & ->). cbn [flat_map] in Hp. rewrite app_nil_r in Hp.
        change (In p (item_occs cfg t (CTok (TkPkg p0)))) in Hp.
        apply pkg_item_occs in Hp. destruct Hp as [_ ->].
        exists (CGroup gid name o cl sep multi [CTok (TkPkg p0); CTok (TkId n)]), n.
        split; [repeat eexists | apply ri_here].
      + cbn [orb] in Hq. rewrite forallb_forall in Hq. rewrite Forall_forall in IH.
        apply in_flat_map in Hp. destruct Hp as (x & Hx & Hp). unfold item_occs in Hp.
        assert (Hpre : pre_occ cfg x = []).
        { specialize (Hq x Hx). destruct x as [| | |tk| | | | |]; try reflexivity. destruct tk; try reflexivity. discriminate. }
        rewrite Hpre in Hp. cbn [app] in Hp. destruct (is_null cfg t x) eqn:En; [destruct Hp|].
        destruct (IH x Hx (Hq x Hx) p Hp) as (q & n & Hs & Hr). exists q, n. split; [exact Hs|].
        eapply ri_group; eassumption.
    - rewrite occs_stmt in Hp. cbn [qual_only] in Hq. rewrite forallb_forall in Hq. rewrite Forall_forall in IH.
      apply in_flat_map in Hp. destruct Hp as (x & Hx & Hp). unfold stmt_item_occs in Hp.
      destruct (is_null cfg t x) eqn:En; [destruct Hp|].
      destruct (IH x Hx (Hq x Hx) p Hp) as (q & n & Hs & Hr). exists q, n. split; [exact Hs|].
      eapply ri_stmt; eassumption.
    - rewrite occs_dict in Hp. cbn [qual_only] in Hq. rewrite forallb_forall in Hq. rewrite Forall_forall in IH.
      apply in_flat_map in Hp. destruct Hp as (kv & Hx & Hp). unfold pair_occs, dead in Hp.
      destruct (is_null cfg t (fst kv) || is_null cfg t (snd kv)) eqn:En; [destruct Hp|].
      assert (Hl : live cfg t kv = true) by (unfold live; rewrite En; reflexivity).
      specialize (Hq kv Hx). apply andb_true_iff in Hq. destruct Hq as [Q1 Q2]. destruct (IH kv Hx) as [Ik Iv].
      apply in_app_iff in Hp. destruct Hp as [Hp|Hp].
      + destruct (Ik Q1 p Hp) as (q & n & Hs & Hr). exists q, n. split; [exact Hs|]. eapply ri_key; eassumption.
      + destruct (Iv Q2 p Hp) as (q & n & Hs & Hr). exists q, n. split; [exact Hs|]. eapply ri_val; eassumption.
  Qed.

  (* OCCS IN THE PROPERTY'S WORDS: the non-local paths referenced by a rendered qualified identifier *)
  Theorem occs_iff_rendered_qual_shaped c : qual_only c = true -> forall p,
    In p (occs cfg t c) <-> is_local cfg p = false /\ exists q n, qual_shaped q p n /\ rendered_in cfg t q c.
  Proof.
    intros Hq p. split.
    - intros Hp. split; [eapply occs_not_local; exact Hp | apply occs_has_rendered_qual; assumption].
    - intros (Hl & q & n & Hs & Hr). eapply rendered_qual_in_occs; eassumption.
  Qed.

  (* a written group of that shape inside a quals_only tree IS the group Qual builds *)
  Lemma rendered_qual_strict gid name o cl sep multi p n c :
    rendered_in cfg t (CGroup gid name o cl sep multi [CTok (TkPkg p); CTok (TkId n)]) c ->
    quals_only c = true -> CGroup gid name o cl sep multi [CTok (TkPkg p); CTok (TkId n)] = qual gid p n.
  Proof.
    intros H. induction H as [|gid' name' o' cl' sep' multi' items x Et Hin En Hx IH|items x Hin En _ IH
                              |pairs kv Hin Hlv _ IH|pairs kv Hin Hlv _ IH]; cbn [quals_only]; intros Hq.
    - cbn [is_qual_items] in Hq. apply andb_true_iff in Hq. destruct Hq as [Hq H5]. apply andb_true_iff in Hq. destruct Hq as [Hq H4].
      apply andb_true_iff in Hq. destruct Hq as [Hq H3]. apply andb_true_iff in Hq. destruct Hq as [H1 H2].
      apply str_eqb_eq in H1, H2, H3, H4. apply negb_true_iff in H5. subst. reflexivity.
    - destruct (is_qual_items items) eqn:Eq.
      + apply is_qual_items_inv in Eq. destruct Eq as (p0 & n0 & ->).
        destruct Hin as [<-|[<-|[]]]; inversion Hx.
      + rewrite forallb_forall in Hq. apply IH. apply Hq. exact Hin.
    - rewrite forallb_forall in Hq. apply IH. apply Hq. exact Hin.
    - rewrite forallb_forall in Hq. specialize (Hq kv Hin). apply andb_true_iff in Hq. apply IH. apply Hq.
    - rewrite forallb_forall in Hq. specialize (Hq kv Hin). apply andb_true_iff in Hq. apply IH. apply Hq.
  Qed.

  (* the same with the very term [qual gid p n], for trees whose package tokens all come from Qual *)
  Theorem occs_iff_rendered_qual c : quals_only c = true -> forall p,
    In p (occs cfg t c) <-> is_local cfg p = false /\ exists gid n, rendered_in cfg t (qual gid p n) c.
  Proof.
    intros Hq p. rewrite (occs_iff_rendered_qual_shaped c (quals_only_qual_only c Hq) p). split.
    - intros (Hl & q & n & (gid & name & o & cl & sep & multi & ->) & Hr). split; [exact Hl|].
      exists gid, n. rewrite <- (rendered_qual_strict _ _ _ _ _ _ _ _ _ Hr Hq). exact Hr.
    - intros (Hl & gid & n & Hr). split; [exact Hl|]. exists (qual gid p n), n. split; [apply qual_is_qual_shaped | exact Hr].
  Qed.
End RenderedQuals.

Lemma file_group_quals_only f : forallb quals_only (f_items f) = true -> quals_only (file_group f) = true.
Proof.
  intros H. unfold file_group. cbn [quals_only].
  destruct (is_qual_items (f_items f)) eqn:Eq; [|exact H].
  apply is_qual_items_inv in Eq. destruct Eq as (p & n & E). rewrite E in H. cbn in H. discriminate.
Qed.

(* EXACTNESS in the property's words: after File.Render the import table holds exactly the
   paths it held before (the Anon set of a fresh File) and the non-local paths referenced by
   a qualified identifier that is rendered - where "rendered" may be judged at the table
   before the render or at the one after it: they agree *)
Theorem file_imports_exact_rendered f t1 raw :
  cfg_ok (file_cfg f) -> forallb quals_only (f_items f) = true -> file_raw f = Ok (t1, raw) ->
  (forall p, In p (akeys t1) <->
             In p (akeys (f_imports f)) \/
             (is_local (file_cfg f) p = false /\ exists gid n, rendered_in (file_cfg f) t1 (qual gid p n) (file_group f))) /\
  (forall c', rendered_in (file_cfg f) (f_imports f) c' (file_group f) <-> rendered_in (file_cfg f) t1 c' (file_group f)).
Proof.
  intros Hc Hq Hr. destruct (file_raw_render _ _ _ Hr) as (s & Hs & _).
  destruct (render_stable _ Hc _ _ _ _ _ Hs) as [He _].
  assert (Hri : forall c', rendered_in (file_cfg f) (f_imports f) c' (file_group f) <-> rendered_in (file_cfg f) t1 c' (file_group f))
    by (intros c'; apply rendered_in_ext; exact He).
  split; [|exact Hri]. intros p.
  rewrite (file_imports_exact f t1 raw Hc Hr p).
  rewrite (occs_iff_rendered_qual (file_cfg f) (f_imports f) (file_group f) (file_group_quals_only f Hq) p).
  split; (intros [H|(Hl & gid & n & H)]; [left; exact H | right; split; [exact Hl|]; exists gid, n; apply Hri; exact H]).
Qed.

(* the variant for the model's larger tree type (any group around the two tokens) *)
Theorem file_imports_exact_rendered_shaped f t1 raw :
  cfg_ok (file_cfg f) -> forallb qual_only (f_items f) = true -> file_raw f = Ok (t1, raw) ->
  forall p, In p (akeys t1) <->
            In p (akeys (f_imports f)) \/
            (is_local (file_cfg f) p = false /\
             exists q n, qual_shaped q p n /\ rendered_in (file_cfg f) t1 q (file_group f)).
Proof.
  intros Hc Hq Hr p. destruct (file_raw_render _ _ _ Hr) as (s & Hs & _).
  destruct (render_stable _ Hc _ _ _ _ _ Hs) as [He _].
  rewrite (file_imports_exact f t1 raw Hc Hr p).
  rewrite (occs_iff_rendered_qual_shaped (file_cfg f) (f_imports f) (file_group f) (file_group_qual_only f Hq) p).
  split; (intros [H|(Hl & q & n & Hsq & H)]; [left; exact H | right; split; [exact Hl|]; exists q, n; split; [exact Hsq|];
          apply (rendered_in_ext (file_cfg f) _ _ q (file_group f) He); exact H]).
Qed.

(* with the looser qual_only (any group around the two tokens) the statement in terms of the
   very term [qual gid p n] is false of the model's tree type: a group of another name
   holding the two tokens registers the path, and no sub-tree is [qual _ p _] *)
Theorem occs_iff_rendered_qual_loose_refuted :
  exists cfg t c p, qual_only c = true /\ In p (occs cfg t c) /\
                    ~ exists gid n, rendered_in cfg t (qual gid p n) c.
Proof.
  exists (mkcfg [] [] []), [], (CGroup 1 (S "list") (S "(") (S ")") (S ",") false [CTok (TkPkg (S "a/b")); CTok (TkId (S "X"))]), (S "a/b").
  split; [reflexivity|]. split; [left; reflexivity|].
  intros (gid & n & H). inversion H as [|? ? ? ? ? ? ? x Et Hin En Hx| | |]; subst.
  destruct Hin as [<-|[<-|[]]]; inversion Hx.
Qed.

(* ---- the side condition, unfolded for readers ---- *)
Section MapsOkUnfold.
  Variable cfg : config.
  Variable t : table.

  Lemma maps_ok_group_iff gid name o cl sep multi items :
    maps_ok cfg t (CGroup gid name o cl sep multi items) <->
    Forall (fun x => is_null cfg t x = false -> maps_ok cfg t x) items.
  Proof. split; [intros H; inversion H; assumption | apply mo_group]. Qed.

  Lemma maps_ok_stmt_iff items :
    maps_ok cfg t (CStmt items) <-> Forall (fun x => is_null cfg t x = false -> maps_ok cfg t x) items.
  Proof. split; [intros H; inversion H; assumption | apply mo_stmt]. Qed.

  Lemma maps_ok_dict_iff pairs :
    maps_ok cfg t (CDict pairs) <->
    Forall (fun kv => live cfg t kv = true -> maps_ok cfg t (fst kv) /\ maps_ok cfg t (snd kv)) pairs /\
    (forall kv, In kv pairs -> live cfg t kv = true -> exists s, render cfg false t (fst kv) = Ok (t, s)) /\
    NoDup (map (fun kv => rtxt cfg t (fst kv)) (filter (live cfg t) pairs)).
  Proof.
    split; [intros H; inversion H; auto | intros (H1 & H2 & H3); apply mo_dict; assumption].
  Qed.

  Lemma maps_ok_tag_iff kvs : maps_ok cfg t (CTag kvs) <-> NoDup (map fst kvs).
  Proof. split; [intros H; inversion H; assumption | apply mo_tag]. Qed.

  Lemma maps_ok_leaf c :
    match c with CGroup _ _ _ _ _ _ _ | CStmt _ | CDict _ | CTag _ => True | _ => maps_ok cfg t c end.
  Proof. destruct c; try exact I; constructor. Qed.
End MapsOkUnfold.

(* ------------------------------------------------------------------ C07: the threaded side condition *)
(* [maps_ok cfg t c] asks every Dict key to be settled at the table t the render STARTS from.
   A key may also name a package that an EARLIER part of the same tree imports: what matters
   is the table the traversal has when it ARRIVES at the Dict.  [maps_safe cfg t c] says
   exactly that, by following the traversal: the loops below mirror group_loop, stmt_loop and
   the second Dict pass, and hand to each item the table it is rendered from. *)
Section Threaded.
  Variable cfg : config.

  Inductive gitems_safe (P : table -> code -> Prop) : table -> list code -> Prop :=
  | gs_nil t : gitems_safe P t []
  | gs_cons t x l :
      (forall t0, prereg cfg t x = Ok t0 ->
         (is_null cfg t0 x = true -> gitems_safe P t0 l) /\
         (is_null cfg t0 x = false ->
            P t0 x /\ forall ta s, render cfg false t0 x = Ok (ta, s) -> gitems_safe P ta l)) ->
      gitems_safe P t (x :: l).

  Inductive sitems_safe (P : table -> code -> Prop) : table -> list code -> Prop :=
  | ss_nil t : sitems_safe P t []
  | ss_cons t x l :
      (is_null cfg t x = true -> sitems_safe P t l) ->
      (is_null cfg t x = false ->
         P t x /\ forall ctx ta s, render cfg ctx t x = Ok (ta, s) -> sitems_safe P ta l) ->
      sitems_safe P t (x :: l).

  Inductive pass2_safe (P : table -> code -> Prop) : table -> list (code * code) -> Prop :=
  | p2_nil t : pass2_safe P t []
  | p2_cons t kv l :
      P t (fst kv) ->
      (forall ta s, render cfg false t (fst kv) = Ok (ta, s) ->
         P ta (snd kv) /\ forall tb s', render cfg false ta (snd kv) = Ok (tb, s') -> pass2_safe P tb l) ->
      pass2_safe P t (kv :: l).

  Inductive maps_safe : table -> code -> Prop :=
  | ms_nil t : maps_safe t CNil
  | ms_nils t : maps_safe t CNilStmt
  | ms_nilg t : maps_safe t CNilGroup
  | ms_tok t tk : maps_safe t (CTok tk)
  | ms_com t s : maps_safe t (CComment s)
  | ms_group t gid name o cl sep multi items :
      (str_eqb name s_types && forallb (is_null cfg t) items = false -> gitems_safe maps_safe t items) ->
      maps_safe t (CGroup gid name o cl sep multi items)
  | ms_stmt t items : sitems_safe maps_safe t items -> maps_safe t (CStmt items)
  | ms_dict t pairs :
      (* first pass, at the table t the Dict is reached with: every surviving key is settled *)
      (forall kv, In kv pairs -> live cfg t kv = true ->
         maps_safe t (fst kv) /\ exists s, render cfg false t (fst kv) = Ok (t, s)) ->
      NoDup (map (fun kv => rtxt cfg t (fst kv)) (filter (live cfg t) pairs)) ->
      (* second pass, over the pairs in key order: keys and values where they are rendered *)
      pass2_safe maps_safe t (isort_by (fun kv => rtxt cfg t (fst kv)) (filter (live cfg t) pairs)) ->
      maps_safe t (CDict pairs)
  | ms_tag t kvs : NoDup (map fst kvs) -> maps_safe t (CTag kvs).

  Definition perm_ok_th (c : code) : Prop :=
    forall c' t ctx, tree_perm c c' -> maps_safe t c -> render cfg ctx t c = render cfg ctx t c'.

  Lemma group_loop_threaded name sep multi n items items' :
    Forall perm_ok_th items -> Forall2 tree_perm items items' ->
    forall t first, gitems_safe maps_safe t items ->
    group_loop cfg (render cfg) name sep multi n t first items =
    group_loop cfg (render cfg) name sep multi n t first items'.
  Proof.
    intros HP H. revert HP. induction H as [|c c' l l' Hc Hl IH]; intros HP t first HS; [reflexivity|].
    inversion HP as [|? ? Pc Pl]; subst. inversion HS as [|? ? ? Hx]; subst.
    cbn [group_loop]. fold (prereg cfg t c). fold (prereg cfg t c'). rewrite <- (tree_perm_prereg cfg t c c' Hc).
    destruct (prereg cfg t c) as [t0|m] eqn:Ep; cbn [bind]; [|reflexivity].
    destruct (Hx t0 eq_refl) as [Hn Hnn].
    rewrite <- (is_null_tree_perm cfg t0 c c' Hc). destruct (is_null cfg t0 c) eqn:En.
    - apply IH; [exact Pl | apply Hn; reflexivity].
    - destruct (Hnn eq_refl) as [Sc Hnext]. rewrite <- (tree_perm_is_dict c c' Hc).
      destruct (str_eqb name s_values && is_dict c && Nat.ltb 1 n); [reflexivity|].
      rewrite <- (Pc c' t0 false Hc Sc).
      destruct (render cfg false t0 c) as [[ta sa]|m] eqn:Er; cbn [bind fst snd]; [|reflexivity].
      rewrite (IH Pl ta false (Hnext ta sa eq_refl)). reflexivity.
  Qed.

  Lemma stmt_loop_threaded all all' items items' :
    Forall2 tree_perm all all' -> Forall perm_ok_th items -> Forall2 tree_perm items items' ->
    forall t first, sitems_safe maps_safe t items ->
    stmt_loop cfg (render cfg) all t first items = stmt_loop cfg (render cfg) all' t first items'.
  Proof.
    intros Ha HP H. revert HP. induction H as [|c c' l l' Hc Hl IH]; intros HP t first HS; [reflexivity|].
    inversion HP as [|? ? Pc Pl]; subst. inversion HS as [|? ? ? Hn Hnn]; subst.
    cbn [stmt_loop]. rewrite <- (is_null_tree_perm cfg t c c' Hc). destruct (is_null cfg t c) eqn:En.
    - apply IH; [exact Pl | apply Hn; reflexivity].
    - destruct (Hnn eq_refl) as [Sc Hnext].
      rewrite <- (case_ctx_perm all all' c c' Ha Hc). rewrite <- (Pc c' t (case_ctx all c) Hc Sc).
      destruct (render cfg (case_ctx all c) t c) as [[ta sa]|m] eqn:Er; cbn [bind fst snd]; [|reflexivity].
      rewrite (IH Pl ta false (Hnext _ ta sa Er)). reflexivity.
  Qed.

  Definition pair_th (kv kv' : code * code) : Prop :=
    pair_perm kv kv' /\ perm_ok_th (fst kv) /\ perm_ok_th (snd kv).

  Lemma dict_pass2_threaded several txt txt' L L' :
    Forall2 pair_th L L' ->
    forall t0 first, pass2_safe maps_safe t0 L ->
    dict_pass2 several t0 first (map (entry_of cfg txt) L) = dict_pass2 several t0 first (map (entry_of cfg txt') L').
  Proof.
    induction 1 as [|kv kv' L L' (Hp & Pk & Pv) _ IH]; intros t0 first HS; [reflexivity|].
    inversion HS as [|? ? ? Sk Hv]; subst.
    cbn [map dict_pass2 entry_of fst snd].
    rewrite <- (Pk _ t0 false (proj1 Hp) Sk).
    destruct (render cfg false t0 (fst kv)) as [[ta sa]|m] eqn:Ek; cbn [bind fst snd]; [|reflexivity].
    destruct (Hv ta sa eq_refl) as [Sv Hnext].
    rewrite <- (Pv _ ta false (proj2 Hp) Sv).
    destruct (render cfg false ta (snd kv)) as [[tb sb]|m] eqn:Ev; cbn [bind fst snd]; [|reflexivity].
    rewrite (IH tb false (Hnext tb sb eq_refl)). reflexivity.
  Qed.

  (* TREES, threaded form.  No hypothesis on the configuration. *)
  Theorem render_tree_perm_threaded : forall c, perm_ok_th c.
  Proof.
    induction c as [| | |tk|gid name o cl sep multi items IH|items IH|pairs IH|kvs|s] using code_ind';
      intros c' t ctx Hp Hm;
      inversion Hp as [|? ? ? ? ? ? ? items' HF|? items' HF|? pairs' pairs'' HF HP|? kvs' HP]; subst;
      try reflexivity.
    - inversion Hm as [| | | | |? ? ? ? ? ? ? ? HG| | |]; subst. cbn [render].
      rewrite <- (forallb_Forall2 (is_null cfg t) (is_null cfg t) _ _ _ HF)
        by (intros x x' _ Hx; apply is_null_tree_perm; exact Hx).
      destruct (str_eqb name s_types && forallb (is_null cfg t) items); [reflexivity|].
      rewrite <- (Forall2_len2 _ _ _ HF).
      rewrite (group_loop_threaded name sep multi (length items) items items' IH HF t true (HG eq_refl)). reflexivity.
    - inversion Hm as [| | | | | |? ? HG| |]; subst. cbn [render].
      apply stmt_loop_threaded; assumption.
    - inversion Hm as [| | | | | | |? ? HK HN HP2|]; subst.
      assert (Hs : keys_settled cfg t (rtxt cfg t) pairs).
      { intros kv Hin Hl. destruct (HK kv Hin Hl) as [_ [s Hs]]. rewrite (rtxt_ok cfg _ _ _ Hs). exact Hs. }
      set (R := fun kv kv' : code * code => pair_th kv kv' /\ maps_safe t (fst kv)).
      assert (Rkey : forall kv kv', R kv kv' -> rtxt cfg t (fst kv) = rtxt cfg t (fst kv')).
      { intros kv kv' ((Hr & Pk & _) & Sk). unfold rtxt. rewrite (Pk _ t false (proj1 Hr) Sk). reflexivity. }
      assert (HL : Forall2 R (filter (live cfg t) pairs) (filter (live cfg t) pairs')).
      { apply Forall2_impl_In with (R := pair_perm).
        - apply filter_Forall2; [exact HF|]. intros kv kv' _ Hr. apply live_tree_perm. exact Hr.
        - intros kv kv' Hin Hr. apply filter_In in Hin. destruct Hin as [Hin Hl].
          rewrite Forall_forall in IH. destruct (IH kv Hin) as [Pk Pv]. destruct (HK kv Hin Hl) as [Sk _].
          split; [split; [exact Hr | split; assumption] | exact Sk]. }
      assert (Hs' : keys_settled cfg t (rtxt cfg t) pairs').
      { intros kv' Hin' Hl'. destruct (Forall2_In_r _ _ _ _ HF Hin') as (kv & Hin & Hr).
        pose proof Hl' as Hl. rewrite <- (live_tree_perm cfg t kv kv' Hr) in Hl.
        rewrite Forall_forall in IH. destruct (IH kv Hin) as [Pk _]. destruct (HK kv Hin Hl) as [Sk _].
        assert (E : render cfg false t (fst kv') = render cfg false t (fst kv))
          by (symmetry; apply Pk; [apply Hr | exact Sk]).
        unfold rtxt. rewrite E. apply Hs; assumption. }
      assert (Hkeys : map (fun kv => rtxt cfg t (fst kv)) (filter (live cfg t) pairs) =
                      map (fun kv => rtxt cfg t (fst kv)) (filter (live cfg t) pairs')).
      { apply (Forall2_map_eq _ _ _ _ _ HL). exact Rkey. }
      rewrite <- (dict_perm_general cfg t (rtxt cfg t) ctx pairs' pairs'' Hs' HP) by (rewrite <- Hkeys; exact HN).
      rewrite (dict_render_keys_settled cfg t (rtxt cfg t) ctx pairs Hs),
              (dict_render_keys_settled cfg t (rtxt cfg t) ctx pairs' Hs').
      cbv zeta. rewrite !isort_by_length, (Forall2_len2 _ _ _ HL).
      apply dict_pass2_threaded; [|exact HP2].
      apply Forall2_impl_In with (R := R); [|intros kv kv' _ [Hr _]; exact Hr].
      apply isort_by_Forall2; [exact Rkey | exact HL].
    - inversion Hm as [| | | | | | | |? ? HN]; subst. cbn [render].
      rewrite (tag_text_perm kvs kvs' HN HP). reflexivity.
  Qed.

  Corollary render_tree_perm_threaded_eq c c' t ctx :
    tree_perm c c' -> maps_safe t c -> render cfg ctx t c = render cfg ctx t c'.
  Proof. intros Hp Hm. apply render_tree_perm_threaded; assumption. Qed.

  (* ---- the condition at the starting table implies the threaded one ---- *)
  Hypothesis Hcfg : cfg_ok cfg.
  Notation ext := (ext cfg).

  Definition safe_of_ok (c : code) : Prop := forall t, maps_ok cfg t c -> maps_safe t c.

  Lemma gitems_safe_of_ok items :
    Forall safe_of_ok items -> forall t, guarded cfg t items -> gitems_safe maps_safe t items.
  Proof.
    induction 1 as [|x l Hx _ IH]; intros t HG; [constructor|].
    inversion HG as [|? ? Gx Gl]; subst. apply gs_cons. intros t0 Ep.
    destruct (prereg_stable cfg Hcfg _ _ _ Ep) as [He0 _]. split.
    - intros _. apply IH. exact (guarded_ext cfg Hcfg _ _ _ He0 Gl).
    - intros En. split.
      + apply Hx. apply (maps_ok_ext cfg Hcfg x t t0 He0). apply Gx.
        rewrite <- (is_null_ext cfg _ _ x He0). exact En.
      + intros ta s Er. destruct (render_stable cfg Hcfg _ _ _ _ _ Er) as [Hea _].
        apply IH. exact (guarded_ext cfg Hcfg _ _ _ (ext_trans cfg _ _ _ He0 Hea) Gl).
  Qed.

  Lemma sitems_safe_of_ok items :
    Forall safe_of_ok items -> forall t, guarded cfg t items -> sitems_safe maps_safe t items.
  Proof.
    induction 1 as [|x l Hx _ IH]; intros t HG; [constructor|].
    inversion HG as [|? ? Gx Gl]; subst. apply ss_cons.
    - intros _. apply IH. exact Gl.
    - intros En. split; [apply Hx; apply Gx; exact En|].
      intros ctx ta s Er. destruct (render_stable cfg Hcfg _ _ _ _ _ Er) as [Hea _].
      apply IH. exact (guarded_ext cfg Hcfg _ _ _ Hea Gl).
  Qed.

  Lemma pass2_safe_of_ok t L :
    (forall kv, In kv L -> safe_of_ok (fst kv) /\ safe_of_ok (snd kv) /\ maps_ok cfg t (fst kv) /\ maps_ok cfg t (snd kv)) ->
    forall t0, ext t t0 -> pass2_safe maps_safe t0 L.
  Proof.
    induction L as [|kv L IH]; intros HL t0 He; [constructor|].
    destruct (HL kv (or_introl eq_refl)) as (Sk & Sv & Mk & Mv).
    assert (HL' : forall x, In x L -> safe_of_ok (fst x) /\ safe_of_ok (snd x) /\ maps_ok cfg t (fst x) /\ maps_ok cfg t (snd x))
      by (intros x Hx; apply HL; right; exact Hx).
    apply p2_cons; [apply Sk; exact (maps_ok_ext cfg Hcfg _ _ _ He Mk)|].
    intros ta s Ek. destruct (render_stable cfg Hcfg _ _ _ _ _ Ek) as [Hea _].
    pose proof (ext_trans cfg _ _ _ He Hea) as Ha. split; [apply Sv; exact (maps_ok_ext cfg Hcfg _ _ _ Ha Mv)|].
    intros tb s' Ev. destruct (render_stable cfg Hcfg _ _ _ _ _ Ev) as [Heb _].
    apply IH; [exact HL' | exact (ext_trans cfg _ _ _ Ha Heb)].
  Qed.

  Theorem maps_ok_safe : forall c, safe_of_ok c.
  Proof.
    induction c as [| | |tk|gid name o cl sep multi items IH|items IH|pairs IH|kvs|s] using code_ind';
      intros t H; inversion H as [| | | | |? ? ? ? ? ? ? HG|? HG|? HG HK HN|? HN]; subst; try (constructor; fail).
    - apply ms_group. intros _. apply gitems_safe_of_ok; assumption.
    - apply ms_stmt. apply sitems_safe_of_ok; assumption.
    - rewrite Forall_forall in IH, HG. apply ms_dict.
      + intros kv Hin Hl. destruct (HG kv Hin Hl) as [Mk _]. destruct (IH kv Hin) as [Sk _].
        split; [apply Sk; exact Mk | apply HK; assumption].
      + exact HN.
      + apply pass2_safe_of_ok with (t := t); [|apply ext_refl].
        intros kv Hin. apply isort_by_In in Hin. apply filter_In in Hin. destruct Hin as [Hin Hl].
        destruct (HG kv Hin Hl) as [Mk Mv]. destruct (IH kv Hin) as [Sk Sv]. repeat split; assumption.
    - apply ms_tag. exact HN.
  Qed.
End Threaded.

Theorem file_raw_tree_perm_threaded f items' :
  Forall2 tree_perm (f_items f) items' ->
  maps_safe (file_cfg f) (f_imports f) (file_group f) ->
  file_raw (with_items f items') = file_raw f.
Proof.
  intros HF Hm.
  change (file_raw (with_items f items')) with
    (bind (render (file_cfg f) false (f_imports f) (CGroup 0 [] [] [] [] true items')) (fun r =>
     Ok (fst r, file_head f ++ render_imports (fst r) (f_cgo f) ++ snd r))).
  unfold file_raw.
  rewrite <- (render_tree_perm_threaded_eq (file_cfg f) (file_group f) (CGroup 0 [] [] [] [] true items')
                (f_imports f) false (tp_group _ _ _ _ _ _ _ _ HF) Hm).
  reflexivity.
Qed.

(* ------------------------------------------------------------------ an example for the threaded form *)
(* A fresh table.  The first statement imports fmt; the Dict of the second statement has two
   KEYS that are qualified identifiers of fmt - not settled at the empty table, settled at
   the table the traversal has when it arrives at the Dict - and a value that imports os. *)
Definition th_cfg : config := mkcfg [] [] [].
Definition th_pairs : list (code * code) :=
  [(CStmt [qual 2 (S "fmt") (S "B")], CStmt [CTok (TkLit (LInt 2))]);
   (CStmt [qual 3 (S "fmt") (S "A")], CStmt [qual 4 (S "os") (S "X")])].
Definition th_tree (pairs : list (code * code)) : code :=
  CGroup 0 [] [] [] [] true
    [CStmt [qual 1 (S "fmt") (S "Println")];
     CStmt [CGroup 7 s_values (S "{") (S "}") (S ",") false [CDict pairs]]].

Ltac th_inj E := vm_compute in E; injection E; clear E; intros; subst.

Ltac th_step :=
  first
    [ apply ms_tok | apply ms_com | apply gs_nil | apply ss_nil | apply p2_nil
    | apply ms_group; intros _
    | apply ms_stmt
    | let t0 := fresh "t0" in let E := fresh "E" in let H := fresh "H" in
      let ta := fresh "ta" in let s := fresh "s" in let E2 := fresh "E" in
      (apply gs_cons; intros t0 E; th_inj E;
       split; [intros H; vm_compute in H; try discriminate H; clear H
              | intros H; vm_compute in H; try discriminate H; clear H; split;
                [| intros ta s E2; th_inj E2]])
    | let H := fresh "H" in
      let c := fresh "ctx" in let ta := fresh "ta" in let s := fresh "s" in let E2 := fresh "E" in
      (apply ss_cons;
       [intros H; vm_compute in H; try discriminate H; clear H
       | intros H; vm_compute in H; try discriminate H; clear H; split;
         [| intros c ta s E2; destruct c; th_inj E2]])
    | let ta := fresh "ta" in let s := fresh "s" in let E := fresh "E" in
      let tb := fresh "tb" in let s' := fresh "s" in let E2 := fresh "E" in
      (apply p2_cons;
       [| intros ta s E; th_inj E; split; [| intros tb s' E2; th_inj E2]]) ].

Lemma th_tree_safe : maps_safe th_cfg [] (th_tree th_pairs).
Proof.
  unfold th_tree. repeat th_step.
  apply ms_dict.
  - intros kv [<-|[<-|[]]] _; (split; [repeat th_step | eexists; vm_compute; reflexivity]).
  - apply nodupb_sound. vm_compute. reflexivity.
  - match goal with |- pass2_safe _ _ _ ?L => let L' := eval vm_compute in L in change L with L' end.
    repeat th_step.
Qed.

Lemma th_tree_not_ok : ~ maps_ok th_cfg [] (th_tree th_pairs).
Proof.
  intros H. apply maps_ok_group_iff in H. inversion H as [|? ? _ H2]; subst. inversion H2 as [|? ? H3 _]; subst.
  specialize (H3 eq_refl). apply maps_ok_stmt_iff in H3. inversion H3 as [|? ? H4 _]; subst.
  specialize (H4 eq_refl). apply maps_ok_group_iff in H4. inversion H4 as [|? ? H5 _]; subst.
  specialize (H5 eq_refl). apply maps_ok_dict_iff in H5. destruct H5 as (_ & HK & _).
  destruct (HK _ (or_introl eq_refl) eq_refl) as [s Hs]. vm_compute in Hs. discriminate.
Qed.
