(* Facts about the standard-library hint tables (regenerated from the source on every run)
   and about how register treats standard-library paths, "C", the local path and dot hints. *)
From Jen Require Import Base.Bytes Base.Num Model.Code Model.Naming Gen.Tables Gen.Goroot Gen.Gennames.
From Jen Require Import Proofs.NamingProofs.
From Coq Require Import Lia.
Local Open Scope N_scope.

(* a table agrees with the installed toolchain: every path it lists that is an importable
   package directory of GOROOT/src is listed with that package's declared name *)
Definition table_true (tbl : list (str * str)) : bool :=
  forallb (fun e => match alookup (fst e) goroot_packages with
                    | Some n => str_eqb n (snd e)
                    | None => true
                    end) tbl.

Lemma std_hints_true : table_true std_hints = true.
Proof. vm_compute. reflexivity. Qed.

Lemma gennames_true : table_true gennames_table = true /\ gennames_problems = [].
Proof. split; vm_compute; reflexivity. Qed.

Lemma table_true_spec tbl p n real :
  table_true tbl = true -> In (p, n) tbl -> alookup p goroot_packages = Some real -> n = real.
Proof.
  unfold table_true. rewrite forallb_forall. intros H Hin Hr. specialize (H _ Hin). cbn [fst snd] in H.
  rewrite Hr in H. apply str_eqb_eq in H. congruence.
Qed.

Lemma std_hint_true p real :
  std_hint p <> [] -> alookup p goroot_packages = Some real -> std_hint p = real.
Proof.
  unfold std_hint. destruct (alookup p std_hints) as [n|] eqn:E; [|congruence].
  intros _ Hr. apply alookup_In in E. exact (table_true_spec _ _ _ _ std_hints_true E Hr).
Qed.

(* how many importable packages of the toolchain the table covers (evidence) *)
Definition goroot_covered : nat :=
  length (filter (fun e => match alookup (fst e) std_hints with Some _ => true | None => false end) goroot_packages).

Section Std.
  Variable cfg : config.

  (* A first registration of a path the user gave no hint for: if the import is written
     without alias then the qualifier is the table's name, which for a package of the
     toolchain is its real declared name; a path missing from the table gets an alias. *)
  Lemma register_unhinted t path t' q :
    is_local cfg path = false -> registered_name t path = None -> path <> s_C ->
    alookup path (cfg_hints cfg) = None ->
    register cfg t path = Ok (t', q) ->
    exists d, alookup path t' = Some d /\ id_name d = q /\
      (id_alias d = false -> q = std_hint path /\ std_hint path <> []) /\
      (std_hint path = [] -> id_alias d = true).
  Proof.
    intros Hl Hk HC Hh Hr. apply register_cases in Hr.
    destruct Hr as [Hl' | n Hl' Hk' | Hl' Hk' HC' | name alias i Hl' Hk' HC' Hc Hok Hmin]; try congruence.
    eexists. rewrite alookup_aset_same. split; [reflexivity|]. split; [reflexivity|].
    unfold choose_name in Hc. rewrite Hh in Hc. cbn [id_alias].
    destruct (str_eqb_spec (std_hint path) []) as [E|E]; simpl in Hc; injection Hc as <- <-.
    - split; [discriminate | reflexivity].
    - split; [|congruence]. intros Ha. simpl in Ha. apply negb_false_iff, str_eqb_eq in Ha.
      rewrite Ha, str_eqb_refl. unfold with_prefix. cbn [orb negb]. rewrite andb_false_r. cbn [andb]. split; [reflexivity | exact E].
  Qed.

  (* "C" is always registered and referenced as C, without alias *)
  Lemma register_C t :
    is_local cfg s_C = false ->
    (forall d, alookup s_C t = Some d -> d = mkdef s_C false \/ id_name d = s_us \/ id_name d = []) ->
    exists t', register cfg t s_C = Ok (t', s_C) /\ alookup s_C t' = Some (mkdef s_C false) /\
               (forall p, p <> s_C -> alookup p t' = alookup p t).
  Proof.
    intros Hl HC. unfold register. rewrite Hl. unfold registered_name.
    destruct (alookup s_C t) as [d|] eqn:E.
    - destruct (HC d eq_refl) as [->|[Hd|Hd]].
      + simpl. exists t. repeat split; auto.
      + rewrite Hd. simpl. eexists. split; [reflexivity|].
        split; [apply alookup_aset_same|]. intros p Hp. apply alookup_aset_other. congruence.
      + rewrite Hd. simpl. eexists. split; [reflexivity|].
        split; [apply alookup_aset_same|]. intros p Hp. apply alookup_aset_other. congruence.
    - simpl. eexists. split; [reflexivity|].
      split; [apply alookup_aset_same|]. intros p Hp. apply alookup_aset_other. congruence.
  Qed.

  Lemma is_dot_C t : is_dot cfg t s_C = false.
  Proof. reflexivity. Qed.
End Std.

(* the invariant on the entry for "C", over every history of registrations and Anon calls *)
Definition C_entry_ok (t : table) : Prop :=
  forall d, alookup s_C t = Some d -> d = mkdef s_C false \/ id_name d = s_us \/ id_name d = [].

Definition nstep_any (t : table) (o : nop) : table := nstep t o.

Lemma C_entry_step t o :
  (match o with NReg cfg _ => is_local cfg s_C = false | NAnon _ => True end) ->
  C_entry_ok t -> C_entry_ok (nstep t o).
Proof.
  destruct o as [cfg p|p]; simpl; intros Hloc H.
  - destruct (register cfg t p) as [[t' n]|m] eqn:E; [|exact H].
    apply register_cases in E.
    destruct E as [Hl | n Hl Hk | Hl Hk HC | name alias i Hl Hk HC Hc Hok Hmin]; try exact H.
    + intros d Hd. rewrite alookup_aset_same in Hd. injection Hd as <-. left. reflexivity.
    + intros d Hd. rewrite alookup_aset_other in Hd by exact HC. apply H. exact Hd.
  - intros d Hd. destruct (str_eq_dec p s_C) as [->|Hp].
    + rewrite alookup_aset_same in Hd. injection Hd as <-. right. left. reflexivity.
    + rewrite alookup_aset_other in Hd by exact Hp. apply H. exact Hd.
Qed.

Lemma C_entry_history ops t :
  Forall (fun o => match o with NReg cfg _ => is_local cfg s_C = false | NAnon _ => True end) ops ->
  C_entry_ok t -> C_entry_ok (fold_left nstep ops t).
Proof.
  revert t. induction ops as [|o ops IH]; intros t Hok H; simpl; [exact H|].
  inversion Hok; subst. apply IH; [assumption|]. apply C_entry_step; assumption.
Qed.

Lemma C_entry_nil : C_entry_ok [].
Proof. intros d H. discriminate. Qed.
