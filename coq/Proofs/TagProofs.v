(* C17: the rendered struct tag, read back with reflect.StructTag.Lookup, returns every value. *)
From Jen Require Import Base.Bytes Base.Utf8 Base.Sort GoStd.Quote GoStd.StructTag GoStd.IsPrint.
From Jen Require Import Proofs.QuoteProofs Model.Render.
From Coq Require Import Permutation Sorted.
From Coq Require Import ZifyN ZifyNat ZifyBool.
Local Open Scope N_scope.

Definition conv_key (k : str) : Prop := k <> [] /\ Forall (fun c => key_char c = true) k.

Lemma go_is_print_nl : go_is_print 10 = false.
Proof. reflexivity. Qed.

Section Tags.
  Variable is_print : N -> bool.
  Hypothesis print_nl : is_print 10 = false.

  Definition item (kv : str * str) : str := fst kv ++ S ":" ++ Quote is_print (snd kv).

  Lemma skip_spaces_key c t : key_char c = true -> skip_spaces (c :: t) = c :: t.
  Proof.
    intros H. cbn [skip_spaces]. destruct (beq_spec c x20) as [->|Hne]; [|reflexivity].
    discriminate H.
  Qed.

  Lemma span_key_app k X : Forall (fun c => key_char c = true) k -> span_key (k ++ x3a :: X) = (k, x3a :: X).
  Proof.
    induction k as [|c k IH]; intros H; cbn [app span_key].
    - reflexivity.
    - inversion H as [|? ? Hc Hk]; subst. rewrite Hc, IH by exact Hk. reflexivity.
  Qed.

  Lemma scan_q_chunk c X : chunk_ok c_dq c -> scan_q (c ++ X) false = prepend c (scan_q X false).
  Proof.
    assert (Hraw : forall p Y, Forall (plain c_dq) p -> scan_q (p ++ Y) false = prepend p (scan_q Y false)).
    { induction p as [|a p IH]; intros Y Hp; cbn [app].
      - symmetry. apply prepend_nil.
      - inversion Hp as [|? ? [H1 [H2 H3]] Hp']; subst. cbn [scan_q].
        apply beq_neq in H1, H2. rewrite H1, H2. rewrite IH by exact Hp'.
        apply prepend_prepend. }
    intros [p Hp | e tail He Ht].
    - apply Hraw. exact Hp.
    - cbn [app scan_q]. change (beq c_bs c_dq) with false. change (beq c_bs c_bs) with true. cbv iota.
      rewrite Hraw by exact Ht. rewrite !prepend_prepend. reflexivity.
  Qed.

  Lemma scan_q_quote_body v R :
    scan_q (quote_body is_print (b2n c_dq) (length v) v ++ c_dq :: R) false =
    Some (quote_body is_print (b2n c_dq) (length v) v ++ [c_dq], R).
  Proof.
    rewrite (consumer_quote_body is_print print_nl c_dq (or_introl eq_refl) (fun s => scan_q s false) scan_q_chunk).
    cbn [scan_q]. change (beq c_dq c_dq) with true. cbv iota. reflexivity.
  Qed.

  Lemma lookup_skip f b k : lookup_fuel f (x20 :: b) k = lookup_fuel f b k.
  Proof. destruct f; [reflexivity|]. cbn [lookup_fuel skip_spaces]. change (beq x20 x20) with true. reflexivity. Qed.

  (* one iteration of Lookup on "key:quoted" ++ R *)
  Lemma lookup_step f k0 v0 R k : conv_key k0 ->
    lookup_fuel (Datatypes.S f) (item (k0, v0) ++ R) k =
    if str_eqb k k0 then Some v0 else lookup_fuel f R k.
  Proof.
    intros [Hne Hk]. unfold item. cbn [fst snd].
    destruct k0 as [|c k0']; [congruence|].
    inversion Hk as [|? ? Hc Hk']; subst.
    cbn [lookup_fuel].
    assert (E : ((c :: k0') ++ S ":" ++ Quote is_print v0) ++ R
                = (c :: k0') ++ x3a :: c_dq :: quote_body is_print (b2n c_dq) (length v0) v0 ++ c_dq :: R).
    { unfold Quote, quote_with. rewrite <- !app_assoc. cbn [app S String.list_byte_of_string].
      change (S ":") with [x3a]. cbn [app]. rewrite <- app_assoc. reflexivity. }
    rewrite E.
    change ((c :: k0') ++ x3a :: c_dq :: quote_body is_print (b2n c_dq) (length v0) v0 ++ c_dq :: R)
      with (c :: (k0' ++ x3a :: c_dq :: quote_body is_print (b2n c_dq) (length v0) v0 ++ c_dq :: R)).
    rewrite skip_spaces_key by exact Hc.
    change (c :: (k0' ++ x3a :: c_dq :: quote_body is_print (b2n c_dq) (length v0) v0 ++ c_dq :: R))
      with ((c :: k0') ++ x3a :: c_dq :: quote_body is_print (b2n c_dq) (length v0) v0 ++ c_dq :: R).
    rewrite span_key_app by exact Hk.
    change (beq x3a x3a && beq c_dq c_dq) with true. cbv iota.
    rewrite scan_q_quote_body.
    destruct (str_eqb k (c :: k0')); [|reflexivity].
    change (c_dq :: quote_body is_print (b2n c_dq) (length v0) v0 ++ [c_dq]) with (Quote is_print v0).
    apply Quote_roundtrip. exact print_nl.
  Qed.

  Lemma join_cons2 (x y : str) l : join (S " ") (x :: y :: l) = x ++ x20 :: join (S " ") (y :: l).
  Proof. reflexivity. Qed.

  Theorem lookup_join l :
    NoDup (map fst l) -> Forall conv_key (map fst l) ->
    forall fuel k v, (length l < fuel)%nat -> In (k, v) l ->
      lookup_fuel fuel (join (S " ") (map item l)) k = Some v.
  Proof.
    induction l as [|[k0 v0] l IH]; intros Hnd Hck fuel k v Hf Hin; [destruct Hin|].
    cbn [map fst] in Hnd, Hck.
    inversion Hnd as [|? ? Hni Hnd']; subst. inversion Hck as [|? ? Hc0 Hck']; subst.
    destruct fuel as [|f]; [cbn [length] in Hf; lia|].
    destruct l as [|kv1 l'].
    - cbn [map join]. rewrite <- (app_nil_r (item (k0, v0))). rewrite lookup_step by exact Hc0.
      destruct Hin as [E | []]. injection E as -> ->. rewrite str_eqb_refl. reflexivity.
    - cbn [map]. rewrite join_cons2. rewrite lookup_step by exact Hc0.
      destruct Hin as [E | Hin].
      + injection E as -> ->. rewrite str_eqb_refl. reflexivity.
      + destruct (str_eqb_spec k k0) as [->|Hne].
        * exfalso. apply Hni. change k0 with (fst (k0, v)). apply in_map. exact Hin.
        * rewrite lookup_skip. apply (IH Hnd' Hck'); [cbn [length] in *; lia | exact Hin].
  Qed.

  Lemma item_length_pos kv : (1 <= length (item kv))%nat.
  Proof. unfold item. change (S ":") with [x3a]. rewrite !app_length. cbn [length]. lia. Qed.

  Lemma join_length_ge l : (length l <= length (join (S " ") (map item l)))%nat.
  Proof.
    induction l as [|x [|y l] IH]; cbn [map length]; try lia.
    - cbn [join]. pose proof (item_length_pos x). lia.
    - rewrite join_cons2. rewrite app_length. cbn [length]. cbn [map length] in IH. lia.
  Qed.
End Tags.

(* ---- raw string literals: CanBackquote s implies the backquoted text reads back as s ---- *)
Lemma encodeN_len1 r : length (encodeN r) = 1%nat -> r < 0x80.
Proof.
  unfold encodeN. destruct (r <? 0x80) eqn:E; [lia|].
  destruct (r <? 0x800); [discriminate|]. destruct (negb _); [discriminate|].
  destruct (r <? 0x10000); discriminate.
Qed.

Lemma can_backquote_bytes fuel s : (length s <= fuel)%nat ->
  can_backquote_fuel fuel s = true -> Forall (fun c => c <> c_bq /\ c <> c_cr) s.
Proof.
  revert s. induction fuel as [|fuel IH]; intros s Hl H.
  - destruct s; [constructor | cbn [length] in Hl; lia].
  - destruct s as [|b0 t]; [constructor|].
    cbn [can_backquote_fuel] in H.
    destruct (decode_rune (b0 :: t)) as [r w] eqn:Ed.
    pose proof (decode_rune_width_pos b0 t) as Hw. rewrite Ed in Hw. cbn [snd] in Hw.
    assert (Hsplit : b0 :: t = firstn w (b0 :: t) ++ skipn w (b0 :: t)) by (symmetry; apply firstn_skipn).
    destruct (Nat.ltb 1 w) eqn:Ew.
    + apply Nat.ltb_lt in Ew.
      destruct (r =? 0xFEFF); [discriminate|].
      assert (Hok : decode_ok (r, w) = true).
      { unfold decode_ok. cbn [fst snd]. destruct (Nat.leb w 1) eqn:El; [apply Nat.leb_le in El; lia|].
        rewrite andb_false_r. reflexivity. }
      destruct (encode_decode_rune _ _ _ Ed Hok) as (Hv & Henc & Hlen & _).
      rewrite Hsplit. apply Forall_app. split.
      * rewrite <- Henc.
        assert (Hr : 0x80 <= r).
        { destruct (r <? 0x80) eqn:E; [|lia]. exfalso.
          assert (length (encode_rune r) = 1%nat) by (rewrite encode_rune_ascii by lia; reflexivity).
          rewrite Henc, firstn_length in H0. lia. }
        pose proof (encode_rune_high r Hr) as Hh.
        eapply Forall_impl; [|exact Hh]. intros c Hc. cbv beta in Hc.
        split; intros ->; cbn in Hc; lia.
      * apply IH; [rewrite skipn_length; cbn [length] in *; lia | exact H].
    + apply Nat.ltb_ge in Ew. assert (w = 1%nat) by lia. subst w.
      destruct (r =? rune_error) eqn:Er; [discriminate|].
      destruct (((r <? 32) && negb (r =? 9)) || (r =? 96) || (r =? 127)) eqn:Ec; [discriminate|].
      assert (Hok : decode_ok (r, 1%nat) = true).
      { unfold decode_ok. cbn [fst snd]. rewrite Er. reflexivity. }
      destruct (encode_decode_rune _ _ _ Ed Hok) as (Hv & Henc & Hlen & _).
      cbn [firstn] in Henc.
      assert (Hr : r < 0x80).
      { apply encodeN_len1. rewrite <- encode_rune_length, Henc. reflexivity. }
      rewrite encode_rune_ascii in Henc by exact Hr. injection Henc as Hb.
      constructor.
      * subst b0. split; apply n2b_neq; try lia.
        -- change (b2n c_bq) with 96. lia.
        -- change (b2n c_cr) with 13. lia.
      * apply IH; [cbn [length] in Hl; lia | exact H].
Qed.

Lemma unraw_plain s R : Forall (fun c => c <> c_bq /\ c <> c_cr) s -> unraw (s ++ c_bq :: R) = Some (s, R).
Proof.
  induction s as [|c s IH]; intros H; cbn [app unraw].
  - change (beq c_bq c_bq) with true. reflexivity.
  - inversion H as [|? ? [H1 H2] H']; subst.
    apply beq_neq in H1, H2. rewrite H1, H2. rewrite IH by exact H'. reflexivity.
Qed.

Theorem backquoted_roundtrip s R : CanBackquote s = true ->
  scan_string_lit ([c_bq] ++ s ++ [c_bq] ++ R) = Some (s, R).
Proof.
  intros H. cbn [app scan_string_lit]. change (beq c_bq c_dq) with false. change (beq c_bq c_bq) with true.
  cbv iota. apply unraw_plain. apply (can_backquote_bytes (length s)); [apply le_n | exact H].
Qed.

(* ---- the theorem about tag_text as the model renders it ---- *)
Theorem tag_roundtrip (kvs : list (str * str)) :
  NoDup (map fst kvs) -> Forall conv_key (map fst kvs) -> kvs <> [] ->
  exists body,
    go_string_value (tag_text kvs) = Some body /\
    (forall k v, In (k, v) kvs -> struct_tag_lookup body k = Some v) /\
    body = join (S " ") (map (item go_is_print) (isort_by fst kvs)) /\
    StronglySorted (key_le fst) (isort_by fst kvs) /\ Permutation (isort_by fst kvs) kvs.
Proof.
  intros Hnd Hck Hne. exists (tag_body kvs).
  assert (Hbody : tag_body kvs = join (S " ") (map (item go_is_print) (isort_by fst kvs))) by reflexivity.
  split; [|split; [|split; [exact Hbody | split; [apply isort_by_sorted | apply isort_by_perm]]]].
  - unfold tag_text. destruct kvs as [|kv kvs']; [congruence|].
    cbv zeta. destruct (CanBackquote (tag_body (kv :: kvs'))) eqn:Ecb.
    + unfold go_string_value.
      rewrite <- (app_nil_r ([c_bq] ++ tag_body (kv :: kvs') ++ [c_bq])). rewrite <- !app_assoc.
      rewrite backquoted_roundtrip by exact Ecb. reflexivity.
    + apply Quote_roundtrip. exact go_is_print_nl.
  - intros k v Hin. unfold struct_tag_lookup. rewrite Hbody.
    pose proof (isort_by_perm fst kvs) as Hp.
    apply (lookup_join go_is_print go_is_print_nl).
    + eapply Permutation_NoDup; [apply Permutation_map, Permutation_sym, Hp | exact Hnd].
    + eapply Permutation_Forall; [apply Permutation_map, Permutation_sym, Hp | exact Hck].
    + pose proof (join_length_ge go_is_print go_is_print_nl (isort_by fst kvs)). lia.
    + eapply Permutation_in; [apply Permutation_sym, Hp | exact Hin].
Qed.

(* the rendered tag does not depend on the order in which the Go map is traversed *)
Theorem tag_text_perm kvs kvs' :
  NoDup (map fst kvs) -> Permutation kvs kvs' -> tag_text kvs = tag_text kvs'.
Proof.
  intros Hnd Hp. unfold tag_text, tag_body.
  rewrite (isort_by_perm_invariant fst kvs kvs' Hnd Hp).
  destruct kvs as [|a l], kvs' as [|a' l']; try reflexivity.
  - apply Permutation_nil in Hp. discriminate.
  - apply Permutation_sym, Permutation_nil in Hp. discriminate.
Qed.
