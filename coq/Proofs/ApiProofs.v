(* C14: lemmas about the checker [api_wf] and the semantics of Spec/ApiSem.v.
   Generic in the table: every statement below is about EVERY row set that passes the check,
   the table of the current source (Gen/Api.v) is only plugged in by Props/C14.v. *)
From Jen Require Import Model.FileRender.
From Jen Require Import Spec.ApiSem.
From Coq Require Import Lia.

(* ------------------------------------------------------------------ boolean equalities *)
Lemma list_eqb_eq {A} (eqb : A -> A -> bool) :
  (forall a b, eqb a b = true -> a = b) ->
  forall l1 l2, list_eqb eqb l1 l2 = true -> l1 = l2.
Proof.
  intros Heq l1. induction l1 as [|x l1 IH]; intros [|y l2] H; simpl in H; try discriminate; [reflexivity|].
  apply andb_true_iff in H. destruct H as [H1 H2]. f_equal; [apply Heq; exact H1 | apply IH; exact H2].
Qed.

Lemma pkind_eqb_eq a b : pkind_eqb a b = true -> a = b.
Proof. destruct a, b; simpl; intros H; try discriminate; reflexivity. Qed.

Lemma param_eqb_eq a b : param_eqb a b = true -> a = b.
Proof.
  destruct a as [n1 t1 k1], b as [n2 t2 k2]. unfold param_eqb. simpl. intros H.
  apply andb_true_iff in H. destruct H as [H H3]. apply andb_true_iff in H. destruct H as [H1 H2].
  apply str_eqb_eq in H1, H2. apply pkind_eqb_eq in H3. subst. reflexivity.
Qed.

Lemma simple_eqb_eq a b : simple_eqb a b = true -> a = b.
Proof.
  destruct a, b; simpl; intros H; try discriminate; try reflexivity;
    try (apply str_eqb_eq in H; subst; reflexivity).
  - apply Bool.eqb_prop in H. subst. reflexivity.
  - apply andb_true_iff in H. destruct H as [H1 H2]. apply str_eqb_eq in H1, H2. subst. reflexivity.
Qed.

Lemma mem_false_neq x y l : mem x (y :: l) = false -> str_eqb x y = false /\ mem x l = false.
Proof. unfold mem. simpl. intros H. apply orb_false_iff in H. exact H. Qed.

Lemma mem_In x l : mem x l = true <-> In x l.
Proof.
  unfold mem. rewrite existsb_exists. split.
  - intros [y [Hy He]]. apply str_eqb_eq in He. subst. exact Hy.
  - intros H. exists x. split; [exact H | apply str_eqb_refl].
Qed.

(* ------------------------------------------------------------------ the table *)
Lemma find_row_some tbl recv name r :
  find_row tbl recv name = Some r -> In r tbl /\ r_recv r = recv /\ r_name r = name.
Proof.
  unfold find_row. intros H. apply find_some in H. destruct H as [Hin H].
  unfold row_is in H. apply andb_true_iff in H. destruct H as [H1 H2].
  apply str_eqb_eq in H1, H2. auto.
Qed.

Lemma rows_wf_row tbl r : rows_wf tbl = true -> In r tbl -> row_ok tbl r = true.
Proof. unfold rows_wf. intros H Hin. rewrite forallb_forall in H. apply H. exact Hin. Qed.

(* split a conjunction of booleans into anonymous hypotheses *)
Ltac split_andb H :=
  repeat (apply andb_true_iff in H; let H1 := fresh "Hc" in destruct H as [H H1]).

Lemma is_construct_parts m : is_construct m = true ->
  r_recv m = s_Statement /\ returns_stmt m = true /\ exists l, r_body m = Body l /\ last l (SReturn ENil) = SReturn (EVar (r_self m)).
Proof.
  unfold is_construct. intros H. split_andb H.
  apply str_eqb_eq in H. split; [exact H|]. split; [assumption|].
  unfold has_body, body_stmts in *. destruct (r_body m) as [l| | |]; try discriminate.
  exists l. split; [reflexivity|].
  destruct (last l (SReturn ENil)) as [| | | |e]; try discriminate.
  destruct e; try discriminate. match goal with H : str_eqb _ _ = true |- _ => apply str_eqb_eq in H; subst end. reflexivity.
Qed.

Lemma construct_row_ok tbl m :
  rows_wf tbl = true -> In m tbl -> is_construct m = true -> construct_ok tbl m = true /\ locals_ok m = true.
Proof.
  intros Hwf Hin Hc. pose proof (rows_wf_row _ _ Hwf Hin) as Hr. unfold row_ok in Hr.
  destruct (is_construct_parts _ Hc) as [Hrecv [Hret _]].
  split_andb Hr.
  rewrite Hrecv, Hret, Hc in *. rewrite str_eqb_refl in *. simpl in *. auto.
Qed.

(* ------------------------------------------------------------------ environments *)
Lemma lookup_head x v e : lookup x ((x, v) :: e) = Some v.
Proof. simpl. rewrite str_eqb_refl. reflexivity. Qed.

Lemma lookup_skip x y v e : str_eqb x y = false -> lookup x ((y, v) :: e) = lookup x e.
Proof. intros H. simpl. rewrite H. reflexivity. Qed.

Section WithCallbacks.
  Variable cb_run : N -> list value -> store -> store * value.
  Variable callf : callfn.

  (* passing one's own parameters on yields exactly the arguments one was called with *)
  Lemma own_args_eval : forall ps args en0,
    bind_params ps args = Some en0 -> nodup_b (names ps) = true ->
    forall en h, (forall x, In x (names ps) -> lookup x en = lookup x en0) ->
    eval_args (eval cb_run callf en) en h (own_args ps) = Some (args, h, []).
  Proof.
    induction ps as [|p ps IH]; intros args en0 Hb Hnd en h Hag.
    - destruct args; simpl in Hb; [|discriminate]. reflexivity.
    - simpl in Hb. simpl in Hnd. apply andb_true_iff in Hnd. destruct Hnd as [Hp Hnd].
      apply negb_true_iff in Hp.
      unfold own_args. simpl map. unfold own_arg at 1. unfold is_variadic in Hb.
      destruct (p_kind p) eqn:Hk; simpl in Hb.
      + (* plain *)
        destruct args as [|a args]; [discriminate|].
        destruct (bind_params ps args) as [e|] eqn:Hb'; [|discriminate].
        injection Hb as <-.
        cbn [eval_args]. cbn [eval].
        rewrite (Hag (p_name p) (or_introl eq_refl)). rewrite lookup_head.
        fold (own_args ps).
        assert (Hag' : forall x, In x (names ps) -> lookup x en = lookup x e).
        { intros x Hx. rewrite (Hag x (or_intror Hx)). apply lookup_skip.
          destruct (str_eqb x (p_name p)) eqn:E; [|reflexivity].
          apply str_eqb_eq in E. subst x. apply mem_In in Hx. congruence. }
        pose proof (IH args e Hb' Hnd en h Hag') as IH'.
        unfold eval_args in IH'. unfold eval_args. rewrite IH'. reflexivity.
      + (* variadic: must be last *)
        destruct ps; [|discriminate]. injection Hb as <-.
        cbn [eval_args map]. rewrite (Hag (p_name p) (or_introl eq_refl)). rewrite lookup_head. reflexivity.
      + (* func *)
        destruct args as [|a args]; [discriminate|].
        destruct (bind_params ps args) as [e|] eqn:Hb'; [|discriminate].
        injection Hb as <-.
        cbn [eval_args]. cbn [eval].
        rewrite (Hag (p_name p) (or_introl eq_refl)). rewrite lookup_head.
        fold (own_args ps).
        assert (Hag' : forall x, In x (names ps) -> lookup x en = lookup x e).
        { intros x Hx. rewrite (Hag x (or_intror Hx)). apply lookup_skip.
          destruct (str_eqb x (p_name p)) eqn:E; [|reflexivity].
          apply str_eqb_eq in E. subst x. apply mem_In in Hx. congruence. }
        pose proof (IH args e Hb' Hnd en h Hag') as IH'.
        unfold eval_args in IH'. unfold eval_args. rewrite IH'. reflexivity.
  Qed.
End WithCallbacks.

(* ------------------------------------------------------------------ the three forms *)
Section Forms.
  Variable cb_run : N -> list value -> store -> store * value.

  Lemma cresult_eta (o : option (value * store * list N)) :
    match o with Some (v, h, lg) => Some (v, h, lg) | None => None end = o.
  Proof. destruct o as [[[v h] lg]|]; reflexivity. Qed.

  (* what the check gives for a construct: its two other forms, with their literal bodies *)
  Lemma construct_forms tbl X m :
    rows_wf tbl = true -> find_row tbl s_Statement X = Some m -> is_construct m = true ->
    exists fr gr x,
      find_row tbl [] X = Some fr /\ r_params fr = r_params m /\
      r_body fr = Body [SReturn (ECallMeth ENewStatement X (own_args (r_params m)))] /\
      find_row tbl s_Group X = Some gr /\ r_params gr = r_params m /\
      r_body gr = Body [SDefine x (ECallFn X (own_args (r_params m))); SAppendItems (r_self gr) (EVar x); SReturn (EVar x)] /\
      mem x (r_self gr :: names (r_params m)) = false /\
      nodup_b (r_self gr :: names (r_params m)) = true /\
      nodup_b (r_self m :: names (r_params m)) = true.
  Proof.
    intros Hwf Hf Hc. destruct (find_row_some _ _ _ _ Hf) as [Hin [_ Hname]].
    destruct (construct_row_ok _ _ Hwf Hin Hc) as [Hok Hloc].
    unfold construct_ok in Hok. split_andb Hok. rewrite Hname in *.
    destruct (find_row tbl [] X) as [fr|] eqn:Hfr; [|discriminate].
    destruct (find_row tbl s_Group X) as [gr|] eqn:Hgr; [|discriminate].
    destruct (find_row_some _ _ _ _ Hfr) as [Hinf [_ Hnf]].
    destruct (find_row_some _ _ _ _ Hgr) as [Hing [_ Hng]].
    repeat match goal with H : (_ && _) = true |- _ => apply andb_true_iff in H; destruct H end.
    repeat match goal with H : same_params _ _ = true |- _ =>
      unfold same_params in H; apply (list_eqb_eq _ param_eqb_eq) in H end.
    assert (Hpf : r_params fr = r_params m) by assumption.
    assert (Hpg : r_params gr = r_params m) by assumption.
    (* function form *)
    assert (Hbf : r_body fr = Body [SReturn (ECallMeth ENewStatement X (own_args (r_params m)))]).
    { match goal with H : is_func_form fr = true |- _ => unfold is_func_form in H; rename H into Hff end.
      destruct (r_body fr) as [l| | |]; try discriminate.
      destruct l as [|[| | | |e] l]; try discriminate.
      destruct e; try discriminate. destruct e; try discriminate. destruct l; try discriminate.
      apply andb_true_iff in Hff. destruct Hff as [Hq1 Hq2]. apply str_eqb_eq in Hq1.
      apply (list_eqb_eq _ simple_eqb_eq) in Hq2. rewrite Hnf in Hq1. rewrite Hpf in Hq2. subst. reflexivity. }
    (* Group form *)
    match goal with H : is_group_form gr = true |- _ => unfold is_group_form in H; rename H into Hgf end.
    destruct (r_body gr) as [l| | |] eqn:Hbg; try discriminate.
    destruct l as [|[x e| | | |] l]; try discriminate.
    destruct e; try discriminate.
    destruct l as [|[| |g e| |] l]; try discriminate.
    destruct e; try discriminate.
    destruct l as [|[| | | |e] l]; try discriminate.
    destruct e; try discriminate. destruct l; try discriminate.
    split_andb Hgf.
    repeat match goal with H : str_eqb _ _ = true |- _ => apply str_eqb_eq in H end.
    match goal with H : list_eqb simple_eqb _ _ = true |- _ => apply (list_eqb_eq _ simple_eqb_eq) in H; rename H into Hargs end.
    match goal with H : negb (mem _ _) = true |- _ => apply negb_true_iff in H; rename H into Hmem end.
    subst. rewrite Hpg in *. rewrite Hng in *.
    pose proof (rows_wf_row _ _ Hwf Hing) as Hrg. unfold row_ok in Hrg. split_andb Hrg.
    exists fr, gr, x. repeat split; try assumption; try reflexivity.
    - match goal with H : locals_ok gr = true |- _ => unfold locals_ok in H; rewrite Hpg in H; exact H end.
  Qed.

  (* FUNCTION FORM = METHOD FORM ON A FRESH STATEMENT: F(args) runs exactly the computation
     of (&Statement{}).F(args): same result pointer, same store, same callback log. *)
  Lemma func_form_sem tbl X m :
    rows_wf tbl = true -> find_row tbl s_Statement X = Some m -> is_construct m = true ->
    forall fuel args h,
      call cb_run (Datatypes.S fuel) tbl [] X None args h =
      call cb_run fuel tbl s_Statement X (Some (VStmt (length (st_stmts h)))) args (alloc_stmt h []).
  Proof.
    intros Hwf Hf Hc fuel args h.
    destruct (construct_forms _ _ _ Hwf Hf Hc) as (fr & gr & x & Hfr & Hpf & Hbf & _ & _ & _ & _ & _ & Hnd).
    destruct (is_construct_parts _ Hc) as [_ [_ [lm [Hbm _]]]].
    cbn [call]. rewrite Hfr, Hbf, Hpf.
    destruct (bind_params (r_params m) args) as [en0|] eqn:Hb.
    - cbn [exec eval recv_type].
      simpl in Hnd. apply andb_true_iff in Hnd. destruct Hnd as [_ Hnd].
      rewrite (own_args_eval cb_run (call cb_run fuel tbl) _ _ _ Hb Hnd en0 (alloc_stmt h []) (fun _ _ => eq_refl)).
      cbn [app]. apply cresult_eta.
    - destruct fuel as [|n]; [reflexivity|]. cbn [call]. rewrite Hf, Hbm, Hb. reflexivity.
  Qed.

  (* GROUP FORM = FUNCTION FORM, THEN APPEND THE RETURNED STATEMENT TO THE GROUP, RETURN IT *)
  Lemma group_form_sem tbl X m :
    rows_wf tbl = true -> find_row tbl s_Statement X = Some m -> is_construct m = true ->
    forall fuel args g h,
      call cb_run (Datatypes.S fuel) tbl s_Group X (Some (VGroup g)) args h =
      match call cb_run fuel tbl [] X None args h with
      | Some (r, h1, lg) =>
        match append_group h1 g r with
        | Some h2 => Some (r, h2, lg)
        | None => None
        end
      | None => None
      end.
  Proof.
    intros Hwf Hf Hc fuel args g h.
    destruct (construct_forms _ _ _ Hwf Hf Hc) as (fr & gr & x & Hfr & Hpf & Hbf & Hgr & Hpg & Hbg & Hmem & Hndg & _).
    cbn [call]. rewrite Hgr, Hbg, Hpg.
    destruct (bind_params (r_params m) args) as [en0|] eqn:Hb.
    - simpl in Hndg. apply andb_true_iff in Hndg. destruct Hndg as [Hself Hnd]. apply negb_true_iff in Hself.
      cbn [exec eval].
      rewrite (own_args_eval cb_run (call cb_run fuel tbl) _ _ _ Hb Hnd ((r_self gr, VGroup g) :: en0) h).
      2:{ intros y Hy. apply lookup_skip. destruct (str_eqb y (r_self gr)) eqn:E; [|reflexivity].
          apply str_eqb_eq in E. subst y. apply mem_In in Hy. congruence. }
      destruct (call cb_run fuel tbl [] X None args h) as [[[r h1] lg]|]; [|reflexivity].
      destruct (mem_false_neq _ _ _ Hmem) as [Hxs _].
      rewrite (lookup_skip (r_self gr) x r); [|rewrite str_eqb_sym; exact Hxs].
      rewrite lookup_head. rewrite lookup_head.
      destruct (append_group h1 g r) as [h2|]; [|reflexivity].
      cbn [app]. rewrite app_nil_r. reflexivity.
    - destruct fuel as [|n]; [reflexivity|]. cbn [call]. rewrite Hfr, Hbf, Hpf, Hb. reflexivity.
  Qed.

  (* what [append_group] does: the group's items get the value as new last element; nothing
     else changes *)
  Lemma upd_spec {A} (f : A -> A) : forall l i l',
    upd l i f = Some l' ->
    length l' = length l /\
    (exists x, nth_error l i = Some x /\ nth_error l' i = Some (f x)) /\
    (forall j, j <> i -> nth_error l' j = nth_error l j).
  Proof.
    induction l as [|a l IH]; intros i l' H; simpl in H; [discriminate|].
    destruct i as [|i].
    - injection H as <-. split; [reflexivity|]. split; [exists a; split; reflexivity|].
      intros [|j] Hj; [congruence | reflexivity].
    - destruct (upd l i f) as [r|] eqn:E; [|discriminate]. injection H as <-.
      destruct (IH _ _ E) as [Hl [[x [Hx1 Hx2]] Ho]].
      split; [simpl; congruence|]. split; [exists x; split; assumption|].
      intros [|j] Hj; [reflexivity|]. simpl. apply Ho. congruence.
  Qed.

  Lemma append_group_spec h g r h2 :
    append_group h g r = Some h2 ->
    st_stmts h2 = st_stmts h /\ st_dicts h2 = st_dicts h /\
    (exists gr, nth_error (st_groups h) g = Some gr /\
                nth_error (st_groups h2) g = Some (mkgrec (g_fields gr) (g_items gr ++ [r]))) /\
    (forall j, j <> g -> nth_error (st_groups h2) j = nth_error (st_groups h) j).
  Proof.
    unfold append_group. destruct (upd (st_groups h) g _) as [l|] eqn:E; [|discriminate].
    intros H. injection H as <-. simpl. destruct (upd_spec _ _ _ _ E) as [_ [Hx Ho]]. auto.
  Qed.
End Forms.

(* ------------------------------------------------------------------ callbacks: exactly once *)
Section LogLength.
  Variable cb_run : N -> list value -> store -> store * value.
  Variable callf : callfn.

  Ltac dmatch H :=
    repeat match type of H with
           | match ?x with _ => _ end = _ => let E := fresh "E" in destruct x eqn:E; try discriminate H
           end.

  Definition log_ok (ev : store -> expr -> cresult) (e : expr) : Prop :=
    forall h (v : value) (h' : store) (lg : list N), ev h e = Some (v, h', lg) -> count n_api_call e = 0 -> length lg = count n_cb_site e.

  Lemma counts_cons p a l : counts p (a :: l) = count p a + counts p l.
  Proof. reflexivity. Qed.

  Lemma eval_args_log ev en : forall l, Forall (log_ok ev) l ->
    forall h vs h' lg, eval_args ev en h l = Some (vs, h', lg) -> counts n_api_call l = 0 ->
    length lg = counts n_cb_site l.
  Proof.
    induction l as [|a l IH]; intros HF h vs h' lg H Hc.
    - simpl in H. injection H as <- <- <-. reflexivity.
    - inversion HF as [|? ? Ha HF']; subst. rewrite counts_cons in Hc |- *.
      assert (Hgen : match ev h a with
                     | Some (v, h1, lg1) =>
                       match eval_args ev en h1 l with
                       | Some (vs0, h2, lg2) => Some (v :: vs0, h2, lg1 ++ lg2)
                       | None => None
                       end
                     | None => None
                     end = Some (vs, h', lg) -> length lg = count n_cb_site a + counts n_cb_site l).
      { intros Hg. destruct (ev h a) as [[[v h1] lg1]|] eqn:E1; [|discriminate].
        destruct (eval_args ev en h1 l) as [[[vs0 h2] lg2]|] eqn:E2; [|discriminate].
        injection Hg as <- <- <-. rewrite app_length.
        rewrite (Ha _ _ _ _ E1) by lia. rewrite (IH HF' _ _ _ _ E2) by lia. reflexivity. }
      destruct a; try (apply Hgen; exact H).
      (* ESpread *)
      simpl in H. destruct l; [|discriminate]. destruct (lookup x en) as [[]|]; try discriminate.
      injection H as <- <- <-. reflexivity.
  Qed.

  (* an expression without calls into the API logs one entry per callback call site *)
  Lemma eval_log en : forall e, log_ok (eval cb_run callf en) e.
  Proof.
    induction e using expr_ind'; unfold log_ok; intros h0 v h' lg Hev Hc; cbn [eval] in Hev;
      try (cbn [count n_api_call] in Hc; discriminate Hc).
    - injection Hev as <- <- <-. reflexivity.
    - dmatch Hev. injection Hev as <- <- <-. reflexivity.
    - discriminate.
    - injection Hev as <- <- <-. reflexivity.
    - injection Hev as <- <- <-. reflexivity.
    - injection Hev as <- <- <-. reflexivity.
    - dmatch Hev. injection Hev as <- <- <-. reflexivity.
    - injection Hev as <- <- <-. reflexivity.
    - (* ECallParam *)
      destruct (lookup f en) as [[]|]; try discriminate.
      destruct (eval_args _ en h0 args) as [[[vs h1] lg1]|] eqn:E; [|discriminate].
      injection Hev as <- <- <-. cbn [count n_api_call n_cb_site] in *. fold (counts n_api_call args) in Hc. fold (counts n_cb_site args).
      rewrite app_length. rewrite (eval_args_log _ _ _ H _ _ _ _ E) by lia. simpl. lia.
    - (* EPure *)
      destruct (eval_args _ en h0 args) as [[[vs h1] lg1]|] eqn:E; [|discriminate].
      injection Hev as <- <- <-. cbn [count n_api_call n_cb_site] in *. fold (counts n_api_call args) in Hc. fold (counts n_cb_site args).
      rewrite (eval_args_log _ _ _ H _ _ _ _ E) by lia. reflexivity.
    - (* EGroupLit *)
      cbn [count n_api_call n_cb_site] in *.
      destruct (eval cb_run callf en h0 e1) as [[[v1 h1] l1]|] eqn:E1; [|discriminate].
      destruct (eval cb_run callf en h1 e2) as [[[v2 h2] l2]|] eqn:E2; [|discriminate].
      destruct (eval cb_run callf en h2 e3) as [[[v3 h3] l3]|] eqn:E3; [|discriminate].
      destruct (eval cb_run callf en h3 e4) as [[[v4 h4] l4]|] eqn:E4; [|discriminate].
      destruct (eval cb_run callf en h4 e5) as [[[v5 h5] l5]|] eqn:E5; [|discriminate].
      destruct (eval cb_run callf en h5 e6) as [[[v6 h6] l6]|] eqn:E6; [|discriminate].
      destruct (as_items v6); [|discriminate]. injection Hev as <- <- <-.
      repeat rewrite app_length.
      rewrite (IHe1 _ _ _ _ E1), (IHe2 _ _ _ _ E2), (IHe3 _ _ _ _ E3), (IHe4 _ _ _ _ E4), (IHe5 _ _ _ _ E5), (IHe6 _ _ _ _ E6) by lia.
      lia.
    - (* EToken *)
      cbn [count n_api_call n_cb_site] in *.
      destruct (eval cb_run callf en h0 e1) as [[[v1 h1] l1]|] eqn:E1; [|discriminate].
      destruct (eval cb_run callf en h1 e2) as [[[v2 h2] l2]|] eqn:E2; [|discriminate].
      injection Hev as <- <- <-. rewrite app_length.
      rewrite (IHe1 _ _ _ _ E1), (IHe2 _ _ _ _ E2) by lia. lia.
    - cbn [count n_api_call n_cb_site] in *.
      destruct (eval cb_run callf en h0 e) as [[[v1 h1] l1]|] eqn:E1; [|discriminate].
      injection Hev as <- <- <-. rewrite (IHe _ _ _ _ E1) by lia. lia.
    - cbn [count n_api_call n_cb_site] in *.
      destruct (eval cb_run callf en h0 e) as [[[v1 h1] l1]|] eqn:E1; [|discriminate].
      injection Hev as <- <- <-. rewrite (IHe _ _ _ _ E1) by lia. lia.
    - (* ECodeList *)
      destruct (eval_args _ en h0 es) as [[[vs h1] lg1]|] eqn:E; [|discriminate].
      injection Hev as <- <- <-. cbn [count n_api_call n_cb_site] in *. fold (counts n_api_call es) in Hc. fold (counts n_cb_site es).
      rewrite (eval_args_log _ _ _ H _ _ _ _ E) by lia. reflexivity.
    - injection Hev as <- <- <-. reflexivity.
    - (* EStmtLit *)
      destruct (eval_args _ en h0 es) as [[[vs h1] lg1]|] eqn:E; [|discriminate].
      injection Hev as <- <- <-. cbn [count n_api_call n_cb_site] in *. fold (counts n_api_call es) in Hc. fold (counts n_cb_site es).
      rewrite (eval_args_log _ _ _ H _ _ _ _ E) by lia. reflexivity.
  Qed.

  Lemma eval_args_log' en l h vs h' lg :
    eval_args (eval cb_run callf en) en h l = Some (vs, h', lg) -> counts n_api_call l = 0 ->
    length lg = counts n_cb_site l.
  Proof.
    apply eval_args_log. apply Forall_forall. intros e _. apply eval_log.
  Qed.

  Lemma body_cons p ps s l : count_body p ps (s :: l) = count_stmt p ps s + count_body p ps l.
  Proof. reflexivity. Qed.

  (* a body without calls into the API whose only [return] is its last statement logs one
     entry per callback call site *)
  Lemma exec_log : forall l en h v h' lg,
    exec cb_run callf en h l = Some (v, h', lg) -> api_calls l = 0 -> returns_last l = true ->
    length lg = cb_sites l.
  Proof.
    induction l as [|s l IH]; intros en h v h' lg H Hc Hr.
    - simpl in H. injection H as <- <- <-. reflexivity.
    - unfold api_calls, cb_sites in *. rewrite body_cons in Hc |- *.
      assert (Hr' : match s with SReturn _ => l = [] | _ => returns_last l = true end).
      { simpl in Hr. destruct l; [destruct s; reflexivity|]. destruct s; try exact Hr; discriminate. }
      destruct s; cbn [exec] in H; unfold count_stmt in *; cbn [s_cb_site s_zero] in *.
      + destruct (eval cb_run callf en h e) as [[[v1 h1] l1]|] eqn:E1; [|discriminate].
        destruct (exec cb_run callf _ h1 l) as [[[r h2] l2]|] eqn:E2; [|discriminate].
        injection H as <- <- <-. rewrite app_length.
        rewrite (eval_log en e _ _ _ _ E1) by lia. rewrite (IH _ _ _ _ _ E2) by (assumption || lia). lia.
      + destruct (lookup s en) as [[]|]; try discriminate.
        destruct (eval_args _ en h args) as [[[vs h1] l1]|] eqn:E1; [|discriminate].
        destruct (append_stmt h1 p vs) as [h2|]; [|discriminate].
        destruct (exec cb_run callf en h2 l) as [[[r h3] l2]|] eqn:E2; [|discriminate].
        injection H as <- <- <-. rewrite app_length.
        rewrite (eval_args_log' _ _ _ _ _ _ E1) by lia. rewrite (IH _ _ _ _ _ E2) by (assumption || lia). lia.
      + destruct (lookup g en) as [[]|]; try discriminate.
        destruct (eval cb_run callf en h e) as [[[v1 h1] l1]|] eqn:E1; [|discriminate].
        destruct (append_group h1 p v1) as [h2|]; [|discriminate].
        destruct (exec cb_run callf en h2 l) as [[[r h3] l2]|] eqn:E2; [|discriminate].
        injection H as <- <- <-. rewrite app_length.
        rewrite (eval_log en e _ _ _ _ E1) by lia. rewrite (IH _ _ _ _ _ E2) by (assumption || lia). lia.
      + destruct (lookup f en) as [[]|]; try discriminate.
        destruct (eval_args _ en h args) as [[[vs h1] l1]|] eqn:E1; [|discriminate].
        destruct (exec cb_run callf en _ l) as [[[r h3] l2]|] eqn:E2; [|discriminate].
        injection H as <- <- <-. rewrite app_length. cbn [app length].
        rewrite (eval_args_log' _ _ _ _ _ _ E1) by lia. rewrite (IH _ _ _ _ _ E2) by (assumption || lia). lia.
      + subst l. rewrite (eval_log en e _ _ _ _ H) by lia.
        change (count_body n_cb_site s_cb_site []) with 0. lia.
  Qed.
End LogLength.

Section Once.
  Variable cb_run : N -> list value -> store -> store * value.

  (* EVERY CONSTRUCT CALLS EACH OF ITS CALLBACK PARAMETERS EXACTLY ONCE (the log of a call that
     returns has one entry per function-typed parameter: one for every construct of jen) *)
  Lemma construct_callbacks_once tbl X m :
    rows_wf tbl = true -> find_row tbl s_Statement X = Some m -> is_construct m = true ->
    forall fuel self args h v h' lg,
      call cb_run fuel tbl s_Statement X self args h = Some (v, h', lg) ->
      length lg = length (filter is_func (r_params m)).
  Proof.
    intros Hwf Hf Hc fuel self args h v h' lg H.
    destruct (find_row_some _ _ _ _ Hf) as [Hin _].
    destruct (construct_row_ok _ _ Hwf Hin Hc) as [Hok _].
    destruct (is_construct_parts _ Hc) as [_ [_ [l [Hb _]]]].
    unfold construct_ok, body_stmts in Hok. rewrite Hb in Hok. split_andb Hok.
    repeat match goal with Hx : (_ =? _) = true |- _ => apply Nat.eqb_eq in Hx end.
    destruct fuel as [|n]; [discriminate|]. cbn [call] in H. rewrite Hf, Hb in H.
    destruct (bind_params (r_params m) args) as [en0|]; [|discriminate].
    match goal with Hx : cb_sites l = _ |- _ => rewrite <- Hx end.
    eapply exec_log; eassumption.
  Qed.

  Lemma func_form_callbacks_once tbl X m :
    rows_wf tbl = true -> find_row tbl s_Statement X = Some m -> is_construct m = true ->
    forall fuel args h v h' lg,
      call cb_run fuel tbl [] X None args h = Some (v, h', lg) ->
      length lg = length (filter is_func (r_params m)).
  Proof.
    intros Hwf Hf Hc fuel args h v h' lg H. destruct fuel as [|n]; [discriminate|].
    rewrite (func_form_sem cb_run _ _ _ Hwf Hf Hc) in H.
    eapply construct_callbacks_once; eassumption.
  Qed.

  Lemma group_form_callbacks_once tbl X m :
    rows_wf tbl = true -> find_row tbl s_Statement X = Some m -> is_construct m = true ->
    forall fuel g args h v h' lg,
      call cb_run fuel tbl s_Group X (Some (VGroup g)) args h = Some (v, h', lg) ->
      length lg = length (filter is_func (r_params m)).
  Proof.
    intros Hwf Hf Hc fuel g args h v h' lg H. destruct fuel as [|n]; [discriminate|].
    rewrite (group_form_sem cb_run _ _ _ Hwf Hf Hc) in H.
    destruct (call cb_run n tbl [] X None args h) as [[[r h1] lg1]|] eqn:E; [|discriminate].
    destruct (append_group h1 g r); [|discriminate]. injection H as <- <- <-.
    eapply func_form_callbacks_once; eassumption.
  Qed.

  (* any other exported function that takes a callback (DictFunc) *)
  Lemma callback_fn_once tbl recv name r :
    rows_wf tbl = true -> find_row tbl recv name = Some r -> has_cb r = true -> returns_stmt r = false ->
    forall fuel self args h v h' lg,
      call cb_run fuel tbl recv name self args h = Some (v, h', lg) ->
      length lg = length (filter is_func (r_params r)).
  Proof.
    intros Hwf Hf Hcb Hret fuel self args h v h' lg H.
    destruct (find_row_some _ _ _ _ Hf) as [Hin _].
    pose proof (rows_wf_row _ _ Hwf Hin) as Hr. unfold row_ok in Hr. split_andb Hr.
    rewrite Hcb, Hret in *. simpl in *.
    match goal with Hx : (_ =? 0) && _ && _ && _ = true |- _ => rename Hx into Hk end.
    split_andb Hk.
    repeat match goal with Hx : (_ =? _) = true |- _ => apply Nat.eqb_eq in Hx end.
    destruct fuel as [|n]; [discriminate|]. cbn [call] in H. rewrite Hf in H.
    unfold body_stmts in *. destruct (r_body r) as [l| | |]; try discriminate.
    destruct (bind_params (r_params r) args) as [en0|]; [|discriminate].
    match goal with Hx : cb_sites l = _ |- _ => rewrite <- Hx end.
    eapply exec_log; eassumption.
  Qed.
End Once.

(* ------------------------------------------------------------------ ...Func variants *)
Lemma is_plain_not_variadic p : is_plain p = true -> is_variadic p = false.
Proof. unfold is_plain, is_variadic. destruct (p_kind p); simpl; congruence. Qed.

Lemma is_func_not_variadic p : is_func p = true -> is_variadic p = false.
Proof. unfold is_func, is_variadic. destruct (p_kind p); simpl; congruence. Qed.

Lemma bind_app pre ps2 : forallb is_plain pre = true -> forall prevs rest, length prevs = length pre ->
  bind_params (pre ++ ps2) (prevs ++ rest) =
  match bind_params ps2 rest with Some e => Some (combine (names pre) prevs ++ e) | None => None end.
Proof.
  induction pre as [|p pre IH]; intros Hp prevs rest Hl.
  - destruct prevs; [|discriminate]. simpl. destruct (bind_params ps2 rest); reflexivity.
  - destruct prevs as [|a prevs]; [discriminate|]. simpl in Hp. apply andb_true_iff in Hp. destruct Hp as [Hp1 Hp2].
    simpl. rewrite (is_plain_not_variadic _ Hp1). rewrite IH by (assumption || (simpl in Hl; congruence)).
    destruct (bind_params ps2 rest); reflexivity.
Qed.

Lemma lookup_app_l x e1 e2 : In x (map fst e1) -> lookup x (e1 ++ e2) = lookup x e1.
Proof.
  induction e1 as [|[y v] e1 IH]; intros H; [destruct H|]. simpl.
  destruct (str_eqb x y) eqn:E; [reflexivity|]. apply IH. destruct H as [H|H]; [|exact H].
  simpl in H. subst. rewrite str_eqb_refl in E. discriminate.
Qed.

Lemma lookup_app_r x e1 e2 : ~ In x (map fst e1) -> lookup x (e1 ++ e2) = lookup x e2.
Proof.
  induction e1 as [|[y v] e1 IH]; intros H; [reflexivity|]. simpl.
  destruct (str_eqb x y) eqn:E.
  - apply str_eqb_eq in E. subst. exfalso. apply H. left. reflexivity.
  - apply IH. intros Hx. apply H. right. exact Hx.
Qed.

Lemma combine_fst {A B} (l : list A) (l' : list B) : length l' = length l -> map fst (combine l l') = l.
Proof.
  revert l'. induction l as [|a l IH]; intros [|b l'] H; try discriminate; [reflexivity|].
  simpl. f_equal. apply IH. simpl in H. congruence.
Qed.

Lemma lookup_combine_some x (ns : list str) (vs : list value) :
  length vs = length ns -> In x ns -> exists v, lookup x (combine ns vs) = Some v.
Proof.
  revert vs. induction ns as [|n ns IH]; intros [|v vs] Hl Hin; try discriminate; [destruct Hin|].
  simpl. destruct (str_eqb x n) eqn:E; [eexists; reflexivity|].
  apply IH; [simpl in Hl; congruence|]. destruct Hin as [Hin|Hin]; [|exact Hin].
  subst. rewrite str_eqb_refl in E. discriminate.
Qed.

Lemma mem_app_false x l1 l2 : mem x (l1 ++ l2) = false -> mem x l1 = false /\ mem x l2 = false.
Proof. unfold mem. rewrite existsb_app. apply orb_false_iff. Qed.

Lemma nodup_b_snoc l x : nodup_b (l ++ [x]) = true -> ~ In x l /\ nodup_b l = true.
Proof.
  induction l as [|a l IH]; intros H; [split; [intros []|reflexivity]|].
  simpl in H. apply andb_true_iff in H. destruct H as [H1 H2]. apply negb_true_iff in H1.
  destruct (mem_app_false _ _ _ H1) as [Ha Hax]. destruct (IH H2) as [Hx Hnd]. split.
  - intros [Hin|Hin]; [|exact (Hx Hin)]. subst. simpl in Hax. unfold mem in Hax. simpl in Hax.
    rewrite str_eqb_refl in Hax. discriminate.
  - simpl. rewrite Ha, Hnd. reflexivity.
Qed.

Lemma names_app a b : names (a ++ b) = names a ++ names b.
Proof. unfold names. apply map_app. Qed.

Lemma field_val_agree pre e en1 en2 :
  field_ok pre e = true -> (forall x, In x pre -> lookup x en1 = lookup x en2) ->
  field_val en1 e = field_val en2 e.
Proof.
  intros Hf Hag. destruct e; simpl in *; try reflexivity; try discriminate;
    apply mem_In in Hf; rewrite (Hag _ Hf); reflexivity.
Qed.

Lemma fields_val_agree pre l en1 en2 :
  forallb (field_ok pre) l = true -> (forall x, In x pre -> lookup x en1 = lookup x en2) ->
  fields_val en1 l = fields_val en2 l.
Proof.
  induction l as [|e l IH]; intros Hf Hag; [reflexivity|]. simpl in Hf. apply andb_true_iff in Hf.
  destruct Hf as [H1 H2]. simpl. rewrite (field_val_agree _ _ _ _ H1 Hag), (IH H2 Hag). reflexivity.
Qed.

(* the fields of a checked Group literal always have a value once the parameters are bound *)
Lemma fields_val_total pre l prevs :
  forallb (field_ok (names pre)) l = true -> length prevs = length pre ->
  exists flds, fields_val (combine (names pre) prevs) l = Some flds.
Proof.
  intros Hf Hl. induction l as [|e l IH]; [exists []; reflexivity|].
  simpl in Hf. apply andb_true_iff in Hf. destruct Hf as [H1 H2]. destruct (IH H2) as [vs Hvs].
  assert (Hlen : length prevs = length (names pre)) by (unfold names; rewrite map_length; exact Hl).
  assert (exists v, field_val (combine (names pre) prevs) e = Some v) as [v Hv].
  { destruct e; simpl in H1 |- *; try discriminate; try (eexists; reflexivity);
      apply mem_In in H1; destruct (lookup_combine_some _ _ _ Hlen H1) as [v Hv]; rewrite Hv; eexists; reflexivity. }
  exists (v :: vs). simpl. rewrite Hv, Hvs. reflexivity.
Qed.

Section FuncVariant.
  Variable cb_run : N -> list value -> store -> store * value.
  Variable callf : callfn.

  Lemma field_eval pre e en h : field_ok pre e = true ->
    eval cb_run callf en h e = match field_val en e with Some v => Some (v, h, []) | None => None end.
  Proof. destruct e; simpl; intros H; try discriminate; try reflexivity; destruct (lookup x en); reflexivity. Qed.

  Lemma group_lit_eval pre a b c d e it en h flds vi its :
    forallb (field_ok pre) [a; b; c; d; e] = true -> fields_val en [a; b; c; d; e] = Some flds ->
    eval cb_run callf en h it = Some (vi, h, []) -> as_items vi = Some its ->
    eval cb_run callf en h (EGroupLit a b c d e it) =
    Some (VGroup (length (st_groups h)), alloc_group h (mkgrec flds its), []).
  Proof.
    intros Hok Hv Hit Hits. simpl in Hok.
    repeat match goal with Hx : (_ && _) = true |- _ => apply andb_true_iff in Hx; destruct Hx end.
    cbn [eval]. cbn [fields_val] in Hv.
    destruct (field_val en a) as [va|] eqn:Ea; [|discriminate].
    destruct (field_val en b) as [vb|] eqn:Eb; [|discriminate].
    destruct (field_val en c) as [vc|] eqn:Ec; [|discriminate].
    destruct (field_val en d) as [vd|] eqn:Ed; [|discriminate].
    destruct (field_val en e) as [ve|] eqn:Ee; [|discriminate].
    injection Hv as <-.
    rewrite (field_eval pre a) by assumption. rewrite Ea.
    rewrite (field_eval pre b) by assumption. rewrite Eb.
    rewrite (field_eval pre c) by assumption. rewrite Ec.
    rewrite (field_eval pre d) by assumption. rewrite Ed.
    rewrite (field_eval pre e) by assumption. rewrite Ee.
    rewrite Hit, Hits. reflexivity.
  Qed.
End FuncVariant.

Ltac dvars H :=
  repeat match type of H with
         | context [match ?x with _ => _ end] => is_var x; destruct x; try discriminate H
         end.

Lemma last_split (ps : list param) d : ps <> [] -> ps = removelast ps ++ [last ps d].
Proof. apply app_removelast_last. Qed.

Lemma plain_group_shape_inv r fe : plain_group_shape r = Some fe ->
  exists g a b c d e pre pv,
    fe = [a; b; c; d; e] /\
    r_body r = Body [SDefine g (EGroupLit a b c d e (EVar (p_name pv))); SAppendSelf (r_self r) [EVar g]; SReturn (EVar (r_self r))] /\
    mem g (r_self r :: names (r_params r)) = false /\
    r_params r = pre ++ [pv] /\ pre = removelast (r_params r) /\ is_variadic pv = true /\ forallb is_plain pre = true /\
    forallb (field_ok (names pre)) fe = true.
Proof.
  unfold plain_group_shape. intros H. destruct (r_body r) as [l| | |] eqn:Hb; try discriminate.
  dvars H.
  match type of H with (if ?c then _ else _) = _ => destruct c eqn:Hc; [|discriminate] end.
  injection H as <-. split_andb Hc.
  repeat match goal with Hx : str_eqb _ _ = true |- _ => apply str_eqb_eq in Hx end.
  match goal with Hx : negb _ = true |- _ => apply negb_true_iff in Hx end.
  subst.
  destruct (r_params r) as [|p0 ps] eqn:Hps; [discriminate|].
  match goal with Hx : _ && str_eqb _ _ = true |- _ => apply andb_true_iff in Hx; destruct Hx as [Hv Hn] end.
  apply str_eqb_eq in Hn. rewrite <- Hn.
  do 8 eexists. split; [reflexivity|]. split; [reflexivity|]. split; [assumption|].
  split; [apply (last_split (p0 :: ps)); discriminate|]. split; [reflexivity|]. split; [exact Hv|]. split; assumption.
Qed.

Lemma func_group_shape_inv r fe : func_group_shape r = Some fe ->
  exists g a b c d e pre pf,
    fe = [a; b; c; d; e] /\
    r_body r = Body [SDefine g (EGroupLit a b c d e ENil); SCallParam (p_name pf) [EVar g]; SAppendSelf (r_self r) [EVar g]; SReturn (EVar (r_self r))] /\
    mem g (r_self r :: names (r_params r)) = false /\
    r_params r = pre ++ [pf] /\ pre = removelast (r_params r) /\ is_func pf = true /\ forallb is_plain pre = true /\
    forallb (field_ok (names pre)) fe = true.
Proof.
  unfold func_group_shape. intros H. destruct (r_body r) as [l| | |] eqn:Hb; try discriminate.
  dvars H.
  match type of H with (if ?c then _ else _) = _ => destruct c eqn:Hc; [|discriminate] end.
  injection H as <-. split_andb Hc.
  repeat match goal with Hx : str_eqb _ _ = true |- _ => apply str_eqb_eq in Hx end.
  match goal with Hx : negb _ = true |- _ => apply negb_true_iff in Hx end.
  subst.
  destruct (r_params r) as [|p0 ps] eqn:Hps; [discriminate|].
  match goal with Hx : _ && str_eqb _ _ = true |- _ => apply andb_true_iff in Hx; destruct Hx as [Hv Hn] end.
  apply str_eqb_eq in Hn. rewrite <- Hn.
  do 8 eexists. split; [reflexivity|]. split; [reflexivity|]. split; [assumption|].
  split; [apply (last_split (p0 :: ps)); discriminate|]. split; [reflexivity|]. split; [exact Hv|]. split; assumption.
Qed.

Section FuncVariantSem.
  Variable cb_run : N -> list value -> store -> store * value.

  Lemma str_neq_sym a b : str_eqb a b = false -> str_eqb b a = false.
  Proof. rewrite str_eqb_sym. auto. Qed.

  Lemma mem_false_In x l : mem x l = false -> forall y, In y l -> str_eqb x y = false /\ str_eqb y x = false.
  Proof.
    intros H y Hy. destruct (str_eqb x y) eqn:E.
    - apply str_eqb_eq in E. subst. apply mem_In in Hy. congruence.
    - split; [reflexivity | apply str_neq_sym; exact E].
  Qed.

  (* THE ...Func VARIANT: XFunc(pre.., f) allocates a Group with the SAME five fields as X, with
     no items; calls f(g) once; only then appends g to the statement.  X(pre.., items...)
     allocates a Group with those fields and the given items and appends it. *)
  Lemma func_variant_sem tbl XF Y r yr :
    rows_wf tbl = true -> find_row tbl s_Statement XF = Some r -> is_construct r = true -> has_cb r = true ->
    strip_suffix s_Func XF = Some Y -> find_row tbl s_Statement Y = Some yr ->
    builds_group yr || builds_group r = true ->
    exists pre pf pv fe,
      r_params r = pre ++ [pf] /\ is_func pf = true /\ r_params yr = pre ++ [pv] /\ is_variadic pv = true /\
      forallb is_plain pre = true /\ forallb (field_ok (names pre)) fe = true /\
      forall fuel prevs flds, length prevs = length pre ->
        fields_val (combine (names pre) prevs) fe = Some flds ->
        (forall id sp h,
           call cb_run (Datatypes.S fuel) tbl s_Statement XF (Some (VStmt sp)) (prevs ++ [VCb id]) h =
           let gp := length (st_groups h) in
           match append_stmt (fst (cb_run id [VGroup gp] (alloc_group h (mkgrec flds [])))) sp [VGroup gp] with
           | Some h3 => Some (VStmt sp, h3, [id])
           | None => None
           end) /\
        (forall its sp h,
           call cb_run (Datatypes.S fuel) tbl s_Statement Y (Some (VStmt sp)) (prevs ++ its) h =
           let gp := length (st_groups h) in
           match append_stmt (alloc_group h (mkgrec flds its)) sp [VGroup gp] with
           | Some h3 => Some (VStmt sp, h3, [])
           | None => None
           end).
  Proof.
    intros Hwf Hf Hc Hcb Hstrip Hfy Hbg.
    destruct (find_row_some _ _ _ _ Hf) as [Hin [_ Hname]].
    destruct (find_row_some _ _ _ _ Hfy) as [Hiny _].
    destruct (construct_row_ok _ _ Hwf Hin Hc) as [Hok Hloc].
    pose proof (rows_wf_row _ _ Hwf Hiny) as Hry. unfold row_ok in Hry. split_andb Hry.
    assert (Hlocy : locals_ok yr = true) by assumption.
    unfold construct_ok in Hok. split_andb Hok.
    match goal with Hx : func_variant_ok tbl r = true |- _ => rename Hx into Hfv end.
    unfold func_variant_ok in Hfv. rewrite Hname, Hstrip, Hcb, Hfy, Hbg in Hfv. simpl negb in Hfv. cbv iota in Hfv.
    destruct (plain_group_shape yr) as [fy|] eqn:Hpy; [|discriminate].
    destruct (func_group_shape r) as [fr|] eqn:Hpr; [|discriminate].
    apply andb_true_iff in Hfv. destruct Hfv as [Hfe Hpre].
    apply (list_eqb_eq _ simple_eqb_eq) in Hfe. apply (list_eqb_eq _ param_eqb_eq) in Hpre. subst fr.
    destruct (plain_group_shape_inv _ _ Hpy) as (g1 & a & b & c & d & e & pre1 & pv & Hfe1 & Hby & Hg1 & Hpsy & Hpre1 & Hpv & Hpl1 & Hfo1).
    destruct (func_group_shape_inv _ _ Hpr) as (g2 & a' & b' & c' & d' & e' & pre2 & pf & Hfe2 & Hbr & Hg2 & Hpsr & Hpre2 & Hpf & Hpl2 & Hfo2).
    subst pre1 pre2. rewrite Hpre in *. set (pre := removelast (r_params r)) in *. clearbody pre.
    rewrite Hfe1 in Hfe2. injection Hfe2 as <- <- <- <- <-.
    exists pre, pf, pv, fy. repeat (split; [assumption|]).
    intros fuel prevs flds Hlen Hflds.
    assert (Hlen' : length prevs = length (names pre)) by (unfold names; rewrite map_length; exact Hlen).
    (* facts about names *)
    unfold locals_ok in Hloc, Hlocy. rewrite Hpsr in Hloc. rewrite Hpsy in Hlocy.
    rewrite Hpsr in Hg2. rewrite Hpsy in Hg1. rewrite names_app in *.
    simpl in Hloc, Hlocy. apply andb_true_iff in Hloc, Hlocy. destruct Hloc as [Hsr Hndr]. destruct Hlocy as [Hsy Hndy].
    apply negb_true_iff in Hsr, Hsy.
    destruct (nodup_b_snoc _ _ Hndr) as [Hfpre _]. destruct (nodup_b_snoc _ _ Hndy) as [Hvpre _].
    destruct (mem_app_false _ _ _ Hsr) as [Hsr1 Hsr2]. destruct (mem_app_false _ _ _ Hsy) as [Hsy1 Hsy2].
    destruct (mem_false_neq _ _ _ Hg1) as [Hg1s Hg1p]. destruct (mem_false_neq _ _ _ Hg2) as [Hg2s Hg2p].
    destruct (mem_app_false _ _ _ Hg1p) as [Hg1a Hg1b]. destruct (mem_app_false _ _ _ Hg2p) as [Hg2a Hg2b].
    split.
    - (* the Func variant *)
      intros id sp h. cbn [call]. rewrite Hf, Hbr, Hpsr.
      rewrite (bind_app _ _ Hpl2 _ _ Hlen). cbn [bind_params]. rewrite (is_func_not_variadic _ Hpf).
      set (enp := combine (names pre) prevs) in *.
      set (en := (r_self r, VStmt sp) :: enp ++ [(p_name pf, VCb id)]).
      assert (Hpre_en : forall v0 x, In x (names pre) -> lookup x ((g2, v0) :: en) = lookup x enp /\ lookup x en = lookup x enp).
      { intros v0 x Hx. unfold en.
        destruct (mem_false_In _ _ Hg2a _ Hx) as [_ Hxg]. destruct (mem_false_In _ _ Hsr1 _ Hx) as [_ Hxs].
        rewrite (lookup_skip _ _ _ _ Hxg). rewrite (lookup_skip _ _ _ _ Hxs).
        rewrite lookup_app_l; [split; reflexivity|]. unfold enp. rewrite combine_fst by exact Hlen'. exact Hx. }
      assert (Hflds' : fields_val en fy = Some flds).
      { rewrite <- Hflds. apply (fields_val_agree (names pre)); [assumption|]. intros x Hx. apply (Hpre_en VNil x Hx). }
      cbn [exec].
      rewrite (group_lit_eval cb_run _ (names pre) a b c d e ENil en h flds VNil []); try assumption; try reflexivity.
      2:{ rewrite <- Hfe1. exact Hfo2. } 2:{ rewrite <- Hfe1. exact Hflds'. }
      set (gp := length (st_groups h)). set (h1 := alloc_group h (mkgrec flds [])).
      assert (Hlf : lookup (p_name pf) ((g2, VGroup gp) :: en) = Some (VCb id)).
      { unfold en. simpl in Hg2b, Hsr2. unfold mem in Hg2b, Hsr2. simpl in Hg2b, Hsr2.
        apply orb_false_iff in Hg2b, Hsr2. destruct Hg2b as [Hg2b _]. destruct Hsr2 as [Hsr2 _].
        rewrite (lookup_skip _ _ _ _ (str_neq_sym _ _ Hg2b)). rewrite (lookup_skip _ _ _ _ (str_neq_sym _ _ Hsr2)).
        rewrite lookup_app_r; [apply lookup_head|]. unfold enp. rewrite combine_fst by exact Hlen'. exact Hfpre. }
      assert (Hls : lookup (r_self r) ((g2, VGroup gp) :: en) = Some (VStmt sp)).
      { unfold en. rewrite (lookup_skip _ _ _ _ (str_neq_sym _ _ Hg2s)). apply lookup_head. }
      rewrite Hlf. cbn [eval_args eval]. rewrite lookup_head. rewrite Hls.
      destruct (append_stmt _ sp [VGroup gp]) as [h3|]; reflexivity.
    - (* the plain variant *)
      intros its sp h. cbn [call]. rewrite Hfy, Hby, Hpsy.
      rewrite (bind_app _ _ Hpl1 _ _ Hlen). cbn [bind_params]. rewrite Hpv.
      set (enp := combine (names pre) prevs) in *.
      set (en := (r_self yr, VStmt sp) :: enp ++ [(p_name pv, VSlice its)]).
      assert (Hpre_en : forall x, In x (names pre) -> lookup x en = lookup x enp).
      { intros x Hx. unfold en.
        destruct (mem_false_In _ _ Hsy1 _ Hx) as [_ Hxs].
        rewrite (lookup_skip _ _ _ _ Hxs).
        rewrite lookup_app_l; [reflexivity|]. unfold enp. rewrite combine_fst by exact Hlen'. exact Hx. }
      assert (Hflds' : fields_val en fy = Some flds).
      { rewrite <- Hflds. apply (fields_val_agree (names pre)); assumption. }
      assert (Hlv : lookup (p_name pv) en = Some (VSlice its)).
      { unfold en. simpl in Hsy2. unfold mem in Hsy2. simpl in Hsy2. apply orb_false_iff in Hsy2. destruct Hsy2 as [Hsy2 _].
        rewrite (lookup_skip _ _ _ _ (str_neq_sym _ _ Hsy2)).
        rewrite lookup_app_r; [apply lookup_head|]. unfold enp. rewrite combine_fst by exact Hlen'. exact Hvpre. }
      cbn [exec].
      rewrite (group_lit_eval cb_run _ (names pre) a b c d e (EVar (p_name pv)) en h flds (VSlice its) its); try assumption; try reflexivity.
      2:{ rewrite <- Hfe1. exact Hfo1. } 2:{ rewrite <- Hfe1. exact Hflds'. } 2:{ cbn [eval]. rewrite Hlv. reflexivity. }
      set (gp := length (st_groups h)).
      assert (Hls : lookup (r_self yr) ((g1, VGroup gp) :: en) = Some (VStmt sp)).
      { unfold en. rewrite (lookup_skip _ _ _ _ (str_neq_sym _ _ Hg1s)). apply lookup_head. }
      rewrite Hls. cbn [eval_args eval]. rewrite lookup_head.
      destruct (append_stmt _ sp [VGroup gp]) as [h3|]; [|reflexivity].
      cbn [exec eval]. try rewrite Hls. reflexivity.
  Qed.
End FuncVariantSem.

(* ------------------------------------------------------------------ LitFunc and friends *)
Lemma token_shape_inv r ty c : token_shape r = Some (ty, c) ->
  exists t, r_body r = Body [SDefine t (EToken ty c); SAppendSelf (r_self r) [EVar t]; SReturn (EVar (r_self r))] /\
            mem t (r_self r :: names (r_params r)) = false.
Proof.
  unfold token_shape. intros H. destruct (r_body r) as [l| | |] eqn:Hb; try discriminate.
  dvars H.
  match type of H with (if ?c then _ else _) = _ => destruct c eqn:Hc; [|discriminate] end.
  injection H as <- <-. split_andb Hc.
  repeat match goal with Hx : str_eqb _ _ = true |- _ => apply str_eqb_eq in Hx end.
  match goal with Hx : negb _ = true |- _ => apply negb_true_iff in Hx end.
  subst. eexists. split; [reflexivity | assumption].
Qed.

Section TokenVariant.
  Variable cb_run : N -> list value -> store -> store * value.

  (* XFunc(f) appends the token X(v) appends, with v := f(), f called once before the append *)
  Lemma token_func_variant_sem tbl XF Y r yr :
    rows_wf tbl = true -> find_row tbl s_Statement XF = Some r -> is_construct r = true -> has_cb r = true ->
    strip_suffix s_Func XF = Some Y -> find_row tbl s_Statement Y = Some yr ->
    builds_group yr || builds_group r = false -> builds_token yr || builds_token r = true ->
    exists c, forall fuel,
      (forall id sp h,
         call cb_run (Datatypes.S fuel) tbl s_Statement XF (Some (VStmt sp)) [VCb id] h =
         match append_stmt (fst (cb_run id [] h)) sp [VTok (VConst c) (snd (cb_run id [] h))] with
         | Some h3 => Some (VStmt sp, h3, [id])
         | None => None
         end) /\
      (forall v sp h,
         call cb_run (Datatypes.S fuel) tbl s_Statement Y (Some (VStmt sp)) [v] h =
         match append_stmt h sp [VTok (VConst c) v] with
         | Some h3 => Some (VStmt sp, h3, [])
         | None => None
         end).
  Proof.
    intros Hwf Hf Hc Hcb Hstrip Hfy Hbg Hbt.
    destruct (find_row_some _ _ _ _ Hf) as [Hin [_ Hname]].
    destruct (find_row_some _ _ _ _ Hfy) as [Hiny _].
    destruct (construct_row_ok _ _ Hwf Hin Hc) as [Hok Hloc].
    pose proof (rows_wf_row _ _ Hwf Hiny) as Hry. unfold row_ok in Hry. split_andb Hry.
    assert (Hlocy : locals_ok yr = true) by assumption.
    unfold construct_ok in Hok. split_andb Hok.
    match goal with Hx : func_variant_ok tbl r = true |- _ => rename Hx into Hfv end.
    unfold func_variant_ok in Hfv. rewrite Hname, Hstrip, Hcb, Hfy, Hbg, Hbt in Hfv. simpl negb in Hfv. cbv iota in Hfv.
    destruct (token_shape yr) as [[ty1 c1]|] eqn:Hty; [|discriminate].
    destruct ty1; try discriminate. destruct c1; try discriminate.
    destruct (token_shape r) as [[ty2 c2]|] eqn:Htr; [|discriminate].
    destruct ty2; try discriminate. destruct c2; try discriminate. destruct args; try discriminate.
    destruct (r_params yr) as [|pv [|]] eqn:Hpy; try discriminate.
    destruct (r_params r) as [|pf [|]] eqn:Hpr; try discriminate.
    split_andb Hfv.
    repeat match goal with Hx : str_eqb _ _ = true |- _ => apply str_eqb_eq in Hx end. subst.
    destruct (token_shape_inv _ _ _ Hty) as [t1 [Hby Ht1]].
    destruct (token_shape_inv _ _ _ Htr) as [t2 [Hbr Ht2]].
    rewrite Hpy in Ht1. rewrite Hpr in Ht2.
    unfold locals_ok in Hloc, Hlocy. rewrite Hpr in Hloc. rewrite Hpy in Hlocy. simpl in Hloc, Hlocy, Ht1, Ht2.
    unfold mem in *. simpl in *.
    repeat match goal with Hx : (_ || _) = false |- _ => apply orb_false_iff in Hx; destruct Hx end.
    repeat match goal with Hx : (_ && _) = true |- _ => apply andb_true_iff in Hx; destruct Hx end.
    repeat match goal with Hx : negb _ = true |- _ => apply negb_true_iff in Hx end.
    repeat match goal with Hx : (_ || _) = false |- _ => apply orb_false_iff in Hx; destruct Hx end.
    exists c0. intros fuel. split.
    - intros id sp h. cbn [call]. rewrite Hf, Hbr, Hpr. cbn [bind_params].
      match goal with Hx : is_func pf = true |- _ => rewrite (is_func_not_variadic _ Hx) end.
      cbn [exec eval eval_args].
      rewrite (lookup_skip (p_name pf) (r_self r)) by (apply str_neq_sym; assumption).
      rewrite lookup_head.
      rewrite (lookup_skip (r_self r) t2) by (apply str_neq_sym; assumption).
      rewrite lookup_head. rewrite lookup_head.
      destruct (append_stmt _ sp _) as [h3|]; reflexivity.
    - intros v sp h. cbn [call]. rewrite Hfy, Hby, Hpy. cbn [bind_params].
      match goal with Hx : is_plain pv = true |- _ => rewrite (is_plain_not_variadic _ Hx) end.
      cbn [exec eval eval_args].
      rewrite (lookup_skip (p_name pv) (r_self yr)) by (apply str_neq_sym; assumption).
      rewrite lookup_head.
      rewrite (lookup_skip (r_self yr) t1) by (apply str_neq_sym; assumption).
      rewrite lookup_head. rewrite lookup_head.
      destruct (append_stmt _ sp _) as [h3|]; reflexivity.
  Qed.
End TokenVariant.

(* ------------------------------------------------------------------ same tree *)
Lemma snap_append_group : forall n h g r h2 v,
  append_group h g r = Some h2 -> avoids n h g v = true -> snap n h2 v = snap n h v.
Proof.
  induction n as [|n IH]; intros h g r h2 v Ha Hv; [reflexivity|].
  destruct (append_group_spec _ _ _ _ Ha) as [Hs [_ [_ Ho]]].
  destruct v; try reflexivity; cbn [snap avoids] in *.
  - rewrite Hs. destruct (nth_error (st_stmts h) p) as [its|]; [|reflexivity].
    f_equal. apply map_ext_in. intros a Hin. rewrite forallb_forall in Hv. apply (IH _ _ _ _ _ Ha). apply Hv. exact Hin.
  - apply andb_true_iff in Hv. destruct Hv as [Hne Hv]. apply negb_true_iff in Hne. apply Nat.eqb_neq in Hne.
    rewrite (Ho _ Hne). destruct (nth_error (st_groups h) p) as [gr|]; [|reflexivity].
    f_equal. apply map_ext_in. intros a Hin. rewrite forallb_forall in Hv. apply (IH _ _ _ _ _ Ha). apply Hv. exact Hin.
Qed.

(* ------------------------------------------------------------------ api_wf, unpacked *)
Lemma api_wf_parts tbl sts ff gs : api_wf tbl sts ff gs = true -> rows_wf tbl = true /\ ff = [] /\ gs = [].
Proof.
  unfold api_wf. intros H. split_andb H. split; [exact H|].
  destruct ff; [|discriminate]. destruct gs; [|discriminate]. auto.
Qed.

Lemma api_wf_named tbl sts ff gs : api_wf tbl sts ff gs = true ->
  forall recv name, In (recv, name) named_callback_apis ->
  exists r, find_row tbl recv name = Some r /\ has_cb r = true.
Proof.
  unfold api_wf. intros H recv name Hin. split_andb H.
  match goal with Hx : forallb _ named_callback_apis = true |- _ => rewrite forallb_forall in Hx; specialize (Hx _ Hin); simpl in Hx end.
  destruct (find_row tbl recv name) as [r|]; [|discriminate]. exists r. auto.
Qed.

(* Render(w) = RenderWithFile(w, NewFile("")) in the source, for *Statement and *Group *)
Lemma api_wf_render tbl sts ff gs : api_wf tbl sts ff gs = true ->
  forall recv, recv = s_Statement \/ recv = s_Group ->
  exists r w, find_row tbl recv (S "Render") = Some r /\ r_params r = [w] /\
    r_body r = Body [SReturn (ECallMeth (EVar (r_self r)) (S "RenderWithFile") [EVar (p_name w); ECallFn (S "NewFile") [EStr []]])].
Proof.
  intros H recv Hrecv. pose proof H as H0. unfold api_wf in H. split_andb H.
  assert (exists r, find_row tbl recv (S "Render") = Some r) as [r Hr].
  { match goal with Hx : match find_row tbl s_Statement _ with _ => _ end = true |- _ => rename Hx into Hm end.
    destruct (find_row tbl s_Statement (S "Render")) as [r1|] eqn:E1; [|discriminate].
    destruct (find_row tbl s_Group (S "Render")) as [r2|] eqn:E2; [|discriminate].
    destruct Hrecv; subst; eauto. }
  destruct (find_row_some _ _ _ _ Hr) as [Hin [Hrc Hn]].
  pose proof (rows_wf_row _ _ H Hin) as Hok. unfold row_ok in Hok. split_andb Hok.
  match goal with Hx : (if str_eqb (r_name r) _ && _ then _ else _) = true |- _ => rename Hx into Hd end.
  rewrite Hn, Hrc in Hd. rewrite str_eqb_refl in Hd.
  assert (Hor : str_eqb recv s_Statement || str_eqb recv s_Group = true).
  { destruct Hrecv; subst; [rewrite str_eqb_refl; reflexivity | rewrite str_eqb_refl; apply orb_true_r]. }
  rewrite Hor in Hd. simpl in Hd. unfold render_delegates in Hd.
  destruct (r_params r) as [|w [|]] eqn:Hp; try discriminate.
  destruct (r_body r) as [l| | |] eqn:Hb; try discriminate.
  dvars Hd. split_andb Hd.
  repeat match goal with Hx : str_eqb _ _ = true |- _ => apply str_eqb_eq in Hx end. subst.
  exists r, w. auto.
Qed.

(* GoString() renders into a new buffer with the receiver's OWN Render (the type has a Render
   row of its own, so that is the method `x.Render` selects), panics on error and returns the
   text: for *Statement, *Group and *File *)
Lemma api_wf_gostring tbl sts ff gs : api_wf tbl sts ff gs = true ->
  forall recv, In recv gostring_recvs ->
  exists r b rr, find_row tbl recv s_GoString = Some r /\ r_params r = [] /\ r_ret r = S "string" /\
    r_body r = BufString b (ECallMeth (EVar (r_self r)) s_Render [EVar b]) /\ b <> r_self r /\
    find_row tbl recv s_Render = Some rr.
Proof.
  unfold api_wf. intros H recv Hin. split_andb H.
  match goal with Hx : gostring_ok tbl = true |- _ => unfold gostring_ok in Hx; rewrite forallb_forall in Hx; specialize (Hx _ Hin); rename Hx into Hg end.
  apply andb_true_iff in Hg. destruct Hg as [Hr Hg]. unfold has_row in Hr.
  destruct (find_row tbl recv s_Render) as [rr|]; [|discriminate].
  destruct (find_row tbl recv s_GoString) as [r|]; [|discriminate].
  unfold gostring_delegates in Hg.
  destruct (r_params r) as [|? ?] eqn:Hp; [|discriminate].
  destruct (r_body r) as [l| | |b c] eqn:Hb; try discriminate.
  destruct c; try discriminate.
  match goal with Hx : context [ECallMeth ?c _ ?l] |- _ => destruct c; try discriminate; destruct l as [|a [|? ?]]; try discriminate; destruct a; try discriminate end.
  split_andb Hg.
  repeat match goal with Hx : str_eqb _ _ = true |- _ => apply str_eqb_eq in Hx end.
  match goal with Hx : negb (str_eqb _ _) = true |- _ => apply negb_true_iff in Hx; apply str_eqb_neq in Hx; rename Hx into Hne end.
  subst. exists r, b, rr. repeat split; auto.
Qed.

(* only package functions and the methods of *Statement and *Group return *Statement *)
Lemma returns_stmt_recv tbl r : rows_wf tbl = true -> In r tbl -> returns_stmt r = true ->
  r_recv r = [] \/ r_recv r = s_Statement \/ r_recv r = s_Group.
Proof.
  intros Hwf Hin Hret. pose proof (rows_wf_row _ _ Hwf Hin) as Hr. unfold row_ok in Hr.
  apply andb_true_iff in Hr. destruct Hr as [_ Hr]. rewrite Hret in Hr.
  apply mem_In in Hr. unfold builder_recvs in Hr. simpl in Hr.
  destruct Hr as [E|[E|[E|[]]]]; auto.
Qed.

(* PROMOTED FORMS ARE NOT SHADOWED.  B is Group or Statement and T another struct type that
   embeds B (directly or through other embedded fields): then no type U that T embeds at any
   depth, nor T itself, other than B, has a method or a field named like a form of B (a method
   of B that returns *Statement) - so nothing can be selected instead of B's method when one writes
   t.M(..) - and every such U is a struct type of the package or Statement, the types all of whose
   methods and fields the table lists *)
Lemma no_shadow_sound tbl sts ff gs : api_wf tbl sts ff gs = true ->
  forall B, B = s_Group \/ B = s_Statement ->
  forall T, In T (map t_name sts) -> reaches sts B T = true ->
  forall U, In U (cone_of sts T) -> U <> B ->
    known_type sts U = true /\
    forall M r, find_row tbl B M = Some r -> returns_stmt r = true ->
      find_row tbl U M = None /\ ~ In M (fields_of sts U).
Proof.
  unfold api_wf. intros H B HB T HT Hreach U HU Hne. split_andb H.
  match goal with Hx : no_shadow tbl sts = true |- _ => unfold no_shadow in Hx; rewrite forallb_forall in Hx; rename Hx into Hs end.
  assert (HinB : In B [s_Group; s_Statement]) by (destruct HB; subst; simpl; auto).
  specialize (Hs _ HinB). rewrite forallb_forall in Hs.
  apply in_map_iff in HT. destruct HT as [st [Hst Hin]]. specialize (Hs _ Hin).
  rewrite Hst, Hreach in Hs. unfold promotes_ok in Hs. rewrite forallb_forall in Hs.
  specialize (Hs _ HU). apply orb_true_iff in Hs. destruct Hs as [Hs|Hs].
  { apply str_eqb_eq in Hs. contradiction. }
  apply andb_true_iff in Hs. destruct Hs as [Hk Hs]. split; [exact Hk|].
  intros M r Hf Hret. rewrite forallb_forall in Hs.
  destruct (find_row_some _ _ _ _ Hf) as [Hinr [Hrc Hn]].
  assert (HM : In M (form_names tbl B)).
  { unfold form_names. apply in_map_iff. exists r. split; [exact Hn|].
    apply filter_In. split; [exact Hinr|]. rewrite Hrc, str_eqb_refl, Hret. reflexivity. }
  specialize (Hs _ HM). apply negb_true_iff in Hs. unfold declares in Hs.
  apply orb_false_iff in Hs. destruct Hs as [Hs1 Hs2].
  split.
  - destruct (find_row tbl U M); [discriminate|reflexivity].
  - intros Hc. apply mem_In in Hc. congruence.
Qed.

(* ------------------------------------------------------------------ entry points in the model *)
Lemma entry_points_agree : forall fmt wfail c,
  code_render fmt wfail c = snd (code_render_with_file fmt wfail c (new_file [])).
Proof. reflexivity. Qed.

(* ------------------------------------------------------------------ a construct returns its receiver *)
Section ReturnsReceiver.
  Variable cb_run : N -> list value -> store -> store * value.
  Variable callf : callfn.

  Lemma exec_returns_self s rv : forall l en h v h' lg,
    exec cb_run callf en h l = Some (v, h', lg) ->
    l <> [] -> returns_last l = true -> last l (SReturn ENil) = SReturn (EVar s) ->
    defines_b s l = false -> lookup s en = Some rv -> v = rv.
  Proof.
    induction l as [|st l IH]; intros en h v h' lg H Hne Hrl Hlast Hdef Hlk; [congruence|].
    destruct l as [|st2 l].
    - simpl in Hlast. subst st. cbn [exec eval] in H. rewrite Hlk in H. injection H as <- _ _. reflexivity.
    - assert (Hlast' : last (st2 :: l) (SReturn ENil) = SReturn (EVar s)) by exact Hlast.
      assert (Hne' : st2 :: l <> []) by discriminate.
      assert (Hd : defines_b s (st :: st2 :: l) =
                   (match st with SDefine y _ => str_eqb s y | _ => false end) || defines_b s (st2 :: l)) by reflexivity.
      rewrite Hd in Hdef. apply orb_false_iff in Hdef. destruct Hdef as [Hd1 Hd2].
      assert (Hrl' : returns_last (st2 :: l) = true /\ match st with SReturn _ => False | _ => True end).
      { cbn [returns_last] in Hrl. destruct st; try discriminate; split; try exact I; exact Hrl. }
      destruct Hrl' as [Hrl' Hnr].
      remember (st2 :: l) as rest eqn:Hrest. clear Hrest Hd Hlast Hrl.
      destruct st; cbn [exec] in H.
      + destruct (eval cb_run callf en h e) as [[[v1 h1] l1]|]; [|discriminate].
        destruct (exec cb_run callf _ h1 rest) as [[[r h2] l2]|] eqn:E2; [|discriminate].
        injection H as <- _ _. eapply IH; try eassumption. rewrite lookup_skip; assumption.
      + destruct (lookup s0 en) as [[]|]; try discriminate.
        destruct (eval_args _ en h args) as [[[vs h1] l1]|]; [|discriminate].
        destruct (append_stmt h1 p vs) as [h2|]; [|discriminate].
        destruct (exec cb_run callf en h2 rest) as [[[r h3] l2]|] eqn:E2; [|discriminate].
        injection H as <- _ _. eapply IH; eassumption.
      + destruct (lookup g en) as [[]|]; try discriminate.
        destruct (eval cb_run callf en h e) as [[[v1 h1] l1]|]; [|discriminate].
        destruct (append_group h1 p v1) as [h2|]; [|discriminate].
        destruct (exec cb_run callf en h2 rest) as [[[r h3] l2]|] eqn:E2; [|discriminate].
        injection H as <- _ _. eapply IH; eassumption.
      + destruct (lookup f en) as [[]|]; try discriminate.
        destruct (eval_args _ en h args) as [[[vs h1] l1]|]; [|discriminate].
        destruct (exec cb_run callf en _ rest) as [[[r h3] l2]|] eqn:E2; [|discriminate].
        injection H as <- _ _. eapply IH; eassumption.
      + destruct Hnr.
  Qed.
End ReturnsReceiver.

Section Summary.
  Variable cb_run : N -> list value -> store -> store * value.

  Lemma construct_returns_receiver tbl X m :
    rows_wf tbl = true -> find_row tbl s_Statement X = Some m -> is_construct m = true ->
    forall fuel rv args h v h' lg,
      call cb_run fuel tbl s_Statement X (Some rv) args h = Some (v, h', lg) -> v = rv.
  Proof.
    intros Hwf Hf Hc fuel rv args h v h' lg H.
    destruct (find_row_some _ _ _ _ Hf) as [Hin _].
    destruct (construct_row_ok _ _ Hwf Hin Hc) as [Hok _].
    destruct (is_construct_parts _ Hc) as [_ [_ [l [Hb Hlast]]]].
    unfold construct_ok, body_stmts in Hok. rewrite Hb in Hok. split_andb Hok.
    match goal with Hx : negb (defines_b _ _) = true |- _ => apply negb_true_iff in Hx; rename Hx into Hdef end.
    destruct fuel as [|n]; [discriminate|]. cbn [call] in H. rewrite Hf, Hb in H.
    destruct (bind_params (r_params m) args) as [en0|]; [|discriminate].
    eapply (exec_returns_self cb_run (call cb_run n tbl) (r_self m) rv l); try eassumption.
    - intros ->. simpl in Hlast. discriminate.
    - apply lookup_head.
  Qed.

  (* THE THREE FORMS, TOGETHER.  Whenever the Group form g.X(args) returns: the function form
     X(args) and the method form on a fresh statement return too, all three return the SAME
     statement pointer (the next free cell), with the same callback log; the function and
     method forms leave identical stores; the Group form's store differs from theirs exactly
     by g.items having that pointer appended as new last element; and the tree below the new
     statement is the same in all three stores unless it contains g itself. *)
  Theorem forms_equivalent tbl X m :
    rows_wf tbl = true -> find_row tbl s_Statement X = Some m -> is_construct m = true ->
    forall fuel args g h r h2 lg,
      call cb_run (Datatypes.S (Datatypes.S fuel)) tbl s_Group X (Some (VGroup g)) args h = Some (r, h2, lg) ->
      exists h1 gr,
        r = VStmt (length (st_stmts h)) /\
        call cb_run (Datatypes.S fuel) tbl [] X None args h = Some (r, h1, lg) /\
        call cb_run fuel tbl s_Statement X (Some r) args (alloc_stmt h []) = Some (r, h1, lg) /\
        st_stmts h2 = st_stmts h1 /\ st_dicts h2 = st_dicts h1 /\
        nth_error (st_groups h1) g = Some gr /\
        nth_error (st_groups h2) g = Some (mkgrec (g_fields gr) (g_items gr ++ [r])) /\
        (forall j, j <> g -> nth_error (st_groups h2) j = nth_error (st_groups h1) j) /\
        (forall n, avoids n h1 g r = true -> snap n h2 r = snap n h1 r).
  Proof.
    intros Hwf Hf Hc fuel args g h r h2 lg H.
    rewrite (group_form_sem cb_run _ _ _ Hwf Hf Hc) in H.
    destruct (call cb_run (Datatypes.S fuel) tbl [] X None args h) as [[[r1 h1] lg1]|] eqn:E; [|discriminate].
    destruct (append_group h1 g r1) as [h2'|] eqn:Ea; [|discriminate]. injection H as <- <- <-.
    pose proof E as E'. rewrite (func_form_sem cb_run _ _ _ Hwf Hf Hc) in E'.
    pose proof (construct_returns_receiver _ _ _ Hwf Hf Hc _ _ _ _ _ _ _ E') as Hr. subst r1.
    destruct (append_group_spec _ _ _ _ Ea) as [Hs [Hd [[gr [Hg1 Hg2]] Ho]]].
    exists h1, gr. repeat split; try assumption.
    intros n Hn. eapply snap_append_group; eassumption.
  Qed.

  (* every exported function that takes a callback has a straight-line body in the IR (no
     loop, branch, go, defer or function literal around the call) *)
  Lemma cb_rows_straight_line tbl r :
    rows_wf tbl = true -> In r tbl -> has_cb r = true -> exists l, r_body r = Body l.
  Proof.
    intros Hwf Hin Hcb. pose proof (rows_wf_row _ _ Hwf Hin) as Hr. unfold row_ok in Hr. split_andb Hr.
    rewrite Hcb in *. rewrite orb_true_r in *. unfold has_body in *.
    destruct (r_body r) as [l| | |]; try discriminate. eauto.
  Qed.
End Summary.
