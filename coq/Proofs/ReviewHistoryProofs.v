(* Review item C08 (b): invariants over HISTORIES of one File.

   A history is a list of typed operations [hop]: File.Render, Statement/Group.RenderWithFile,
   File.Add, ImportName, ImportAlias, ImportNames, PackagePrefix, NoFormat, Anon.  [hstep]
   interprets one operation with the functions of Model/FileRender.v - the very calls
   Model/Exec.v's [step] makes for the corresponding s-expressions (render, rcode, fadd,
   importname, importalias, importnames, prefix, noformat, anon), with the same printed
   observations; [history_example_agrees_with_run_ops] evaluates both on one history.

   (i)   registered names are monotone: once Some q, always Some q - under ANY hints and
         prefix, legal or not; the only requirement is that Anon is not called on a path
         that is already registered (the exclusion the property makes);
   (ii)  two consecutive identical render operations give equal observations (and the
         second leaves the File as the first left it); with review item (a): also when hint
         and prefix calls come in between, for bodies built by the API;
   (iii) every path registered when a File.Render happens - in particular every path that
         was registered at ANY earlier point of the history, under the name it had then -
         has its import line in that render's import block. *)
From Jen Require Import Base.Bytes Base.Sort Model.Code Model.Naming Model.Render Model.FileRender Model.Exec.
From Jen Require Import Proofs.NamingProofs Proofs.RenderProofs Proofs.ImportsProofs Proofs.OccsProofs
                        Proofs.PureProofs Proofs.ReviewHintsProofs Proofs.ReviewMiscProofs.
From Coq Require Import Lia.
Local Open Scope bool_scope.

Inductive hop :=
| HRender (wf : bool)                  (* File.Render; wf: the writer fails *)
| HRcode (c : code) (wf : bool)        (* c.RenderWithFile(w, f) *)
| HAdd (c : code)                      (* f.Add(c) *)
| HImportName (p n : str)
| HImportAlias (p n : str)
| HImportNames (m : list (str * str))
| HPrefix (s : str)
| HNoFormat (b : bool)
| HAnon (ps : list str).

Definition hstep (f : file) (o : hop) : file * list str :=
  match o with
  | HRender wf =>
    let r := file_render id_fmt (fun _ => wf) f in (fst r, [print_outcome (f_noformat f) (snd r)])
  | HRcode c wf =>
    let r := code_render_with_file id_fmt (fun _ => wf) c f in (fst r, [print_outcome false (snd r)])
  | HAdd c => (add_item f c, [])
  | HImportName p n => (import_name f p n, [])
  | HImportAlias p n => (import_alias f p n, [])
  | HImportNames m => (import_names f m, [])
  | HPrefix s => (set_prefix f s, [])
  | HNoFormat b => (set_noformat f b, [])
  | HAnon ps => (anon f ps, [])
  end.

Definition hfile (f : file) (ops : list hop) : file := fold_left (fun f o => fst (hstep f o)) ops f.

Fixpoint hobs (f : file) (ops : list hop) : list str :=
  match ops with
  | [] => []
  | o :: r => snd (hstep f o) ++ hobs (fst (hstep f o)) r
  end.

(* a condition on each operation, in the state it is applied to *)
Fixpoint hist_ok (P : file -> hop -> Prop) (f : file) (ops : list hop) : Prop :=
  match ops with
  | [] => True
  | o :: r => P f o /\ hist_ok P (fst (hstep f o)) r
  end.

(* the property's exclusion: no Anon of a path that is already registered *)
Definition anon_ok (f : file) (o : hop) : Prop :=
  match o with
  | HAnon ps => forall p, In p ps -> registered_name (f_imports f) p = None
  | _ => True
  end.

Definition is_render (o : hop) : bool :=
  match o with HRender _ | HRcode _ _ => true | _ => false end.

Definition is_hint_op (o : hop) : bool :=
  match o with HImportName _ _ | HImportAlias _ _ | HImportNames _ | HPrefix _ => true | _ => false end.

Lemma hfile_app f a b : hfile f (a ++ b) = hfile (hfile f a) b.
Proof. apply fold_left_app. Qed.

Lemma hist_ok_app P f a b : hist_ok P f (a ++ b) <-> hist_ok P f a /\ hist_ok P (hfile f a) b.
Proof.
  revert f. induction a as [|o a IH]; intros f; cbn [app hist_ok hfile fold_left]; [tauto|].
  fold (hfile (fst (hstep f o)) a). rewrite IH. tauto.
Qed.

(* ------------------------------------------------------------------ (i) monotone names *)
(* one register call keeps every registration - whatever the configuration *)
Lemma register_keeps cfg t p t' n : register cfg t p = Ok (t', n) -> keeps t t'.
Proof.
  intros Hr. apply register_cases in Hr.
  destruct Hr as [Hl | n Hl Hk | Hl Hk HC | name alias i Hl Hk HC Hc Hok Hmin]; try apply keeps_refl.
  - subst p. apply keeps_aset. exact Hk.
  - apply keeps_aset. exact Hk.
Qed.

(* ... hence a whole render does, under any hints and prefix *)
Lemma render_keeps_any cfg c ctx t t1 s : render cfg ctx t c = Ok (t1, s) -> keeps t t1.
Proof.
  intros H. apply (render_invariant cfg (fun t' => keeps t t')) with (c := c) (ctx := ctx) (t := t) (s := s);
    [|exact H | apply keeps_refl].
  intros ta p tb n Ka Hr. eapply keeps_trans; [exact Ka | eapply register_keeps; exact Hr].
Qed.

Lemma registered_name_anon_entry t x : registered_name (aset x (mkdef s_us true) t) x = None.
Proof. unfold registered_name. rewrite alookup_aset_same. reflexivity. Qed.

Lemma anon_fold_keeps ps : forall t,
  (forall p, In p ps -> registered_name t p = None) ->
  keeps t (fold_left (fun t p => aset p (mkdef s_us true) t) ps t).
Proof.
  induction ps as [|x ps IH]; intros t H; cbn [fold_left]; [apply keeps_refl|].
  eapply keeps_trans; [apply keeps_aset; apply H; left; reflexivity|].
  apply IH. intros p Hp. destruct (str_eq_dec p x) as [->|Hne]; [apply registered_name_anon_entry|].
  unfold registered_name. rewrite alookup_aset_other by congruence. apply H. right. exact Hp.
Qed.

Lemma hstep_keeps f o : anon_ok f o -> keeps (f_imports f) (f_imports (fst (hstep f o))).
Proof.
  destruct o as [wf|c wf|c|p n|p n|m|s|b|ps]; cbn [hstep fst anon_ok]; intros Hok; try apply keeps_refl.
  - unfold file_render. destruct (file_raw f) as [[t raw]|m] eqn:E; [|apply keeps_refl].
    destruct (file_raw_render _ _ _ E) as (s & Hs & _). cbn [fst set_imports f_imports].
    eapply render_keeps_any. exact Hs.
  - unfold code_render_with_file.
    destruct (render (file_cfg f) false (f_imports f) c) as [[t raw]|m] eqn:E; [|apply keeps_refl].
    cbn [fst set_imports f_imports]. eapply render_keeps_any. exact E.
  - unfold anon. cbn [set_imports f_imports]. apply anon_fold_keeps. exact Hok.
Qed.

Lemma history_keeps ops : forall f, hist_ok anon_ok f ops -> keeps (f_imports f) (f_imports (hfile f ops)).
Proof.
  induction ops as [|o ops IH]; intros f H; [apply keeps_refl|]. destruct H as [Ho Hr].
  cbn [hfile fold_left]. fold (hfile (fst (hstep f o)) ops).
  eapply keeps_trans; [apply hstep_keeps; exact Ho | apply IH; exact Hr].
Qed.

(* (i) ONCE Some q, ALWAYS Some q *)
Theorem history_names_monotone f0 pre post p q :
  hist_ok anon_ok f0 (pre ++ post) ->
  registered_name (f_imports (hfile f0 pre)) p = Some q ->
  registered_name (f_imports (hfile f0 (pre ++ post))) p = Some q.
Proof.
  intros H Hk. apply hist_ok_app in H. destruct H as [_ H2]. rewrite hfile_app.
  eapply keeps_registered; [apply history_keeps; exact H2 | exact Hk].
Qed.

(* ------------------------------------------------------------------ (ii) repeated renders *)
Lemma file_raw_twice f t raw :
  cfg_ok (file_cfg f) -> file_raw f = Ok (t, raw) -> file_raw (set_imports f t) = Ok (t, raw).
Proof.
  intros Hc Hr. destruct (file_raw_render _ _ _ Hr) as (s & Hs & ->).
  pose proof (render_idempotent _ Hc _ _ _ _ _ Hs) as E2.
  unfold file_raw. change (file_cfg (set_imports f t)) with (file_cfg f).
  change (f_imports (set_imports f t)) with t. change (file_group (set_imports f t)) with (file_group f).
  rewrite E2. reflexivity.
Qed.

Lemma set_imports_twice f t t' : set_imports (set_imports f t) t' = set_imports f t'.
Proof. reflexivity. Qed.

Lemma file_render_ok fmt wfl f t raw :
  file_raw f = Ok (t, raw) -> file_render fmt wfl f = (set_imports f t, emit fmt wfl (f_noformat f) raw).
Proof. intros E. unfold file_render. rewrite E. reflexivity. Qed.
Lemma file_render_panic fmt wfl f m : file_raw f = Panic m -> file_render fmt wfl f = (f, OPanic m).
Proof. intros E. unfold file_render. rewrite E. reflexivity. Qed.
Lemma crwf_ok fmt wfl c f t raw :
  render (file_cfg f) false (f_imports f) c = Ok (t, raw) ->
  code_render_with_file fmt wfl c f = (set_imports f t, emit fmt wfl false raw).
Proof. intros E. unfold code_render_with_file. rewrite E. reflexivity. Qed.
Lemma crwf_panic fmt wfl c f m :
  render (file_cfg f) false (f_imports f) c = Panic m -> code_render_with_file fmt wfl c f = (f, OPanic m).
Proof. intros E. unfold code_render_with_file. rewrite E. reflexivity. Qed.

(* two consecutive identical render operations: equal observations, and the second leaves the
   File exactly as the first left it *)
Theorem render_op_twice f o :
  is_render o = true -> cfg_ok (file_cfg f) ->
  snd (hstep (fst (hstep f o)) o) = snd (hstep f o) /\
  fst (hstep (fst (hstep f o)) o) = fst (hstep f o).
Proof.
  destruct o as [wf|c wf|c|p n|p n|m|s|b|ps]; try discriminate; intros _ Hc; cbn [hstep fst snd].
  - destruct (file_raw f) as [[t raw]|m] eqn:E.
    + rewrite (file_render_ok id_fmt (fun _ => wf) f t raw E). cbn [fst snd].
      assert (E2 : file_raw (set_imports f t) = Ok (t, raw)) by (apply file_raw_twice; assumption).
      rewrite (file_render_ok id_fmt (fun _ => wf) (set_imports f t) t raw E2). cbn [fst snd].
      split; reflexivity.
    + rewrite (file_render_panic id_fmt (fun _ => wf) f m E). cbn [fst snd].
      rewrite (file_render_panic id_fmt (fun _ => wf) f m E). split; reflexivity.
  - destruct (render (file_cfg f) false (f_imports f) c) as [[t raw]|m] eqn:E.
    + rewrite (crwf_ok id_fmt (fun _ => wf) c f t raw E). cbn [fst snd].
      assert (E2 : render (file_cfg (set_imports f t)) false (f_imports (set_imports f t)) c = Ok (t, raw))
        by (exact (render_idempotent _ Hc _ _ _ _ _ E)).
      rewrite (crwf_ok id_fmt (fun _ => wf) c (set_imports f t) t raw E2). cbn [fst snd].
      split; reflexivity.
    + rewrite (crwf_panic id_fmt (fun _ => wf) c f m E). cbn [fst snd].
      rewrite (crwf_panic id_fmt (fun _ => wf) c f m E). split; reflexivity.
Qed.

(* inside a history: ... ; o ; o *)
Corollary history_render_twice f0 pre o :
  is_render o = true -> cfg_ok (file_cfg (hfile f0 pre)) ->
  hobs f0 (pre ++ [o; o]) = hobs f0 (pre ++ [o]) ++ snd (hstep (hfile f0 pre) o).
Proof.
  intros Hr Hc.
  assert (Happ : forall a b f, hobs f (a ++ b) = hobs f a ++ hobs (hfile f a) b).
  { induction a as [|x a IH]; intros b f; [reflexivity|]. cbn [app hobs hfile fold_left].
    fold (hfile (fst (hstep f x)) a). rewrite IH, app_assoc. reflexivity. }
  rewrite (Happ pre [o; o] f0), (Happ pre [o] f0). cbn [hobs]. rewrite !app_nil_r.
  rewrite (proj1 (render_op_twice (hfile f0 pre) o Hr Hc)). rewrite app_assoc. reflexivity.
Qed.

(* hint and prefix calls touch nothing but hints and prefix *)
Lemma hint_ops_same ops : forall f, forallb is_hint_op ops = true ->
  same_file_but_hints f (hfile f ops) /\ f_imports (hfile f ops) = f_imports f /\
  f_noformat (hfile f ops) = f_noformat f.
Proof.
  induction ops as [|o ops IH]; intros f H.
  - split; [repeat split|split; reflexivity].
  - cbn [forallb] in H. apply andb_true_iff in H. destruct H as [Ho Hr].
    cbn [hfile fold_left]. fold (hfile (fst (hstep f o)) ops).
    destruct (IH (fst (hstep f o)) Hr) as ((A1 & A2 & A3 & A4 & A5 & A6 & A7) & B & C).
    destruct o; try discriminate; cbn [hstep fst] in *;
      (split; [repeat split; assumption | split; assumption]).
Qed.

(* File.Render; ImportName / ImportAlias / ImportNames / PackagePrefix calls; File.Render:
   the same bytes again (bodies built by the API: qual_only) *)
Theorem render_hints_render f mid wf :
  cfg_ok (file_cfg f) -> forallb qual_only (f_items f) = true -> forallb is_hint_op mid = true ->
  (exists t raw, file_raw f = Ok (t, raw)) ->
  let f1 := fst (hstep f (HRender wf)) in
  snd (hstep (hfile f1 mid) (HRender wf)) = snd (hstep f (HRender wf)) /\
  f_imports (fst (hstep (hfile f1 mid) (HRender wf))) = f_imports f1.
Proof.
  intros Hc Hq Hm (t & raw & E). cbv zeta. cbn [hstep fst snd].
  rewrite (file_render_ok id_fmt (fun _ => wf) f t raw E). cbn [fst snd].
  destruct (hint_ops_same mid (set_imports f t) Hm) as (Hs & Hi & Hn).
  assert (Hs' : same_file_but_hints f (hfile (set_imports f t) mid)).
  { destruct Hs as (A1 & A2 & A3 & A4 & A5 & A6 & A7). repeat split; assumption. }
  pose proof (file_raw_stable_later_hints f _ t raw Hc Hq E Hs' Hi) as E2.
  rewrite (file_render_ok id_fmt (fun _ => wf) (hfile (set_imports f t) mid) t raw E2). cbn [fst snd].
  rewrite Hn. split; reflexivity.
Qed.

(* ------------------------------------------------------------------ (iii) import lines *)
(* every path registered when File.Render happens has its line in that render's block; the
   text handed to the formatter is head ++ block ++ body *)
Theorem render_lists_registered f t1 raw :
  file_raw f = Ok (t1, raw) ->
  exists body, raw = file_head f ++ render_imports t1 (f_cgo f) ++ body /\
  forall p q, registered_name t1 p = Some q ->
    exists d, alookup p t1 = Some d /\ id_name d = q /\
      exists a b, render_imports t1 (f_cgo f) = a ++ import_spec p d ++ [x0a] ++ b.
Proof.
  intros Hr. destruct (file_raw_render _ _ _ Hr) as (s & Hs & ->). exists s. split; [reflexivity|].
  intros p q Hq. destruct (registered_name_entry _ _ _ Hq) as (d & Hd & Hn & _).
  exists d. split; [exact Hd|]. split; [exact Hn|]. apply render_imports_has_spec. apply alookup_In. exact Hd.
Qed.

(* over a history: a path registered at ANY earlier point, under the name q it had then, is in
   the table of every later File.Render under the same name, with its import line *)
Theorem history_import_lines f0 pre post t1 raw p q :
  hist_ok anon_ok f0 (pre ++ post) ->
  registered_name (f_imports (hfile f0 pre)) p = Some q ->
  file_raw (hfile f0 (pre ++ post)) = Ok (t1, raw) ->
  let f := hfile f0 (pre ++ post) in
  registered_name t1 p = Some q /\
  exists d body, alookup p t1 = Some d /\ id_name d = q /\
    raw = file_head f ++ render_imports t1 (f_cgo f) ++ body /\
    exists a b, render_imports t1 (f_cgo f) = a ++ import_spec p d ++ [x0a] ++ b.
Proof.
  intros H Hk Hr f. pose proof (history_names_monotone f0 pre post p q H Hk) as Hk2.
  destruct (file_raw_render _ _ _ Hr) as (s & Hs & Eraw).
  pose proof (keeps_registered _ _ _ _ (render_keeps_any _ _ _ _ _ _ Hs) Hk2) as Hk3.
  split; [exact Hk3|]. destruct (render_lists_registered _ _ _ Hr) as (body & Hb & Hl).
  destruct (Hl p q Hk3) as (d & Hd & Hn & Hline). exists d, body. repeat split; assumption.
Qed.

(* distinct paths stay distinct along a history, so the line is the exact one (C03_block) *)
Lemma hstep_NoDup f o : NoDup (akeys (f_imports f)) -> NoDup (akeys (f_imports (fst (hstep f o)))).
Proof.
  destruct o as [wf|c wf|c|p n|p n|m|s|b|ps]; cbn [hstep fst]; intros Hnd; try exact Hnd.
  - unfold file_render. destruct (file_raw f) as [[t raw]|m] eqn:E; [|exact Hnd].
    cbn [fst set_imports f_imports]. eapply file_render_NoDup; eassumption.
  - unfold code_render_with_file.
    destruct (render (file_cfg f) false (f_imports f) c) as [[t raw]|m] eqn:E; [|exact Hnd].
    cbn [fst set_imports f_imports]. eapply render_NoDup; eassumption.
  - apply anon_NoDup. exact Hnd.
Qed.

Lemma history_NoDup ops : forall f, NoDup (akeys (f_imports f)) -> NoDup (akeys (f_imports (hfile f ops))).
Proof.
  induction ops as [|o ops IH]; intros f H; [exact H|]. cbn [hfile fold_left].
  fold (hfile (fst (hstep f o)) ops). apply IH. apply hstep_NoDup. exact H.
Qed.

Theorem history_import_specs f0 pre post t1 raw p q :
  NoDup (akeys (f_imports f0)) -> hist_ok anon_ok f0 (pre ++ post) ->
  registered_name (f_imports (hfile f0 pre)) p = Some q ->
  file_raw (hfile f0 (pre ++ post)) = Ok (t1, raw) ->
  let cgo := f_cgo (hfile f0 (pre ++ post)) in
  cgo = [] \/ p <> s_C ->
  exists d, alookup p t1 = Some d /\ id_name d = q /\
    In (spec_of (p, d)) (block_specs (listed t1 cgo)) /\
    forall sp, In sp (block_specs (listed t1 cgo)) -> snd sp = p -> sp = spec_of (p, d).
Proof.
  intros Hnd H Hk Hr cgo Hc.
  destruct (history_import_lines f0 pre post t1 raw p q H Hk Hr) as (_ & d & _ & Hd & Hn & _).
  assert (Hnd1 : NoDup (akeys t1)).
  { eapply file_render_NoDup; [exact Hr|]. apply history_NoDup. exact Hnd. }
  destruct (block_line_exact t1 cgo Hnd1) as (_ & _ & _ & Hp & _).
  destruct (Hp p d Hd Hc) as [Hin Hu]. exists d. repeat split; assumption.
Qed.

(* a decision procedure for the Anon condition, for examples *)
Definition anon_okb (f : file) (o : hop) : bool :=
  match o with
  | HAnon ps => forallb (fun p => match registered_name (f_imports f) p with None => true | Some _ => false end) ps
  | _ => true
  end.
Fixpoint hist_okb (f : file) (ops : list hop) : bool :=
  match ops with
  | [] => true
  | o :: r => anon_okb f o && hist_okb (fst (hstep f o)) r
  end.
Lemma hist_okb_sound ops : forall f, hist_okb f ops = true -> hist_ok anon_ok f ops.
Proof.
  induction ops as [|o ops IH]; intros f H; [exact I|]. cbn [hist_okb] in H. apply andb_true_iff in H.
  destruct H as [Ho Hr]. split; [|apply IH; exact Hr].
  destruct o; try exact I. cbn [anon_okb anon_ok] in *. rewrite forallb_forall in Ho.
  intros p Hp. specialize (Ho p Hp). destruct (registered_name (f_imports f) p); [discriminate | reflexivity].
Qed.

(* ------------------------------------------------------------------ the interpreter *)
(* one history, through Model/Exec.v's reader and interpreter (run_file_case on the line the
   harness would write) and through hobs: the same observations *)
Definition example_line : str :=
  S "(newfile 0 x6d61696e) (fadd 0 (q 1 x612e622f64 x41)) (render 0 0) (importalias 0 x612e622f64 x7a) " ++
  S "(prefix 0 x7070) (anon 0 x782f79) (fadd 0 (q 2 x632e622f64 x42)) (render 0 0) (render 0 0) " ++
  S "(rcode 0 (q 3 x612e622f64 x43) 0) (noformat 0 1) (render 0 1)".

Definition example_ops : list hop :=
  [HAdd (qual 1 (S "a.b/d") (S "A")); HRender false; HImportAlias (S "a.b/d") (S "z");
   HPrefix (S "pp"); HAnon [S "x/y"]; HAdd (qual 2 (S "c.b/d") (S "B")); HRender false; HRender false;
   HRcode (qual 3 (S "a.b/d") (S "C")) false; HNoFormat true; HRender true].

Lemma history_example_agrees_with_run_ops :
  match read_line example_line with
  | Some ops => run_file_case ops
  | None => None
  end = Some (hobs (new_file (S "main")) example_ops) /\
  hist_ok anon_ok (new_file (S "main")) example_ops /\
  (* a.b/d keeps the name d it got at the first render, although it was aliased z and a
     prefix was set afterwards; c.b/d, first rendered later, gets the prefixed alias *)
  map (fun e => (fst e, id_name (snd e))) (f_imports (hfile (new_file (S "main")) example_ops)) =
    [(S "a.b/d", S "d"); (S "x/y", S "_"); (S "c.b/d", S "pp_d1")].
Proof.
  split; [vm_compute; reflexivity|]. split; [|vm_compute; reflexivity].
  apply hist_okb_sound. vm_compute. reflexivity.
Qed.

(* ------------------------------------------------------------------ the three invariants together *)
Theorem history_invariants f0 :
  (* (i) names are monotone *)
  (forall pre post p q, hist_ok anon_ok f0 (pre ++ post) ->
     registered_name (f_imports (hfile f0 pre)) p = Some q ->
     registered_name (f_imports (hfile f0 (pre ++ post))) p = Some q) /\
  (* (ii) a render operation repeated at once: same observation, same File *)
  (forall pre o, is_render o = true -> cfg_ok (file_cfg (hfile f0 pre)) ->
     hobs f0 (pre ++ [o; o]) = hobs f0 (pre ++ [o]) ++ snd (hstep (hfile f0 pre) o) /\
     hfile f0 (pre ++ [o; o]) = hfile f0 (pre ++ [o])) /\
  (* (iii) a path registered at any point has its line in every later File.Render *)
  (forall pre post t1 raw p q, hist_ok anon_ok f0 (pre ++ post) ->
     registered_name (f_imports (hfile f0 pre)) p = Some q ->
     file_raw (hfile f0 (pre ++ post)) = Ok (t1, raw) ->
     let f := hfile f0 (pre ++ post) in
     registered_name t1 p = Some q /\
     exists d body, alookup p t1 = Some d /\ id_name d = q /\
       raw = file_head f ++ render_imports t1 (f_cgo f) ++ body /\
       exists a b, render_imports t1 (f_cgo f) = a ++ import_spec p d ++ [x0a] ++ b).
Proof.
  split; [exact (history_names_monotone f0)|]. split; [|exact (history_import_lines f0)].
  intros pre o Hr Hc. split; [exact (history_render_twice f0 pre o Hr Hc)|].
  rewrite !hfile_app. cbn [hfile fold_left]. exact (proj2 (render_op_twice (hfile f0 pre) o Hr Hc)).
Qed.
