(* C01 at the level of tokens: the canonical text of every program of Spec/MiniGo.v whose names
   are identifiers is split by the scanner model GoStd/Tokens.v into exactly the token sequence
   of the program (Spec/MiniGoTokens.v).

   ORGANISATION.
   1. the scanner is memoryless at a token boundary: if the token at the head of p ++ r is
      p itself then [golex (p ++ r) = pre [t] (golex r)] (golex_tok, golex_skip);
   2. where each token stops ([stop_ok], the boundary predicate): a word stops before a byte
      that is not a letter or digit, a digit run before a byte that is not a letter, digit or
      `.`, a string at its closing quote, an operator o before a rest such that o is still the
      LONGEST operator at the head of o ++ rest (and `.` not before a digit, `/` not before
      `/` or `*`) - lex_word, lex_int, lex_string, lex_op;
   3. the boundary bytes of the canonical text: the bytes [bnd_bytes] (blank, newline and
      `, ) ] } : ;`) stop EVERY token (stop_bnd); the delimiters `( [ { , ;` `) ] }` need no
      boundary at all; the two other adjacencies the printer produces are `:` before the
      second bound of a slice (never followed by `=`: cexpr_no_eq) and `-` before the
      digits of a negative literal;
   4. [piece p ts]: before every rest that is empty or starts with a boundary byte, p lexes to
      ts and the scanner continues with the rest.  Every construct is a piece (induction over
      the three mutually defined classes; types by [ty_ind'], lx_ty);
   5. keyed elements: the canonical text lists them sorted by key text, and so does [texpr]
      (keyed_texts_sorted / keyed_toks_sorted move the sort from the texts / tokens to the
      elements, lx_keyed lexes the Dict layout); section 8: the order theorems. *)
From Jen Require Import Base.Bytes Base.Num GoStd.Quote GoStd.IsPrint GoStd.LitEval GoStd.Tokens Gen.Goroot.
From Jen Require Import Model.Code Model.Naming Model.Render Model.FileRender.
From Jen Require Import Spec.MiniGo Spec.MiniGoTokens Proofs.QuoteProofs Proofs.LitProofs Proofs.CanonProofs.
From Jen Require Import Base.Sort Proofs.DictProofs.
From Coq Require Import ZifyN ZifyNat ZifyBool Permutation.
Local Open Scope N_scope.

(* ================================================================== 1. token boundaries *)
Definition pre (ts : list tok) (o : option (list tok)) : option (list tok) :=
  match o with Some l => Some (ts ++ l) | None => None end.

Lemma pre_pre a b o : pre a (pre b o) = pre (a ++ b) o.
Proof. destruct o; cbn [pre]; [rewrite app_assoc|]; reflexivity. Qed.
Lemma pre_nil o : pre [] o = o.
Proof. destruct o; reflexivity. Qed.

Lemma lexk_skip p r : lexk (length p) (p ++ r) = lexk 0 r.
Proof. induction p as [|c p IH]; [reflexivity | exact IH]. Qed.

Lemma golex_nil : golex [] = Some [].
Proof. reflexivity. Qed.

(* the token at the head is p: the scanner emits it and continues after it *)
Lemma golex_tok p r t : p <> [] -> tok_at (p ++ r) = Some (Some t, length p) ->
  golex (p ++ r) = pre [t] (golex r).
Proof.
  destruct p as [|c p]; [congruence|]. intros _ H. unfold golex.
  change (lexk 0 ((c :: p) ++ r)) with
    (match tok_at ((c :: p) ++ r) with
     | Some (Some t, n) => option_map (cons t) (lexk (pred n) (p ++ r))
     | Some (None, n) => lexk (pred n) (p ++ r)
     | None => None
     end).
  rewrite H. cbn [length pred]. rewrite lexk_skip. destruct (lexk 0 r); reflexivity.
Qed.

Lemma golex_skip p r : p <> [] -> tok_at (p ++ r) = Some (None, length p) -> golex (p ++ r) = golex r.
Proof.
  destruct p as [|c p]; [congruence|]. intros _ H. unfold golex.
  change (lexk 0 ((c :: p) ++ r)) with
    (match tok_at ((c :: p) ++ r) with
     | Some (Some t, n) => option_map (cons t) (lexk (pred n) (p ++ r))
     | Some (None, n) => lexk (pred n) (p ++ r)
     | None => None
     end).
  rewrite H. cbn [length pred]. apply lexk_skip.
Qed.

(* ---- all bytes *)
Definition all_bytes : list byte := map (fun n => n2b (N.of_nat n)) (seq 0 256).

Lemma all_bytes_In c : In c all_bytes.
Proof.
  unfold all_bytes. apply in_map_iff. exists (N.to_nat (b2n c)). split.
  - rewrite N2Nat.id. apply n2b_b2n.
  - apply in_seq. pose proof (b2n_lt c). lia.
Qed.

Lemma byte_forall (P : byte -> bool) : forallb P all_bytes = true -> forall c, P c = true.
Proof. intros H c. exact (proj1 (forallb_forall P all_bytes) H c (all_bytes_In c)). Qed.

Lemma letter_facts c : tk_letter c = true ->
  tk_space c = false /\ tk_idchar c = true /\ tk_digit c = false.
Proof.
  intros H.
  pose proof (byte_forall (fun c => implb (tk_letter c) (negb (tk_space c) && tk_idchar c && negb (tk_digit c)))
                ltac:(vm_compute; reflexivity) c) as F.
  cbv beta in F. rewrite H in F. cbn [implb] in F.
  destruct (tk_space c), (tk_idchar c), (tk_digit c); try discriminate. repeat split.
Qed.

Lemma digit_facts c : tk_digit c = true ->
  tk_space c = false /\ tk_letter c = false /\ tk_idchar c = true /\ num_follow_bad c = true /\
  beq c x2d = false /\ beq c x3d = false.
Proof.
  intros H.
  pose proof (byte_forall (fun c => implb (tk_digit c)
                (negb (tk_space c) && negb (tk_letter c) && tk_idchar c && num_follow_bad c &&
                 negb (beq c x2d) && negb (beq c x3d)))
                ltac:(vm_compute; reflexivity) c) as F.
  cbv beta in F. rewrite H in F. cbn [implb] in F.
  destruct (tk_space c), (tk_letter c), (tk_idchar c), (num_follow_bad c), (beq c x2d), (beq c x3d);
    try discriminate. repeat split.
Qed.

(* ================================================================== 2. where a token stops *)
Lemma take_while_app p w r : forallb p w = true -> hd_is p r = false -> take_while p (w ++ r) = w.
Proof.
  induction w as [|c w IH]; intros Hw Hr.
  - destruct r as [|d r]; [reflexivity|]. cbn in Hr |- *. rewrite Hr. reflexivity.
  - cbn [forallb] in Hw. apply andb_true_iff in Hw. destruct Hw as [Hc Hw].
    cbn [app take_while]. rewrite Hc, IH by assumption. reflexivity.
Qed.

(* letter (letter | digit)* *)
Definition word_ok (w : str) : bool :=
  match w with c :: r => tk_letter c && forallb tk_idchar r | [] => false end.

Lemma lex_word w r : word_ok w = true -> hd_is tk_idchar r = false ->
  golex (w ++ r) = pre [(word_class w, w)] (golex r).
Proof.
  intros Hw Hr. destruct w as [|c w]; [discriminate|].
  cbn [word_ok] in Hw. apply andb_true_iff in Hw. destruct Hw as [Hc Hw].
  apply golex_tok; [discriminate|].
  destruct (letter_facts c Hc) as (Hs & _ & _).
  cbn [app tok_at]. rewrite Hs, Hc. rewrite take_while_app by assumption. reflexivity.
Qed.

Lemma skipn_length_app {A} (a b : list A) : skipn (length a) (a ++ b) = b.
Proof. induction a; [reflexivity | assumption]. Qed.

Lemma firstn_length_app {A} (a b : list A) : firstn (length a) (a ++ b) = a.
Proof. induction a as [|x a IH]; [destruct b; reflexivity | cbn; rewrite IH; reflexivity]. Qed.

(* the decimal text of a number *)
Lemma lex_int n r : hd_is num_follow_bad r = false ->
  golex (N_to_dec n ++ r) = pre [(KInt, N_to_dec n)] (golex r).
Proof.
  intros Hr. pose proof (N_to_dec_digits n) as Hd. pose proof (N_to_dec_canon n) as Hc.
  destruct (N_to_dec n) as [|d t] eqn:E; [discriminate|].
  apply golex_tok; [discriminate|].
  unfold all_digits in Hd. cbn [forallb] in Hd. apply andb_true_iff in Hd. destruct Hd as [Hd Ht].
  change (is_digit d) with (tk_digit d) in Hd.
  destruct (digit_facts d Hd) as (Hs & Hl & _).
  assert (Hr' : hd_is tk_digit r = false).
  { destruct r as [|x r]; [reflexivity|]. cbn [hd_is] in Hr |- *. unfold num_follow_bad, tk_idchar in Hr.
    destruct (tk_digit x); [|reflexivity]. rewrite orb_true_r in Hr. discriminate. }
  cbn [app tok_at]. rewrite Hs, Hl, Hd.
  rewrite (take_while_app tk_digit t r Ht Hr').
  change (d :: t ++ r) with ((d :: t) ++ r). rewrite skipn_length_app, Hr. cbn [orb].
  assert (Hz : beq d x30 && (1 <? length (d :: t))%nat = false).
  { destruct t as [|d2 t]; [apply andb_false_r|].
    cbn [canon_int] in Hc. apply negb_true_iff in Hc. rewrite Hc. reflexivity. }
  rewrite Hz. reflexivity.
Qed.

(* a quoted string, before any rest *)
Lemma lex_string s r : golex (GoQuote s ++ r) = pre [(KString, GoQuote s)] (golex r).
Proof.
  apply golex_tok; [unfold GoQuote, Quote, quote_with; discriminate|].
  unfold GoQuote, Quote, quote_with. set (body := quote_body go_is_print (b2n c_dq) (length s) s).
  cbn [app tok_at]. change (tk_space c_dq) with false. change (tk_letter c_dq) with false.
  change (tk_digit c_dq) with false. change (beq c_dq c_dq) with true. cbv iota.
  rewrite <- app_assoc. cbn [app].
  pose proof (unq_quote_body go_is_print go_is_print_10 c_dq (or_introl eq_refl) (length s) s r (le_n _)) as Hu.
  fold body in Hu. rewrite Hu.
  assert (Hn : (length (body ++ c_dq :: r) - length r)%nat = length (body ++ [c_dq])).
  { rewrite !app_length. cbn [length]. lia. }
  rewrite Hn. change (body ++ c_dq :: r) with (body ++ [c_dq] ++ r). rewrite app_assoc.
  rewrite firstn_length_app. cbn [length]. reflexivity.
Qed.

(* an operator: it is still the longest operator at the head, and the two special readings
   (`.5`, a comment opener) do not apply *)
Definition op_stop (o r : str) : bool :=
  match op_at (o ++ r) with Some o' => str_eqb o' o | None => false end &&
  negb (str_eqb o (S ".") && hd_is tk_digit r) &&
  negb (str_eqb o (S "/") && (hd_is (beq x2f) r || hd_is (beq x2a) r)).

Definition is_op (o : str) : bool := existsb (str_eqb o) go_ops.

Lemma is_op_In o : is_op o = true -> In o go_ops.
Proof.
  unfold is_op. rewrite existsb_exists. intros (x & Hx & E). apply str_eqb_eq in E. subst. exact Hx.
Qed.

Lemma str_eqb_single c d : str_eqb [c] [d] = beq c d.
Proof. cbn [str_eqb]. apply andb_true_r. Qed.

Lemma tok_at_op c s' :
  tk_space c = false -> tk_letter c = false -> tk_digit c = false -> beq c c_dq = false ->
  beq c x2f && hd_is (beq x2f) s' = false -> beq c x2f && hd_is (beq x2a) s' = false ->
  beq c x2e && hd_is tk_digit s' = false ->
  tok_at (c :: s') = match op_at (c :: s') with Some o => Some (Some (KOp, o), length o) | None => None end.
Proof. intros H1 H2 H3 H4 H5 H6 H7. cbn [tok_at]. rewrite H1, H2, H3, H4, H5, H6, H7. reflexivity. Qed.

(* no operator starts like another class, and inside an operator there is no `//` `/*` `.5` *)
Definition op_shape_ok (o : str) : bool :=
  match o with
  | [] => false
  | c :: o' =>
    negb (tk_space c) && negb (tk_letter c) && negb (tk_digit c) && negb (beq c c_dq) &&
    match o' with
    | [] => true
    | d :: _ => negb (beq c x2f && beq x2f d) && negb (beq c x2f && beq x2a d) && negb (beq c x2e && tk_digit d)
    end
  end.

Lemma go_ops_shape : forallb op_shape_ok go_ops = true.
Proof. vm_compute. reflexivity. Qed.

Lemma lex_op o r : is_op o = true -> op_stop o r = true -> golex (o ++ r) = pre [(KOp, o)] (golex r).
Proof.
  intros Ho Hs. apply is_op_In in Ho.
  pose proof (proj1 (forallb_forall _ _) go_ops_shape o Ho) as Hsh.
  unfold op_stop in Hs. apply andb_true_iff in Hs. destruct Hs as [Hs H3].
  apply andb_true_iff in Hs. destruct Hs as [H1 H2].
  destruct (op_at (o ++ r)) as [o'|] eqn:Eo; [|discriminate]. apply str_eqb_eq in H1. subst o'.
  destruct o as [|c o']; [discriminate|].
  apply golex_tok; [discriminate|].
  cbn [op_shape_ok] in Hsh. rewrite !andb_true_iff, !negb_true_iff in Hsh.
  destruct Hsh as ((((Ha & Hb) & Hc) & Hd) & He).
  cbn [app] in Eo |- *. rewrite tok_at_op; try assumption.
  - rewrite Eo. reflexivity.
  - destruct o' as [|d o'].
    + cbn [app]. apply negb_true_iff in H3. change (S "/") with [x2f] in H3. rewrite str_eqb_single in H3. destruct (beq c x2f); [|reflexivity].
      cbn [andb] in H3 |- *. apply orb_false_iff in H3. apply H3.
    + rewrite !andb_true_iff, !negb_true_iff in He. apply He.
  - destruct o' as [|d o'].
    + cbn [app]. apply negb_true_iff in H3. change (S "/") with [x2f] in H3. rewrite str_eqb_single in H3. destruct (beq c x2f); [|reflexivity].
      cbn [andb] in H3 |- *. apply orb_false_iff in H3. apply H3.
    + rewrite !andb_true_iff, !negb_true_iff in He. apply He.
  - destruct o' as [|d o'].
    + cbn [app]. apply negb_true_iff in H2. change (S ".") with [x2e] in H2. rewrite str_eqb_single in H2. exact H2.
    + rewrite !andb_true_iff, !negb_true_iff in He. apply He.
Qed.

(* ================================================================== 3. the boundary bytes *)
(* blank, newline, `,` `)` `]` `}` `:` `;` - what the canonical text puts after a token when
   it is not another blank-separated item *)
Definition bnd_bytes : list byte := [x20; x0a; x2c; x29; x5d; x7d; x3a; x3b].
(* the rest is empty or starts with a boundary byte *)
Definition bndb (r : str) : bool := match r with [] => true | c :: _ => existsb (beq c) bnd_bytes end.

Lemma bndb_cases r : bndb r = true -> r = [] \/ exists c r', r = c :: r' /\ In c bnd_bytes.
Proof.
  destruct r as [|c r]; [left; reflexivity|]. intros H. right. cbn [bndb] in H.
  apply existsb_exists in H. destruct H as (b & Hb & E). apply beq_eq in E. subst b.
  exists c, r. split; [reflexivity | exact Hb].
Qed.

(* a boundary byte stops every operator ... *)
Lemma stop_bnd o r : is_op o = true -> bndb r = true -> op_stop o r = true.
Proof.
  intros Ho Hr. apply is_op_In in Ho. destruct (bndb_cases r Hr) as [-> | (c & r' & -> & Hc)].
  - exact (proj1 (forallb_forall (fun o => op_stop o []) go_ops) ltac:(vm_compute; reflexivity) o Ho).
  - assert (H : forallb (fun o => forallb (fun c => op_stop o (c :: r')) bnd_bytes) go_ops = true)
      by (vm_compute; reflexivity).
    pose proof (proj1 (forallb_forall _ _) H o Ho) as H1. cbv beta in H1.
    exact (proj1 (forallb_forall _ _) H1 c Hc).
Qed.

(* ... every word and every digit run *)
Lemma bnd_not_idchar r : bndb r = true -> hd_is tk_idchar r = false /\ hd_is num_follow_bad r = false.
Proof.
  intros Hr. destruct (bndb_cases r Hr) as [-> | (c & r' & -> & Hc)]; [split; reflexivity|].
  cbn [hd_is]. repeat (destruct Hc as [<- | Hc]; [split; reflexivity|]). destruct Hc.
Qed.

(* the delimiters that are a prefix of no other operator stop before anything *)
Definition free_ops : list str := [S "("; S ")"; S "["; S "]"; S "{"; S "}"; S ","; S ";"].

Lemma stop_free o r : In o free_ops -> is_op o = true /\ op_stop o r = true.
Proof.
  intros Ho. repeat (destruct Ho as [<- | Ho]; [split; vm_compute; reflexivity|]). destruct Ho.
Qed.

(* `:` before anything but `=` *)
Lemma stop_colon c r : beq c x3d = false -> op_stop (S ":") (c :: r) = true.
Proof.
  intros H.
  pose proof (byte_forall (fun c => implb (negb (beq c x3d)) (op_stop (S ":") (c :: r)))
                ltac:(vm_compute; reflexivity) c) as F.
  cbv beta in F. rewrite H in F. exact F.
Qed.

(* `-` before a digit *)
Lemma stop_minus_digit c r : tk_digit c = true -> op_stop (S "-") (c :: r) = true.
Proof.
  intros H.
  pose proof (byte_forall (fun c => implb (tk_digit c) (op_stop (S "-") (c :: r)))
                ltac:(vm_compute; reflexivity) c) as F.
  cbv beta in F. rewrite H in F. exact F.
Qed.

(* ================================================================== 4. pieces *)
(* p lexes to ts and the scanner goes on with whatever follows *)
Definition free (p : str) (ts : list tok) : Prop := forall r, golex (p ++ r) = pre ts (golex r).
(* the same before a rest that is empty or starts with a boundary byte *)
Definition piece (p : str) (ts : list tok) : Prop :=
  forall r, bndb r = true -> golex (p ++ r) = pre ts (golex r).

Lemma free_piece p ts : free p ts -> piece p ts.
Proof. intros H r _. apply H. Qed.

Lemma piece_golex p ts : piece p ts -> golex p = Some ts.
Proof. intros H. rewrite <- (app_nil_r p), (H [] eq_refl). cbn [golex lexk pre]. rewrite app_nil_r. reflexivity. Qed.

Lemma g_sp r : golex (sp ++ r) = golex r.
Proof. reflexivity. Qed.
Lemma g_nl r : golex (nl ++ r) = golex r.
Proof. reflexivity. Qed.

Lemma g_fop o r : In o free_ops -> golex (o ++ r) = pre [top o] (golex r).
Proof. intros Ho. destruct (stop_free o r Ho) as [H1 H2]. apply lex_op; assumption. Qed.

Lemma g_op o r : is_op o = true -> bndb r = true -> golex (o ++ r) = pre [top o] (golex r).
Proof. intros Ho Hr. apply lex_op; [exact Ho | apply stop_bnd; assumption]. Qed.

Lemma g_word w r : word_ok w = true -> bndb r = true -> golex (w ++ r) = pre [(word_class w, w)] (golex r).
Proof. intros Hw Hr. apply lex_word; [exact Hw | apply bnd_not_idchar, Hr]. Qed.

Lemma ident_ok_word n : ident_ok n = true -> word_ok n = true /\ word_class n = KIdent.
Proof.
  destruct n as [|c n]; [discriminate|]. cbn [ident_ok word_ok]. intros H.
  apply andb_true_iff in H. destruct H as [H1 H2]. split; [exact H1|].
  unfold word_class. apply negb_true_iff in H2. rewrite H2. reflexivity.
Qed.

Lemma g_id n r : ident_ok n = true -> bndb r = true -> golex (n ++ r) = pre [tid n] (golex r).
Proof.
  intros Hn Hr. destruct (ident_ok_word n Hn) as [Hw Hc].
  rewrite (g_word n r Hw Hr), Hc. reflexivity.
Qed.

Lemma g_str s r : golex (GoQuote s ++ r) = pre [(KString, GoQuote s)] (golex r).
Proof. apply lex_string. Qed.

Lemma g_int z r : bndb r = true -> golex (Z_to_dec z ++ r) = pre (tintlit z) (golex r).
Proof.
  intros Hr. destruct (bnd_not_idchar r Hr) as [_ Hn].
  destruct z as [|p|p]; cbn [Z_to_dec tintlit]; try (apply lex_int; exact Hn).
  change (x2d :: N_to_dec (N.pos p)) with (S "-" ++ N_to_dec (N.pos p)). rewrite <- app_assoc.
  destruct (N_to_dec_hd (N.pos p)) as (d & t & E & Hd). change (is_digit d) with (tk_digit d) in Hd.
  rewrite lex_op; [|reflexivity | rewrite E; apply stop_minus_digit, Hd].
  rewrite lex_int by exact Hn. rewrite pre_pre. reflexivity.
Qed.

(* `:` before a text that does not start with `=` *)
Definition no_eq (r : str) : bool := match r with c :: _ => negb (beq c x3d) | [] => true end.

Lemma g_colon r : no_eq r = true -> golex (S ":" ++ r) = pre [top (S ":")] (golex r).
Proof.
  intros H. apply lex_op; [reflexivity|]. destruct r as [|c r]; [reflexivity|].
  apply stop_colon. cbn [no_eq] in H. apply negb_true_iff in H. exact H.
Qed.

Lemma bndb_no_eq r : bndb r = true -> no_eq r = true.
Proof.
  intros Hr. destruct (bndb_cases r Hr) as [-> | (c & r' & -> & Hc)]; [reflexivity|].
  cbn [no_eq]. repeat (destruct Hc as [<- | Hc]; [reflexivity|]). destruct Hc.
Qed.

(* ---- splitting the literal texts of the printer into tokens and blanks *)
Lemma split_lits :
  (S " (" = sp ++ S "(") /\ (S " [" = sp ++ S "[") /\ (S " {" = sp ++ S "{") /\
  (S " . " = sp ++ S "." ++ sp) /\ (S "func " = S "func" ++ sp) /\
  (S " ++" = sp ++ S "++") /\ (S " --" = sp ++ S "--") /\ (S " ..." = sp ++ S "...") /\
  (S "return " = S "return" ++ sp) /\ (S "if " = S "if" ++ sp) /\ (S " else " = sp ++ S "else" ++ sp) /\
  (S "for " = S "for" ++ sp) /\ (S " := " = sp ++ S ":=" ++ sp) /\ (S " = " = sp ++ S "=" ++ sp) /\
  (S "range " = S "range" ++ sp) /\ (S "switch " = S "switch" ++ sp) /\ (S "go " = S "go" ++ sp) /\
  (S "defer " = S "defer" ++ sp) /\ (S "var " = S "var" ++ sp) /\ (S "case " = S "case" ++ sp) /\
  (S ": " = S ":" ++ sp) /\ (S "default: " = S "default" ++ S ":" ++ sp) /\
  (S "* " = S "*" ++ sp) /\ (S "[] " = S "[" ++ S "]" ++ sp) /\ (S "map[" = S "map" ++ S "[") /\
  (S "] " = S "]" ++ sp) /\ (S "package " = S "package" ++ sp) /\ (S "const " = S "const" ++ sp) /\
  (S "type " = S "type" ++ sp) /\
  (S " .(" = sp ++ S "." ++ S "(") /\ (S "chan " = S "chan" ++ sp) /\ (S "<- chan " = S "<-" ++ sp ++ S "chan" ++ sp) /\
  (S "chan <- " = S "chan" ++ sp ++ S "<-" ++ sp) /\ (S "... " = S "..." ++ sp) /\ (S " : " = sp ++ S ":" ++ sp) /\
  (S "goto " = S "goto" ++ sp) /\ (S " <- " = sp ++ S "<-" ++ sp) /\
  (S "select " = S "select" ++ sp) /\ (S " .(type)" = sp ++ S "." ++ S "(" ++ S "type" ++ S ")").
Proof. repeat split; reflexivity. Qed.

Ltac split_lits :=
  let H := fresh in
  pose proof split_lits as H;
  repeat match type of H with
         | (?a = ?b) /\ _ => let E := fresh in destruct H as [E H]; rewrite ?E; clear E
         | ?a = ?b => rewrite ?H; clear H
         end;
  rewrite <- ?app_assoc.

Ltac in_tac := cbn; repeat first [left; reflexivity | right].

(* one step of the scanner over a text a ++ rest *)
Ltac lx_side := first [reflexivity | assumption].
Ltac lx1 :=
  first
    [ rewrite g_sp | rewrite g_nl
    | rewrite g_str
    | rewrite g_fop by in_tac
    | rewrite g_op by lx_side
    | rewrite g_word by lx_side
    | rewrite g_id by lx_side
    | rewrite g_int by lx_side ].

(* pre a (pre b (... (golex r))) = pre ts (golex r) *)
Ltac lx_done :=
  rewrite ?pre_pre, ?pre_nil;
  match goal with
  | |- pre ?a ?o = pre ?b ?o => apply (f_equal (fun x => pre x o)); cbn [app]; rewrite <- ?app_assoc, ?app_nil_r; cbn [app]; try reflexivity
  | |- ?o = pre ?b ?o => rewrite <- (pre_nil o) at 1; apply (f_equal (fun x => pre x o)); try reflexivity
  | _ => try reflexivity
  end.

Example lx_test r x : piece x [tid x] -> bndb r = true ->
  golex (S "func " ++ S " (" ++ x ++ S " := " ++ x ++ S ")" ++ S " ++" ++ r) =
  pre [tkw (S "func"); top (S "("); tid x; top (S ":="); tid x; top (S ")"); top (S "++")] (golex r).
Proof.
  intros Hx Hr. split_lits. repeat lx1. rewrite Hx by reflexivity. repeat lx1. rewrite Hx by reflexivity.
  repeat lx1. lx_done.
Qed.

(* ---- lists, options, blocks *)
Lemma piece_nil : piece [] [].
Proof. intros r _. cbn [app]. rewrite pre_nil. reflexivity. Qed.

Lemma Forall_ok {A} (ok : A -> bool) (P : A -> Prop) l :
  Forall (fun a => ok a = true -> P a) l -> forallb ok l = true -> Forall P l.
Proof.
  induction 1 as [|a l Ha Hl IH]; intros H; [constructor|].
  cbn [forallb] in H. apply andb_true_iff in H. destruct H as [H1 H2].
  constructor; [exact (Ha H1) | exact (IH H2)].
Qed.

Lemma join_cons2 sep (x y : str) l : join sep (x :: y :: l) = x ++ sep ++ join sep (y :: l).
Proof. reflexivity. Qed.

Lemma tcommas_cons2 (x y : list tok) l : tcommas (x :: y :: l) = x ++ top (S ",") :: tcommas (y :: l).
Proof. reflexivity. Qed.

Lemma bndb_lines xs r : bndb r = true -> bndb (lines xs ++ r) = true.
Proof. intros H. destruct xs; [exact H | reflexivity]. Qed.

Section Lists.
  Context {A : Type} (f : A -> str) (g : A -> list tok).
  Let P (a : A) : Prop := piece (f a) (g a).

  Lemma lx_join l : Forall P l -> piece (join comma (map f l)) (tcommas (map g l)).
  Proof.
    induction 1 as [|a l Ha Hl IH]; [exact piece_nil|].
    destruct l as [|b l]; [exact Ha|].
    intros r Hr. cbn [map] in *. rewrite join_cons2, tcommas_cons2. rewrite <- !app_assoc.
    rewrite Ha by reflexivity. rewrite g_fop by in_tac. rewrite IH by exact Hr. lx_done.
  Qed.

  Lemma lx_dots l : l <> [] -> Forall P l ->
    piece (join comma (on_last (fun x => x ++ S " ...") (map f l))) (tcommas (map g l) ++ [top (S "...")]).
  Proof.
    intros Hne H. induction H as [|a l Ha Hl IH]; [congruence|].
    destruct l as [|b l].
    - intros r Hr. cbn [map on_last join tcommas]. split_lits.
      rewrite Ha by reflexivity. repeat lx1. lx_done.
    - intros r Hr. specialize (IH ltac:(discriminate)).
      change (map f (a :: b :: l)) with (f a :: map f (b :: l)).
      change (on_last (fun x => x ++ S " ...") (f a :: map f (b :: l)))
        with (f a :: on_last (fun x => x ++ S " ...") (map f (b :: l))).
      assert (Hn : exists y l', on_last (fun x => x ++ S " ...") (map f (b :: l)) = y :: l').
      { cbn [map on_last]. destruct (map f l); eexists _, _; reflexivity. }
      destruct Hn as (y & l' & E). rewrite E in *. rewrite join_cons2.
      cbn [map]. rewrite tcommas_cons2. rewrite <- !app_assoc.
      rewrite Ha by reflexivity. rewrite g_fop by in_tac. cbn [map] in IH. rewrite IH by exact Hr. lx_done.
  Qed.

  Lemma lx_args ddd l : Forall P l -> piece (arg_list ddd (map f l)) (targs ddd (map g l)).
  Proof.
    intros H. unfold arg_list, targs. destruct ddd.
    - destruct l as [|a l]; [exact piece_nil|]. apply lx_dots; [discriminate | exact H].
    - intros r Hr. rewrite (lx_join l H r Hr). destruct l; cbn [map]; rewrite app_nil_r; reflexivity.
  Qed.

  Lemma lx_lines l : Forall P l -> piece (lines (map f l)) (concat (map g l)).
  Proof.
    induction 1 as [|a l Ha Hl IH]; [exact piece_nil|].
    intros r Hr. change (lines (map f (a :: l))) with ((nl ++ f a) ++ lines (map f l)).
    cbn [map concat]. rewrite <- !app_assoc. rewrite g_nl.
    rewrite Ha by (apply bndb_lines, Hr). rewrite IH by exact Hr. lx_done.
  Qed.

  Lemma lx_braces l : Forall P l -> free (braces (map f l)) (tbraces (map g l)).
  Proof.
    intros H r. unfold braces, tbraces. rewrite <- !app_assoc. rewrite g_fop by in_tac.
    rewrite (lx_lines l H) by (destruct l; reflexivity).
    destruct l; cbn [map app]; [|rewrite g_nl]; rewrite g_fop by in_tac; lx_done.
  Qed.

  Lemma lx_parens_lines l : Forall P l -> free (parens_lines (map f l)) (tparens (map g l)).
  Proof.
    intros H r. unfold parens_lines, tparens. rewrite <- !app_assoc. rewrite g_fop by in_tac.
    rewrite (lx_lines l H) by (destruct l; reflexivity).
    destruct l; cbn [map app]; [|rewrite g_nl]; rewrite g_fop by in_tac; lx_done.
  Qed.

  Lemma lx_opt o : OptP P o -> piece (opt_text f o) (topt g o).
  Proof. destruct o; cbn [OptP opt_text topt]; [tauto | intros _; exact piece_nil]. Qed.
End Lists.

Lemma OptP_ok {A} (ok : A -> bool) (P : A -> Prop) o :
  OptP (fun a => ok a = true -> P a) o -> opt_ok ok o = true -> OptP P o.
Proof. destruct o; cbn [OptP opt_ok]; auto. Qed.

(* ---- types, parameters *)
Ltac ok_split H :=
  repeat (apply andb_true_iff in H; let H' := fresh "Hok" in destruct H as [H H']).

Lemma lex_word' w r : word_ok w = true -> hd_is tk_idchar r = false ->
  golex (w ++ r) = pre [(word_class w, w)] (golex r).
Proof. apply lex_word. Qed.

(* `.` before `(`: a type assertion *)
Lemma g_dot_paren r : golex (S "." ++ S "(" ++ r) = pre [top (S ".")] (golex (S "(" ++ r)).
Proof. apply lex_op; reflexivity. Qed.

Definition Lt (t : ty) : Prop := ty_ok t = true -> piece (cty t) (tty t).

Lemma lx_param_P p : Lt (snd p) -> param_ok p = true -> piece (cparam p) (tparam p).
Proof.
  unfold param_ok, param_ok_with, cparam, cparam_with, tparam, tparam_with. intros Ht Hok r Hr. ok_split Hok.
  rewrite <- !app_assoc. repeat lx1. rewrite (Ht Hok0) by exact Hr. lx_done.
Qed.

(* a tag that is not backquotable is written as an interpreted string *)
Lemma tag_text_quoted kvs : kvs <> [] -> CanBackquote (tag_body kvs) = false -> tag_text kvs = GoQuote (tag_body kvs).
Proof. destruct kvs; [congruence|]. intros _ H. unfold tag_text. rewrite H. reflexivity. Qed.

Lemma lx_field_P f : Lt (fd_ty f) -> field_ok f = true -> piece (cfield f) (tfield f).
Proof.
  destruct f as [[n t] kvs].
  unfold field_ok, field_ok_with, cfield, cfield_with, tfield, tfield_with, fd_name, fd_ty, fd_tag. cbn [fst snd].
  intros Ht Hok r Hr. apply andb_true_iff in Hok. destruct Hok as [Hok Htag].
  apply andb_true_iff in Hok. destruct Hok as [Hn Hty]. destruct kvs as [|kv kvs].
  - rewrite !app_nil_r. rewrite <- !app_assoc. rewrite g_id by first [assumption | reflexivity]. rewrite g_sp.
    rewrite (Ht Hty) by exact Hr. lx_done.
  - unfold tag_ok in Htag. apply negb_true_iff in Htag. rewrite (tag_text_quoted (kv :: kvs)) by first [discriminate | exact Htag].
    rewrite <- !app_assoc. rewrite g_id by first [assumption | reflexivity]. rewrite g_sp.
    rewrite (Ht Hty) by reflexivity. rewrite g_sp. rewrite g_str. lx_done.
Qed.

Lemma lx_params_P ps : ParamsP Lt ps -> forallb param_ok ps = true -> free (cparams ps) (tparams ps).
Proof.
  intros Hp Hok r. unfold cparams, cparams_with, tparams, tparams_with. rewrite <- !app_assoc. rewrite g_fop by in_tac.
  rewrite (lx_join cparam tparam ps) by
    (first [reflexivity | apply (Forall_ok param_ok); [|exact Hok]; eapply Forall_impl; [|exact Hp];
                          intros p Ht; apply lx_param_P, Ht]).
  rewrite g_fop by in_tac. lx_done.
Qed.

Lemma lx_results_P res : Forall Lt res -> forallb ty_ok res = true -> piece (cresults res) (tresults res).
Proof.
  intros Hr Hok. unfold cresults, tresults. destruct res as [|t [|t2 res]]; cbn [cresults_with tresults_with].
  - exact piece_nil.
  - inversion Hr; subst. cbn [forallb] in Hok. ok_split Hok. intros r Hb. rewrite <- !app_assoc. rewrite g_sp.
    match goal with H : Lt t |- _ => apply H; assumption end.
  - intros r Hb. split_lits. repeat lx1.
    rewrite (lx_join cty tty (t :: t2 :: res)) by (first [reflexivity | exact (Forall_ok ty_ok _ _ Hr Hok)]).
    rewrite g_fop by in_tac. lx_done.
Qed.

Lemma lx_sig_P sg : SigP Lt sg -> sig_ok sg = true -> piece (csig sg) (tsig sg).
Proof.
  intros [Hp Hr] Hok r Hb. unfold sig_ok, sig_ok_with in Hok. ok_split Hok.
  unfold csig, csig_with, tsig, tsig_with. rewrite <- !app_assoc.
  rewrite (lx_params_P (fst sg) Hp Hok). rewrite (lx_results_P (snd sg) Hr Hok0) by exact Hb. lx_done.
Qed.

Lemma type_lines_braces w xs : type_lines (w ++ S "{") xs = w ++ braces xs.
Proof. unfold type_lines, braces. rewrite <- !app_assoc. reflexivity. Qed.

Lemma lx_ty t : ty_ok t = true -> piece (cty t) (tty t).
Proof.
  apply (ty_ind' Lt); unfold Lt; cbn [ty_ok].
  - intros n Hok r Hr. apply g_id; assumption.
  - intros t0 IH Hok r Hr. cbn [cty tty]. split_lits. repeat lx1. rewrite (IH Hok) by exact Hr. lx_done.
  - intros t0 IH Hok r Hr. cbn [cty tty]. split_lits. repeat lx1. rewrite (IH Hok) by exact Hr. lx_done.
  - intros k v IHk IHv Hok r Hr. cbn [cty tty]. split_lits. ok_split Hok. rewrite lex_word' by reflexivity. repeat lx1.
    rewrite (IHk Hok) by reflexivity. repeat lx1. rewrite (IHv Hok0) by exact Hr. lx_done.
  - intros n t0 IH Hok r Hr. cbn [cty tty]. split_lits. repeat lx1. rewrite (IH Hok) by exact Hr. lx_done.
  - intros d t0 IH Hok r Hr. destruct d; cbn [cty tty]; split_lits; repeat lx1; rewrite (IH Hok) by exact Hr; lx_done.
  - intros t0 IH Hok r Hr. cbn [cty tty]. split_lits. repeat lx1. rewrite (IH Hok) by exact Hr. lx_done.
  - intros ps res Hp Hr0 Hok r Hr. cbn [cty tty]. split_lits. repeat lx1.
    rewrite (lx_sig_P (ps, res) (conj Hp Hr0) Hok) by exact Hr. lx_done.
  - intros fs Hf Hok r Hr. cbn [cty tty].
    change (S "struct{") with (S "struct" ++ S "{"). rewrite type_lines_braces, <- app_assoc.
    rewrite lex_word' by reflexivity.
    rewrite (lx_braces cfield tfield fs)
      by (apply (Forall_ok field_ok); [|exact Hok]; eapply Forall_impl; [|exact Hf]; intros p Ht; apply lx_field_P; exact Ht).
    lx_done.
  - intros ms Hm Hok r Hr. cbn [cty tty].
    change (S "interface{") with (S "interface" ++ S "{"). rewrite type_lines_braces, <- app_assoc.
    rewrite lex_word' by reflexivity.
    rewrite (lx_braces (fun m : str * sig => fst m ++ sp ++ csig (snd m)) (fun m => tid (fst m) :: tsig (snd m)) ms).
    + lx_done.
    + apply (Forall_ok (fun m : str * sig => ident_ok (fst m) && sig_ok (snd m))); [|exact Hok].
      eapply Forall_impl; [|exact Hm]. intros [m sg] Hsg Ho r0 Hr0. cbn [fst snd] in *. ok_split Ho.
      rewrite <- !app_assoc. repeat lx1. rewrite (lx_sig_P sg Hsg Hok0) by exact Hr0. lx_done.
Qed.

Lemma all_Lt_params ps : ParamsP Lt ps.
Proof. apply Forall_forall. intros p _. exact (lx_ty (snd p)). Qed.
Lemma all_Lt res : Forall Lt res.
Proof. apply Forall_forall. intros p _. exact (lx_ty p). Qed.

Lemma lx_param p : param_ok p = true -> piece (cparam p) (tparam p).
Proof. apply lx_param_P. exact (lx_ty (snd p)). Qed.

Lemma lx_params ps : forallb param_ok ps = true -> free (cparams ps) (tparams ps).
Proof. apply lx_params_P, all_Lt_params. Qed.

Lemma lx_results res : forallb ty_ok res = true -> piece (cresults res) (tresults res).
Proof. apply lx_results_P, all_Lt. Qed.

(* ---- an expression never starts with `=` (what follows the `:` of a slice) *)
Lemma letter_no_eq c r : tk_letter c = true -> no_eq (c :: r) = true.
Proof.
  intros H. cbn [no_eq].
  pose proof (byte_forall (fun c => implb (tk_letter c) (negb (beq c x3d))) ltac:(vm_compute; reflexivity) c) as F.
  cbv beta in F. rewrite H in F. exact F.
Qed.

Lemma ident_no_eq n r : ident_ok n = true -> no_eq (n ++ r) = true.
Proof.
  destruct n as [|c n]; [discriminate|]. cbn [ident_ok]. intros H. ok_split H.
  apply letter_no_eq. exact H.
Qed.

Lemma cty_no_eq t r : ty_ok t = true -> no_eq (cty t ++ r) = true.
Proof.
  destruct t as [n|t|t|k v|n t|d t|t|ps res|fs|ms]; try destruct d; cbn [ty_ok cty]; intros H;
    first [apply ident_no_eq, H | reflexivity].
Qed.

Lemma cexpr_no_eq e : expr_ok e = true -> forall r, no_eq (cexpr e ++ r) = true.
Proof.
  revert e.
  enough (H : (forall e, expr_ok e = true -> forall r, no_eq (cexpr e ++ r) = true) /\
              (forall s : stmt, True) /\ (forall c : clause, True)) by exact (proj1 H).
  apply (mini_ind (fun e => expr_ok e = true -> forall r, no_eq (cexpr e ++ r) = true)
                  (fun _ => True) (fun _ => True));
    try (intros; exact I); cbn [expr_ok cexpr].
  - intros n H r. apply ident_no_eq, H.
  - intros z _ r. destruct z as [|p|p]; cbn [Z_to_dec]; [reflexivity | | reflexivity].
    destruct (N_to_dec_hd (Z.to_N (Z.pos p))) as (d & t & E & Hd). rewrite E.
    change (is_digit d) with (tk_digit d) in Hd. cbn [app no_eq].
    destruct (digit_facts d Hd) as (_ & _ & _ & _ & _ & H). rewrite H. reflexivity.
  - intros s _ r. reflexivity.
  - intros b _ r. destruct b; reflexivity.
  - intros _ r. reflexivity.
  - intros o x _ _ r. destruct o; reflexivity.
  - intros x o y IH _ H r. ok_split H. rewrite <- app_assoc. apply IH, H.
  - intros f args ddd IH _ H r. ok_split H. rewrite <- app_assoc. apply IH, H.
  - intros x i IH _ H r. ok_split H. rewrite <- app_assoc. apply IH, H.
  - intros x lo hi IH _ _ H r. ok_split H. rewrite <- app_assoc. apply IH, H.
  - intros x lo hi mx IH _ _ _ H r. ok_split H. rewrite <- app_assoc. apply IH, H.
  - intros x sel IH H r. ok_split H. rewrite <- app_assoc. apply IH, H.
  - intros x _ _ r. reflexivity.
  - intros t elts _ H r. ok_split H. rewrite <- app_assoc. apply cty_no_eq, H.
  - intros t pairs _ H r. ok_split H. rewrite <- app_assoc. apply cty_no_eq, H.
  - intros ps res body _ _ r. reflexivity.
  - intros x t IH H r. ok_split H. rewrite <- app_assoc. apply IH, H.
Qed.

Lemma opt_no_eq o r : opt_ok expr_ok o = true -> no_eq r = true -> no_eq (opt_text cexpr o ++ r) = true.
Proof. destruct o; cbn [opt_ok opt_text]; intros H Hr; [apply cexpr_no_eq, H | exact Hr]. Qed.

(* ================================================================== 5. every construct is a piece *)
Definition Pe (e : expr) : Prop := expr_ok e = true -> piece (cexpr e) (texpr e).
Definition Ps (s : stmt) : Prop := stmt_ok s = true -> piece (cstmt s) (tstmt s).
Definition Pc (c : clause) : Prop := clause_ok c = true -> piece (cclause c) (tclause c).

Lemma lx_exprs es : Forall Pe es -> forallb expr_ok es = true ->
  piece (join comma (map cexpr es)) (tcommas (map texpr es)).
Proof. intros H Hok. apply lx_join. exact (Forall_ok expr_ok _ es H Hok). Qed.

Lemma lx_exprs1 e es : Pe e -> Forall Pe es -> expr_ok e = true -> forallb expr_ok es = true ->
  piece (join comma (map cexpr (e :: es))) (tcommas (map texpr (e :: es))).
Proof.
  intros He Hes Hok Hoks. apply lx_exprs; [constructor; assumption|].
  cbn [forallb]. rewrite Hok, Hoks. reflexivity.
Qed.

Lemma lx_block body : Forall Ps body -> forallb stmt_ok body = true ->
  free (braces (map cstmt body)) (tbraces (map tstmt body)).
Proof. intros H Hok. apply lx_braces. exact (Forall_ok stmt_ok _ body H Hok). Qed.

Lemma lx_body body : Forall Ps body -> forallb stmt_ok body = true ->
  piece (lines (map cstmt body)) (concat (map tstmt body)).
Proof. intros H Hok. apply lx_lines. exact (Forall_ok stmt_ok _ body H Hok). Qed.

Lemma lx_call f args ddd : Pe f -> Forall Pe args -> expr_ok f = true -> forallb expr_ok args = true ->
  piece (cexpr f ++ S " (" ++ arg_list ddd (map cexpr args) ++ S ")")
        (texpr f ++ top (S "(") :: targs ddd (map texpr args) ++ [top (S ")")]).
Proof.
  intros Hf Ha Hokf Hoka r Hr. split_lits. rewrite (Hf Hokf) by reflexivity. repeat lx1.
  rewrite (lx_args cexpr texpr ddd args (Forall_ok expr_ok _ args Ha Hoka)) by reflexivity.
  repeat lx1. lx_done.
Qed.

Lemma lx_oexpr o : OptP Pe o -> opt_ok expr_ok o = true -> piece (opt_text cexpr o) (topt texpr o).
Proof. intros H Hok. apply lx_opt. exact (OptP_ok expr_ok _ o H Hok). Qed.

Lemma lx_ostmt o : OptP Ps o -> opt_ok stmt_ok o = true -> piece (opt_text cstmt o) (topt tstmt o).
Proof. intros H Hok. apply lx_opt. exact (OptP_ok stmt_ok _ o H Hok). Qed.

(* ---- keyed elements, in the order in which they are written *)
Definition ttoks_pair (kv : expr * expr) : list tok * list tok := (texpr (fst kv), texpr (snd kv)).

Lemma keyed_toks_sorted pairs :
  map snd (sort_keyed (map (fun kv => (cexpr (fst kv), (texpr (fst kv), texpr (snd kv)))) pairs)) =
  map ttoks_pair (keyed_sorted pairs).
Proof.
  unfold sort_keyed, keyed_sorted.
  rewrite <- (isort_by_map (fun kv => cexpr (fst kv)) fst (fun kv : expr * expr => (cexpr (fst kv), ttoks_pair kv)))
    by (intros kv; reflexivity).
  rewrite map_map. reflexivity.
Qed.

Definition pair_piece (kv : expr * expr) : Prop :=
  piece (cexpr (fst kv)) (texpr (fst kv)) /\ piece (cexpr (snd kv)) (texpr (snd kv)) /\ expr_ok (snd kv) = true.

Lemma lx_keyed_lines l : Forall pair_piece l -> forall r,
  golex (concat_str (map (fun kv => fst kv ++ S ":" ++ snd kv ++ S "," ++ nl) (map ctext_pair l)) ++ r) =
  pre (concat (map (fun kv => fst kv ++ top (S ":") :: snd kv ++ [top (S ",")]) (map ttoks_pair l))) (golex r).
Proof.
  induction 1 as [|kv l (Pk & Pv & Hv) _ IH]; intros r; [cbn; rewrite pre_nil; reflexivity|].
  cbn [map concat_str concat ctext_pair ttoks_pair fst snd]. rewrite <- !app_assoc.
  rewrite Pk by reflexivity. rewrite g_colon by (apply cexpr_no_eq, Hv). rewrite Pv by reflexivity.
  rewrite g_fop by in_tac. rewrite g_nl. rewrite IH. lx_done.
Qed.

Lemma lx_keyed l : Forall pair_piece l -> piece (keyed_body (map ctext_pair l)) (tkeyed (map ttoks_pair l)).
Proof.
  intros H. destruct l as [|a [|b l]].
  - exact piece_nil.
  - inversion H as [|? ? (Pk & Pv & Hv) _]; subst. intros r Hr.
    cbn [map keyed_body tkeyed ctext_pair ttoks_pair fst snd]. rewrite <- !app_assoc.
    rewrite Pk by reflexivity. rewrite g_colon by (apply cexpr_no_eq, Hv). rewrite Pv by exact Hr. lx_done.
  - intros r _. change (keyed_body (map ctext_pair (a :: b :: l)))
      with (nl ++ concat_str (map (fun kv => fst kv ++ S ":" ++ snd kv ++ S "," ++ nl) (map ctext_pair (a :: b :: l)))).
    change (tkeyed (map ttoks_pair (a :: b :: l)))
      with (concat (map (fun kv => fst kv ++ top (S ":") :: snd kv ++ [top (S ",")]) (map ttoks_pair (a :: b :: l)))).
    rewrite <- app_assoc. rewrite g_nl. apply lx_keyed_lines, H.
Qed.

Ltac begin r Hr :=
  let Hok := fresh "Hok" in
  cbn [expr_ok stmt_ok clause_ok opt_ok]; intros Hok; ok_split Hok; intros r Hr;
  cbn [cexpr cstmt cclause texpr tstmt tclause opt_text topt]; split_lits; cbn [app].
Ltac ih H := rewrite (H ltac:(assumption)) by lx_side.
Ltac ihl L := rewrite L by first [reflexivity | assumption].

Lemma lex_all : (forall e, Pe e) /\ (forall s, Ps s) /\ (forall c, Pc c).
Proof.
  apply (mini_ind Pe Ps Pc); unfold Pe, Ps, Pc.
  - (* EId *) intros n. begin r Hr. apply g_id; assumption.
  - (* EInt *) intros z. begin r Hr. apply g_int, Hr.
  - (* EStr *) intros s. begin r Hr. apply g_str.
  - (* EBool *) intros b. begin r Hr. destruct b; rewrite g_word by lx_side; lx_done.
  - (* ENil *) begin r Hr. rewrite g_word by lx_side. lx_done.
  - (* EUn *) intros o x IHx. begin r Hr. destruct o; repeat lx1; ih IHx; lx_done.
  - (* EBin *) intros x o y IHx IHy. begin r Hr. ih IHx. destruct o; repeat lx1; ih IHy; lx_done.
  - (* ECall *) intros f args ddd IHf IHa. cbn [expr_ok]. intros Hok. ok_split Hok.
    cbn [cexpr texpr]. apply lx_call; assumption.
  - (* EIndex *) intros x i IHx IHi. begin r Hr. ih IHx. repeat lx1. ih IHi. repeat lx1. lx_done.
  - (* ESlice *) intros x lo hi IHx IHlo IHhi. begin r Hr. ih IHx. repeat lx1.
    ihl (lx_oexpr lo IHlo ltac:(assumption)).
    rewrite g_colon by (apply opt_no_eq; [assumption | reflexivity]).
    ihl (lx_oexpr hi IHhi ltac:(assumption)). repeat lx1. lx_done.
  - (* ESlice3 *) intros x lo hi mx IHx IHlo IHhi IHmx. begin r Hr. ih IHx. repeat lx1.
    ihl (lx_oexpr lo IHlo ltac:(assumption)).
    rewrite g_colon by (apply opt_no_eq; [assumption | reflexivity]).
    ihl (lx_oexpr hi IHhi ltac:(assumption)).
    rewrite g_colon by (apply opt_no_eq; [assumption | reflexivity]).
    ihl (lx_oexpr mx IHmx ltac:(assumption)). repeat lx1. lx_done.
  - (* ESel *) intros x sel IHx. begin r Hr. ih IHx. repeat lx1. lx_done.
  - (* EParen *) intros x IHx. begin r Hr. repeat lx1. ih IHx. repeat lx1. lx_done.
  - (* EComp *) intros t elts IHe. begin r Hr. ihl (lx_ty t ltac:(assumption)). repeat lx1.
    ihl (lx_exprs elts IHe ltac:(assumption)). repeat lx1. lx_done.
  - (* EKeyed *) intros t pairs IHp. begin r Hr.
    change (map (fun kv => (cexpr (fst kv), cexpr (snd kv))) pairs) with (map ctext_pair pairs).
    rewrite keyed_texts_sorted, keyed_toks_sorted.
    assert (HF : Forall pair_piece (keyed_sorted pairs)).
    { eapply Permutation_Forall; [apply Permutation_sym, isort_by_perm|].
      apply (Forall_ok (fun kv => expr_ok (fst kv) && expr_ok (snd kv))); [|assumption].
      eapply Forall_impl; [|exact IHp]. intros kv [Hk Hv] Ho. apply andb_true_iff in Ho. destruct Ho as [Ho1 Ho2].
      split; [exact (Hk Ho1)|]. split; [exact (Hv Ho2) | exact Ho2]. }
    ihl (lx_ty t ltac:(assumption)). repeat lx1.
    rewrite (lx_keyed _ HF) by reflexivity. repeat lx1. lx_done.
  - (* EFunc *) intros ps res body IHb. begin r Hr. repeat lx1.
    rewrite (lx_params ps ltac:(assumption)). ihl (lx_results res ltac:(assumption)). repeat lx1.
    rewrite (lx_block body IHb ltac:(assumption)). lx_done.
  - (* EAssert *) intros x t IHx. begin r Hr. ih IHx. repeat lx1. rewrite g_dot_paren. repeat lx1.
    ihl (lx_ty t ltac:(assumption)). repeat lx1. lx_done.
  - (* SExpr *) intros e IHe. cbn [stmt_ok cstmt tstmt]. exact IHe.
  - (* SAssign *) intros l ls o r0 rs IHl IHls IHr IHrs. begin r Hr.
    ihl (lx_exprs1 l ls IHl IHls ltac:(assumption) ltac:(assumption)).
    destruct o; repeat lx1;
      ihl (lx_exprs1 r0 rs IHr IHrs ltac:(assumption) ltac:(assumption)); lx_done.
  - (* SIncDec *) intros x inc IHx. destruct inc; begin r Hr; ih IHx; repeat lx1; lx_done.
  - (* SReturn *) intros es IHes. begin r Hr. repeat lx1. ihl (lx_exprs es IHes ltac:(assumption)). lx_done.
  - (* SIf *) intros init cond body els IHi IHc IHb IHe.
    destruct init as [i|], els as [e|]; cbn [OptP] in IHi, IHe; begin r Hr; repeat lx1.
    + ih IHi. repeat lx1. ih IHc. repeat lx1. rewrite (lx_block body IHb ltac:(assumption)).
      repeat lx1. ih IHe. lx_done.
    + ih IHi. repeat lx1. ih IHc. repeat lx1. rewrite (lx_block body IHb ltac:(assumption)).
      cbn [app]. lx_done.
    + ih IHc. repeat lx1. rewrite (lx_block body IHb ltac:(assumption)).
      repeat lx1. ih IHe. lx_done.
    + ih IHc. repeat lx1. rewrite (lx_block body IHb ltac:(assumption)). cbn [app]. lx_done.
  - (* SFor *) intros init cond post body IHi IHc IHp IHb. begin r Hr. repeat lx1.
    ihl (lx_ostmt init IHi ltac:(assumption)). repeat lx1.
    ihl (lx_oexpr cond IHc ltac:(assumption)). repeat lx1.
    ihl (lx_ostmt post IHp ltac:(assumption)). repeat lx1.
    rewrite (lx_block body IHb ltac:(assumption)). lx_done.
  - (* SWhile *) intros cond body IHc IHb. begin r Hr. repeat lx1. ih IHc. repeat lx1.
    rewrite (lx_block body IHb ltac:(assumption)). lx_done.
  - (* SLoop *) intros body IHb. begin r Hr. repeat lx1.
    rewrite (lx_block body IHb ltac:(assumption)). lx_done.
  - (* SRange *) intros k v def x body IHk IHv IHx IHb.
    destruct v as [v|], def; cbn [OptP] in IHv; begin r Hr; repeat lx1; ih IHk; repeat lx1;
      try (ih IHv; repeat lx1); ih IHx; repeat lx1;
      rewrite (lx_block body IHb ltac:(assumption)); lx_done.
  - (* SSwitch *) intros init tag cls IHi IHt IHc.
    assert (Hb : forallb clause_ok cls = true -> free (braces (map cclause cls)) (tbraces (map tclause cls))).
    { intros Hok. apply lx_braces. exact (Forall_ok clause_ok _ cls IHc Hok). }
    destruct init as [i|], tag as [t|]; cbn [OptP] in IHi, IHt; begin r Hr; repeat lx1;
      try (ih IHi; repeat lx1); try (ih IHt; repeat lx1);
      rewrite (Hb ltac:(assumption)); lx_done.
  - (* SBlock *) intros body IHb. begin r Hr. rewrite (lx_block body IHb ltac:(assumption)). lx_done.
  - (* SBreak *) intros l. destruct l; begin r Hr; repeat lx1; lx_done.
  - (* SContinue *) intros l. destruct l; begin r Hr; repeat lx1; lx_done.
  - (* SGo *) intros f args ddd IHf IHa. begin r Hr. repeat lx1.
    pose proof (lx_call f args ddd IHf IHa ltac:(assumption) ltac:(assumption) r Hr) as Hc.
    rewrite (proj1 split_lits) in Hc. rewrite <- !app_assoc in Hc. rewrite Hc. lx_done.
  - (* SDefer *) intros f args ddd IHf IHa. begin r Hr. repeat lx1.
    pose proof (lx_call f args ddd IHf IHa ltac:(assumption) ltac:(assumption) r Hr) as Hc.
    rewrite (proj1 split_lits) in Hc. rewrite <- !app_assoc in Hc. rewrite Hc. lx_done.
  - (* SVar *) intros x t e IHe.
    destruct t as [t|], e as [e|]; cbn [OptP] in IHe; begin r Hr; repeat lx1;
      try (ihl (lx_ty t ltac:(assumption)); repeat lx1); try (ih IHe); lx_done.
  - (* SLabeled *) intros l s IHs. begin r Hr. repeat lx1. ih IHs. lx_done.
  - (* SGoto *) intros l. begin r Hr. repeat lx1. lx_done.
  - (* SFallthrough *) begin r Hr. repeat lx1. lx_done.
  - (* SSend *) intros c v IHc IHv. begin r Hr. ih IHc. repeat lx1. ih IHv. lx_done.
  - (* SSelect *) intros cls IHc. begin r Hr. repeat lx1.
    rewrite (lx_braces cclause tclause cls) by exact (Forall_ok clause_ok _ cls IHc ltac:(assumption)). lx_done.
  - (* STypeSwitch *) intros init bind x cls IHi IHx IHc.
    assert (Hb : forallb clause_ok cls = true -> free (braces (map cclause cls)) (tbraces (map tclause cls))).
    { intros Hok. apply lx_braces. exact (Forall_ok clause_ok _ cls IHc Hok). }
    destruct init as [i|], bind as [b|]; cbn [OptP] in IHi; begin r Hr; repeat lx1;
      try (ih IHi; repeat lx1); ih IHx; repeat lx1; rewrite g_dot_paren; repeat lx1;
      rewrite (Hb ltac:(assumption)); lx_done.
  - (* CCase *) intros e es body IHe IHes IHb. begin r Hr. repeat lx1.
    ihl (lx_exprs1 e es IHe IHes ltac:(assumption) ltac:(assumption)).
    rewrite g_colon by reflexivity. repeat lx1.
    ihl (lx_body body IHb ltac:(assumption)). lx_done.
  - (* CDefault *) intros body IHb. begin r Hr. rewrite lex_word' by reflexivity.
    rewrite g_colon by reflexivity. repeat lx1.
    ihl (lx_body body IHb ltac:(assumption)). lx_done.
  - (* CComm *) intros s body IHs IHb. begin r Hr. repeat lx1. ih IHs.
    rewrite g_colon by reflexivity. repeat lx1.
    ihl (lx_body body IHb ltac:(assumption)). lx_done.
  - (* CType *) intros t ts body IHb. begin r Hr. repeat lx1.
    rewrite (lx_join cty tty (t :: ts))
      by (first [reflexivity | apply (Forall_ok ty_ok); [apply Forall_forall; intros a _; apply lx_ty |
                               cbn [forallb]; apply andb_true_iff; split; assumption]]).
    rewrite g_colon by reflexivity. repeat lx1.
    ihl (lx_body body IHb ltac:(assumption)). lx_done.
Qed.

(* the part of a keyed literal after its type *)
Lemma pre_cancel t a b o1 o2 : pre [t] o1 = pre (t :: a) o2 -> b = a -> o1 = pre b o2.
Proof. intros H ->. destruct o1, o2; cbn [pre app] in *; try discriminate; [injection H as ->|]; reflexivity. Qed.

Lemma lx_keyed_tail pairs : forallb (fun kv => expr_ok (fst kv) && expr_ok (snd kv)) pairs = true ->
  forall r, bndb r = true ->
  golex (S " {" ++ keyed_body (sort_keyed (map (fun kv => (cexpr (fst kv), cexpr (snd kv))) pairs)) ++ S "}" ++ r) =
  pre (top (S "{") ::
       tkeyed (map snd (sort_keyed (map (fun kv => (cexpr (fst kv), (texpr (fst kv), texpr (snd kv)))) pairs))) ++
       [top (S "}")]) (golex r).
Proof.
  intros Hok r Hr.
  pose proof (proj1 lex_all (EKeyed (TName (S "a")) pairs)) as H. unfold Pe in H. cbn [expr_ok ty_ok cexpr texpr cty tty] in H.
  specialize (H Hok r Hr). rewrite <- !app_assoc in H. rewrite g_id in H by reflexivity.
  eapply pre_cancel; [exact H | reflexivity].
Qed.

(* ================================================================== 6. the theorems *)
Theorem golex_cty t : ty_ok t = true -> golex (cty t) = Some (tty t).
Proof. intros H. apply piece_golex, lx_ty, H. Qed.

Theorem golex_cexpr e : expr_ok e = true -> golex (cexpr e) = Some (texpr e).
Proof. intros H. apply piece_golex. exact (proj1 lex_all e H). Qed.

Theorem golex_cstmt s : stmt_ok s = true -> golex (cstmt s) = Some (tstmt s).
Proof. intros H. apply piece_golex. exact (proj1 (proj2 lex_all) s H). Qed.

Theorem golex_cclause c : clause_ok c = true -> golex (cclause c) = Some (tclause c).
Proof. intros H. apply piece_golex. exact (proj2 (proj2 lex_all) c H). Qed.

Lemma lx_spec s : spec_ok s = true -> piece (cspec s) (tspec s).
Proof.
  destruct s as [[n t] e]. unfold spec_ok, cspec, tspec.
  destruct t as [t|], e as [e|]; cbn [opt_ok opt_text topt]; intros Hok; ok_split Hok; intros r Hr;
    split_lits; cbn [app]; repeat lx1;
    try (ihl (lx_ty t ltac:(assumption)); repeat lx1);
    try (rewrite (proj1 lex_all e ltac:(assumption)) by exact Hr); lx_done.
Qed.

Lemma lx_decl d : decl_ok d = true -> piece (cdecl d) (tdecl d).
Proof.
  destruct d as [name ps res body|recv name ps res body|specs|specs|name t]; cbn [decl_ok cdecl tdecl]; intros Hok; ok_split Hok;
    intros r Hr; split_lits; cbn [app]; repeat lx1.
  - rewrite (lx_params ps ltac:(assumption)). ihl (lx_results res ltac:(assumption)). repeat lx1.
    rewrite (lx_block body) by first [assumption | apply Forall_forall; intros s _; exact (proj1 (proj2 lex_all) s)].
    lx_done.
  - rewrite (lx_params [recv])
      by (cbn [forallb]; unfold param_ok, param_ok_with; apply andb_true_iff; split;
          [apply andb_true_iff; split; assumption | reflexivity]).
    repeat lx1.
    rewrite (lx_params ps ltac:(assumption)). ihl (lx_results res ltac:(assumption)). repeat lx1.
    rewrite (lx_block body) by first [assumption | apply Forall_forall; intros s _; exact (proj1 (proj2 lex_all) s)].
    lx_done.
  - rewrite (lx_parens_lines cspec tspec specs)
      by (apply (Forall_ok spec_ok _ specs); [apply Forall_forall; intros s _; apply lx_spec | assumption]).
    lx_done.
  - rewrite (lx_parens_lines cspec tspec specs)
      by (apply (Forall_ok spec_ok _ specs); [apply Forall_forall; intros s _; apply lx_spec | assumption]).
    lx_done.
  - ihl (lx_ty t ltac:(assumption)). lx_done.
Qed.

Theorem golex_cdecl d : decl_ok d = true -> golex (cdecl d) = Some (tdecl d).
Proof. intros H. apply piece_golex, lx_decl, H. Qed.

Theorem golex_cfile name ds : ident_ok name = true -> forallb decl_ok ds = true ->
  golex (cfile name ds) = Some (tfile name ds).
Proof.
  intros Hn Hds. apply piece_golex. intros r Hr. unfold cfile, tfile. split_lits. repeat lx1.
  rewrite (lx_lines cdecl tdecl ds)
    by first [exact Hr | apply (Forall_ok decl_ok _ ds); [apply Forall_forall; intros d _; apply lx_decl | assumption]].
  lx_done.
Qed.

(* ---- at the level of the renderer: what jennifer writes for the built tree *)
Section Rendered.
  Variable cfg : config.
  Hypothesis Hok : tables_ok = true.

  Theorem render_tokens_type a ctx t t' s : ty_ok a = true ->
    render cfg ctx t (build_type a) = Ok (t', s) -> golex s = Some (tty a).
  Proof. intros Ha H. rewrite (render_build_type cfg Hok a ctx t) in H. injection H as _ <-. apply golex_cty, Ha. Qed.

  Theorem render_tokens_expr a ctx t t' s : expr_ok a = true ->
    render cfg ctx t (build_expr a) = Ok (t', s) -> golex s = Some (texpr a).
  Proof. intros Ha H. rewrite (render_build_expr cfg Hok a ctx t) in H. injection H as _ <-. apply golex_cexpr, Ha. Qed.

  Theorem render_tokens_stmt a ctx t t' s : stmt_ok a = true ->
    render cfg ctx t (build_stmt a) = Ok (t', s) -> golex s = Some (tstmt a).
  Proof. intros Ha H. rewrite (render_build_stmt cfg Hok a ctx t) in H. injection H as _ <-. apply golex_cstmt, Ha. Qed.

  Theorem render_tokens_decl a ctx t t' s : decl_ok a = true ->
    render cfg ctx t (build_decl a) = Ok (t', s) -> golex s = Some (tdecl a).
  Proof. intros Ha H. rewrite (render_build_decl cfg Hok a ctx t) in H. injection H as _ <-. apply golex_cdecl, Ha. Qed.
End Rendered.

Theorem file_tokens name ds t s : tables_ok = true -> ident_ok name = true -> forallb decl_ok ds = true ->
  file_raw (build_file name ds) = Ok (t, s) -> golex s = Some (tfile name ds).
Proof.
  intros Hok Hn Hds H. rewrite (file_raw_build Hok name ds) in H. injection H as _ <-.
  apply golex_cfile; assumption.
Qed.

(* ================================================================== 7. the boundary predicate, in one place *)
(* the texts of tokens *)
Inductive tok_wf : tok -> Prop :=
| wf_word w : word_ok w = true -> tok_wf (word_class w, w)
| wf_int n : tok_wf (KInt, N_to_dec n)
| wf_str s : tok_wf (KString, GoQuote s)
| wf_op o : is_op o = true -> tok_wf (KOp, o).

(* token t stops before the rest r *)
Definition sep_ok (t : tok) (r : str) : bool :=
  match fst t with
  | KIdent | KKeyword => negb (hd_is tk_idchar r)
  | KInt => negb (hd_is num_follow_bad r)
  | KString => true
  | KOp => op_stop (snd t) r
  end.

(* a token text before a rest it stops at is read as that token, and the scanner goes on
   with the rest as if it started there *)
Theorem lex_token t r : tok_wf t -> sep_ok t r = true -> golex (snd t ++ r) = pre [t] (golex r).
Proof.
  intros [w Hw | n | s | o Ho]; unfold sep_ok; cbn [fst snd]; intros H.
  - apply lex_word; [exact Hw|]. unfold word_class in H. destruct (is_keyword w); apply negb_true_iff in H; exact H.
  - apply lex_int. apply negb_true_iff in H. exact H.
  - apply lex_string.
  - apply lex_op; assumption.
Qed.

(* every token stops at the end of the text and before blank, newline, `,` `)` `]` `}` `:` `;` *)
Theorem sep_bnd t r : tok_wf t -> bndb r = true -> sep_ok t r = true.
Proof.
  intros [w Hw | n | s | o Ho] Hr; unfold sep_ok; cbn [fst snd].
  - destruct (bnd_not_idchar r Hr) as [H _]. rewrite H. unfold word_class. destruct (is_keyword w); reflexivity.
  - destruct (bnd_not_idchar r Hr) as [_ H]. rewrite H. reflexivity.
  - reflexivity.
  - apply stop_bnd; assumption.
Qed.

(* the boundary matters: the same pieces without it *)
Lemma sep_needed :
  sep_ok (KOp, S "+") (S "+") = false /\ sep_ok (KOp, S "<") (S "-1") = false /\
  sep_ok (KOp, S "&") (S "^y") = false /\ sep_ok (KOp, S "/") (S "/") = false /\
  sep_ok (KOp, S "/") (S "*p") = false /\ sep_ok (KOp, S ".") (S "5") = false /\
  sep_ok (KOp, S ":") (S "=") = false /\ sep_ok (KInt, S "2") (S "...") = false /\
  sep_ok (KIdent, S "x") (S "1") = false /\ sep_ok (KKeyword, S "if") (S "x") = false /\
  sep_ok (KInt, S "1") (S "e") = false.
Proof. vm_compute. repeat split; reflexivity. Qed.

(* ---- longest match *)
Lemma sorted_le l a : sorted_longest_first (a :: l) = true -> forall b, In b l -> (length b <= length a)%nat.
Proof.
  revert a. induction l as [|b l IH]; intros a H x Hx; [destruct Hx|].
  cbn [sorted_longest_first] in H. apply andb_true_iff in H. destruct H as [H1 H2].
  apply Nat.leb_le in H1. destruct Hx as [<- | Hx]; [exact H1|].
  pose proof (IH b H2 x Hx). lia.
Qed.

Lemma sorted_tl a l : sorted_longest_first (a :: l) = true -> sorted_longest_first l = true.
Proof.
  destruct l as [|b l]; [reflexivity|]. cbn [sorted_longest_first]. intros H.
  apply andb_true_iff in H. apply H.
Qed.

Lemma find_sorted (p : str -> bool) l o : sorted_longest_first l = true -> find p l = Some o ->
  In o l /\ p o = true /\ forall o', In o' l -> p o' = true -> (length o' <= length o)%nat.
Proof.
  induction l as [|a l IH]; intros Hs Hf; [discriminate|].
  cbn [find] in Hf. destruct (p a) eqn:Ea.
  - injection Hf as <-. split; [left; reflexivity|]. split; [exact Ea|].
    intros o' [<- | Hin] _; [lia | exact (sorted_le l a Hs o' Hin)].
  - destruct (IH (sorted_tl a l Hs) Hf) as (H1 & H2 & H3). split; [right; exact H1|]. split; [exact H2|].
    intros o' [<- | Hin] Hp; [congruence | exact (H3 o' Hin Hp)].
Qed.

(* [op_at] is the longest operator at the head of the text *)
Theorem op_at_longest s o : op_at s = Some o ->
  In o go_ops /\ has_prefix o s = true /\
  forall o', In o' go_ops -> has_prefix o' s = true -> (length o' <= length o)%nat.
Proof. unfold op_at. apply (find_sorted (fun o => has_prefix o s) go_ops o). exact (proj1 go_ops_sorted). Qed.

(* ================================================================== 8. keyed elements: the order *)
(* the tokens of a keyed literal are those of the literal whose elements are listed in the
   order of their key texts ... *)
Theorem keyed_tokens_sorted t pairs : texpr (EKeyed t pairs) = texpr (EKeyed t (keyed_sorted pairs)).
Proof. cbn [texpr]. rewrite !keyed_toks_sorted, keyed_sorted_idem. reflexivity. Qed.

(* ... and for a literal whose elements are already in that order, the tokens of the elements as
   they stand: `k : v` for one, `k : v ,` each for several *)
Theorem keyed_tokens_in_order t pairs : keyed_sorted pairs = pairs ->
  texpr (EKeyed t pairs) = tty t ++ top (S "{") :: tkeyed (map ttoks_pair pairs) ++ [top (S "}")].
Proof. intros E. cbn [texpr]. rewrite keyed_toks_sorted, E. reflexivity. Qed.

Theorem keyed_tokens_perm t pairs pairs' : keys_ok pairs = true -> Permutation pairs pairs' ->
  texpr (EKeyed t pairs) = texpr (EKeyed t pairs').
Proof.
  intros Hk Hp. rewrite (keyed_tokens_sorted t pairs), (keyed_tokens_sorted t pairs').
  rewrite (keyed_sorted_perm pairs pairs' Hk Hp). reflexivity.
Qed.
