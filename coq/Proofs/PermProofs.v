(* C07, File level: the order in which the model happens to keep the import table and the
   hint table (Go maps: File.imports, File.hints) never matters.  Two tables are related when
   they hold the same entries, each path once: [teq t t' := NoDup (akeys t) /\ Permutation t t'].
   Every function of the naming state machine and the whole renderer map related tables to
   related tables and produce THE SAME TEXT (or the same panic). *)
From Jen Require Import Base.Bytes Base.Num Base.Sort Model.Code Model.Naming Model.Render Model.FileRender Gen.Tables.
From Jen Require Import Proofs.NamingProofs Proofs.DictProofs Proofs.ImportsProofs.
From Coq Require Import Lia Permutation.

(* ------------------------------------------------------------------ related maps *)
Section AssocPerm.
  Context {V : Type}.

  Definition teq (m m' : list (str * V)) : Prop := NoDup (akeys m) /\ Permutation m m'.

  Lemma akeys_NoDup_NoDup (m : list (str * V)) : NoDup (akeys m) -> NoDup m.
  Proof. unfold akeys. apply NoDup_map_inv. Qed.

  Lemma teq_nodup_r m m' : teq m m' -> NoDup (akeys m').
  Proof.
    intros [Hnd Hp]. eapply Permutation_NoDup; [apply Permutation_map; exact Hp | exact Hnd].
  Qed.

  Lemma teq_refl m : NoDup (akeys m) -> teq m m.
  Proof. intros H. split; [exact H | apply Permutation_refl]. Qed.

  Lemma teq_sym m m' : teq m m' -> teq m' m.
  Proof.
    intros H. split; [eapply teq_nodup_r; exact H | apply Permutation_sym; exact (proj2 H)].
  Qed.

  Lemma teq_trans m m' m'' : teq m m' -> teq m' m'' -> teq m m''.
  Proof. intros [H1 P1] [_ P2]. split; [exact H1 | eapply perm_trans; eassumption]. Qed.

  Lemma teq_lookup m m' k : teq m m' -> alookup k m = alookup k m'.
  Proof. intros [Hnd Hp]. apply alookup_perm; assumption. Qed.

  Lemma teq_length m m' : teq m m' -> length m = length m'.
  Proof. intros [_ Hp]. apply Permutation_length. exact Hp. Qed.

  (* a map assignment on related maps gives related maps *)
  Lemma aset_teq k v m m' : teq m m' -> teq (aset k v m) (aset k v m').
  Proof.
    intros H. pose proof (teq_nodup_r _ _ H) as Hnd'. destruct H as [Hnd Hp].
    split; [apply akeys_aset_NoDup; exact Hnd|].
    apply NoDup_Permutation.
    - apply akeys_NoDup_NoDup, akeys_aset_NoDup. exact Hnd.
    - apply akeys_NoDup_NoDup, akeys_aset_NoDup. exact Hnd'.
    - intros [p d]. split; intros Hin.
      + destruct (In_aset _ _ _ _ _ Hnd Hin) as [[-> ->]|[Hne Hin']].
        * apply In_aset_new.
        * apply In_aset_old; [exact Hne|]. eapply Permutation_in; eassumption.
      + destruct (In_aset _ _ _ _ _ Hnd' Hin) as [[-> ->]|[Hne Hin']].
        * apply In_aset_new.
        * apply In_aset_old; [exact Hne|].
          eapply Permutation_in; [apply Permutation_sym; exact Hp | exact Hin'].
  Qed.

  (* two maps with the same lookups (each key once) are related: a Go map IS its lookups *)
  Lemma lookup_eq_teq m m' :
    NoDup (akeys m) -> NoDup (akeys m') -> (forall k, alookup k m = alookup k m') -> teq m m'.
  Proof.
    intros Hnd Hnd' Hl. split; [exact Hnd|]. apply NoDup_Permutation.
    - apply akeys_NoDup_NoDup. exact Hnd.
    - apply akeys_NoDup_NoDup. exact Hnd'.
    - intros [p d]. rewrite <- !alookup_Some_In_iff by assumption. rewrite Hl. tauto.
  Qed.
End AssocPerm.

(* ------------------------------------------------------------------ results up to a relation *)
Definition rrel {A B} (R : A -> B -> Prop) (r : result A) (r' : result B) : Prop :=
  match r, r' with
  | Ok a, Ok b => R a b
  | Panic m, Panic m' => m = m'
  | _, _ => False
  end.

Lemma rrel_bind {A A' B B'} (R : A -> A' -> Prop) (Q : B -> B' -> Prop) r r' f f' :
  rrel R r r' -> (forall a a', R a a' -> rrel Q (f a) (f' a')) -> rrel Q (bind r f) (bind r' f').
Proof.
  destruct r as [a|m], r' as [a'|m']; cbn [rrel bind]; intros H Hf; try contradiction.
  - apply Hf. exact H.
  - exact H.
Qed.

(* same text, related tables *)
Definition RT (x x' : table * str) : Prop := teq (fst x) (fst x') /\ snd x = snd x'.

Lemma rrel_RT_ok (r r' : result (table * str)) t1 s :
  rrel RT r r' -> r = Ok (t1, s) -> exists t1', r' = Ok (t1', s) /\ teq t1 t1'.
Proof.
  intros H ->. destruct r' as [[t1' s']|m]; cbn [rrel] in H; [|contradiction].
  destruct H as [Ht Hs]. cbn [fst snd] in *. subst s'. exists t1'. split; [reflexivity | exact Ht].
Qed.

Lemma rrel_panic {A B} (R : A -> B -> Prop) r r' m : rrel R r r' -> (r = Panic m <-> r' = Panic m).
Proof.
  destruct r as [a|m0], r' as [a'|m0']; cbn [rrel]; intros H; try contradiction.
  - split; discriminate.
  - subst m0'. split; intros E; injection E as ->; reflexivity.
Qed.

(* configurations that differ only in the order of the hint map *)
Definition ceq (cfg cfg' : config) : Prop :=
  cfg_path cfg = cfg_path cfg' /\ cfg_prefix cfg = cfg_prefix cfg' /\
  teq (cfg_hints cfg) (cfg_hints cfg').

Lemma ceq_sym cfg cfg' : ceq cfg cfg' -> ceq cfg' cfg.
Proof. intros (H1 & H2 & H3). split; [auto|]. split; [auto | apply teq_sym; exact H3]. Qed.

(* ------------------------------------------------------------------ naming *)
Section NamingPerm.
  Variables cfg cfg' : config.
  Hypothesis Hc : ceq cfg cfg'.

  Lemma is_local_ceq p : is_local cfg p = is_local cfg' p.
  Proof. unfold is_local. rewrite (proj1 Hc). reflexivity. Qed.

  Lemma hint_lookup_ceq p : alookup p (cfg_hints cfg) = alookup p (cfg_hints cfg').
  Proof. apply teq_lookup. exact (proj2 (proj2 Hc)). Qed.

  Lemma hint_is_dot_ceq p : hint_is_dot cfg p = hint_is_dot cfg' p.
  Proof. unfold hint_is_dot. rewrite hint_lookup_ceq. reflexivity. Qed.

  Lemma choose_name_ceq p : choose_name cfg p = choose_name cfg' p.
  Proof. unfold choose_name. rewrite hint_lookup_ceq. reflexivity. Qed.

  Lemma with_prefix_ceq u a : with_prefix cfg u a = with_prefix cfg' u a.
  Proof. unfold with_prefix. rewrite (proj1 (proj2 Hc)). reflexivity. Qed.

  Lemma registered_name_teq t t' p : teq t t' -> registered_name t p = registered_name t' p.
  Proof. intros H. unfold registered_name. rewrite (teq_lookup _ _ p H). reflexivity. Qed.

  Lemma is_dot_teq t t' p : teq t t' -> is_dot cfg t p = is_dot cfg' t' p.
  Proof.
    intros H. unfold is_dot. rewrite (teq_lookup _ _ p H), hint_is_dot_ceq. reflexivity.
  Qed.

  Lemma is_valid_alias_teq t t' a : teq t t' -> is_valid_alias t a = is_valid_alias t' a.
  Proof. intros [_ Hp]. apply is_valid_alias_perm. exact Hp. Qed.

  Lemma candidate_ok_teq t t' name alias i :
    teq t t' -> candidate_ok cfg t name alias i = candidate_ok cfg' t' name alias i.
  Proof.
    intros H. unfold candidate_ok. cbv zeta.
    rewrite with_prefix_ceq, !(is_valid_alias_teq t t' _ H). reflexivity.
  Qed.

  Lemma uniquify_teq t t' name alias fuel i :
    teq t t' -> uniquify cfg t name alias fuel i = uniquify cfg' t' name alias fuel i.
  Proof.
    intros H. revert i. induction fuel as [|fuel IH]; intros i; cbn [uniquify]; [reflexivity|].
    rewrite (candidate_ok_teq t t' name alias i H), IH. reflexivity.
  Qed.

  Lemma register_fuel_teq (t t' : table) : teq t t' -> register_fuel t = register_fuel t'.
  Proof. intros H. unfold register_fuel. rewrite (teq_length _ _ H). reflexivity. Qed.

  (* REGISTER: same name (or same panic), related tables *)
  Lemma register_rel t t' p : teq t t' -> rrel RT (register cfg t p) (register cfg' t' p).
  Proof.
    intros H. unfold register.
    rewrite is_local_ceq, (registered_name_teq t t' p H).
    destruct (is_local cfg' p); [cbn [rrel RT fst snd]; split; [exact H | reflexivity]|].
    destruct (registered_name t' p) as [n|]; [cbn [rrel RT fst snd]; split; [exact H | reflexivity]|].
    destruct (str_eqb p s_C).
    - cbn [rrel RT fst snd]. split; [apply aset_teq; exact H | reflexivity].
    - rewrite choose_name_ceq. destruct (choose_name cfg' p) as [name alias].
      rewrite (register_fuel_teq t t' H), (uniquify_teq t t' name alias _ 0%N H).
      destruct (uniquify cfg' t' name alias (register_fuel t') 0) as [i|]; [|cbn [rrel]; reflexivity].
      cbv zeta. rewrite with_prefix_ceq. cbn [rrel RT fst snd].
      split; [apply aset_teq; exact H | reflexivity].
  Qed.

  Lemma register_teq t t' p t1 n :
    teq t t' -> register cfg t p = Ok (t1, n) ->
    exists t1', register cfg' t' p = Ok (t1', n) /\ teq t1 t1'.
  Proof. intros H. apply rrel_RT_ok. apply register_rel. exact H. Qed.

  Lemma register_teq_panic t t' p m :
    teq t t' -> (register cfg t p = Panic m <-> register cfg' t' p = Panic m).
  Proof. intros H. eapply rrel_panic. apply register_rel. exact H. Qed.
End NamingPerm.

(* ------------------------------------------------------------------ rendering *)
Section RenderPerm.
  Variables cfg cfg' : config.
  Hypothesis Hc : ceq cfg cfg'.

  Lemma is_null_teq t t' c : teq t t' -> is_null cfg t c = is_null cfg' t' c.
  Proof.
    intros H.
    induction c as [| | |tk|gid name o cl sep multi items IH|items IH|pairs IH|kvs|s] using code_ind';
      try reflexivity.
    - destruct tk; try reflexivity. cbn [is_null].
      rewrite (is_dot_teq cfg cfg' Hc t t' path H), (is_local_ceq cfg cfg' Hc). reflexivity.
    - cbn [is_null]. destruct (nonempty o || nonempty cl); [reflexivity|].
      induction IH as [|x l Hx _ IHl]; [reflexivity|]. cbn [forallb]. rewrite Hx, IHl. reflexivity.
    - cbn [is_null]. induction IH as [|x l Hx _ IHl]; [reflexivity|]. cbn [forallb]. rewrite Hx, IHl. reflexivity.
    - cbn [is_null]. induction IH as [|[k v] l [Hk Hv] _ IHl]; [reflexivity|]. cbn [forallb fst snd] in *.
      rewrite Hk, Hv, IHl. reflexivity.
  Qed.

  Lemma forallb_is_null_teq t t' items :
    teq t t' -> forallb (is_null cfg t) items = forallb (is_null cfg' t') items.
  Proof.
    intros H. induction items as [|x l IH]; [reflexivity|]. cbn [forallb].
    rewrite (is_null_teq t t' x H), IH. reflexivity.
  Qed.

  Lemma render_token_rel t t' tk : teq t t' -> rrel RT (render_token cfg t tk) (render_token cfg' t' tk).
  Proof.
    intros H. destruct tk; cbn [render_token]; try (cbn [rrel RT fst snd]; split; [exact H | reflexivity]).
    - apply register_rel; assumption.
    - destruct (lit_text l) as [x|m]; cbn [bind rrel RT fst snd]; [split; [exact H | reflexivity] | reflexivity].
  Qed.

  (* what the theorem says of one tree *)
  Definition rel_code (c : code) : Prop :=
    forall ctx t t', teq t t' -> rrel RT (render cfg ctx t c) (render cfg' ctx t' c).

  Lemma stmt_loop_rel all items :
    Forall rel_code items ->
    forall first t t', teq t t' ->
      rrel RT (stmt_loop cfg (render cfg) all t first items) (stmt_loop cfg' (render cfg') all t' first items).
  Proof.
    intros Hst. induction Hst as [|c l Hc0 _ IH]; intros first t t' Ht; cbn [stmt_loop].
    - cbn [rrel RT fst snd]. split; [exact Ht | reflexivity].
    - rewrite (is_null_teq t t' c Ht). destruct (is_null cfg' t' c); [apply IH; exact Ht|].
      apply rrel_bind with (R := RT); [apply Hc0; exact Ht|].
      intros [ta sa] [ta' sa'] [Ha Hs]. cbn [fst snd] in *. subst sa'.
      apply rrel_bind with (R := RT); [apply IH; exact Ha|].
      intros [tb sb] [tb' sb'] [Hb Hs]. cbn [fst snd] in *. subst sb'.
      cbn [rrel RT fst snd]. split; [exact Hb | reflexivity].
  Qed.

  Definition RG (x x' : table * bool * str) : Prop :=
    teq (fst (fst x)) (fst (fst x')) /\ snd (fst x) = snd (fst x') /\ snd x = snd x'.

  Lemma group_loop_rel name sep multi nitems items :
    Forall rel_code items ->
    forall first t t', teq t t' ->
      rrel RG (group_loop cfg (render cfg) name sep multi nitems t first items)
              (group_loop cfg' (render cfg') name sep multi nitems t' first items).
  Proof.
    intros Hst. induction Hst as [|c l Hc0 _ IH]; intros first t t' Ht; cbn [group_loop].
    - cbn [rrel RG fst snd]. split; [exact Ht|]. split; reflexivity.
    - apply rrel_bind with (R := teq).
      + destruct c as [| | |tk| | | | |]; try exact Ht.
        destruct tk; try exact Ht.
        apply rrel_bind with (R := RT); [apply register_rel; assumption|].
        intros a a' [Ha _]. exact Ha.
      + intros t0 t0' H0. cbv beta.
        rewrite (is_null_teq t0 t0' c H0). destruct (is_null cfg' t0' c); [apply IH; exact H0|].
        destruct (str_eqb name s_values && is_dict c && Nat.ltb 1 nitems); [cbn [rrel]; reflexivity|].
        apply rrel_bind with (R := RT); [apply Hc0; exact H0|].
        intros [ta sa] [ta' sa'] [Ha Hs]. cbn [fst snd] in *. subst sa'.
        apply rrel_bind with (R := RG); [apply IH; exact Ha|].
        intros [[tb ib] sb] [[tb' ib'] sb'] (Hb & Hi & Hs). cbn [fst snd] in *. subst ib' sb'.
        cbn [rrel RG fst snd]. split; [exact Hb|]. split; reflexivity.
  Qed.

  (* Dict: the first pass yields entries holding closures over the configuration; related
     entries have the same key text and closures that respect the relation *)
  Definition frel (f f' : table -> result (table * str)) : Prop :=
    forall t t', teq t t' -> rrel RT (f t) (f' t').
  Definition erel (e e' : dict_entry) : Prop :=
    dict_key e = dict_key e' /\ frel (snd (fst e)) (snd (fst e')) /\ frel (snd e) (snd e').
  Definition RD (x x' : table * list dict_entry) : Prop :=
    teq (fst x) (fst x') /\ Forall2 erel (snd x) (snd x').

  Lemma dict_pass1_rel pairs :
    Forall (fun kv => rel_code (fst kv) /\ rel_code (snd kv)) pairs ->
    forall t t', teq t t' ->
      rrel RD (dict_pass1 cfg (render cfg) t pairs) (dict_pass1 cfg' (render cfg') t' pairs).
  Proof.
    intros Hst. induction Hst as [|[k v] l [Hk Hv] _ IH]; intros t t' Ht; cbn [dict_pass1 fst snd].
    - cbn [rrel RD fst snd]. split; [exact Ht | constructor].
    - cbn [fst snd] in Hk, Hv.
      rewrite (is_null_teq t t' k Ht), (is_null_teq t t' v Ht).
      destruct (is_null cfg' t' k || is_null cfg' t' v); [apply IH; exact Ht|].
      apply rrel_bind with (R := RT); [apply Hk; exact Ht|].
      intros [ta sa] [ta' sa'] [Ha Hs]. cbn [fst snd] in *. subst sa'.
      apply rrel_bind with (R := RD); [apply IH; exact Ha|].
      intros [tb eb] [tb' eb'] [Hb He]. cbn [fst snd] in *.
      cbn [rrel RD fst snd]. split; [exact Hb|]. constructor; [|exact He].
      split; [reflexivity|]. cbn [fst snd]. split; intros t2 t2' H2; [apply Hk | apply Hv]; exact H2.
  Qed.

  Lemma insert_by_erel x x' l l' :
    erel x x' -> Forall2 erel l l' ->
    Forall2 erel (insert_by dict_key x l) (insert_by dict_key x' l').
  Proof.
    intros Hx H. induction H as [|y y' l l' Hy Hl IH]; cbn [insert_by].
    - constructor; [exact Hx | constructor].
    - rewrite <- (proj1 Hx), <- (proj1 Hy).
      destruct (str_leb (dict_key x) (dict_key y)).
      + constructor; [exact Hx|]. constructor; assumption.
      + constructor; [exact Hy | exact IH].
  Qed.

  Lemma isort_by_erel l l' :
    Forall2 erel l l' -> Forall2 erel (isort_by dict_key l) (isort_by dict_key l').
  Proof.
    intros H. induction H as [|x x' l l' Hx _ IH]; cbn [isort_by]; [constructor|].
    apply insert_by_erel; assumption.
  Qed.

  Lemma Forall2_len {A B} (R : A -> B -> Prop) l l' : Forall2 R l l' -> length l = length l'.
  Proof. induction 1; cbn [length]; congruence. Qed.

  Lemma dict_pass2_rel several l l' :
    Forall2 erel l l' ->
    forall first t t', teq t t' ->
      rrel RT (dict_pass2 several t first l) (dict_pass2 several t' first l').
  Proof.
    intros H. induction H as [|e e' l l' (_ & Hk & Hv) _ IH]; intros first t t' Ht; cbn [dict_pass2].
    - cbn [rrel RT fst snd]. split; [exact Ht | reflexivity].
    - apply rrel_bind with (R := RT); [apply Hk; exact Ht|].
      intros [ta sa] [ta' sa'] [Ha Hs]. cbn [fst snd] in *. subst sa'.
      apply rrel_bind with (R := RT); [apply Hv; exact Ha|].
      intros [tb sb] [tb' sb'] [Hb Hs]. cbn [fst snd] in *. subst sb'.
      apply rrel_bind with (R := RT); [apply IH; exact Hb|].
      intros [tc sc] [tc' sc'] [Hcc Hs]. cbn [fst snd] in *. subst sc'.
      cbn [rrel RT fst snd]. split; [exact Hcc | reflexivity].
  Qed.

  (* THE THEOREM: for every tree - all constructs, arities, nesting, Dicts, null items - and
     every pair of related tables, rendering gives the same text and related tables, or
     the same panic *)
  Theorem render_rel : forall c, rel_code c.
  Proof.
    induction c as [| | |tk|gid name o cl sep multi items IH|items IH|pairs IH|kvs|s] using code_ind';
      intros ctx t t' Ht.
    - cbn [render rrel]. reflexivity.
    - cbn [render rrel]. reflexivity.
    - cbn [render rrel]. reflexivity.
    - cbn [render]. apply render_token_rel. exact Ht.
    - cbn [render]. rewrite (forallb_is_null_teq t t' items Ht).
      destruct (str_eqb name s_types && forallb (is_null cfg' t') items).
      + cbn [rrel RT fst snd]. split; [exact Ht | reflexivity].
      + cbv zeta. apply rrel_bind with (R := RG); [apply group_loop_rel; assumption|].
        intros [[ta ia] sa] [[ta' ia'] sa'] (Ha & Hi & Hs). cbn [fst snd] in *. subst ia' sa'.
        cbn [rrel RT fst snd]. split; [exact Ha | reflexivity].
    - cbn [render]. apply stmt_loop_rel; assumption.
    - cbn [render]. apply rrel_bind with (R := RD); [apply dict_pass1_rel; assumption|].
      intros [ta es] [ta' es'] [Ha He]. cbn [fst snd] in *. cbv zeta.
      rewrite !isort_by_length, (Forall2_len _ _ _ He).
      apply dict_pass2_rel; [apply isort_by_erel; exact He | exact Ha].
    - cbn [render rrel RT fst snd]. split; [exact Ht | reflexivity].
    - cbn [render rrel RT fst snd]. split; [exact Ht | reflexivity].
  Qed.

  Theorem render_teq c ctx t t' t1 s :
    teq t t' -> render cfg ctx t c = Ok (t1, s) ->
    exists t1', render cfg' ctx t' c = Ok (t1', s) /\ teq t1 t1'.
  Proof. intros H. apply rrel_RT_ok. apply render_rel. exact H. Qed.

  Theorem render_teq_panic c ctx t t' m :
    teq t t' -> (render cfg ctx t c = Panic m <-> render cfg' ctx t' c = Panic m).
  Proof. intros H. eapply rrel_panic. apply render_rel. exact H. Qed.
End RenderPerm.

(* ------------------------------------------------------------------ File *)
(* two Files that are equal except for the order of File.imports and File.hints *)
Record file_eqv (f f' : file) : Prop := {
  fe_name : f_name f = f_name f';
  fe_path : f_path f = f_path f';
  fe_prefix : f_prefix f = f_prefix f';
  fe_hints : teq (f_hints f) (f_hints f');
  fe_imports : teq (f_imports f) (f_imports f');
  fe_comments : f_comments f = f_comments f';
  fe_headers : f_headers f = f_headers f';
  fe_cgo : f_cgo f = f_cgo f';
  fe_noformat : f_noformat f = f_noformat f';
  fe_canonical : f_canonical f = f_canonical f';
  fe_items : f_items f = f_items f'
}.

Lemma file_eqv_set f h' t' :
  teq (f_hints f) h' -> teq (f_imports f) t' -> file_eqv f (set_hints (set_imports f t') h').
Proof. intros Hh Ht. constructor; try reflexivity; assumption. Qed.

Lemma file_eqv_refl f : NoDup (akeys (f_hints f)) -> NoDup (akeys (f_imports f)) -> file_eqv f f.
Proof. intros Hh Ht. constructor; try reflexivity; apply teq_refl; assumption. Qed.

Lemma file_eqv_set_imports f f' t t' : file_eqv f f' -> teq t t' -> file_eqv (set_imports f t) (set_imports f' t').
Proof. intros [] Ht. constructor; cbn; assumption. Qed.

Lemma file_cfg_ceq f f' : file_eqv f f' -> ceq (file_cfg f) (file_cfg f').
Proof. intros []. split; [assumption|]. split; assumption. Qed.

Lemma file_head_eqv f f' : file_eqv f f' -> file_head f = file_head f'.
Proof.
  intros He. unfold file_head.
  rewrite (fe_headers _ _ He), (fe_comments _ _ He), (fe_name _ _ He), (fe_canonical _ _ He). reflexivity.
Qed.

(* File.Render up to the formatter: same source text, related tables; or the same panic *)
Theorem file_raw_rel f f' : file_eqv f f' -> rrel RT (file_raw f) (file_raw f').
Proof.
  intros He. unfold file_raw.
  apply rrel_bind with (R := RT).
  - unfold file_group. rewrite (fe_items _ _ He).
    apply (render_rel _ _ (file_cfg_ceq _ _ He)). exact (fe_imports _ _ He).
  - intros [t1 s] [t1' s'] [Ht Hs]. cbn [fst snd] in *. subst s'.
    cbn [rrel RT fst snd]. split; [exact Ht|].
    rewrite (file_head_eqv _ _ He), (fe_cgo _ _ He).
    rewrite (render_imports_perm t1 t1' (f_cgo f') (proj1 Ht) (proj2 Ht)). reflexivity.
Qed.

Theorem file_raw_teq f f' t1 raw :
  file_eqv f f' -> file_raw f = Ok (t1, raw) ->
  exists t1', file_raw f' = Ok (t1', raw) /\ teq t1 t1'.
Proof. intros H. apply rrel_RT_ok. apply file_raw_rel. exact H. Qed.

Theorem file_raw_teq_panic f f' m :
  file_eqv f f' -> (file_raw f = Panic m <-> file_raw f' = Panic m).
Proof. intros H. eapply rrel_panic. apply file_raw_rel. exact H. Qed.

(* File.Render: same outcome (bytes written, formatter error, panic), and the Files stay
   related, so the statement iterates over any number of renders *)
Theorem file_render_perm fmt wfail f f' :
  file_eqv f f' ->
  snd (file_render fmt wfail f) = snd (file_render fmt wfail f') /\
  file_eqv (fst (file_render fmt wfail f)) (fst (file_render fmt wfail f')).
Proof.
  intros He. pose proof (file_raw_rel f f' He) as Hr. unfold file_render.
  destruct (file_raw f) as [[t1 raw]|m], (file_raw f') as [[t1' raw']|m']; cbn [rrel] in Hr; try contradiction.
  - destruct Hr as [Ht Hs]. cbn [fst snd] in *. subst raw'.
    rewrite (fe_noformat _ _ He). split; [reflexivity|]. apply file_eqv_set_imports; assumption.
  - subst m'. cbn [fst snd]. split; [reflexivity | exact He].
Qed.

Theorem code_render_with_file_perm fmt wfail c f f' :
  file_eqv f f' ->
  snd (code_render_with_file fmt wfail c f) = snd (code_render_with_file fmt wfail c f') /\
  file_eqv (fst (code_render_with_file fmt wfail c f)) (fst (code_render_with_file fmt wfail c f')).
Proof.
  intros He. unfold code_render_with_file.
  pose proof (render_rel _ _ (file_cfg_ceq _ _ He) c false _ _ (fe_imports _ _ He)) as Hr.
  destruct (render (file_cfg f) false (f_imports f) c) as [[t1 raw]|m],
           (render (file_cfg f') false (f_imports f') c) as [[t1' raw']|m']; cbn [rrel] in Hr; try contradiction.
  - destruct Hr as [Ht Hs]. cbn [fst snd] in *. subst raw'.
    split; [reflexivity|]. apply file_eqv_set_imports; assumption.
  - subst m'. cbn [fst snd]. split; [reflexivity | exact He].
Qed.

(* ------------------------------------------------------------------ ImportNames, Anon *)
(* ImportNames(map[string]string) ranges over its argument *)
Lemma import_names_lookup (m : list (str * str)) : forall (h : table) k,
  NoDup (map fst m) ->
  alookup k (fold_left (fun h kv => aset (fst kv) (mkdef (snd kv) false) h) m h) =
  match alookup k m with Some v => Some (mkdef v false) | None => alookup k h end.
Proof.
  induction m as [|[k1 v1] m IH]; intros h k Hnd; [reflexivity|].
  inversion Hnd as [|? ? Hni Hnd']; subst. cbn [fold_left fst snd alookup].
  rewrite (IH _ k Hnd'). destruct (str_eqb_spec k k1) as [->|Hne].
  - assert (Hn : alookup k1 m = None) by (apply alookup_None; exact Hni).
    rewrite Hn. apply alookup_aset_same.
  - destruct (alookup k m); [reflexivity|]. apply alookup_aset_other. congruence.
Qed.

Lemma import_names_nodup (m : list (str * str)) : forall h : table,
  NoDup (akeys h) -> NoDup (akeys (fold_left (fun h kv => aset (fst kv) (mkdef (snd kv) false) h) m h)).
Proof.
  induction m as [|kv m IH]; intros h Hnd; [exact Hnd|]. cbn [fold_left].
  apply IH. apply akeys_aset_NoDup. exact Hnd.
Qed.

(* the hint map after ImportNames(m) does not depend on the order in which m is traversed *)
Theorem import_names_perm f m m' :
  NoDup (map fst m) -> Permutation m m' ->
  forall k, alookup k (f_hints (import_names f m)) = alookup k (f_hints (import_names f m')).
Proof.
  intros Hnd Hp k.
  assert (Hnd' : NoDup (map fst m')) by (eapply Permutation_NoDup; [apply Permutation_map; exact Hp | exact Hnd]).
  unfold import_names, set_hints. cbn [f_hints].
  rewrite !import_names_lookup by assumption.
  rewrite (alookup_perm m m' k Hnd Hp). reflexivity.
Qed.

Theorem import_names_eqv f m m' :
  NoDup (akeys (f_hints f)) -> NoDup (akeys (f_imports f)) ->
  NoDup (map fst m) -> Permutation m m' ->
  file_eqv (import_names f m) (import_names f m').
Proof.
  intros Hh Hi Hnd Hp. constructor; try reflexivity.
  - apply lookup_eq_teq.
    + apply import_names_nodup. exact Hh.
    + apply import_names_nodup. exact Hh.
    + apply import_names_perm; assumption.
  - apply teq_refl. exact Hi.
Qed.

(* Anon(paths...) *)
Lemma anon_lookup (paths : list str) : forall (t : table) k,
  alookup k (fold_left (fun t p => aset p (mkdef s_us true) t) paths t) =
  if existsb (str_eqb k) paths then Some (mkdef s_us true) else alookup k t.
Proof.
  induction paths as [|p l IH]; intros t k; [reflexivity|]. cbn [fold_left existsb].
  rewrite IH. destruct (existsb (str_eqb k) l); [rewrite orb_true_r; reflexivity|].
  rewrite orb_false_r. destruct (str_eqb_spec k p) as [->|Hne].
  - apply alookup_aset_same.
  - apply alookup_aset_other. congruence.
Qed.

Lemma anon_nodup (paths : list str) : forall t : table,
  NoDup (akeys t) -> NoDup (akeys (fold_left (fun t p => aset p (mkdef s_us true) t) paths t)).
Proof.
  induction paths as [|p l IH]; intros t Hnd; [exact Hnd|]. cbn [fold_left].
  apply IH. apply akeys_aset_NoDup. exact Hnd.
Qed.

Theorem anon_perm f paths paths' :
  Permutation paths paths' ->
  forall k, alookup k (f_imports (anon f paths)) = alookup k (f_imports (anon f paths')).
Proof.
  intros Hp k. unfold anon, set_imports. cbn [f_imports].
  rewrite !anon_lookup, (existsb_perm _ _ _ Hp). reflexivity.
Qed.

Theorem anon_eqv f paths paths' :
  NoDup (akeys (f_hints f)) -> NoDup (akeys (f_imports f)) ->
  Permutation paths paths' -> file_eqv (anon f paths) (anon f paths').
Proof.
  intros Hh Hi Hp. constructor; try reflexivity.
  - apply teq_refl. exact Hh.
  - apply lookup_eq_teq.
    + apply anon_nodup. exact Hi.
    + apply anon_nodup. exact Hi.
    + apply anon_perm. exact Hp.
Qed.

(* the builder methods keep "each path once": every File built by the API satisfies the
   NoDup hypotheses above *)
Lemma new_file_nodup name : NoDup (akeys (f_hints (new_file name))) /\ NoDup (akeys (f_imports (new_file name))).
Proof. split; constructor. Qed.

(* file_render is a function of (file, formatter on the text produced, outcome of the first
   write): nothing else is consulted *)
Theorem file_render_function fmt fmt' wfail wfail' f :
  (forall s, fmt s = fmt' s) -> wfail 1%nat = wfail' 1%nat ->
  file_render fmt wfail f = file_render fmt' wfail' f.
Proof.
  intros Hf Hw. unfold file_render. destruct (file_raw f) as [[t raw]|m]; [|reflexivity].
  unfold emit. rewrite Hf, Hw. reflexivity.
Qed.

(* ------------------------------------------------------------------ the statements of Props/C07_file.v *)
(* spelled out without the auxiliary relations *)
Theorem file_raw_perm f h' t' :
  NoDup (akeys (f_hints f)) -> Permutation (f_hints f) h' ->
  NoDup (akeys (f_imports f)) -> Permutation (f_imports f) t' ->
  match file_raw f, file_raw (set_hints (set_imports f t') h') with
  | Ok (t1, raw), Ok (t1', raw') => raw = raw' /\ NoDup (akeys t1) /\ Permutation t1 t1'
  | Panic m, Panic m' => m = m'
  | _, _ => False
  end.
Proof.
  intros H1 H2 H3 H4.
  pose proof (file_raw_rel f _ (file_eqv_set f h' t' (conj H1 H2) (conj H3 H4))) as Hr.
  destruct (file_raw f) as [[t1 raw]|m], (file_raw (set_hints (set_imports f t') h')) as [[t1' raw']|m'];
    cbn [rrel] in Hr; try contradiction; [|exact Hr].
  destruct Hr as [[Ha Hb] Hs]. cbn [fst snd] in *. auto.
Qed.

Theorem file_render_perm_explicit fmt wfail f h' t' :
  NoDup (akeys (f_hints f)) -> Permutation (f_hints f) h' ->
  NoDup (akeys (f_imports f)) -> Permutation (f_imports f) t' ->
  let f' := set_hints (set_imports f t') h' in
  snd (file_render fmt wfail f) = snd (file_render fmt wfail f') /\
  file_eqv (fst (file_render fmt wfail f)) (fst (file_render fmt wfail f')).
Proof.
  intros H1 H2 H3 H4 f'. apply file_render_perm, file_eqv_set; split; assumption.
Qed.

(* ImportNames(m) followed by Render: the bytes do not depend on the order in which the
   argument map was traversed *)
Theorem import_names_render_perm fmt wfail f m m' :
  NoDup (akeys (f_hints f)) -> NoDup (akeys (f_imports f)) ->
  NoDup (map fst m) -> Permutation m m' ->
  snd (file_render fmt wfail (import_names f m)) = snd (file_render fmt wfail (import_names f m')).
Proof.
  intros Hh Hi Hnd Hp. apply file_render_perm, import_names_eqv; assumption.
Qed.

Theorem anon_render_perm fmt wfail f paths paths' :
  NoDup (akeys (f_hints f)) -> NoDup (akeys (f_imports f)) ->
  Permutation paths paths' ->
  snd (file_render fmt wfail (anon f paths)) = snd (file_render fmt wfail (anon f paths')).
Proof.
  intros Hh Hi Hp. apply file_render_perm, anon_eqv; assumption.
Qed.

Theorem render_perm_explicit cfg h' c ctx t t' :
  NoDup (akeys (cfg_hints cfg)) -> Permutation (cfg_hints cfg) h' ->
  NoDup (akeys t) -> Permutation t t' ->
  match render cfg ctx t c, render (mkcfg (cfg_path cfg) (cfg_prefix cfg) h') ctx t' c with
  | Ok (t1, s), Ok (t1', s') => s = s' /\ NoDup (akeys t1) /\ Permutation t1 t1'
  | Panic m, Panic m' => m = m'
  | _, _ => False
  end.
Proof.
  intros H1 H2 H3 H4.
  assert (Hc : ceq cfg (mkcfg (cfg_path cfg) (cfg_prefix cfg) h')).
  { split; [reflexivity|]. split; [reflexivity|]. split; assumption. }
  pose proof (render_rel _ _ Hc c ctx t t' (conj H3 H4)) as Hr.
  destruct (render cfg ctx t c) as [[t1 s]|m],
           (render (mkcfg (cfg_path cfg) (cfg_prefix cfg) h') ctx t' c) as [[t1' s']|m'];
    cbn [rrel] in Hr; try contradiction; [|exact Hr].
  destruct Hr as [[Ha Hb] Hs]. cbn [fst snd] in *. auto.
Qed.
