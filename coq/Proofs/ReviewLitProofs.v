(* Review item C11: what holds for the negative zero, precisely.

   fmt prints the float64 negative zero (math.Copysign(0, -1)) as "-0"; jennifer appends
   ".0": the rendered text is `-0.0`.  As a Go CONSTANT EXPRESSION `-0.0` is the unary minus
   applied to the constant 0.0, and constants are exact numbers: there is no negative zero
   among them, so the expression denotes 0 and a variable initialised with it holds +0.
   The value as a real number is preserved (0 = 0); the sign bit of the IEEE value is not.
   The evaluator's value type [dec] (mantissa, exp10) has exactly that granularity. *)
From Jen Require Import Base.Bytes Base.Num GoStd.LitEval Model.Render.
From Jen Require Import Proofs.LitProofs.
Local Open Scope Z_scope.

(* the constants of the evaluator have no negative zero *)
Lemma dneg_zero q : fst q = 0 -> dneg q = q.
Proof. destruct q as [m e]. cbn [fst]. intros ->. reflexivity. Qed.

Lemma negative_zero_text_and_value :
  float64_text (S "-0") = S "-0.0" /\
  fmt_float_grammar (S "-0") = true /\
  eval_lit (S "-0.0") = Some (TFloat64, VFloat (0, -1)) /\
  eval_lit (S "0.0") = Some (TFloat64, VFloat (0, -1)) /\
  lit_value (LF64 (S "-0")) = lit_value (LF64 (S "0")) /\
  decimal_value (S "-0") = Some (0, 0) /\
  rat_eq (0, -1) (0, 0).
Proof. repeat split; vm_compute; reflexivity. Qed.

(* the same for the other literal forms that can carry a negative zero: float32, and the
   real and imaginary parts of complex values *)
Lemma negative_zero_other_forms :
  lit_text (LF32 (S "-0")) = Ok (S "float32(-0)") /\
  lit_value (LF32 (S "-0")) = lit_value (LF32 (S "0")) /\
  lit_value (LC128 (S "(-0-0i)")) = lit_value (LC128 (S "(0+0i)")) /\
  lit_value (LC64 (S "(-0-0i)")) = lit_value (LC64 (S "(0+0i)")).
Proof. repeat split; vm_compute; reflexivity. Qed.
