(* Soundness of the IO-shape checkers of Spec/IOShape.v: what [io_wf] / [save_wf] guarantee
   about the caller's writer and the file system for EVERY oracle, formatter and fault
   schedule; and the abstraction into the model's [outcome] / [save_outcome]. *)
From Coq Require Import List Bool Arith Lia.
From Jen Require Import Base.Bytes Spec.IOShape.
From Jen Require Import Model.Code Model.Naming Model.Render Model.FileRender.
Import ListNotations.
Open Scope bool_scope.

Fixpoint unwrap (e : error) : error := match e with EWrap e' => unwrap e' | _ => e end.

Section Sound.
  Variable orc : nat -> oans.
  Variable noformat : bool.
  Variable fmt : str -> option str.
  Variable wfail : nat -> bool.
  Variable fsfail : str -> bool.
  Variable strval : str -> str.
  Variable sub : nat -> list (str * bool) * option error.

  Notation run := (run orc noformat fmt wfail fsfail strval sub).
  Notation run_ev := (run_ev orc fmt wfail fsfail strval sub).
  Notation call := (call orc noformat fmt wfail fsfail strval sub).

  (* a result that left the logs alone and is not a silent `return nil` *)
  Definition quiet (st : state) (r : res) : Prop :=
    match r with
    | Normal st' _ => wlog st' = wlog st /\ fslog st' = fslog st
    | Returned (Some _) st' => wlog st' = wlog st /\ fslog st' = fslog st
    | Returned None _ => False
    end.

  Lemma quiet_trans st st' r :
    wlog st' = wlog st -> fslog st' = fslog st -> quiet st' r -> quiet st r.
  Proof.
    intros Hw Hf. destruct r as [s2 k2|[e|] s2]; cbn; rewrite ?Hw, ?Hf; auto.
  Qed.

  Lemma iter_quiet f :
    (forall st k, quiet st (f st k)) -> forall n st k, quiet st (IOShape.iter n f st k).
  Proof.
    intros Hf n. induction n as [|n IH]; intros st k; cbn [IOShape.iter].
    - cbn. auto.
    - specialize (Hf st k). destruct (f st k) as [st' k'|[e|] st'] eqn:E; cbn in Hf.
      + destruct Hf as [Hw Hfs]. eapply quiet_trans; eauto.
      + cbn. exact Hf.
      + contradiction.
  Qed.

  Lemma local_quiet s : local_ok s = true -> forall st k, quiet st (run s st k).
  Proof.
    induction s as [|a IHa b IHb|e|e h| |a IHa b IHb|c a IHa|c a IHa]; intros Hl st k.
    - cbn. auto.
    - cbn [local_ok] in Hl. apply andb_true_iff in Hl as [Ha Hb]. cbn [IOShape.run].
      specialize (IHa Ha st k). destruct (run a st k) as [st' k'|[x|] st'] eqn:E; cbn in IHa.
      + destruct IHa as [Hw Hf]. eapply quiet_trans; eauto.
      + cbn. exact IHa.
      + contradiction.
    - destruct e; cbn in Hl; try discriminate; cbn; auto.
    - destruct e; cbn [local_ok] in Hl; try discriminate; cbn [IOShape.run IOShape.run_ev].
      + (* EvRender *)
        destruct (o_fail (orc k)) as [x|]; [|cbn; auto].
        destruct (is_panic x); [cbn; auto|]. destruct h; try discriminate; cbn; auto.
      + destruct (o_fail (orc k)) as [x|]; [|cbn; auto].
        destruct (is_panic x); [cbn; auto|]. destruct h; try discriminate; cbn; auto.
      + (* EvFormat *)
        destruct (fmt (getb src st)); [cbn; auto|].
        cbn [is_panic]. destruct h; try discriminate; cbn; auto.
    - discriminate.
    - cbn [local_ok] in Hl. apply andb_true_iff in Hl as [Ha Hb]. cbn [IOShape.run].
      destruct noformat; auto.
    - cbn [local_ok] in Hl. cbn [IOShape.run]. destruct (o_cond (orc k)); [auto|cbn; auto].
    - cbn [local_ok] in Hl. cbn [IOShape.run]. apply iter_quiet. intros st1 k1. apply IHa. exact Hl.
  Qed.

  Lemma run_block_app l1 l2 st k :
    run (block (l1 ++ l2)) st k =
    match run (block l1) st k with Normal st' k' => run (block l2) st' k' | r => r end.
  Proof.
    revert st k. induction l1 as [|s l1 IH]; intros st k; [reflexivity|].
    cbn [app block fold_right IOShape.run]. fold (block (l1 ++ l2)). fold (block l1).
    destruct (run s st k) as [st' k'|e st']; [apply IH | reflexivity].
  Qed.

  Lemma local_list_quiet l : forallb local_ok l = true -> forall st k, quiet st (run (block l) st k).
  Proof.
    intros H. apply local_quiet. induction l as [|s l IH]; [reflexivity|].
    cbn in H |- *. apply andb_true_iff in H as [H1 H2]. rewrite H1. cbn. fold (block l). auto.
  Qed.

  Lemma getv_setv' x v st : getv x (setv x v st) = v.
  Proof. unfold getv, setv. cbn [vars]. rewrite alookup_aset_same. reflexivity. Qed.

  (* ---- the formatting phase ---- *)
  Definition sval (k : oval) (raw : str) : option str :=
    match k with
    | ORaw => Some raw
    | OFmt => fmt raw
    | OSel => if noformat then Some raw else fmt raw
    end.

  (* what a binding says of a state *)
  Definition holds (c : binding) (st : state) : Prop :=
    match c with
    | None => True
    | Some (x, src, k) => sval k (getb src st) = Some (getv x st)
    end.

  Lemma oval_eqb_eq a b : oval_eqb a b = true -> a = b.
  Proof. destruct a, b; cbn; congruence. Qed.

  Lemma binding_eqb_eq a b : binding_eqb a b = true -> a = b.
  Proof.
    destruct a as [[[x s] k]|], b as [[[x' s'] k']|]; cbn; try congruence.
    intros H. apply andb_true_iff in H as [H Hk]. apply andb_true_iff in H as [Hx Hs].
    apply str_eqb_eq in Hx. apply str_eqb_eq in Hs. apply oval_eqb_eq in Hk. subst. reflexivity.
  Qed.

  (* what [join_arms] gives: either both arms agree, or raw / formatted on the same variable and buffer *)
  Lemma join_cases ra rb r :
    join_arms ra rb = Some r ->
    (ra = r /\ rb = r) \/
    (exists x s, ra = Some (x, s, ORaw) /\ rb = Some (x, s, OFmt) /\ r = Some (x, s, OSel)).
  Proof.
    unfold join_arms. intros H.
    destruct ra as [[[x s] [| |]]|]; try (destruct (binding_eqb _ rb) eqn:E; [|discriminate];
      apply binding_eqb_eq in E; injection H as <-; left; split; congruence).
    destruct rb as [[[x' s'] [| |]]|]; try (destruct (binding_eqb _ _) eqn:E; [|discriminate];
      apply binding_eqb_eq in E; injection H as <-; left; split; congruence).
    destruct (str_eqb x x' && str_eqb s s') eqn:E; [|discriminate].
    apply andb_true_iff in E as [Hx Hs]. apply str_eqb_eq in Hx. apply str_eqb_eq in Hs. subst.
    injection H as <-. right. eauto.
  Qed.

  (* once the value is a formatted one nothing rebinds it *)
  Lemma fmt_sym_frozen s : forall cur r, can_rebind cur = false -> fmt_sym s cur = Some r -> r = cur.
  Proof.
    induction s as [|a IHa b IHb|e|e h| |a IHa b IHb|c a IHa|c a IHa]; intros cur r Hc H;
      cbn [fmt_sym] in H; try discriminate.
    - congruence.
    - destruct (fmt_sym a cur) as [c1|] eqn:Ea; [|discriminate].
      pose proof (IHa _ _ Hc Ea). subst c1. eauto.
    - destruct e; try discriminate; [congruence|]. rewrite Hc in H. discriminate.
    - destruct e; try discriminate. rewrite Hc in H. discriminate.
    - destruct (fmt_sym a cur) as [ra|] eqn:Ea; [|discriminate].
      destruct (fmt_sym b cur) as [rb|] eqn:Eb; [|discriminate].
      pose proof (IHa _ _ Hc Ea). pose proof (IHb _ _ Hc Eb). subst ra rb.
      apply join_cases in H as [[H _]|(x & s & H1 & H2 & _)]; [congruence|]. congruence.
  Qed.

  (* the outcome of the formatting phase: it goes on with the binding true of the new state
     (buffers and logs untouched), or it returns the (wrapped) error of go/format.Source on
     the contents of the source buffer - and that only when the value it was to produce does
     not exist *)
  Definition fmt_post (st : state) (bd : binding) (r : res) : Prop :=
    match r with
    | Normal st' _ => bufs st' = bufs st /\ wlog st' = wlog st /\ fslog st' = fslog st /\ holds bd st'
    | Returned (Some e) st' =>
      bufs st' = bufs st /\ wlog st' = wlog st /\ fslog st' = fslog st /\
      exists x src kd, bd = Some (x, src, kd) /\ sval kd (getb src st) = None /\
                       unwrap e = EFormat (getb src st)
    | Returned None _ => False
    end.

  Lemma getb_bufs src st st' : bufs st' = bufs st -> getb src st' = getb src st.
  Proof. unfold getb. intros ->. reflexivity. Qed.

  Lemma holds_bufs c st st' : bufs st' = bufs st -> vars st' = vars st -> holds c st -> holds c st'.
  Proof.
    destruct c as [[[x src] kd]|]; cbn; [|auto]. unfold getb, getv. intros -> ->. auto.
  Qed.

  Lemma fmt_post_sel st x s ra rb :
    fmt_post st (Some (x, s, ORaw)) ra -> fmt_post st (Some (x, s, OFmt)) rb ->
    fmt_post st (Some (x, s, OSel)) (if noformat then ra else rb).
  Proof.
    unfold fmt_post, holds, sval. intros Ha Hb. destruct noformat.
    - destruct ra as [st1 k1|[e|] st1]; auto.
      destruct Ha as (_ & _ & _ & x1 & s1 & k1 & Hr & Hv & _). injection Hr as <- <- <-. discriminate.
    - destruct rb as [st1 k1|[e|] st1]; auto.
      destruct Hb as (Hb1 & Hw1 & Hf1 & x1 & s1 & k1 & Hr & Hv & He). injection Hr as <- <- <-.
      repeat split; auto. exists x, s, OSel. auto.
  Qed.

  Lemma fmt_sym_run s : forall cur bd, fmt_sym s cur = Some bd ->
    forall st k, holds cur st -> fmt_post st bd (run s st k).
  Proof.
    induction s as [|a IHa b IHb|e|e h| |a IHa b IHb|c a IHa|c a IHa]; intros cur bd H st k Hh;
      cbn [fmt_sym] in H; try discriminate.
    - injection H as <-. cbn. auto.
    - destruct (fmt_sym a cur) as [c1|] eqn:Ea; [|discriminate].
      specialize (IHa _ _ Ea st k Hh). cbn [IOShape.run].
      destruct (run a st k) as [st1 k1|[e|] st1]; cbn [fmt_post] in IHa.
      + destruct IHa as (Hb1 & Hw1 & Hf1 & Hh1). specialize (IHb _ _ H st1 k1 Hh1).
        destruct (run b st1 k1) as [st2 k2|[e|] st2]; cbn [fmt_post] in IHb |- *.
        * destruct IHb as (Hb2 & Hw2 & Hf2 & Hh2). repeat split; congruence.
        * destruct IHb as (Hb2 & Hw2 & Hf2 & x & src & kd & Hr & Hv & He).
          repeat split; try congruence. exists x, src, kd.
          rewrite (getb_bufs src _ _ Hb1) in Hv, He. auto.
        * exact IHb.
      + destruct IHa as (Hb1 & Hw1 & Hf1 & x & src & kd & Hr & Hv & He).
        repeat split; auto. exists x, src, kd. repeat split; auto.
        subst c1. apply (fmt_sym_frozen b _ _) in H; [exact H|].
        destruct kd; cbn in Hv |- *; [discriminate|reflexivity|reflexivity].
      + exact IHa.
    - destruct e; try discriminate.
      + injection H as <-. cbn. auto.
      + destruct (can_rebind cur); [|discriminate]. injection H as <-.
        cbn [IOShape.run IOShape.run_ev fmt_post]. repeat split.
        cbn [holds sval]. rewrite getv_setv'. reflexivity.
    - destruct e; try discriminate.
      destruct (can_rebind cur && returns_err h) eqn:Hc; [|discriminate]. injection H as <-.
      apply andb_true_iff in Hc as [_ Hr].
      cbn [IOShape.run IOShape.run_ev].
      destruct (fmt (getb src st)) as [o|] eqn:Ef.
      + cbn [fmt_post]. repeat split. cbn [holds sval].
        rewrite getv_setv'. replace (getb src (setv dst o st)) with (getb src st) by reflexivity.
        exact Ef.
      + cbn [is_panic]. destruct h; try discriminate; cbn [fmt_post]; repeat split;
          exists dst, src, OFmt; repeat split; auto.
    - destruct (fmt_sym a cur) as [ra|] eqn:Ea; [|discriminate].
      destruct (fmt_sym b cur) as [rb|] eqn:Eb; [|discriminate].
      specialize (IHa _ _ Ea st k Hh). specialize (IHb _ _ Eb st k Hh).
      cbn [IOShape.run].
      apply join_cases in H as [[-> ->]|(x & s0 & -> & -> & ->)].
      + destruct noformat; assumption.
      + apply fmt_post_sel; assumption.
  Qed.

  Lemma span_fmt_app r a b : span_fmt r = (a, b) -> r = a ++ b.
  Proof.
    revert a b. induction r as [|s r IH]; intros a b H; cbn in H.
    - injection H as <- <-. reflexivity.
    - destruct (is_fmt_stmt s).
      + destruct (span_fmt r) as [a1 b1]. injection H as <- <-. cbn. f_equal. auto.
      + injection H as <- <-. reflexivity.
  Qed.

  Lemma io_parts_shape body pre x src nf :
    io_parts body = Some (pre, x, src, nf) ->
    exists fp what kd,
      body = pre ++ fp ++ [Try (EvWriteCaller KWrite what x) EvReturnErr; EvReturnNil] /\
      fmt_sym (block fp) None = Some (Some (x, src, kd)) /\
      (forall raw, sval kd raw = if nf && noformat then Some raw else fmt raw).
  Proof.
    unfold io_parts. intros H.
    destruct (rev body) as [|s1 [|s2 rest]] eqn:Er; try discriminate; try (destruct s1; discriminate).
    destruct s1; try discriminate. destruct s2 as [| |e|e h| | | |]; try discriminate.
    destruct e as [| | | | | |kw what x0| | |]; try discriminate.
    destruct kw; try discriminate. destruct h; try discriminate.
    destruct (span_fmt rest) as [rfp rpre] eqn:Es.
    destruct (fmt_sym (block (rev rfp)) None) as [[[[x' src'] kd]|]|] eqn:Ef; try discriminate.
    destruct (str_eqb x0 x') eqn:Ex; [|discriminate]. apply str_eqb_eq in Ex. subst x'.
    apply span_fmt_app in Es. subst rest.
    assert (Hb : body = rev rpre ++ rev rfp ++ [Try (EvWriteCaller KWrite what x0) EvReturnErr; EvReturnNil]).
    { rewrite <- (rev_involutive body), Er. cbn [rev]. rewrite rev_app_distr, <- !app_assoc. reflexivity. }
    destruct kd; try discriminate; injection H as <- <- <- <-;
      exists (rev rfp), what; eexists; (split; [exact Hb|]); (split; [exact Ef|]);
      intros raw; cbn [sval andb]; reflexivity.
  Qed.

  Lemma getv_setv x v st : getv x (setv x v st) = v.
  Proof. apply getv_setv'. Qed.

  (* THE GENERIC THEOREM.  For a body accepted by the checker, whatever the events do:
     - if anything before the formatting phase fails (a render errors or panics, a buffer write
       fails): the caller's writer has received NOTHING and the call returns that first failure;
     - else if the formatter rejects the text: nothing written, the (wrapped) format error
       is returned;
     - else the writer has received exactly ONE Write call carrying the whole output (the
       formatted contents of the source buffer; the raw contents under NoFormat when the body
       honours it), and the call returns that Write's error if it failed and nil otherwise.
     The file-system log is never touched. *)
  Theorem io_sound body pre x src nf :
    io_parts body = Some (pre, x, src, nf) ->
    forallb local_ok pre = true ->
    match run (block pre) st0 0 with
    | Returned None _ => False
    | Returned (Some e) st => call body = (st, Some e) /\ wlog st = [] /\ fslog st = []
    | Normal st _ =>
      let raw := getb src st in
      match (if nf && noformat then Some raw else fmt raw) with
      | None => exists e st', call body = (st', Some e) /\ unwrap e = EFormat raw /\
                              wlog st' = [] /\ fslog st' = []
      | Some out =>
        exists st', call body = (st', if wfail 1 then Some (EWriteErr 1) else None) /\
                    wlog st' = [(out, wfail 1)] /\ fslog st' = []
      end
    end.
  Proof.
    intros Hp Hl. destruct (io_parts_shape _ _ _ _ _ Hp) as (fp & what & kd & -> & Hfs & Hsv).
    pose proof (local_list_quiet pre Hl st0 0) as Hq.
    unfold IOShape.call. rewrite run_block_app.
    destruct (run (block pre) st0 0) as [st k|[e|] st] eqn:E1; cbn in Hq.
    - destruct Hq as [Hw Hf]. cbv zeta. rewrite run_block_app.
      pose proof (fmt_sym_run (block fp) None _ Hfs st k I) as Hstep.
      rewrite <- Hsv.
      destruct (run (block fp) st k) as [st1 k1|[e|] st1]; cbn [fmt_post] in Hstep.
      + destruct Hstep as (Hb1 & Hw1 & Hf1 & Hh). cbn [holds] in Hh.
        rewrite (getb_bufs src _ _ Hb1) in Hh. rewrite Hh.
        cbn [block fold_right IOShape.run IOShape.run_ev].
        rewrite Hw1, Hw. cbn [length].
        destruct (wfail 1) eqn:Ew; cbn [is_panic];
          (eexists; split; [reflexivity|]); cbn [wlog logw fslog]; rewrite Hw1, Hw, Hf1, Hf; auto.
      + destruct Hstep as (Hb1 & Hw1 & Hf1 & x1 & s1 & k1' & Hr & Hv & He).
        injection Hr as <- <- <-. rewrite Hv. exists e, st1. repeat split; congruence.
      + contradiction.
    - destruct Hq as [Hw Hf]. auto.
    - exact Hq.
  Qed.

  (* consequences that do not mention the phases *)
  Corollary io_at_most_one_write body :
    io_wf body = true -> length (wlog (fst (call body))) <= 1.
  Proof.
    unfold io_wf. destruct (io_parts body) as [[[[pre x] src] nf]|] eqn:Hp; [|discriminate].
    intros H. apply andb_true_iff in H as [Hl _]. pose proof (io_sound _ _ _ _ _ Hp Hl) as Hs.
    destruct (run (block pre) st0 0) as [st k|[e|] st].
    - cbv zeta in Hs. destruct (if nf && noformat then _ else _).
      + destruct Hs as (st' & -> & Hw & _). cbn [fst]. rewrite Hw. cbn. lia.
      + destruct Hs as (e & st' & -> & _ & Hw & _). cbn [fst]. rewrite Hw. cbn. lia.
    - destruct Hs as (-> & Hw & _). cbn [fst]. rewrite Hw. cbn. lia.
    - contradiction.
  Qed.

  (* success <-> exactly one successful write; failure of the call with an intact writer
     log <-> nothing was written; a failed write is the only way to fail with a write *)
  Corollary io_result_vs_log body :
    io_wf body = true ->
    match snd (call body) with
    | None => exists out, wlog (fst (call body)) = [(out, false)]
    | Some e => wlog (fst (call body)) = [] \/
                (exists out, wlog (fst (call body)) = [(out, true)] /\ e = EWriteErr 1)
    end.
  Proof.
    unfold io_wf. destruct (io_parts body) as [[[[pre x] src] nf]|] eqn:Hp; [|discriminate].
    intros H. apply andb_true_iff in H as [Hl _]. pose proof (io_sound _ _ _ _ _ Hp Hl) as Hs.
    destruct (run (block pre) st0 0) as [st k|[e|] st].
    - cbv zeta in Hs. destruct (if nf && noformat then _ else _) as [out|].
      + destruct Hs as (st' & -> & Hw & _). cbn [fst snd]. rewrite Hw.
        destruct (wfail 1); [right|]; eauto.
      + destruct Hs as (e & st' & -> & _ & Hw & _). cbn [fst snd]. rewrite Hw. auto.
    - destruct Hs as (-> & Hw & _). cbn [fst snd]. rewrite Hw. auto.
    - contradiction.
  Qed.

  (* ---- File.Save ---- *)
  (* what a well-formed render entry does to the buffer it is given (a bytes.Buffer never
     fails): nothing and an error, or one write and nil *)
  Definition sub_ok (r : list (str * bool) * option error) : Prop :=
    match snd r with
    | Some _ => fst r = []
    | None => exists out, fst r = [(out, false)]
    end.

  Lemma getb_fresh_append b v :
    getb b (setb b (getb b (setb b [] st0) ++ v) (setb b [] st0)) = v.
  Proof. unfold getb, setb. cbn [bufs]. rewrite !alookup_aset_same. reflexivity. Qed.

  Theorem save_sound path body en b :
    save_parts path body = Some (en, b) ->
    sub_ok (sub 1) ->
    match snd (sub 1) with
    | Some e =>
      exists st, call body = (st, Some e) /\ fslog st = []
    | None =>
      exists fn out st, is_write_file fn = true /\ fst (sub 1) = [(out, false)] /\
        call body = (st, if fsfail (strval path) then Some (EFs (strval path)) else None) /\
        fslog st = [(fn, strval path, out, fsfail (strval path))]
    end.
  Proof.
    unfold save_parts. intros Hp Hs.
    repeat match type of Hp with
           | context [match ?t with _ => _ end] => destruct t eqn:?; try discriminate
           end.
    match goal with Hc : (_ && _) = true |- _ =>
      repeat (apply andb_true_iff in Hc as [Hc ?]); apply str_eqb_eq in Hc end.
    repeat match goal with H : str_eqb _ _ = true |- _ => apply str_eqb_eq in H end.
    injection Hp as <- <-. subst.
    unfold IOShape.call. cbn [block fold_right IOShape.run IOShape.run_ev].
    unfold sub_ok in Hs. destruct (snd (sub 1)) as [e|] eqn:Esub.
    - destruct (is_panic e); eexists; (split; reflexivity).
    - destruct Hs as [out Hout]. rewrite Hout. cbn [map fst concat_str]. rewrite app_nil_r.
      match goal with H : is_write_file ?fn = true |- _ => exists fn, out; rename H into Hfn end.
      destruct (fsfail (strval path)) eqn:Ef; cbn [is_panic]; eexists;
        (split; [exact Hfn|]); (split; [reflexivity|]); (split; [reflexivity|]);
        cbn [fslog logfs setb st0 app]; rewrite getb_fresh_append; reflexivity.
  Qed.
End Sound.

(* ------------------------------------------------------------------ abstraction into the model *)

(* The model's view of a finished call: the writer's log and the result. *)
Definition abs_outcome (r : state * option error) : option outcome :=
  match wlog (fst r), snd r with
  | [], Some e =>
    match unwrap e with
    | EFormat raw => Some (OFormatErr raw)
    | EPanic m => Some (OPanic m)
    | _ => None
    end
  | [(out, false)], None => Some (OWrite out false)
  | [(out, true)], Some _ => Some (OWrite out true)
  | _, _ => None
  end.

(* the model's render result [m] is what the events before the formatting step did: they
   panicked with the model's message, or they left the model's text in the source buffer *)
Definition phase1_matches {T} (r : res) (src : str) (m : result (T * str)) : Prop :=
  match m with
  | Panic msg => exists st, r = Returned (Some (EPanic msg)) st
  | Ok (_, raw) => exists st k, r = Normal st k /\ getb src st = raw
  end.

Definition outcome_of {T} (fmt : str -> option str) (wfail : nat -> bool) (nofmt : bool)
           (m : result (T * str)) : outcome :=
  match m with
  | Panic msg => OPanic msg
  | Ok (_, raw) => emit fmt wfail nofmt raw
  end.

Theorem io_refines T orc noformat fmt wfail fsfail strval sub body pre x src nf (m : result (T * str)) :
  io_parts body = Some (pre, x, src, nf) ->
  forallb local_ok pre = true ->
  phase1_matches (run orc noformat fmt wfail fsfail strval sub (block pre) st0 0) src m ->
  abs_outcome (call orc noformat fmt wfail fsfail strval sub body) =
  Some (outcome_of fmt wfail (nf && noformat) m).
Proof.
  intros Hp Hl Hm.
  pose proof (io_sound orc noformat fmt wfail fsfail strval sub _ _ _ _ _ Hp Hl) as Hs.
  destruct m as [[t raw]|msg]; cbn [phase1_matches outcome_of] in *.
  - destruct Hm as (st & k & E & Hraw). rewrite E in Hs. cbv zeta in Hs. rewrite Hraw in Hs.
    unfold emit. destruct (nf && noformat).
    + destruct Hs as (st' & -> & Hw & _). unfold abs_outcome. cbn [fst snd]. rewrite Hw.
      destruct (wfail 1); reflexivity.
    + destruct (fmt raw) as [o|].
      * destruct Hs as (st' & -> & Hw & _). unfold abs_outcome. cbn [fst snd]. rewrite Hw.
        destruct (wfail 1); reflexivity.
      * destruct Hs as (e & st' & -> & He & Hw & _). unfold abs_outcome. cbn [fst snd]. rewrite Hw, He. reflexivity.
  - destruct Hm as (st & E). rewrite E in Hs. destruct Hs as (-> & Hw & _).
    unfold abs_outcome. cbn [fst snd unwrap]. rewrite Hw. reflexivity.
Qed.

(* File.Save: the file-system log and the result *)
Definition abs_save (r : state * option error) : option save_outcome :=
  match fslog (fst r), snd r with
  | [], Some e =>
    match unwrap e with
    | EFormat raw => Some (SRenderErr raw)
    | EPanic m => Some (SPanic m)
    | _ => None
    end
  | [(_, p, d, false)], None => Some (SWrite p d false)
  | [(_, p, d, true)], Some _ => Some (SWrite p d true)
  | _, _ => None
  end.

(* what the called render entry does, seen from Save: its log on the buffer and its result *)
Definition sub_of (r : state * option error) : nat -> list (str * bool) * option error :=
  fun _ => (wlog (fst r), snd r).

Theorem save_refines T orc orc' noformat fmt fsfail strval sub0 path sbody en b rbody pre x src (m : result (T * str)) :
  save_parts path sbody = Some (en, b) ->
  io_parts rbody = Some (pre, x, src, true) ->
  forallb local_ok pre = true ->
  phase1_matches (run orc noformat fmt (fun _ => false) fsfail strval sub0 (block pre) st0 0) src m ->
  abs_save (call orc' noformat fmt (fun _ => false) fsfail strval
                 (sub_of (call orc noformat fmt (fun _ => false) fsfail strval sub0 rbody)) sbody) =
  Some (match outcome_of fmt (fun _ => false) noformat m with
        | OPanic msg => SPanic msg
        | OFormatErr raw => SRenderErr raw
        | OWrite out _ => SWrite (strval path) out (fsfail (strval path))
        end).
Proof.
  intros Hsp Hp Hl Hm.
  pose proof (io_sound orc noformat fmt (fun _ => false) fsfail strval sub0 _ _ _ _ _ Hp Hl) as Hs.
  set (r := call orc noformat fmt (fun _ => false) fsfail strval sub0 rbody) in *.
  assert (Hok : sub_ok (sub_of r 1) /\
                match outcome_of fmt (fun _ : nat => false) noformat m with
                | OPanic msg => exists e, snd r = Some e /\ unwrap e = EPanic msg
                | OFormatErr raw => exists e, snd r = Some e /\ unwrap e = EFormat raw
                | OWrite out _ => snd r = None /\ wlog (fst r) = [(out, false)]
                end).
  { destruct m as [[t raw]|msg]; cbn [phase1_matches outcome_of] in *.
    - destruct Hm as (st & k & E & Hraw). rewrite E in Hs. cbv zeta in Hs. rewrite Hraw in Hs.
      unfold emit. cbn [andb] in Hs. destruct noformat.
      + destruct Hs as (st' & -> & Hw & _). unfold sub_ok, sub_of. cbn [fst snd]. rewrite Hw. split; eauto.
      + destruct (fmt raw) as [o|].
        * destruct Hs as (st' & -> & Hw & _). unfold sub_ok, sub_of. cbn [fst snd]. rewrite Hw. split; eauto.
        * destruct Hs as (e & st' & -> & He & Hw & _). unfold sub_ok, sub_of. cbn [fst snd]. split; eauto.
    - destruct Hm as (st & E). rewrite E in Hs. destruct Hs as (-> & Hw & _).
      unfold sub_ok, sub_of. cbn [fst snd]. split; eauto. }
  destruct Hok as [Hok Hcase].
  pose proof (save_sound orc' noformat fmt (fun _ => false) fsfail strval (sub_of r) _ _ _ _ Hsp Hok) as Hsv.
  change (snd (sub_of r 1)) with (snd r) in Hsv. change (fst (sub_of r 1)) with (wlog (fst r)) in Hsv.
  destruct (outcome_of fmt (fun _ => false) noformat m) as [msg|raw|out fl].
  - destruct Hcase as (e & He & Hu). rewrite He in Hsv. destruct Hsv as (st & -> & Hf).
    unfold abs_save. cbn [fst snd]. rewrite Hf, Hu. reflexivity.
  - destruct Hcase as (e & He & Hu). rewrite He in Hsv. destruct Hsv as (st & -> & Hf).
    unfold abs_save. cbn [fst snd]. rewrite Hf, Hu. reflexivity.
  - destruct Hcase as (He & Hw). rewrite He in Hsv.
    destruct Hsv as (fn & o & st & _ & Ho & -> & Hf);
      rewrite Hw in Ho; injection Ho as <-; unfold abs_save; cbn [fst snd]; rewrite Hf;
      destruct (fsfail (strval path)); reflexivity.
Qed.

(* ------------------------------------------------------------------ the regenerated table *)
From Jen Require Import Gen.IO.

(* the body of the entry that does the work for [name]: [name]'s own, or that of the entry it
   delegates to (an unexported helper that was handed the writer) *)
Definition body_of (name : str) : list stmt :=
  match resolve io_entries (length io_entries) name with Some e => e_body e | None => [] end.
(* the body of [name] itself *)
Definition own_body_of (name : str) : list stmt :=
  match find_entry io_entries name with Some e => e_body e | None => [] end.
Definition pre_of (body : list stmt) : list stmt :=
  match io_parts body with Some (pre, _, _, _) => pre | None => [] end.
Definition src_of (body : list stmt) : str :=
  match io_parts body with Some (_, _, src, _) => src | None => [] end.
Definition path_of (name : str) : str :=
  match find_entry io_entries name with Some e => e_path e | None => [] end.

Definition n_file_render := S "(*File).Render".
Definition n_file_save := S "(*File).Save".
Definition n_stmt_rwf := S "(*Statement).RenderWithFile".
Definition n_group_rwf := S "(*Group).RenderWithFile".
Definition n_stmt_render := S "(*Statement).Render".
Definition n_group_render := S "(*Group).Render".

(* the six entry points exist with the expected kinds (an entry expected to be an EWriter may
   also delegate to one), and every entry of the table (these and any other exported function
   with a writer parameter or an os call that may be added later, and every unexported function
   that is handed the caller's writer) passes its checker *)
Definition expected_entries : list (str * ekind) :=
  [(n_file_render, EWriter); (n_stmt_rwf, EWriter); (n_group_rwf, EWriter);
   (n_stmt_render, EDelegate); (n_group_render, EDelegate); (n_file_save, EFileSys)].
Definition ekind_eqb (a b : ekind) : bool :=
  match a, b with EWriter, EWriter | EFileSys, EFileSys | EDelegate, EDelegate => true | _, _ => false end.
Definition entries_present : bool :=
  forallb (fun ne => match find_entry io_entries (fst ne) with
                     | Some e =>
                       ekind_eqb (e_kind e) (snd ne) ||
                       match snd ne, resolve io_entries (length io_entries) (fst ne) with
                       | EWriter, Some e' => ekind_eqb (e_kind e') EWriter
                       | _, _ => false
                       end
                     | None => false end) expected_entries.

Lemma io_table_ok : table_wf io_entries = true /\ entries_present = true.
Proof. vm_compute. split; reflexivity. Qed.

(* the translator found nothing in package jen, outside the entry points, that could reach the
   caller's writer or the file system (its whole-package confinement scan; see the header of
   Props/C10_shape.v), and no place where package jen itself writes the field that
   `if f.NoFormat` reads ([noformat] is a constant of [run]) *)
Lemma io_confined_ok : io_confinement = [] /\ io_noformat_writes = [].
Proof. vm_compute. split; reflexivity. Qed.

Lemma delegates_ok :
  delegate_target (own_body_of n_stmt_render) = Some n_stmt_rwf /\
  delegate_target (own_body_of n_group_render) = Some n_group_rwf.
Proof. vm_compute. split; reflexivity. Qed.

Lemma file_render_shape :
  exists pre x src, io_parts (body_of n_file_render) = Some (pre, x, src, true) /\ forallb local_ok pre = true.
Proof. vm_compute. do 3 eexists. split; reflexivity. Qed.
Lemma stmt_rwf_shape :
  exists pre x src, io_parts (body_of n_stmt_rwf) = Some (pre, x, src, false) /\ forallb local_ok pre = true.
Proof. vm_compute. do 3 eexists. split; reflexivity. Qed.
Lemma group_rwf_shape :
  exists pre x src, io_parts (body_of n_group_rwf) = Some (pre, x, src, false) /\ forallb local_ok pre = true.
Proof. vm_compute. do 3 eexists. split; reflexivity. Qed.
Lemma file_save_shape :
  exists b, save_parts (path_of n_file_save) (body_of n_file_save) = Some (n_file_render, b).
Proof. vm_compute. eexists. reflexivity. Qed.

Section Refine.
  Variable orc : nat -> oans.
  Variable fmt : str -> option str.
  Variable wfail : nat -> bool.
  Variable fsfail : str -> bool.
  Variable strval : str -> str.
  Variable sub : nat -> list (str * bool) * option error.

  Lemma file_render_refines f :
    phase1_matches (run orc (f_noformat f) fmt wfail fsfail strval sub
                        (block (pre_of (body_of n_file_render))) st0 0)
                   (src_of (body_of n_file_render)) (file_raw f) ->
    abs_outcome (call orc (f_noformat f) fmt wfail fsfail strval sub (body_of n_file_render)) =
    Some (snd (file_render fmt wfail f)).
  Proof.
    destruct file_render_shape as (pre & x & src & Hp & Hl). unfold pre_of, src_of. rewrite Hp.
    intros Hm. rewrite (io_refines _ _ _ _ _ _ _ _ _ _ _ _ _ _ Hp Hl Hm). cbn [andb].
    unfold file_render, outcome_of. destruct (file_raw f) as [[t raw]|m]; reflexivity.
  Qed.

  Lemma code_rwf_refines name noformat c f :
    (exists pre x src, io_parts (body_of name) = Some (pre, x, src, false) /\ forallb local_ok pre = true) ->
    phase1_matches (run orc noformat fmt wfail fsfail strval sub (block (pre_of (body_of name))) st0 0)
                   (src_of (body_of name)) (render (file_cfg f) false (f_imports f) c) ->
    abs_outcome (call orc noformat fmt wfail fsfail strval sub (body_of name)) =
    Some (snd (code_render_with_file fmt wfail c f)).
  Proof.
    intros (pre & x & src & Hp & Hl). unfold pre_of, src_of. rewrite Hp.
    intros Hm. rewrite (io_refines _ _ _ _ _ _ _ _ _ _ _ _ _ _ Hp Hl Hm). cbn [andb].
    unfold code_render_with_file, outcome_of.
    destruct (render (file_cfg f) false (f_imports f) c) as [[t raw]|m]; reflexivity.
  Qed.

  Lemma file_save_refines orc' f :
    phase1_matches (run orc (f_noformat f) fmt (fun _ => false) fsfail strval sub
                        (block (pre_of (body_of n_file_render))) st0 0)
                   (src_of (body_of n_file_render)) (file_raw f) ->
    abs_save (call orc' (f_noformat f) fmt (fun _ => false) fsfail strval
                   (sub_of (call orc (f_noformat f) fmt (fun _ => false) fsfail strval sub (body_of n_file_render)))
                   (body_of n_file_save)) =
    Some (snd (file_save fmt fsfail f (strval (path_of n_file_save)))).
  Proof.
    destruct file_render_shape as (pre & x & src & Hp & Hl). destruct file_save_shape as (b & Hs).
    unfold pre_of, src_of. rewrite Hp. intros Hm.
    rewrite (save_refines _ _ _ _ _ _ _ _ _ _ _ _ _ _ _ _ _ Hs Hp Hl Hm).
    unfold file_save, file_render, outcome_of. destruct (file_raw f) as [[t raw]|m]; [|reflexivity].
    unfold emit. destruct (f_noformat f); [reflexivity|]. destruct (fmt raw); reflexivity.
  Qed.
End Refine.

(* the hypothesis [phase1_matches] is satisfiable for every model result: an oracle whose
   renders produce the model's text (or panic with the model's message).  The step at which
   the text is produced is FOUND by probing, so that the lemma survives harmless changes of
   the event list. *)
Definition quiet_orc (K : nat) (txt : str) : nat -> oans :=
  fun k => mkoans None (if Nat.eqb k K then txt else []) 0 false.
Definition panic_orc (m : str) : nat -> oans := fun _ => mkoans (Some (EPanic m)) [] 0 false.
Definition no_sub : nat -> list (str * bool) * option error := fun _ => ([], None).
Definition probe (body : list stmt) (K : nat) : bool :=
  match run (quiet_orc K [x2a]) false (fun s => Some s) (fun _ => false) (fun _ => false) (fun s => s) no_sub
            (block (pre_of body)) st0 0 with
  | Normal st _ => str_eqb (getb (src_of body) st) [x2a]
  | _ => false
  end.
Definition probe_step (body : list stmt) : nat :=
  match find (probe body) (seq 0 64) with Some K => K | None => 0 end.

Lemma phase1_inhabited_file_render T noformat fmt wfail fsfail strval (m : result (T * str)) :
  exists orc, phase1_matches (run orc noformat fmt wfail fsfail strval no_sub
                                  (block (pre_of (body_of n_file_render))) st0 0)
                             (src_of (body_of n_file_render)) m.
Proof.
  destruct m as [[t raw]|msg].
  - let k := eval vm_compute in (probe_step (body_of n_file_render)) in exists (quiet_orc k raw).
    cbn [phase1_matches].
    let p := eval vm_compute in (pre_of (body_of n_file_render)) in change (pre_of (body_of n_file_render)) with p.
    let p := eval vm_compute in (src_of (body_of n_file_render)) in change (src_of (body_of n_file_render)) with p.
    lazy -[app]. do 2 eexists. split; [reflexivity|]. cbn [app]. rewrite ?app_nil_r. reflexivity.
  - exists (panic_orc msg). cbn [phase1_matches].
    let p := eval vm_compute in (pre_of (body_of n_file_render)) in change (pre_of (body_of n_file_render)) with p.
    lazy. eexists. reflexivity.
Qed.

Lemma phase1_inhabited_stmt_rwf T noformat fmt wfail fsfail strval (m : result (T * str)) :
  exists orc, phase1_matches (run orc noformat fmt wfail fsfail strval no_sub
                                  (block (pre_of (body_of n_stmt_rwf))) st0 0)
                             (src_of (body_of n_stmt_rwf)) m.
Proof.
  destruct m as [[t raw]|msg].
  - let k := eval vm_compute in (probe_step (body_of n_stmt_rwf)) in exists (quiet_orc k raw).
    cbn [phase1_matches].
    let p := eval vm_compute in (pre_of (body_of n_stmt_rwf)) in change (pre_of (body_of n_stmt_rwf)) with p.
    let p := eval vm_compute in (src_of (body_of n_stmt_rwf)) in change (src_of (body_of n_stmt_rwf)) with p.
    lazy -[app]. do 2 eexists. split; [reflexivity|]. cbn [app]. rewrite ?app_nil_r. reflexivity.
  - exists (panic_orc msg). cbn [phase1_matches].
    let p := eval vm_compute in (pre_of (body_of n_stmt_rwf)) in change (pre_of (body_of n_stmt_rwf)) with p.
    lazy. eexists. reflexivity.
Qed.

Lemma phase1_inhabited_group_rwf T noformat fmt wfail fsfail strval (m : result (T * str)) :
  exists orc, phase1_matches (run orc noformat fmt wfail fsfail strval no_sub
                                  (block (pre_of (body_of n_group_rwf))) st0 0)
                             (src_of (body_of n_group_rwf)) m.
Proof.
  destruct m as [[t raw]|msg].
  - let k := eval vm_compute in (probe_step (body_of n_group_rwf)) in exists (quiet_orc k raw).
    cbn [phase1_matches].
    let p := eval vm_compute in (pre_of (body_of n_group_rwf)) in change (pre_of (body_of n_group_rwf)) with p.
    let p := eval vm_compute in (src_of (body_of n_group_rwf)) in change (src_of (body_of n_group_rwf)) with p.
    lazy -[app]. do 2 eexists. split; [reflexivity|]. cbn [app]. rewrite ?app_nil_r. reflexivity.
  - exists (panic_orc msg). cbn [phase1_matches].
    let p := eval vm_compute in (pre_of (body_of n_group_rwf)) in change (pre_of (body_of n_group_rwf)) with p.
    lazy. eexists. reflexivity.
Qed.
