(* Lemmas about the slice-level model (Model/Heap.v): well-formedness and the no-shared-array
   invariant, refinement of the abstract list model by every history under every growth
   policy, and its consequences for Clone isolation (C20). *)
From Jen Require Import Model.Heap Model.Render Model.FileRender.
From Coq Require Import ZifyBool ZifyNat ZifyN Lia.
Local Open Scope N_scope.

(* ---------- association lists ---------- *)
Lemma nget_nset {A} (m : list (N * A)) k x k' :
  nget (nset m k x) k' = if k =? k' then Some x else nget m k'.
Proof.
  induction m as [|[j y] m IH]; cbn [nset nget].
  - destruct (k =? k'); reflexivity.
  - destruct (j =? k) eqn:E; cbn [nget].
    + apply N.eqb_eq in E. subst j. destruct (k =? k'); reflexivity.
    + destruct (j =? k') eqn:E2.
      * apply N.eqb_eq in E2. subst j. rewrite N.eqb_sym, E. reflexivity.
      * exact IH.
Qed.

Lemma firstn_app_exact {A} (l1 l2 : list A) n : length l1 = n -> firstn n (l1 ++ l2) = l1.
Proof.
  intros <-. rewrite firstn_app, Nat.sub_diag, firstn_all. cbn [firstn]. apply app_nil_r.
Qed.

(* ---------- well-formed heaps and the invariant ---------- *)
Definition hdr_ok (h : heap) (v : var) (hd : header) : Prop :=
  v < hp_nvars h /\ h_arr hd < hp_narrs h /\ (h_len hd <= h_cap hd)%nat /\
  exists a, nget (hp_arrs h) (h_arr hd) = Some a /\ length a = h_cap hd.

Definition wf (h : heap) : Prop :=
  (forall v hd, nget (hp_vars h) v = Some hd -> hdr_ok h v hd) /\
  (forall v, v < hp_nvars h -> nget (hp_vars h) v <> None).

(* no two live statement variables' headers reference the same array *)
Definition Inv_no_shared_array (h : heap) : Prop :=
  forall v1 v2 hd1 hd2,
    nget (hp_vars h) v1 = Some hd1 -> nget (hp_vars h) v2 = Some hd2 ->
    h_arr hd1 = h_arr hd2 -> v1 = v2.

Definition grow_ok (grow : nat -> nat -> nat) : Prop := forall c n, (n <= grow c n)%nat.

Lemma wf_empty : wf empty_heap.
Proof. split; cbn; intros; [discriminate | lia]. Qed.

Lemma inv_empty : Inv_no_shared_array empty_heap.
Proof. intros v1 v2 hd1 hd2 H. discriminate H. Qed.

(* every operation has this shape: variable [v] gets header [hd'], whose array gets [a'] *)
Lemma upd_spec h v hd' a' nv na :
  wf h -> Inv_no_shared_array h ->
  hp_nvars h <= nv -> hp_narrs h <= na -> v < nv -> h_arr hd' < na ->
  (h_len hd' <= h_cap hd')%nat -> length a' = h_cap hd' ->
  (forall w hdw, nget (hp_vars h) w = Some hdw -> w <> v -> h_arr hdw <> h_arr hd') ->
  (forall w, w < nv -> w <> v -> w < hp_nvars h) ->
  let h' := mkheap (nset (hp_vars h) v hd') (nset (hp_arrs h) (h_arr hd') a') nv na in
  wf h' /\ Inv_no_shared_array h' /\
  forall w, view h' w = if v =? w then Some (firstn (h_len hd') a') else view h w.
Proof.
  intros [Hwf1 Hwf2] Hinv Hnv Hna Hv Harr Hlen Hla Hother Hbelow h'.
  assert (Hget : forall w, nget (hp_vars h') w = if v =? w then Some hd' else nget (hp_vars h) w).
  { intros w. unfold h'. cbn [hp_vars]. apply nget_nset. }
  assert (Harrs : forall k, nget (hp_arrs h') k = if h_arr hd' =? k then Some a' else nget (hp_arrs h) k).
  { intros k. unfold h'. cbn [hp_arrs]. apply nget_nset. }
  split; [split|split].
  - intros w hd Hw. rewrite Hget in Hw. unfold hdr_ok. unfold h' at 1 2. cbn [hp_nvars hp_narrs].
    destruct (v =? w) eqn:E.
    + apply N.eqb_eq in E. subst w. injection Hw as <-.
      repeat split; try assumption. exists a'. rewrite Harrs, N.eqb_refl. split; [reflexivity | assumption].
    + apply N.eqb_neq in E.
      destruct (Hwf1 _ _ Hw) as (H1 & H2 & H3 & a & H4 & H5).
      repeat split; try lia. exists a. rewrite Harrs.
      assert (Hne : h_arr hd <> h_arr hd') by (apply (Hother w); [assumption | congruence]).
      destruct (h_arr hd' =? h_arr hd) eqn:E2; [apply N.eqb_eq in E2; congruence|].
      split; assumption.
  - intros w Hw. unfold h' in Hw. cbn [hp_nvars] in Hw. rewrite Hget.
    destruct (v =? w) eqn:E; [discriminate|].
    apply N.eqb_neq in E. apply Hwf2. apply Hbelow; [assumption | congruence].
  - intros v1 v2 hd1 hd2 H1 H2 Heq. rewrite Hget in H1, H2.
    destruct (v =? v1) eqn:E1, (v =? v2) eqn:E2.
    + apply N.eqb_eq in E1, E2. congruence.
    + apply N.eqb_eq in E1. apply N.eqb_neq in E2. injection H1 as <-.
      exfalso. apply (Hother v2 hd2); [assumption | congruence | congruence].
    + apply N.eqb_neq in E1. apply N.eqb_eq in E2. injection H2 as <-.
      exfalso. apply (Hother v1 hd1); [assumption | congruence | congruence].
    + apply (Hinv v1 v2 hd1 hd2); assumption.
  - intros w. unfold view. rewrite Hget.
    destruct (v =? w) eqn:E.
    + rewrite Harrs, N.eqb_refl. reflexivity.
    + apply N.eqb_neq in E. destruct (nget (hp_vars h) w) as [hdw|] eqn:Ew; [|reflexivity].
      rewrite Harrs.
      assert (Hne : h_arr hdw <> h_arr hd') by (apply (Hother w); [assumption | congruence]).
      destruct (h_arr hd' =? h_arr hdw) eqn:E2; [apply N.eqb_eq in E2; congruence | reflexivity].
Qed.

Lemma bound_lt h v : wf h -> bound h v = true -> v < hp_nvars h.
Proof.
  intros [Hwf1 _]. unfold bound. destruct (nget (hp_vars h) v) as [hd|] eqn:E; [|discriminate].
  intros _. apply (Hwf1 _ _ E).
Qed.

Lemma bound_view h v : wf h -> bound h v = true <-> view h v <> None.
Proof.
  intros [Hwf1 _]. unfold bound, view. destruct (nget (hp_vars h) v) as [hd|] eqn:E.
  - destruct (Hwf1 _ _ E) as (_ & _ & _ & a & Ha & _). rewrite Ha. split; [discriminate | reflexivity].
  - split; [discriminate | congruence].
Qed.

Lemma new_spec h :
  wf h -> Inv_no_shared_array h ->
  let h' := new_stmt h in
  wf h' /\ Inv_no_shared_array h' /\ hp_nvars h' = hp_nvars h + 1 /\
  forall w, view h' w = if hp_nvars h =? w then Some [] else view h w.
Proof.
  intros Hwf Hinv h'.
  destruct (upd_spec h (hp_nvars h) (mkhdr (hp_narrs h) 0 0) [] (hp_nvars h + 1) (hp_narrs h + 1))
    as (H1 & H2 & H3); try assumption; cbn [h_arr h_len h_cap length]; try lia.
  - intros w hdw Hw _. destruct Hwf as [Hwf1 _]. destruct (Hwf1 _ _ Hw) as (_ & Hlt & _). lia.
  - split; [exact H1|]. split; [exact H2|]. split; [reflexivity | exact H3].
Qed.

Lemma clone_wrap_spec h v :
  wf h -> Inv_no_shared_array h ->
  let h' := clone_wrap h v in
  wf h' /\ Inv_no_shared_array h' /\
  hp_nvars h' = (if bound h v then hp_nvars h + 1 else hp_nvars h) /\
  forall w, view h' w = if bound h v && (hp_nvars h =? w) then Some [IRef v] else view h w.
Proof.
  intros Hwf Hinv h'. unfold h', clone_wrap. destruct (bound h v) eqn:Eb.
  - destruct (upd_spec h (hp_nvars h) (mkhdr (hp_narrs h) 1 1) [IRef v] (hp_nvars h + 1) (hp_narrs h + 1))
      as (H1 & H2 & H3); try assumption; cbn [h_arr h_len h_cap length]; try lia.
    + intros w hdw Hw _. destruct Hwf as [Hwf1 _]. destruct (Hwf1 _ _ Hw) as (_ & Hlt & _). lia.
    + split; [exact H1|]. split; [exact H2|]. split; [reflexivity | exact H3].
  - split; [exact Hwf|]. split; [exact Hinv|]. split; reflexivity.
Qed.

Lemma append_spec grow h v xs :
  grow_ok grow -> wf h -> Inv_no_shared_array h ->
  let h' := append grow h v xs in
  wf h' /\ Inv_no_shared_array h' /\ hp_nvars h' = hp_nvars h /\
  forall w, view h' w =
            match view h v with
            | Some l => if v =? w then Some (l ++ xs) else view h w
            | None => view h w
            end.
Proof.
  intros Hg Hwf Hinv h'. unfold h', append.
  destruct (nget (hp_vars h) v) as [hd|] eqn:Ev.
  2:{ split; [exact Hwf|]. split; [exact Hinv|]. split; [reflexivity|].
      intros w. unfold view at 2. rewrite Ev. reflexivity. }
  pose proof Hwf as [Hwf1 Hwf2].
  destruct (Hwf1 _ _ Ev) as (Hv & Ha & Hlen & a & Ea & Hla).
  rewrite Ea.
  assert (Hview : view h v = Some (firstn (h_len hd) a)) by (unfold view; rewrite Ev, Ea; reflexivity).
  rewrite Hview.
  assert (Hfl : length (firstn (h_len hd) a) = h_len hd) by (rewrite firstn_length; lia).
  destruct (h_len hd + length xs <=? h_cap hd)%nat eqn:Ecmp.
  - (* in place *)
    apply Nat.leb_le in Ecmp.
    destruct (upd_spec h v (mkhdr (h_arr hd) (h_len hd + length xs) (h_cap hd))
                       (write_at a (h_len hd) xs) (hp_nvars h) (hp_narrs h))
      as (H1 & H2 & H3); try assumption; cbn [h_arr h_len h_cap]; try lia.
    + unfold write_at. rewrite !app_length, skipn_length. lia.
    + intros w hdw Hw Hne Heq. apply Hne. apply (Hinv w v hdw hd); assumption.
    + cbn [h_arr h_len h_cap] in H3. split; [exact H1|]. split; [exact H2|]. split; [reflexivity|].
      intros w. rewrite H3. destruct (v =? w); [|reflexivity].
      unfold write_at. rewrite app_assoc. rewrite firstn_app_exact; [reflexivity|].
      rewrite app_length. lia.
  - (* fresh array *)
    apply Nat.leb_gt in Ecmp.
    pose proof (Hg (h_cap hd) (h_len hd + length xs)%nat) as Hgrow.
    destruct (upd_spec h v (mkhdr (hp_narrs h) (h_len hd + length xs) (grow (h_cap hd) (h_len hd + length xs)%nat))
                       (firstn (h_len hd) a ++ xs ++
                        repeat zero_item (grow (h_cap hd) (h_len hd + length xs)%nat - (h_len hd + length xs)))
                       (hp_nvars h) (hp_narrs h + 1))
      as (H1 & H2 & H3); try assumption; cbn [h_arr h_len h_cap]; try lia.
    + rewrite !app_length, repeat_length. lia.
    + intros w hdw Hw _. destruct (Hwf1 _ _ Hw) as (_ & Hlt & _). lia.
    + cbn [h_arr h_len h_cap] in H3. split; [exact H1|]. split; [exact H2|]. split; [reflexivity|].
      intros w. rewrite H3. destruct (v =? w); [|reflexivity].
      rewrite app_assoc. rewrite firstn_app_exact; [reflexivity|].
      rewrite app_length. lia.
Qed.

(* ---------- the abstract model ---------- *)
Definition aok (a : astate) : Prop :=
  (forall v, nget (a_vars a) v <> None <-> v < a_n a) /\
  (forall v s p, nget (a_vars a) v = Some s -> a_parent s = Some p -> p < v).

Lemma aok_empty : aok empty_astate.
Proof. split; cbn. - intros v. split; [congruence | lia]. - intros; discriminate. Qed.

Lemma astep_spec a o :
  aok a ->
  let a' := astep a o in
  aok a' /\
  match o with
  | ONew =>
    a_n a' = a_n a + 1 /\ forall w, aview a' w = if a_n a =? w then Some [] else aview a w
  | OAppend v cs =>
    a_n a' = a_n a /\
    forall w, aview a' w = match aview a v with
                           | Some l => if v =? w then Some (l ++ map ICode cs) else aview a w
                           | None => aview a w
                           end
  | OClone v =>
    a_n a' = (if aview a v then a_n a + 1 else a_n a) /\
    forall w, aview a' w = match aview a v with
                           | Some _ => if a_n a =? w then Some [IRef v] else aview a w
                           | None => aview a w
                           end
  end.
Proof.
  intros [Hb Hp] a'. unfold a'. destruct o as [|v cs|v]; cbn [astep].
  - split; [split|split].
    + intros w. cbn [a_vars a_n]. rewrite nget_nset. destruct (a_n a =? w) eqn:E.
      * apply N.eqb_eq in E. split; [lia | discriminate].
      * apply N.eqb_neq in E. rewrite Hb. lia.
    + intros w s p. cbn [a_vars]. rewrite nget_nset. destruct (a_n a =? w) eqn:E.
      * intros H. injection H as <-. cbn. discriminate.
      * apply Hp.
    + reflexivity.
    + intros w. unfold aview. cbn [a_vars]. rewrite nget_nset. destruct (a_n a =? w); reflexivity.
  - unfold aview. destruct (nget (a_vars a) v) as [s|] eqn:Ev.
    2:{ split; [split; assumption|]. split; reflexivity. }
    split; [split|split].
    + intros w. cbn [a_vars a_n]. rewrite nget_nset. destruct (v =? w) eqn:E.
      * apply N.eqb_eq in E. subst w. rewrite <- Hb, Ev. split; discriminate.
      * apply Hb.
    + intros w s' p. cbn [a_vars]. rewrite nget_nset. destruct (v =? w) eqn:E.
      * apply N.eqb_eq in E. subst w. intros H. injection H as <-. cbn [a_parent]. apply (Hp v s p Ev).
      * apply Hp.
    + reflexivity.
    + intros w. cbn [a_vars]. rewrite nget_nset. destruct (v =? w); [|reflexivity].
      unfold alist. cbn [a_parent a_own]. rewrite map_app, app_assoc. reflexivity.
  - unfold aview. destruct (nget (a_vars a) v) as [s|] eqn:Ev.
    2:{ split; [split; assumption|]. split; reflexivity. }
    assert (Hv : v < a_n a) by (apply Hb; congruence).
    split; [split|split].
    + intros w. cbn [a_vars a_n]. rewrite nget_nset. destruct (a_n a =? w) eqn:E.
      * apply N.eqb_eq in E. split; [lia | discriminate].
      * apply N.eqb_neq in E. rewrite Hb. lia.
    + intros w s' p. cbn [a_vars]. rewrite nget_nset. destruct (a_n a =? w) eqn:E.
      * apply N.eqb_eq in E. intros H. injection H as <-. cbn [a_parent]. intros H. injection H as <-. lia.
      * apply Hp.
    + reflexivity.
    + intros w. cbn [a_vars]. rewrite nget_nset. destruct (a_n a =? w); reflexivity.
Qed.

(* ---------- refinement ---------- *)
Definition refines (h : heap) (a : astate) : Prop :=
  hp_nvars h = a_n a /\ forall v, view h v = aview a v.

Definition good (h : heap) (a : astate) : Prop :=
  wf h /\ Inv_no_shared_array h /\ refines h a /\ aok a.

Lemma good_empty : good empty_heap empty_astate.
Proof.
  split; [apply wf_empty|]. split; [apply inv_empty|]. split; [|apply aok_empty].
  split; reflexivity.
Qed.

Lemma bound_aview h a v : wf h -> refines h a -> bound h v = match aview a v with Some _ => true | None => false end.
Proof.
  intros Hwf [_ Hr]. rewrite <- Hr. pose proof (bound_view h v Hwf) as Hb.
  destruct (bound h v), (view h v); try reflexivity.
  - exfalso. apply (proj1 Hb eq_refl). reflexivity.
  - apply (proj2 Hb). discriminate.
Qed.

Lemma good_step grow h a o :
  grow_ok grow -> good h a -> good (step grow clone_wrap h o) (astep a o).
Proof.
  intros Hg (Hwf & Hinv & [Hn Hr] & Hok).
  pose proof (astep_spec a o Hok) as Hs. cbv zeta in Hs. destruct Hs as [Hok' Ha].
  destruct o as [|v cs|v]; cbn [step].
  - destruct (new_spec h Hwf Hinv) as (H1 & H2 & H3 & H4). destruct Ha as [Ha1 Ha2].
    split; [exact H1|]. split; [exact H2|]. split; [|exact Hok']. split.
    + rewrite H3, Ha1, Hn. reflexivity.
    + intros w. rewrite H4, Ha2, Hn, Hr. reflexivity.
  - destruct (append_spec grow h v (map ICode cs) Hg Hwf Hinv) as (H1 & H2 & H3 & H4). destruct Ha as [Ha1 Ha2].
    split; [exact H1|]. split; [exact H2|]. split; [|exact Hok']. split.
    + rewrite H3, Ha1, Hn. reflexivity.
    + intros w. rewrite H4, Ha2, !Hr. reflexivity.
  - destruct (clone_wrap_spec h v Hwf Hinv) as (H1 & H2 & H3 & H4). destruct Ha as [Ha1 Ha2].
    pose proof (bound_aview h a v Hwf (conj Hn Hr)) as Hb.
    split; [exact H1|]. split; [exact H2|]. split; [|exact Hok']. split.
    + rewrite H3, Ha1, Hb, Hn. destruct (aview a v); reflexivity.
    + intros w. rewrite H4, Ha2, Hb, Hn, Hr. destruct (aview a v); reflexivity.
Qed.

Lemma good_run_from grow ops : forall h a,
  grow_ok grow -> good h a -> good (run_from grow clone_wrap h ops) (arun_from a ops).
Proof.
  induction ops as [|o ops IH]; intros h a Hg H; [exact H|].
  cbn [run_from arun_from fold_left]. apply IH; [assumption|]. apply good_step; assumption.
Qed.

Lemma good_run grow ops : grow_ok grow -> good (run grow clone_wrap ops) (arun ops).
Proof. intros Hg. apply good_run_from; [assumption | apply good_empty]. Qed.

Lemma run_app grow clone ops ops2 :
  run grow clone (ops ++ ops2) = run_from grow clone (run grow clone ops) ops2.
Proof. unfold run, run_from. apply fold_left_app. Qed.

Lemma arun_app ops ops2 : arun (ops ++ ops2) = arun_from (arun ops) ops2.
Proof. unfold arun, arun_from. apply fold_left_app. Qed.

(* ---------- resolve / reach ---------- *)
Lemma resolve_ext g1 g2 fuel : forall v, (forall u, g1 u = g2 u) -> resolve g1 fuel v = resolve g2 fuel v.
Proof.
  induction fuel as [|f IH]; intros v H; [reflexivity|].
  cbn [resolve]. rewrite <- H. destruct (g1 v) as [its|]; [|reflexivity].
  f_equal. apply map_ext. intros [c|w]; [reflexivity | apply IH; assumption].
Qed.

Lemma resolve_agree g1 g2 fuel : forall v,
  (forall u, In u (reach g1 fuel v) -> g1 u = g2 u) -> resolve g1 fuel v = resolve g2 fuel v.
Proof.
  induction fuel as [|f IH]; intros v H; [reflexivity|].
  cbn [resolve]. rewrite <- (H v) by (cbn [reach]; left; reflexivity).
  destruct (g1 v) as [its|] eqn:Ev; [|reflexivity].
  f_equal. apply map_ext_in. intros [c|w] Hin; [reflexivity|].
  apply IH. intros u Hu. apply H. cbn [reach]. right. rewrite Ev.
  apply in_flat_map. exists w. split; [|assumption].
  unfold refs_of. apply in_flat_map. exists (IRef w). split; [assumption | left; reflexivity].
Qed.

(* references point to strictly older variables *)
Definition refs_older (g : var -> option (list item)) : Prop :=
  forall v its p, g v = Some its -> In (IRef p) its -> p < v.

Lemma in_refs_of w its : In w (refs_of its) <-> In (IRef w) its.
Proof.
  unfold refs_of. rewrite in_flat_map. split.
  - intros ([c|u] & H1 & H2); cbn in H2; [contradiction|]. destruct H2 as [<-|[]]. assumption.
  - intros H. exists (IRef w). split; [assumption | left; reflexivity].
Qed.

Lemma reach_le g fuel : refs_older g -> forall v u, In u (reach g fuel v) -> u <= v.
Proof.
  intros Hg. induction fuel as [|f IH]; intros v u H; [contradiction|].
  cbn [reach] in H. destruct H as [<-|H]; [lia|].
  destruct (g v) as [its|] eqn:Ev; [|contradiction].
  apply in_flat_map in H. destruct H as (w & Hw & Hu).
  apply in_refs_of in Hw. pose proof (Hg _ _ _ Ev Hw). pose proof (IH _ _ Hu). lia.
Qed.

Lemma resolve_fuel g : refs_older g -> forall f1 f2 v,
  (N.to_nat v < f1)%nat -> (N.to_nat v < f2)%nat -> resolve g f1 v = resolve g f2 v.
Proof.
  intros Hg. induction f1 as [|f1 IH]; intros f2 v H1 H2; [lia|].
  destruct f2 as [|f2]; [lia|]. cbn [resolve].
  destruct (g v) as [its|] eqn:Ev; [|reflexivity].
  f_equal. apply map_ext_in. intros [c|w] Hin; [reflexivity|].
  pose proof (Hg _ _ _ Ev Hin). apply IH; lia.
Qed.

Lemma aok_refs_older a : aok a -> refs_older (aview a).
Proof.
  intros [_ Hp] v its p H Hin. unfold aview in H.
  destruct (nget (a_vars a) v) as [s|] eqn:Ev; [|discriminate]. injection H as <-.
  unfold alist in Hin. apply in_app_or in Hin. destruct Hin as [Hin|Hin].
  - destruct (a_parent s) as [q|] eqn:Eq; [|contradiction].
    destruct Hin as [Hin|[]]. injection Hin as ->. apply (Hp v s p Ev Eq).
  - apply in_map_iff in Hin. destruct Hin as (c & Hc & _). discriminate.
Qed.

Lemma good_refs_older h a : good h a -> refs_older (view h).
Proof.
  intros (_ & _ & [_ Hr] & Hok) v its p H. rewrite Hr in H. revert H. apply aok_refs_older. assumption.
Qed.

Lemma aview_bound a v : aok a -> (aview a v <> None <-> v < a_n a).
Proof.
  intros [Hb _]. rewrite <- Hb. unfold aview. destruct (nget (a_vars a) v); split; congruence.
Qed.

(* ---------- what later operations do to a bound variable ---------- *)
Lemma aview_later ops : forall a v l,
  aok a -> aview a v = Some l ->
  aview (arun_from a ops) v = Some (l ++ map ICode (appended_to v ops)).
Proof.
  induction ops as [|o ops IH]; intros a v l Hok Hv.
  - cbn. rewrite app_nil_r. assumption.
  - cbn [arun_from fold_left]. pose proof (astep_spec a o Hok) as [Hok' Ha].
    assert (Hlt : v < a_n a) by (apply aview_bound; [assumption | congruence]).
    assert (Hstep : aview (astep a o) v =
                    Some (l ++ map ICode (match o with OAppend w cs => if w =? v then cs else [] | _ => [] end))).
    { destruct o as [|w cs|w].
      - destruct Ha as [_ Ha]. rewrite Ha. destruct (a_n a =? v) eqn:E; [apply N.eqb_eq in E; lia|].
        cbn. rewrite app_nil_r. assumption.
      - destruct Ha as [_ Ha]. rewrite Ha. destruct (w =? v) eqn:E.
        + apply N.eqb_eq in E. subst w. rewrite Hv. reflexivity.
        + cbn. rewrite app_nil_r. destruct (aview a w); assumption.
      - destruct Ha as [_ Ha]. rewrite Ha. cbn. rewrite app_nil_r.
        destruct (aview a w); [|assumption].
        destruct (a_n a =? v) eqn:E; [apply N.eqb_eq in E; lia | assumption]. }
    specialize (IH (astep a o) v _ Hok' Hstep). unfold arun_from in IH. rewrite IH.
    cbn [appended_to flat_map]. rewrite map_app, app_assoc. reflexivity.
Qed.

Lemma appended_to_none v ops :
  (forall w cs, In (OAppend w cs) ops -> w <> v) -> appended_to v ops = [].
Proof.
  induction ops as [|o ops IH]; intros H; [reflexivity|].
  cbn [appended_to flat_map]. fold (appended_to v ops). rewrite IH by (intros w cs Hin; apply (H w cs); right; assumption).
  rewrite app_nil_r. destruct o as [|w cs|w]; try reflexivity.
  destruct (w =? v) eqn:E; [|reflexivity].
  apply N.eqb_eq in E. exfalso. apply (H w cs); [left; reflexivity | assumption].
Qed.

(* ---------- rendering a one-item statement that wraps a statement ---------- *)
Lemma render_stmt_eq cfg ctx t items :
  render cfg ctx t (CStmt items) = stmt_loop cfg (render cfg) items t true items.
Proof. reflexivity. Qed.

Lemma stmt_loop_cons cfg rec all t first c l :
  stmt_loop cfg rec all t first (c :: l) =
  if is_null cfg t c then stmt_loop cfg rec all t first l
  else bind (rec (case_ctx all c) t c) (fun r1 =>
       bind (stmt_loop cfg rec all (fst r1) false l) (fun r2 =>
       Ok (fst r2, (if first then [] else S " ") ++ snd r1 ++ snd r2))).
Proof. reflexivity. Qed.

Lemma stmt_loop_all_null cfg rec all t first l :
  forallb (is_null cfg t) l = true -> stmt_loop cfg rec all t first l = Ok (t, []).
Proof.
  induction l as [|c l IH]; intros H; [reflexivity|].
  cbn [forallb] in H. apply andb_true_iff in H. destruct H as [H1 H2].
  rewrite stmt_loop_cons, H1. apply IH. assumption.
Qed.

Lemma is_null_stmt_eq cfg t items : is_null cfg t (CStmt items) = forallb (is_null cfg t) items.
Proof. reflexivity. Qed.

Lemma render_wrap cfg ctx ctx' t xs :
  render cfg ctx t (CStmt [CStmt xs]) = render cfg ctx' t (CStmt xs).
Proof.
  rewrite (render_stmt_eq cfg ctx t [CStmt xs]), stmt_loop_cons.
  destruct (is_null cfg t (CStmt xs)) eqn:En.
  - rewrite is_null_stmt_eq in En. rewrite render_stmt_eq, (stmt_loop_all_null cfg (render cfg) xs t true xs En). reflexivity.
  - rewrite (render_stmt_eq cfg (case_ctx [CStmt xs] (CStmt xs)) t xs), (render_stmt_eq cfg ctx' t xs).
    destruct (stmt_loop cfg (render cfg) xs t true xs) as [[t1 s1]|m]; [|reflexivity].
    cbn. rewrite app_nil_r. reflexivity.
Qed.

Lemma is_null_wrap cfg t xs : is_null cfg t (CStmt [CStmt xs]) = is_null cfg t (CStmt xs).
Proof. rewrite (is_null_stmt_eq cfg t [CStmt xs]). cbn [forallb]. apply andb_true_r. Qed.

Lemma code_render_wrap fmt wfail xs :
  code_render fmt wfail (CStmt [CStmt xs]) = code_render fmt wfail (CStmt xs).
Proof.
  unfold code_render, code_render_with_file.
  rewrite (render_wrap _ false false _ xs). reflexivity.
Qed.

(* ---------- the C20 statements ---------- *)
Section C20.
  Variable grow : nat -> nat -> nat.
  Hypothesis Hgrow : grow_ok grow.

  Notation run := (run grow clone_wrap).

  Lemma inv_run ops : Inv_no_shared_array (run ops).
  Proof. apply (good_run grow ops Hgrow). Qed.

  Lemma refines_view ops v : view (run ops) v = aview (arun ops) v.
  Proof. destruct (good_run grow ops Hgrow) as (_ & _ & [_ H] & _). apply H. Qed.

  Lemma refines_lists ops v : snapshot (run ops) v = asnapshot (arun ops) v.
  Proof. unfold snapshot, asnapshot. apply resolve_ext. apply refines_view. Qed.

  Lemma nvars_run ops : hp_nvars (run ops) = a_n (arun ops).
  Proof. destruct (good_run grow ops Hgrow) as (_ & _ & [H _] & _). exact H. Qed.

  Lemma aok_run ops : aok (arun ops).
  Proof. apply (good_run grow ops Hgrow). Qed.

  Lemma bound_run ops v : bound (run ops) v = true <-> v < hp_nvars (run ops).
  Proof.
    destruct (good_run grow ops Hgrow) as (Hwf & _ & Hr & Hok).
    rewrite (bound_aview _ _ v Hwf Hr). destruct Hr as [Hn _]. rewrite Hn, <- (aview_bound _ v Hok).
    destruct (aview (arun ops) v); split; congruence.
  Qed.

  (* own items are never lost, altered or reordered, and nothing else is ever stored *)
  Lemma items_kept ops ops2 v l :
    view (run ops) v = Some l ->
    view (run (ops ++ ops2)) v = Some (l ++ map ICode (appended_to v ops2)).
  Proof.
    intros H. rewrite refines_view in *. rewrite arun_app.
    apply aview_later; [apply aok_run | assumption].
  Qed.

  Lemma frame ops ops2 v :
    bound (run ops) v = true ->
    (forall u, In u (ancestors (run ops) v) -> appended_to u ops2 = []) ->
    snapshot (run (ops ++ ops2)) v = snapshot (run ops) v.
  Proof.
    intros Hb Hno. symmetry. unfold snapshot. apply resolve_agree. intros u Hu.
    pose proof (good_refs_older _ _ (good_run grow ops Hgrow)) as Hold.
    pose proof (reach_le _ _ Hold _ _ Hu) as Hle.
    apply bound_run in Hb.
    assert (Hbu : bound (run ops) u = true) by (apply bound_run; lia).
    destruct (good_run grow ops Hgrow) as (Hwf & _ & _ & _).
    apply (bound_view _ _ Hwf) in Hbu. destruct (view (run ops) u) as [l|] eqn:Eu; [|congruence].
    rewrite (items_kept ops ops2 u l Eu). rewrite (Hno u Hu). cbn. rewrite app_nil_r. reflexivity.
  Qed.

  Lemma clones_are_younger ops c v : In v (ancestors (run ops) c) -> v <> c -> v < c.
  Proof.
    intros Hin Hne.
    pose proof (good_refs_older _ _ (good_run grow ops Hgrow)) as Hold.
    pose proof (reach_le _ _ Hold _ _ Hin). lia.
  Qed.

  Lemma original_unchanged ops ops2 v :
    bound (run ops) v = true ->
    (forall w cs, In (OAppend w cs) ops2 -> v < w) ->
    snapshot (run (ops ++ ops2)) v = snapshot (run ops) v.
  Proof.
    intros Hb Hy. apply frame; [assumption|]. intros u Hu.
    pose proof (good_refs_older _ _ (good_run grow ops Hgrow)) as Hold.
    pose proof (reach_le _ _ Hold _ _ Hu) as Hle.
    apply appended_to_none. intros w cs Hin. specialize (Hy w cs Hin). lia.
  Qed.

  Lemma snapshot_bound_stmt ops v :
    bound (run ops) v = true ->
    exists l, view (run ops) v = Some l /\
              snapshot (run ops) v =
              CStmt (map (fun it => match it with ICode c => c | IRef w => snapshot (run ops) w end) l).
  Proof.
    intros Hb. destruct (good_run grow ops Hgrow) as (Hwf & _ & _ & _).
    pose proof (good_refs_older _ _ (good_run grow ops Hgrow)) as Hold.
    apply (bound_view _ _ Hwf) in Hb. destruct (view (run ops) v) as [l|] eqn:Ev; [|congruence].
    exists l. split; [reflexivity|]. unfold snapshot at 1, var_fuel. cbn [resolve]. rewrite Ev.
    f_equal. apply map_ext_in. intros [c|w] Hin; [reflexivity|].
    pose proof (Hold _ _ _ Ev Hin). unfold snapshot, var_fuel. apply resolve_fuel; [assumption | lia | lia].
  Qed.

  (* a clone is, at every later time, [the original as it is then] followed by exactly the
     items appended to the clone, in order *)
  Lemma clone_items_kept ops1 ops2 v :
    bound (run ops1) v = true ->
    let c := hp_nvars (run ops1) in
    let h := run (ops1 ++ OClone v :: ops2) in
    snapshot h c = CStmt (snapshot h v :: appended_to c ops2).
  Proof.
    intros Hb c h.
    assert (Hc : view (run (ops1 ++ [OClone v])) c = Some [IRef v]).
    { rewrite run_app. cbn [run_from fold_left step].
      destruct (good_run grow ops1 Hgrow) as (Hwf & Hinv & _ & _).
      destruct (clone_wrap_spec (run ops1) v Hwf Hinv) as (_ & _ & _ & H).
      rewrite H, Hb. unfold c. rewrite N.eqb_refl. reflexivity. }
    assert (Hh : h = run ((ops1 ++ [OClone v]) ++ ops2)) by (unfold h; rewrite <- app_assoc; reflexivity).
    pose proof (items_kept _ ops2 c _ Hc) as Hv. rewrite <- Hh in Hv.
    assert (Hbc : bound h c = true).
    { destruct (good_run grow (ops1 ++ OClone v :: ops2) Hgrow) as (Hwf & _ & _ & _).
      apply (bound_view _ _ Hwf). fold h. congruence. }
    destruct (snapshot_bound_stmt _ c Hbc) as (l & Hl & Hs). fold h in Hl, Hs.
    rewrite Hv in Hl. injection Hl as <-. rewrite Hs. cbn [map app]. f_equal. f_equal.
    rewrite map_map. apply map_id.
  Qed.

  Lemma unmodified_clone ops1 ops2 v :
    bound (run ops1) v = true ->
    let c := hp_nvars (run ops1) in
    let h := run (ops1 ++ OClone v :: ops2) in
    appended_to c ops2 = [] ->
    exists xs, snapshot h v = CStmt xs /\ snapshot h c = CStmt [CStmt xs].
  Proof.
    intros Hb c h Hno. pose proof (clone_items_kept ops1 ops2 v Hb) as H. cbv zeta in H. fold c in H. fold h in H. rewrite Hno in H.
    assert (Hbv : bound h v = true).
    { apply bound_run. apply bound_run in Hb.
      assert (Hh : h = run (ops1 ++ OClone v :: ops2)) by reflexivity.
      destruct (view (run ops1) v) as [l|] eqn:Ev.
      - pose proof (items_kept ops1 (OClone v :: ops2) v l Ev) as Hk. fold h in Hk.
        destruct (good_run grow (ops1 ++ OClone v :: ops2) Hgrow) as (Hwf & _ & _ & _).
        apply (bound_lt _ _ Hwf). apply (bound_view _ _ Hwf). fold h. congruence.
      - exfalso. destruct (good_run grow ops1 Hgrow) as (Hwf & _ & _ & _).
        apply bound_run in Hb. apply (bound_view _ _ Hwf) in Hb. congruence. }
    destruct (snapshot_bound_stmt _ v Hbv) as (l & _ & Hs). fold h in Hs.
    eexists. split; [exact Hs|]. rewrite H, Hs. reflexivity.
  Qed.
End C20.

(* ---------- packaged statements used by Props/C20.v ---------- *)
Lemma inv_established_and_preserved grow h :
  grow_ok grow -> wf h -> Inv_no_shared_array h ->
  (wf (new_stmt h) /\ Inv_no_shared_array (new_stmt h)) /\
  (forall v, wf (clone_wrap h v) /\ Inv_no_shared_array (clone_wrap h v)) /\
  (forall v xs, wf (append grow h v xs) /\ Inv_no_shared_array (append grow h v xs)).
Proof.
  intros Hg Hwf Hinv. split; [|split].
  - destruct (new_spec h Hwf Hinv) as (H1 & H2 & _). split; assumption.
  - intros v. destruct (clone_wrap_spec h v Hwf Hinv) as (H1 & H2 & _). split; assumption.
  - intros v xs. destruct (append_spec grow h v xs Hg Hwf Hinv) as (H1 & H2 & _). split; assumption.
Qed.

Lemma wf_inv_run grow ops :
  grow_ok grow -> wf (run grow clone_wrap ops) /\ Inv_no_shared_array (run grow clone_wrap ops).
Proof. intros Hg. destruct (good_run grow ops Hg) as (H1 & H2 & _). split; assumption. Qed.

Lemma refines_lists_all grow : grow_ok grow -> forall ops v,
  view (run grow clone_wrap ops) v = aview (arun ops) v /\
  snapshot (run grow clone_wrap ops) v = asnapshot (arun ops) v.
Proof. intros Hg ops v. split; [apply refines_view | apply refines_lists]; assumption. Qed.

(* the list model in words: the value of a statement is [value of its parent] ++ own items;
   its own items are exactly what the history appended to it *)
Lemma asnapshot_eq ops v s :
  nget (a_vars (arun ops)) v = Some s ->
  asnapshot (arun ops) v =
  CStmt ((match a_parent s with Some p => [asnapshot (arun ops) p] | None => [] end) ++ a_own s).
Proof.
  intros Hv.
  assert (Hok : aok (arun ops)) by (apply (aok_run (fun _ n => n)); intros c n; lia).
  pose proof (aok_refs_older _ Hok) as Hold.
  unfold asnapshot at 1, var_fuel. cbn [resolve]. unfold aview at 1. rewrite Hv.
  unfold alist. rewrite map_app, map_map. f_equal. f_equal.
  - destruct (a_parent s) as [p|] eqn:Ep; [|reflexivity]. cbn [map]. f_equal.
    destruct Hok as [_ Hp]. pose proof (Hp v s p Hv Ep).
    unfold asnapshot, var_fuel. apply resolve_fuel; [assumption | lia | lia].
  - apply map_id.
Qed.

Lemma unmodified_clone_renders_same grow : grow_ok grow -> forall ops1 ops2 v,
  bound (run grow clone_wrap ops1) v = true ->
  let c := hp_nvars (run grow clone_wrap ops1) in
  let h := run grow clone_wrap (ops1 ++ OClone v :: ops2) in
  appended_to c ops2 = [] ->
  (forall cfg ctx ctx' t, render cfg ctx t (snapshot h c) = render cfg ctx' t (snapshot h v)) /\
  (forall cfg t, is_null cfg t (snapshot h c) = is_null cfg t (snapshot h v)) /\
  (forall fmt wfail, code_render fmt wfail (snapshot h c) = code_render fmt wfail (snapshot h v)).
Proof.
  intros Hg ops1 ops2 v Hb c h Hno.
  destruct (unmodified_clone grow Hg ops1 ops2 v Hb Hno) as (xs & Hv & Hc).
  fold c in Hc. fold h in Hv, Hc. rewrite Hv, Hc. split; [|split].
  - intros. apply render_wrap.
  - intros. apply is_null_wrap.
  - intros. apply code_render_wrap.
Qed.

(* ---------- the Go-like policy is a growth policy ---------- *)
Lemma round_up_ge classes n : (n <= round_up classes n)%nat.
Proof.
  induction classes as [|c r IH]; cbn [round_up]; [lia|].
  destruct (n <=? c)%nat eqn:E; [apply Nat.leb_le in E; lia | exact IH].
Qed.

Lemma grow_loop_ge fuel : forall newcap newlen, (newlen <= grow_loop fuel newcap newlen)%nat.
Proof.
  induction fuel as [|f IH]; intros newcap newlen; cbn [grow_loop]; [lia|].
  destruct (newlen <=? newcap + (newcap + 768) / 4)%nat eqn:E; [apply Nat.leb_le in E; lia | apply IH].
Qed.

Lemma go_grow_ok : grow_ok go_grow.
Proof.
  intros c n. unfold go_grow.
  assert (Hr : forall m, (m <= go_round m)%nat).
  { intros m. unfold go_round. destruct (m <=? 32)%nat; [apply round_up_ge|].
    pose proof (round_up_ge size_classes (Datatypes.S m)). lia. }
  eapply Nat.le_trans; [|apply Hr].
  destruct (c + c <? n)%nat eqn:E1; [lia|]. apply Nat.ltb_ge in E1.
  destruct (c <? 256)%nat; [lia | apply grow_loop_ge].
Qed.

(* ---------- the mutant: Clone copying the slice header ---------- *)
Definition tk (b : byte) : code := CTok (TkId [b]).

(* original: a b c | d  (len 4, cap 6 under go_grow), then cloned *)
Definition mutant_prefix : list op :=
  [ONew; OAppend 0 [tk x61; tk x62; tk x63]; OAppend 0 [tk x64]; OClone 0].

Lemma header_copy_refuted :
  let run := run go_grow clone_header in
  (* an append to the clone changes the original *)
  (exists ops ops2 v,
      bound (run ops) v = true /\ (forall w cs, In (OAppend w cs) ops2 -> v < w) /\
      snapshot (run (ops ++ ops2)) v <> snapshot (run ops) v) /\
  (* an append to the original alters an item of the clone *)
  (exists ops ops2 v l,
      view (run ops) v = Some l /\
      view (run (ops ++ ops2)) v <> Some (l ++ map ICode (appended_to v ops2))) /\
  (* and the invariant fails *)
  (exists ops, ~ Inv_no_shared_array (run ops)).
Proof.
  cbv zeta. split; [|split].
  - exists (mutant_prefix ++ [OAppend 0 [tk x79]]), [OAppend 1 [tk x78]], 0.
    split; [vm_compute; reflexivity|]. split.
    + intros w cs [H|[]]. injection H as <- _. reflexivity.
    + vm_compute. intros H. discriminate H.
  - exists (mutant_prefix ++ [OAppend 1 [tk x78]]), [OAppend 0 [tk x79]], 1.
    eexists. split; [vm_compute; reflexivity|].
    vm_compute. intros H. discriminate H.
  - exists mutant_prefix. intros H.
    specialize (H 0 1 (mkhdr 2 4%nat 6%nat) (mkhdr 2 4%nat 6%nat)).
    assert (E : 0 = 1) by (apply H; vm_compute; reflexivity). discriminate E.
Qed.

(* the same histories under the real Clone *)
Lemma header_copy_witness_ok_under_wrap :
  let run := run go_grow clone_wrap in
  snapshot (run ((mutant_prefix ++ [OAppend 0 [tk x79]]) ++ [OAppend 1 [tk x78]])) 0 =
  snapshot (run (mutant_prefix ++ [OAppend 0 [tk x79]])) 0 /\
  snapshot (run ((mutant_prefix ++ [OAppend 1 [tk x78]]) ++ [OAppend 0 [tk x79]])) 1 =
  CStmt [CStmt [tk x61; tk x62; tk x63; tk x64; tk x79]; tk x78].
Proof. cbv zeta. split; vm_compute; reflexivity. Qed.
