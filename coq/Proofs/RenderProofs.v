(* Properties of the renderer (Model/Render.v): how a qualified identifier renders, and the
   stabilisation theorem - once a tree has been rendered, rendering it again from the
   resulting table (or any extension of it) changes nothing and yields the same text. *)
From Jen Require Import Base.Bytes Base.Num Base.Sort Model.Code Model.Naming Model.Render Gen.Tables.
From Jen Require Import Proofs.NamingProofs.
From Coq Require Import Lia Permutation.
Local Open Scope N_scope.

(* the Group that Qual(path, name) builds (jen/tokens.go) *)
Definition qual (gid : N) (path name : str) : code :=
  CGroup gid (S "qual") [] [] (S ".") false [CTok (TkPkg path); CTok (TkId name)].

Section Qual.
  Variable cfg : config.

  Lemma render_qual ctx t gid p n :
    render cfg ctx t (qual gid p n) =
    match register cfg t p with
    | Panic m => Panic m
    | Ok (t0, _) =>
      if is_dot cfg t0 p || is_local cfg p then Ok (t0, n)
      else match register cfg t0 p with
           | Panic m => Panic m
           | Ok (t1, q) => Ok (t1, q ++ S "." ++ n)
           end
    end.
  Proof.
    unfold qual. cbn [render]. change (str_eqb (S "qual") s_types) with false.
    change (str_eqb (S "qual") s_block) with false. cbn [andb].
    cbn [group_loop length]. change (str_eqb (S "qual") s_values) with false. cbn [andb bind is_null].
    destruct (register cfg t p) as [[t0 q0]|m]; cbn [bind fst snd]; [|reflexivity].
    destruct (is_dot cfg t0 p || is_local cfg p); cbn [bind fst snd render render_token nonempty negb andb app].
    - rewrite !app_nil_r. reflexivity.
    - destruct (register cfg t0 p) as [[t1 q]|m]; cbn [bind fst snd]; [|reflexivity].
      rewrite !app_nil_r. reflexivity.
  Qed.

  (* the local package: bare name, table untouched *)
  Lemma render_qual_local ctx t gid p n :
    is_local cfg p = true -> render cfg ctx t (qual gid p n) = Ok (t, n).
  Proof.
    intros Hl. rewrite render_qual. unfold register at 1. rewrite Hl. rewrite orb_true_r. reflexivity.
  Qed.

  (* a path that merely resembles the local path is not local *)
  Lemma near_miss_not_local p : p <> cfg_path cfg -> is_local cfg p = false.
  Proof. intros H. unfold is_local. apply str_eqb_neq. congruence. Qed.

  (* an imported (non-local, non-dot) path: qualified by its registered name *)
  Lemma render_qual_imported ctx t gid p n t0 q :
    is_local cfg p = false -> register cfg t p = Ok (t0, q) -> is_dot cfg t0 p = false ->
    registered_name t0 p = Some q ->
    render cfg ctx t (qual gid p n) = Ok (t0, q ++ S "." ++ n).
  Proof.
    intros Hl Hr Hd Hk. rewrite render_qual, Hr, Hd, Hl. cbn [orb].
    unfold register. rewrite Hl, Hk. reflexivity.
  Qed.
End Qual.

(* a dot hint on a not yet rendered path: bare name and an entry (".", alias) *)
Lemma uniquify_first cfg t name alias fuel :
  candidate_ok cfg t name alias 0 = true -> uniquify cfg t name alias (Datatypes.S fuel) 0 = Some 0.
Proof. intros H. simpl. rewrite H. reflexivity. Qed.

Lemma register_dot cfg t p h :
  is_local cfg p = false -> registered_name t p = None -> p <> s_C ->
  alookup p (cfg_hints cfg) = Some h -> id_name h = s_dot -> id_alias h = true ->
  register cfg t p = Ok (aset p (mkdef s_dot true) t, s_dot).
Proof.
  intros Hl Hk HC Hh Hn Ha. unfold register. rewrite Hl, Hk.
  apply str_eqb_neq in HC. rewrite HC. unfold choose_name. rewrite Hh, Hn, Ha. cbn [negb str_eqb s_dot S].
  change (negb (str_eqb s_dot [])) with true. cbv iota beta.
  unfold register_fuel. replace (2 * (length t + length reserved) + 2)%nat with (Datatypes.S (2 * (length t + length reserved) + 1)) by lia.
  rewrite uniquify_first.
  - change (candidate s_dot 0) with s_dot. rewrite str_eqb_refl. cbn [negb orb]. rewrite with_prefix_dot. reflexivity.
  - unfold candidate_ok. change (candidate s_dot 0) with s_dot. rewrite with_prefix_dot.
    unfold is_valid_alias. rewrite str_eqb_refl. reflexivity.
Qed.

Lemma render_qual_dot cfg ctx t gid p n h :
  is_local cfg p = false -> registered_name t p = None -> p <> s_C ->
  alookup p (cfg_hints cfg) = Some h -> id_name h = s_dot -> id_alias h = true ->
  render cfg ctx t (qual gid p n) = Ok (aset p (mkdef s_dot true) t, n).
Proof.
  intros Hl Hk HC Hh Hn Ha. rewrite render_qual, (register_dot _ _ _ _ Hl Hk HC Hh Hn Ha).
  assert (Hd : is_dot cfg (aset p (mkdef s_dot true) t) p = true).
  { unfold is_dot. apply str_eqb_neq in HC. rewrite HC, alookup_aset_same. reflexivity. }
  rewrite Hd. reflexivity.
Qed.

(* ------------------------------------------------------------------ extension of tables *)
Section Ext.
  Variable cfg : config.
  Hypothesis Hcfg : cfg_ok cfg.

  (* registrations persist *)
  Definition keeps (t t' : table) : Prop :=
    forall p n, registered_name t p = Some n -> alookup p t' = alookup p t.
  (* ... and no path changes between dot-import and ordinary import *)
  Definition ext (t t' : table) : Prop :=
    keeps t t' /\ forall p, is_dot cfg t' p = is_dot cfg t p.

  Lemma registered_name_alookup t t' p :
    alookup p t' = alookup p t -> registered_name t' p = registered_name t p.
  Proof. intros H. unfold registered_name. rewrite H. reflexivity. Qed.

  Lemma keeps_refl t : keeps t t.
  Proof. intros p n _. reflexivity. Qed.
  Lemma keeps_trans t t' t'' : keeps t t' -> keeps t' t'' -> keeps t t''.
  Proof.
    intros H1 H2 p n Hr. rewrite <- (H1 p n Hr). apply (H2 p n).
    rewrite (registered_name_alookup _ _ _ (H1 p n Hr)). exact Hr.
  Qed.
  Lemma ext_refl t : ext t t.
  Proof. split; [apply keeps_refl | reflexivity]. Qed.
  Lemma ext_trans t t' t'' : ext t t' -> ext t' t'' -> ext t t''.
  Proof.
    intros [K1 D1] [K2 D2]. split; [eapply keeps_trans; eassumption|].
    intros p. rewrite D2. apply D1.
  Qed.

  Lemma keeps_registered t t' p n : keeps t t' -> registered_name t p = Some n -> registered_name t' p = Some n.
  Proof. intros K H. rewrite (registered_name_alookup _ _ _ (K p n H)). exact H. Qed.

  Lemma keeps_aset t path d : registered_name t path = None -> keeps t (aset path d t).
  Proof.
    intros Hk p n Hr. apply alookup_aset_other. intros ->. congruence.
  Qed.

  Lemma is_ident_not_dot s : is_ident s = true -> s <> s_dot.
  Proof. intros H ->. vm_compute in H. discriminate. Qed.

  Lemma choose_name_dot path name alias :
    choose_name cfg path = (name, alias) ->
    hint_is_dot cfg path = str_eqb name s_dot && alias.
  Proof.
    unfold choose_name, hint_is_dot. intros Hc.
    assert (Hs : forall a, std_hint path <> [] -> str_eqb (std_hint path) s_dot && a = false).
    { intros a Hne. destruct (std_hint_ok path Hne) as (Hi & _).
      apply is_ident_not_dot, str_eqb_neq in Hi. rewrite Hi. reflexivity. }
    assert (Hg : forall a, str_eqb (guess_alias path) s_dot && a = false).
    { intros a. pose proof (is_ident_not_dot _ (guess_alias_ident path)) as Hi.
      apply str_eqb_neq in Hi. rewrite Hi. reflexivity. }
    destruct (alookup path (cfg_hints cfg)) as [h|] eqn:El.
    - destruct (str_eqb_spec (id_name h) []) as [E0|E0]; simpl in Hc.
      + rewrite E0. change (str_eqb [] s_dot) with false. cbn [andb].
        destruct (str_eqb_spec (std_hint path) []) as [E1|E1]; simpl in Hc; injection Hc as <- <-;
          symmetry; auto.
      + injection Hc as <- <-. reflexivity.
    - destruct (str_eqb_spec (std_hint path) []) as [E1|E1]; simpl in Hc; injection Hc as <- <-;
        symmetry; auto.
  Qed.

  Lemma register_ext t path t' n : register cfg t path = Ok (t', n) -> ext t t'.
  Proof.
    intros Hr. apply register_cases in Hr.
    destruct Hr as [Hl | n Hl Hk | Hl Hk HC | name alias i Hl Hk HC Hc Hok Hmin]; try apply ext_refl.
    - subst path. split; [apply keeps_aset; exact Hk|]. intros p. unfold is_dot.
      destruct (str_eqb_spec p s_C) as [->|Hp]; [reflexivity|].
      rewrite alookup_aset_other by congruence. reflexivity.
    - split; [apply keeps_aset; exact Hk|]. intros p. unfold is_dot.
      destruct (str_eqb_spec p s_C) as [->|Hp]; [reflexivity|].
      destruct (str_eq_dec p path) as [->|Hne]; [|rewrite alookup_aset_other by congruence; reflexivity].
      rewrite alookup_aset_same. cbn [id_name id_alias].
      destruct (new_name_facts cfg Hcfg _ _ _ _ _ Hc Hok Hmin) as (_ & Hne & _ & Hnu & Hid).
      apply str_eqb_neq in Hne, Hnu. rewrite Hne, Hnu. cbn [orb].
      (* the old table has no registration for the path: the hint decides there *)
      assert (Hold : match alookup path t with
                     | Some d => if str_eqb (id_name d) [] || str_eqb (id_name d) s_us
                                 then hint_is_dot cfg path else str_eqb (id_name d) s_dot && id_alias d
                     | None => hint_is_dot cfg path
                     end = hint_is_dot cfg path).
      { unfold registered_name in Hk. destruct (alookup path t) as [d|]; [|reflexivity].
        destruct (str_eqb (id_name d) [] || str_eqb (id_name d) s_us); [reflexivity | discriminate]. }
      rewrite Hold, (choose_name_dot _ _ _ Hc).
      destruct (choose_name_ok _ _ _ _ Hcfg Hc) as (Hn0 & _ & _ & Hnid).
      destruct (str_eqb_spec name s_dot) as [->|Hnd].
      + (* hint ".": first candidate accepted *)
        assert (i = 0) as ->.
        { destruct (N.eq_dec i 0) as [E|E]; [exact E|]. exfalso.
          assert (H0 : candidate_ok cfg t s_dot alias 0 = false) by (apply Hmin; lia).
          unfold candidate_ok in H0. change (candidate s_dot 0) with s_dot in H0.
          rewrite with_prefix_dot in H0. unfold is_valid_alias in H0. rewrite str_eqb_refl in H0. discriminate. }
        change (candidate s_dot 0) with s_dot. rewrite str_eqb_refl, with_prefix_dot, str_eqb_refl.
        cbn [negb]. rewrite orb_false_r. reflexivity.
      + destruct Hnid as [Hd|Hi]; [congruence|].
        pose proof (with_prefix_ident cfg (candidate name i) (alias || negb (str_eqb (candidate name i) name))
                      Hcfg (candidate_ident _ i Hi)) as Hfi.
        apply is_ident_not_dot, str_eqb_neq in Hfi. rewrite Hfi. reflexivity.
  Qed.

  Lemma is_null_ext t t' c : ext t t' -> is_null cfg t' c = is_null cfg t c.
  Proof.
    intros [_ D]. induction c as [| | |tk|gid name o cl sep multi items IH|items IH|pairs IH|kvs|s] using code_ind';
      try reflexivity.
    - destruct tk; try reflexivity. cbn [is_null]. rewrite D. reflexivity.
    - cbn [is_null]. destruct (nonempty o || nonempty cl); [reflexivity|].
      induction IH as [|x l Hx _ IHl]; [reflexivity|]. cbn [forallb]. rewrite Hx, IHl. reflexivity.
    - cbn [is_null]. induction IH as [|x l Hx _ IHl]; [reflexivity|]. cbn [forallb]. rewrite Hx, IHl. reflexivity.
    - cbn [is_null]. induction IH as [|[k v] l [Hk Hv] _ IHl]; [reflexivity|]. cbn [forallb fst snd] in *.
      rewrite Hk, Hv, IHl. reflexivity.
  Qed.
End Ext.

(* ------------------------------------------------------------------ stabilisation *)
Section Stable.
  Variable cfg : config.
  Hypothesis Hcfg : cfg_ok cfg.

  Notation ext := (ext cfg).

  (* a rendering function that, once it has succeeded, has registered everything it needs:
     from the resulting table or any extension of it, it leaves the table alone and
     produces the same text *)
  Definition stable_fn {A} (f : table -> result (table * A)) : Prop :=
    forall t t1 s, f t = Ok (t1, s) ->
      ext t t1 /\ forall t2, ext t1 t2 -> f t2 = Ok (t2, s).

  Definition stable (c : code) : Prop := forall ctx, stable_fn (fun t => render cfg ctx t c).

  Lemma register_stable p : stable_fn (fun t => register cfg t p).
  Proof.
    intros t t1 n Hr. split; [eapply register_ext; eassumption|].
    intros t2 [K _]. destruct (is_local cfg p) eqn:El.
    - unfold register in *. rewrite El in *. injection Hr as <- <-. reflexivity.
    - pose proof (register_returns_entry cfg Hcfg _ _ _ _ El Hr) as Hk.
      unfold register. rewrite El, (keeps_registered _ _ _ _ K Hk). reflexivity.
  Qed.

  Lemma token_stable tk : stable (CTok tk).
  Proof.
    intros ctx t t1 s. cbn [render]. destruct tk; cbn [render_token].
    - apply register_stable.
    - intros H. injection H as <- <-. split; [apply ext_refl | reflexivity].
    - intros H. injection H as <- <-. split; [apply ext_refl | reflexivity].
    - destruct (lit_text l) as [x|m]; cbn [bind]; [|discriminate].
      intros H. injection H as <- <-. split; [apply ext_refl | reflexivity].
    - intros H. injection H as <- <-. split; [apply ext_refl | reflexivity].
    - intros H. injection H as <- <-. split; [apply ext_refl | reflexivity].
    - intros H. injection H as <- <-. split; [apply ext_refl | reflexivity].
  Qed.

  (* the registration Group.renderItems performs for a package token before testing null-ness *)
  Definition prereg (t : table) (c : code) : result table :=
    match c with
    | CTok (TkPkg p) => bind (register cfg t p) (fun r => Ok (fst r))
    | _ => Ok t
    end.

  Lemma prereg_stable c t t0 : prereg t c = Ok t0 -> ext t t0 /\ forall t2, ext t0 t2 -> prereg t2 c = Ok t2.
  Proof.
    unfold prereg. destruct c as [| | |tk| | | | |]; try (intros H; injection H as <-; split; [apply ext_refl | reflexivity]).
    destruct tk; try (intros H; injection H as <-; split; [apply ext_refl | reflexivity]).
    destruct (register cfg t path) as [[t' n]|m] eqn:E; cbn [bind fst]; [|discriminate].
    intros H. injection H as <-. destruct (register_stable path _ _ _ E) as [He Hs].
    split; [exact He|]. intros t2 H2. rewrite (Hs t2 H2). reflexivity.
  Qed.

  Lemma group_loop_stable name sep multi nitems items :
    Forall stable items ->
    forall first, stable_fn (fun t => bind (group_loop cfg (render cfg) name sep multi nitems t first items)
                                           (fun r => Ok (fst (fst r), (snd (fst r), snd r)))).
  Proof.
    intros Hst. induction Hst as [|c l Hc _ IH]; intros first t t1 [isn s]; cbn [group_loop bind fst snd].
    - intros H. injection H as <- <- <-. split; [apply ext_refl | reflexivity].
    - fold (prereg t c).
      destruct (prereg t c) as [t0|m] eqn:Ep; cbn [bind]; [|discriminate].
      destruct (prereg_stable _ _ _ Ep) as [He0 Hs0].
      destruct (is_null cfg t0 c) eqn:En.
      + intros H. destruct (IH first t0 t1 (isn, s) H) as [He1 Hs1].
        split; [eapply ext_trans; eassumption|].
        intros t2 H2. fold (prereg t2 c). rewrite (Hs0 t2 (ext_trans _ _ _ _ He1 H2)). cbn [bind].
        rewrite (is_null_ext cfg _ _ c (ext_trans _ _ _ _ He1 H2)), En. apply Hs1. exact H2.
      + destruct (str_eqb name s_values && is_dict c && Nat.ltb 1 nitems); [discriminate|].
        destruct (render cfg false t0 c) as [[ta sa]|m] eqn:Er; cbn [bind fst snd]; [|discriminate].
        destruct (Hc false _ _ _ Er) as [Hea Hsa].
        destruct (group_loop cfg (render cfg) name sep multi nitems ta false l) as [[[tb isb] sb]|m] eqn:El;
          cbn [bind fst snd]; [|discriminate].
        intros H. injection H as <- <- <-.
        assert (Hl : bind (group_loop cfg (render cfg) name sep multi nitems ta false l)
                          (fun r => Ok (fst (fst r), (snd (fst r), snd r))) = Ok (tb, (isb, sb)))
          by (rewrite El; reflexivity).
        destruct (IH false ta tb (isb, sb) Hl) as [Heb Hsb].
        split; [eapply ext_trans; [exact He0 | eapply ext_trans; eassumption]|].
        intros t2 H2. fold (prereg t2 c).
        assert (H02 : ext t0 t2) by (eapply ext_trans; [exact Hea | eapply ext_trans; eassumption]).
        rewrite (Hs0 t2 H02). cbn [bind]. rewrite (is_null_ext cfg _ _ c H02), En.
        rewrite (Hsa t2 (ext_trans _ _ _ _ Heb H2)). cbn [bind fst snd].
        specialize (Hsb t2 H2).
        destruct (group_loop cfg (render cfg) name sep multi nitems t2 false l) as [[[tc isc] sc]|m];
          cbn [bind fst snd] in *; [|discriminate].
        injection Hsb as <- <- <-. reflexivity.
  Qed.

  Lemma stmt_loop_stable all items :
    Forall stable items ->
    forall first, stable_fn (fun t => stmt_loop cfg (render cfg) all t first items).
  Proof.
    intros Hst. induction Hst as [|c l Hc _ IH]; intros first t t1 s; cbn [stmt_loop].
    - intros H. injection H as <- <-. split; [apply ext_refl | reflexivity].
    - destruct (is_null cfg t c) eqn:En.
      + intros H. destruct (IH first t t1 s H) as [He1 Hs1]. split; [exact He1|].
        intros t2 H2. rewrite (is_null_ext cfg _ _ c (ext_trans _ _ _ _ He1 H2)), En. apply Hs1. exact H2.
      + destruct (render cfg (case_ctx all c) t c) as [[ta sa]|m] eqn:Er; cbn [bind fst snd]; [|discriminate].
        destruct (Hc _ _ _ _ Er) as [Hea Hsa].
        destruct (stmt_loop cfg (render cfg) all ta false l) as [[tb sb]|m] eqn:El; cbn [bind fst snd]; [|discriminate].
        intros H. injection H as <- <-.
        destruct (IH false ta tb sb El) as [Heb Hsb].
        split; [eapply ext_trans; eassumption|].
        intros t2 H2.
        assert (H02 : ext t t2) by (eapply ext_trans; [exact Hea | eapply ext_trans; eassumption]).
        rewrite (is_null_ext cfg _ _ c H02), En.
        rewrite (Hsa t2 (ext_trans _ _ _ _ Heb H2)). cbn [bind fst snd].
        rewrite (Hsb t2 H2). reflexivity.
  Qed.

  (* Dict: first pass (keys into a scratch buffer), then the sorted second pass *)
  Definition entry_stable (e : dict_entry) : Prop := stable_fn (snd (fst e)) /\ stable_fn (snd e).

  Lemma dict_pass1_stable pairs :
    Forall (fun kv => stable (fst kv) /\ stable (snd kv)) pairs ->
    forall t t1 es, dict_pass1 cfg (render cfg) t pairs = Ok (t1, es) ->
      ext t t1 /\ Forall entry_stable es /\
      forall t2, ext t1 t2 -> dict_pass1 cfg (render cfg) t2 pairs = Ok (t2, es).
  Proof.
    intros Hst. induction Hst as [|[k v] l [Hk Hv] _ IH]; intros t t1 es; cbn [dict_pass1 fst snd].
    - intros H. injection H as <- <-. split; [apply ext_refl|]. split; [constructor | reflexivity].
    - cbn [fst snd] in Hk, Hv. destruct (is_null cfg t k || is_null cfg t v) eqn:En.
      + intros H. destruct (IH _ _ _ H) as (He & Hes & Hs). split; [exact He|]. split; [exact Hes|].
        intros t2 H2. pose proof (ext_trans _ _ _ _ He H2) as H02.
        rewrite !(is_null_ext cfg _ _ _ H02), En. apply Hs. exact H2.
      + destruct (render cfg false t k) as [[ta sa]|m] eqn:Er; cbn [bind fst snd]; [|discriminate].
        destruct (Hk _ _ _ _ Er) as [Hea Hsa].
        destruct (dict_pass1 cfg (render cfg) ta l) as [[tb esb]|m] eqn:El; cbn [bind fst snd]; [|discriminate].
        intros H. injection H as <- <-.
        destruct (IH _ _ _ El) as (Heb & Hesb & Hsb).
        split; [eapply ext_trans; eassumption|]. split.
        * constructor; [|exact Hesb]. split; cbn [fst snd]; [apply Hk | apply Hv].
        * intros t2 H2.
          assert (H02 : ext t t2) by (eapply ext_trans; [exact Hea | eapply ext_trans; eassumption]).
          rewrite !(is_null_ext cfg _ _ _ H02), En.
          rewrite (Hsa t2 (ext_trans _ _ _ _ Heb H2)). cbn [bind fst snd].
          rewrite (Hsb t2 H2). reflexivity.
  Qed.

  Lemma dict_pass2_stable several l :
    Forall entry_stable l ->
    forall first, stable_fn (fun t => dict_pass2 several t first l).
  Proof.
    intros Hst. induction Hst as [|e l [Hk Hv] _ IH]; intros first t t1 s; cbn [dict_pass2].
    - intros H. injection H as <- <-. split; [apply ext_refl | reflexivity].
    - destruct (snd (fst e) t) as [[ta sa]|m] eqn:Ek; cbn [bind fst snd]; [|discriminate].
      destruct (Hk _ _ _ Ek) as [Hea Hsa].
      destruct (snd e ta) as [[tb sb]|m] eqn:Ev; cbn [bind fst snd]; [|discriminate].
      destruct (Hv _ _ _ Ev) as [Heb Hsb].
      destruct (dict_pass2 several tb false l) as [[tc sc]|m] eqn:El; cbn [bind fst snd]; [|discriminate].
      destruct (IH false _ _ _ El) as [Hec Hsc].
      intros H. injection H as <- <-.
      split; [eapply ext_trans; [exact Hea | eapply ext_trans; eassumption]|].
      intros t2 H2.
      rewrite (Hsa t2 (ext_trans _ _ _ _ Heb (ext_trans _ _ _ _ Hec H2))). cbn [bind fst snd].
      rewrite (Hsb t2 (ext_trans _ _ _ _ Hec H2)). cbn [bind fst snd].
      rewrite (Hsc t2 H2). reflexivity.
  Qed.

  Lemma Forall_perm {A} (P : A -> Prop) l l' : Permutation l l' -> Forall P l -> Forall P l'.
  Proof. intros Hp H. rewrite Forall_forall in *. intros x Hx. apply H. eapply Permutation_in; [apply Permutation_sym|]; eassumption. Qed.

  (* THE STABILISATION THEOREM: for every tree - any constructs, arities, nesting, Dicts,
     null items - a successful render registers everything the tree needs *)
  Theorem render_stable : forall c, stable c.
  Proof.
    induction c as [| | |tk|gid name o cl sep multi items IH|items IH|pairs IH|kvs|s] using code_ind'.
    - intros ctx t t1 s H. discriminate.
    - intros ctx t t1 s H. discriminate.
    - intros ctx t t1 s H. discriminate.
    - apply token_stable.
    - intros ctx t t1 s. cbn [render].
      destruct (str_eqb name s_types && forallb (is_null cfg t) items) eqn:Et.
      + intros H. injection H as <- <-. split; [apply ext_refl|].
        intros t2 H2.
        assert (Hn : forallb (is_null cfg t2) items = forallb (is_null cfg t) items).
        { clear -H2. induction items as [|x l IHl]; [reflexivity|]. cbn [forallb].
          rewrite (is_null_ext cfg _ _ x H2), IHl. reflexivity. }
        rewrite Hn, Et. reflexivity.
      + destruct (group_loop cfg (render cfg) name sep multi (length items) t true items) as [[[ta isa] sa]|m] eqn:El;
          cbn [bind fst snd]; [|discriminate].
        intros H. injection H as <- <-.
        assert (Hl : bind (group_loop cfg (render cfg) name sep multi (length items) t true items)
                          (fun r => Ok (fst (fst r), (snd (fst r), snd r))) = Ok (ta, (isa, sa)))
          by (rewrite El; reflexivity).
        destruct (group_loop_stable name sep multi (length items) items IH true _ _ _ Hl) as [He Hs].
        split; [exact He|]. intros t2 H2.
        assert (Hn : forallb (is_null cfg t2) items = forallb (is_null cfg t) items).
        { pose proof (ext_trans _ _ _ _ He H2) as H02. clear -H02.
          induction items as [|x l IHl]; [reflexivity|]. cbn [forallb].
          rewrite (is_null_ext cfg _ _ x H02), IHl. reflexivity. }
        (* the types test: unchanged; but it was evaluated on t, and from t2 on the
           group's items are registered, so the answer is the same *)
        rewrite Hn, Et. specialize (Hs t2 H2).
        destruct (group_loop cfg (render cfg) name sep multi (length items) t2 true items) as [[[tc isc] sc]|m];
          cbn [bind fst snd] in *; [|discriminate].
        injection Hs as <- <- <-. reflexivity.
    - intros ctx. cbn [render]. apply stmt_loop_stable. exact IH.
    - intros ctx t t1 s. cbn [render].
      destruct (dict_pass1 cfg (render cfg) t pairs) as [[ta es]|m] eqn:E1; cbn [bind fst snd]; [|discriminate].
      destruct (dict_pass1_stable pairs IH _ _ _ E1) as (Hea & Hes & Hsa).
      intros H2.
      assert (Hsorted : Forall entry_stable (isort_by dict_key es)).
      { eapply Forall_perm; [apply Permutation_sym, isort_by_perm | exact Hes]. }
      destruct (dict_pass2_stable _ _ Hsorted true _ _ _ H2) as [Heb Hsb].
      split; [eapply ext_trans; eassumption|].
      intros t2 H3. rewrite (Hsa t2 (ext_trans _ _ _ _ Heb H3)). cbn [bind fst snd].
      apply Hsb. exact H3.
    - intros ctx t t1 s H. cbn [render] in H. injection H as <- <-. split; [apply ext_refl | reflexivity].
    - intros ctx t t1 s0 H. cbn [render] in H. injection H as <- <-. split; [apply ext_refl | reflexivity].
  Qed.

  (* rendering twice: the second render, and every later one, changes nothing and writes
     the same text *)
  Corollary render_idempotent c ctx t t1 s :
    render cfg ctx t c = Ok (t1, s) -> render cfg ctx t1 c = Ok (t1, s).
  Proof. intros H. destruct (render_stable c ctx _ _ _ H) as [_ Hs]. apply Hs, ext_refl. Qed.

  Corollary render_keeps c ctx t t1 s :
    render cfg ctx t c = Ok (t1, s) -> keeps t t1.
  Proof. intros H. destruct (render_stable c ctx _ _ _ H) as [[K _] _]. exact K. Qed.
End Stable.
