(* C01, stretch goal: render (build a) = canon a for EVERY tree of Spec/MiniGo.v.

   Method.  Nothing built by Spec/MiniGo.v contains a package token, so the import table is
   never changed; every item is non-null.  Three notions carry the induction:

     free c x      c is not null and renders to x at any table, in any context, table unchanged
     good c x      free, and c is a Statement (what every item of a group is)
     chain l x     the items l, standing at the HEAD of any statement l ++ suf, render to texts
                   that joined by blanks give x (the form in which an expression is spliced into
                   a longer chain; the suffix matters because a Block asks its statement for its
                   predecessor).

   The loops of the renderer are unfolded once (stmt_loop_ok, group_loop_ok); the rest is one
   case per constructor. *)
From Jen Require Import Base.Bytes Base.Num Model.Code Model.Naming Model.Render Model.FileRender Model.Exec.
From Jen Require Import Gen.Tables Proofs.CommentProofs Proofs.EmitProofs Spec.MiniGo.
Local Open Scope N_scope.

(* ------------------------------------------------------------------ lists and joins *)
Lemma join_app_ne sep (xs ys : list str) :
  xs <> [] -> ys <> [] -> join sep (xs ++ ys) = join sep xs ++ sep ++ join sep ys.
Proof.
  intros Hx Hy. induction xs as [|x xs IH]; [contradiction|].
  destruct xs as [|x2 xs].
  - destruct ys as [|y ys]; [contradiction | reflexivity].
  - change (join sep ((x :: x2 :: xs) ++ ys)) with (x ++ sep ++ join sep ((x2 :: xs) ++ ys)).
    rewrite IH by discriminate. change (join sep (x :: x2 :: xs)) with (x ++ sep ++ join sep (x2 :: xs)).
    rewrite <- !app_assoc. reflexivity.
Qed.

Lemma Forall2_weaken {A B} (R1 R2 : A -> B -> Prop) l1 l2 :
  (forall a b, R1 a b -> R2 a b) -> Forall2 R1 l1 l2 -> Forall2 R2 l1 l2.
Proof. intros H HF. induction HF; constructor; auto. Qed.

Lemma Forall2_map_both {A B C} (R : B -> C -> Prop) (f : A -> B) (g : A -> C) l :
  Forall (fun a => R (f a) (g a)) l -> Forall2 R (map f l) (map g l).
Proof. induction 1; cbn [map]; constructor; auto. Qed.

Lemma lines_eq xs : lines xs = concat_str (map (fun x => x0a :: x) xs).
Proof. reflexivity. Qed.

Section Canon.
  Variable cfg : config.

  Definition free (c : code) (x : str) : Prop :=
    (forall t, is_null cfg t c = false) /\ forall ctx t, render cfg ctx t c = Ok (t, x).

  Definition good (c : code) (x : str) : Prop := (exists l, c = CStmt l) /\ free c x.

  Definition item_ok (all : list code) (c : code) (x : str) : Prop :=
    (forall t, is_null cfg t c = false) /\ forall t, render cfg (case_ctx all c) t c = Ok (t, x).

  Definition chain (l : list code) (x : str) : Prop :=
    forall suf, exists xs, xs <> [] /\ Forall2 (item_ok (l ++ suf)) l xs /\ join sp xs = x.

  Lemma free_item all c x : free c x -> item_ok all c x.
  Proof. intros [Hn Hr]. split; [exact Hn | intros t; apply Hr]. Qed.

  (* ---- the two loops ---- *)
  Lemma stmt_loop_ok all l xs : Forall2 (item_ok all) l xs -> forall t first,
    stmt_loop cfg (render cfg) all t first l = Ok (t, group_text sp false first xs).
  Proof.
    induction 1 as [|c x l xs [Hn Hr] _ IH]; intros t first; [reflexivity|].
    cbn [stmt_loop]. rewrite Hn, Hr. cbn [bind fst snd]. rewrite IH. reflexivity.
  Qed.

  Lemma group_loop_ok name sep multi n items xs : Forall2 good items xs -> forall t first,
    group_loop cfg (render cfg) name sep multi n t first items =
    Ok (t, first && is_nil xs, group_text sep multi first xs).
  Proof.
    induction 1 as [|c x l xs [[l0 ->] [Hn Hr]] _ IH]; intros t first.
    - cbn. rewrite andb_true_r. reflexivity.
    - cbn [group_loop bind]. rewrite Hn. cbn [is_dict]. rewrite andb_false_r. cbn [andb].
      rewrite Hr. cbn [bind fst snd]. rewrite IH. cbn [bind fst snd is_nil group_text].
      rewrite andb_false_r. reflexivity.
  Qed.

  Lemma good_not_null c x items t : good c x -> forallb (is_null cfg t) (c :: items) = false.
  Proof. intros [_ [Hn _]]. cbn [forallb]. rewrite Hn. reflexivity. Qed.

  (* any Group whose items are statements as above *)
  Lemma render_group_ok gid name o cl sep multi items xs :
    Forall2 good items xs -> str_eqb name s_types = false -> forall ctx t,
    let blank := str_eqb name s_block && ctx in
    let o' := if blank then [] else o in
    let cl' := if blank then [] else cl in
    render cfg ctx t (CGroup gid name o cl sep multi items) =
    Ok (t, o' ++ group_text sep multi true xs ++ closer sep multi cl' xs ++ cl').
  Proof.
    intros HF Hty ctx t blank o' cl'. cbn [render]. rewrite Hty. cbn [andb].
    rewrite (group_loop_ok name sep multi _ items xs HF). cbn [bind fst snd andb].
    fold blank. fold o'. fold cl'. unfold closer. destruct xs; reflexivity.
  Qed.

  (* a one-line group with an opener *)
  Lemma free_flat_group gid name o cl sep items xs :
    Forall2 good items xs -> str_eqb name s_types = false -> str_eqb name s_block = false ->
    nonempty o = true ->
    free (CGroup gid name o cl sep false items) (o ++ join sep xs ++ cl).
  Proof.
    intros HF Hty Hbl Ho. split.
    - intros t. cbn [is_null]. rewrite Ho. reflexivity.
    - intros ctx t. rewrite (render_group_ok gid name o cl sep false items xs HF Hty).
      rewrite Hbl. cbn [andb]. rewrite closer_flat, group_text_join_flat. reflexivity.
  Qed.

  (* List(..): no delimiters; not null because its first item is not *)
  Lemma free_list_group gid name sep c items x xs :
    Forall2 good (c :: items) (x :: xs) -> str_eqb name s_types = false -> str_eqb name s_block = false ->
    free (CGroup gid name [] [] sep false (c :: items)) (join sep (x :: xs)).
  Proof.
    intros HF Hty Hbl. split.
    - intros t. cbn [is_null nonempty orb]. inversion HF as [|? ? ? ? Hc _]; subst.
      apply (good_not_null c x items t Hc).
    - intros ctx t. rewrite (render_group_ok gid name [] [] sep false _ _ HF Hty).
      rewrite Hbl. cbn [andb]. rewrite closer_flat, group_text_join_flat.
      cbn [app]. rewrite app_nil_r. reflexivity.
  Qed.

  (* a multi-line group without separator: Block (in either context), Defs *)
  Lemma render_multi_group gid name o cl items xs :
    Forall2 good items xs -> str_eqb name s_types = false -> nonempty cl = true -> forall ctx t,
    render cfg ctx t (CGroup gid name o cl [] true items) =
    Ok (t, if str_eqb name s_block && ctx then lines xs
           else o ++ lines xs ++ (match xs with [] => [] | _ => nl end) ++ cl).
  Proof.
    intros HF Hty Hcl ctx t. rewrite (render_group_ok gid name o cl [] true items xs HF Hty).
    rewrite group_text_multi_nosep, <- lines_eq. unfold closer.
    destruct (str_eqb name s_block && ctx).
    - cbn [nonempty andb app]. rewrite andb_false_r. rewrite !app_nil_r. reflexivity.
    - rewrite Hcl. destruct xs; reflexivity.
  Qed.

  (* ---- tokens ---- *)
  Lemma free_id n : free (id n) n.
  Proof. split; intros; reflexivity. Qed.

  Lemma free_op s : str_eqb s s_default = false -> free (op s) s.
  Proof.
    intros H. split; [intros; reflexivity|]. intros ctx t. cbn [op render render_token].
    rewrite H, app_nil_r. reflexivity.
  Qed.

  Lemma free_tkid s : free (CTok (TkId s)) s.
  Proof. split; intros; reflexivity. Qed.

  Lemma free_tktext s : str_eqb s s_default = false -> free (CTok (TkText s)) s.
  Proof. exact (free_op s). Qed.

  Lemma free_int z : free (CTok (TkLit (LInt z))) (Z_to_dec z).
  Proof. split; intros; reflexivity. Qed.

  Lemma free_str s : free (CTok (TkLit (LStr s))) (GoQuote s).
  Proof. split; intros; reflexivity. Qed.

  Lemma good_empty : good empty [].
  Proof. split; [eexists; reflexivity|]. split; intros; reflexivity. Qed.

  (* ---- statements ---- *)
  Lemma chain_good l x : chain l x -> good (CStmt l) x.
  Proof.
    intros H. destruct (H []) as (xs & Hne & HF & Hj). rewrite app_nil_r in HF.
    split; [eexists; reflexivity|]. split.
    - intros t. cbn [is_null]. destruct HF as [|c y l' ys [Hn _] _]; [contradiction|].
      cbn [forallb]. rewrite Hn. reflexivity.
    - intros ctx t. cbn [render]. rewrite (stmt_loop_ok l l xs HF), group_text_join_flat.
      rewrite <- Hj. reflexivity.
  Qed.

  Lemma good_free c x : good c x -> free c x.
  Proof. intros [_ H]. exact H. Qed.

  Lemma chain_free l xs : Forall2 free l xs -> xs <> [] -> chain l (join sp xs).
  Proof.
    intros HF Hne suf. exists xs. split; [exact Hne|]. split; [|reflexivity].
    apply (Forall2_weaken free); [intros a b; apply free_item | exact HF].
  Qed.

  Lemma chain_app l x l2 ys :
    chain l x -> Forall2 free l2 ys -> ys <> [] -> chain (l ++ l2) (x ++ sp ++ join sp ys).
  Proof.
    intros H HF Hne suf. destruct (H (l2 ++ suf)) as (xs & Hx & HF1 & Hj).
    exists (xs ++ ys). rewrite <- app_assoc. split; [destruct xs; [contradiction | discriminate]|].
    split.
    - apply Forall2_app; [exact HF1|].
      apply (Forall2_weaken free); [intros a b; apply free_item | exact HF].
    - rewrite join_app_ne by assumption. rewrite Hj. reflexivity.
  Qed.

  (* a chain wrapped as one operand: Add(..) *)
  Lemma chain_operand l x : chain l x -> free (CStmt l) x.
  Proof. intros H. apply good_free, chain_good, H. Qed.
End Canon.

(* ------------------------------------------------------------------ the rows of the table *)
Section Tables.
  Hypothesis Hok : tables_ok = true.

  Lemma group_of_ok m n o c s mu :
    In (m, (n, o, c, s, mu)) expected_groups ->
    forall gid items, group_of m gid items = CGroup gid n o c s mu items.
  Proof.
    intros Hin gid items. unfold tables_ok in Hok. apply andb_true_iff in Hok. destruct Hok as [Hg _].
    rewrite forallb_forall in Hg. specialize (Hg _ Hin). unfold group_row_ok in Hg. unfold group_of.
    destruct (find_group m) as [r|]; [|discriminate].
    apply andb_true_iff in Hg. destruct Hg as [Hg H5]. apply andb_true_iff in Hg. destruct Hg as [Hg H4].
    apply andb_true_iff in Hg. destruct Hg as [Hg H3]. apply andb_true_iff in Hg. destruct Hg as [H1 H2].
    apply str_eqb_eq in H1, H2, H3, H4. apply Bool.eqb_prop in H5. rewrite H1, H2, H3, H4, H5. reflexivity.
  Qed.

  Lemma kw_ok m tk : In (m, tk) expected_tokens -> kw m = CTok tk.
  Proof.
    intros Hin. unfold tables_ok in Hok. apply andb_true_iff in Hok. destruct Hok as [_ Ht].
    rewrite forallb_forall in Ht. specialize (Ht _ Hin). unfold token_row_ok in Ht. cbn [fst snd] in Ht.
    unfold kw. destruct (find_token m) as [r|]; [|discriminate].
    destruct (token_of_row r) as [p|x|x|l|z|b|], tk as [p'|y|y|l'|z'|b'|]; try discriminate Ht;
      cbn [token_eqb] in Ht; apply str_eqb_eq in Ht; rewrite Ht; reflexivity.
  Qed.

  Ltac in_list := cbn [In expected_groups expected_tokens]; repeat first [left; reflexivity | right].

  Lemma gCall_eq g i : gCall g i = CGroup g (S "call") (S "(") (S ")") (S ",") false i.
  Proof. apply group_of_ok. in_list. Qed.
  Lemma gIndex_eq g i : gIndex g i = CGroup g (S "index") (S "[") (S "]") (S ":") false i.
  Proof. apply group_of_ok. in_list. Qed.
  Lemma gParens_eq g i : gParens g i = CGroup g (S "parens") (S "(") (S ")") (S "") false i.
  Proof. apply group_of_ok. in_list. Qed.
  Lemma gValues_eq g i : gValues g i = CGroup g (S "values") (S "{") (S "}") (S ",") false i.
  Proof. apply group_of_ok. in_list. Qed.
  Lemma gParams_eq g i : gParams g i = CGroup g (S "params") (S "(") (S ")") (S ",") false i.
  Proof. apply group_of_ok. in_list. Qed.
  Lemma gList_eq g i : gList g i = CGroup g (S "list") (S "") (S "") (S ",") false i.
  Proof. apply group_of_ok. in_list. Qed.
  Lemma gMap_eq g i : gMap g i = CGroup g (S "map") (S "map[") (S "]") (S "") false i.
  Proof. apply group_of_ok. in_list. Qed.
  Lemma gReturn_eq g i : gReturn g i = CGroup g (S "return") (S "return ") (S "") (S ",") false i.
  Proof. apply group_of_ok. in_list. Qed.
  Lemma gIf_eq g i : gIf g i = CGroup g (S "if") (S "if ") (S "") (S ";") false i.
  Proof. apply group_of_ok. in_list. Qed.
  Lemma gFor_eq g i : gFor g i = CGroup g (S "for") (S "for ") (S "") (S ";") false i.
  Proof. apply group_of_ok. in_list. Qed.
  Lemma gSwitch_eq g i : gSwitch g i = CGroup g (S "switch") (S "switch ") (S "") (S ";") false i.
  Proof. apply group_of_ok. in_list. Qed.
  Lemma gCase_eq g i : gCase g i = CGroup g (S "case") (S "case ") (S ":") (S ",") false i.
  Proof. apply group_of_ok. in_list. Qed.
  Lemma gBlock_eq g i : gBlock g i = CGroup g (S "block") (S "{") (S "}") (S "") true i.
  Proof. apply group_of_ok. in_list. Qed.
  Lemma gDefs_eq g i : gDefs g i = CGroup g (S "defs") (S "(") (S ")") (S "") true i.
  Proof. apply group_of_ok. in_list. Qed.

  Lemma kw_True : kw (S "True") = CTok (TkId (S "true")). Proof. apply kw_ok. in_list. Qed.
  Lemma kw_False : kw (S "False") = CTok (TkId (S "false")). Proof. apply kw_ok. in_list. Qed.
  Lemma kw_Nil : kw (S "Nil") = CTok (TkId (S "nil")). Proof. apply kw_ok. in_list. Qed.
  Lemma kw_Func : kw (S "Func") = CTok (TkText (S "func")). Proof. apply kw_ok. in_list. Qed.
  Lemma kw_Else : kw (S "Else") = CTok (TkText (S "else")). Proof. apply kw_ok. in_list. Qed.
  Lemma kw_Default : kw (S "Default") = CTok (TkText (S "default")). Proof. apply kw_ok. in_list. Qed.
  Lemma kw_Break : kw (S "Break") = CTok (TkText (S "break")). Proof. apply kw_ok. in_list. Qed.
  Lemma kw_Continue : kw (S "Continue") = CTok (TkText (S "continue")). Proof. apply kw_ok. in_list. Qed.
  Lemma kw_Go : kw (S "Go") = CTok (TkText (S "go")). Proof. apply kw_ok. in_list. Qed.
  Lemma kw_Defer : kw (S "Defer") = CTok (TkText (S "defer")). Proof. apply kw_ok. in_list. Qed.
  Lemma kw_Var : kw (S "Var") = CTok (TkText (S "var")). Proof. apply kw_ok. in_list. Qed.
  Lemma kw_Const : kw (S "Const") = CTok (TkText (S "const")). Proof. apply kw_ok. in_list. Qed.
  Lemma kw_Type : kw (S "Type") = CTok (TkText (S "type")). Proof. apply kw_ok. in_list. Qed.
  Lemma kw_Range : kw (S "Range") = CTok (TkText (S "range")). Proof. apply kw_ok. in_list. Qed.
End Tables.

(* ------------------------------------------------------------------ the constructs *)
Section Build.
  Variable cfg : config.
  Hypothesis Hok : tables_ok = true.

  Lemma chain_eq l x y : chain cfg l x -> x = y -> chain cfg l y.
  Proof. intros H <-. exact H. Qed.

  Lemma free_eq c x y : free cfg c x -> x = y -> free cfg c y.
  Proof. intros H <-. exact H. Qed.

  Ltac side := first [assumption | reflexivity].

  Lemma free_call items xs : Forall2 (good cfg) items xs -> free cfg (gCall 0 items) (S "(" ++ join comma xs ++ S ")").
  Proof. intros H. rewrite (gCall_eq Hok). apply free_flat_group; side. Qed.
  Lemma free_index items xs : Forall2 (good cfg) items xs -> free cfg (gIndex 0 items) (S "[" ++ join (S ":") xs ++ S "]").
  Proof. intros H. rewrite (gIndex_eq Hok). apply free_flat_group; side. Qed.
  Lemma free_parens items xs : Forall2 (good cfg) items xs -> free cfg (gParens 0 items) (S "(" ++ join [] xs ++ S ")").
  Proof. intros H. rewrite (gParens_eq Hok). apply free_flat_group; side. Qed.
  Lemma free_values items xs : Forall2 (good cfg) items xs -> free cfg (gValues 0 items) (S "{" ++ join comma xs ++ S "}").
  Proof. intros H. rewrite (gValues_eq Hok). apply free_flat_group; side. Qed.
  Lemma free_params items xs : Forall2 (good cfg) items xs -> free cfg (gParams 0 items) (S "(" ++ join comma xs ++ S ")").
  Proof. intros H. rewrite (gParams_eq Hok). apply free_flat_group; side. Qed.
  Lemma free_map items xs : Forall2 (good cfg) items xs -> free cfg (gMap 0 items) (S "map[" ++ join [] xs ++ S "]").
  Proof. intros H. rewrite (gMap_eq Hok). apply free_flat_group; side. Qed.
  Lemma free_return items xs : Forall2 (good cfg) items xs -> free cfg (gReturn 0 items) (S "return " ++ join comma xs ++ []).
  Proof. intros H. rewrite (gReturn_eq Hok). apply free_flat_group; side. Qed.
  Lemma free_if items xs : Forall2 (good cfg) items xs -> free cfg (gIf 0 items) (S "if " ++ join (S ";") xs ++ []).
  Proof. intros H. rewrite (gIf_eq Hok). apply free_flat_group; side. Qed.
  Lemma free_for items xs : Forall2 (good cfg) items xs -> free cfg (gFor 0 items) (S "for " ++ join (S ";") xs ++ []).
  Proof. intros H. rewrite (gFor_eq Hok). apply free_flat_group; side. Qed.
  Lemma free_switch items xs : Forall2 (good cfg) items xs -> free cfg (gSwitch 0 items) (S "switch " ++ join (S ";") xs ++ []).
  Proof. intros H. rewrite (gSwitch_eq Hok). apply free_flat_group; side. Qed.
  Lemma free_case items xs : Forall2 (good cfg) items xs -> free cfg (gCase 0 items) (S "case " ++ join comma xs ++ S ":").
  Proof. intros H. rewrite (gCase_eq Hok). apply free_flat_group; side. Qed.
  Lemma free_list c items x xs :
    Forall2 (good cfg) (c :: items) (x :: xs) -> free cfg (gList 0 (c :: items)) (join comma (x :: xs)).
  Proof. intros H. rewrite (gList_eq Hok). apply free_list_group; side. Qed.
  Lemma free_defs items xs : Forall2 (good cfg) items xs -> free cfg (gDefs 0 items) (parens_lines xs).
  Proof.
    intros H. rewrite (gDefs_eq Hok). split; [reflexivity|]. intros ctx t.
    rewrite (render_multi_group cfg 0 (S "defs") (S "(") (S ")") items xs H); reflexivity.
  Qed.

  (* a Block: with braces, or - directly after Case / Default in its statement - without *)
  Lemma item_block all items xs : Forall2 (good cfg) items xs ->
    item_ok cfg all (gBlock 1 items) (if case_ctx all (gBlock 1 items) then lines xs else braces xs).
  Proof.
    intros H. rewrite (gBlock_eq Hok). split; [reflexivity|]. intros t.
    rewrite (render_multi_group cfg 1 (S "block") (S "{") (S "}") items xs H); [|reflexivity|reflexivity].
    change (str_eqb (S "block") s_block) with true. cbn [andb]. reflexivity.
  Qed.

  Lemma chain_block pre xs items bxs post ys :
    Forall2 (free cfg) pre xs -> Forall2 (good cfg) items bxs -> Forall2 (free cfg) post ys ->
    (forall suf, case_ctx (pre ++ gBlock 1 items :: post ++ suf) (gBlock 1 items) = false) ->
    chain cfg (pre ++ gBlock 1 items :: post) (join sp (xs ++ braces bxs :: ys)).
  Proof.
    intros Hpre Hit Hpost Hctx suf. exists (xs ++ braces bxs :: ys).
    split; [destruct xs; discriminate|]. split; [|reflexivity].
    rewrite <- app_assoc. cbn [app]. apply Forall2_app.
    - apply (Forall2_weaken (free cfg)); [intros a b; apply free_item | exact Hpre].
    - constructor.
      + pose proof (item_block (pre ++ gBlock 1 items :: post ++ suf) items bxs Hit) as H.
        rewrite Hctx in H. exact H.
      + apply (Forall2_weaken (free cfg)); [intros a b; apply free_item | exact Hpost].
  Qed.

  Lemma good_case_block h hx items bxs :
    free cfg h hx -> Forall2 (good cfg) items bxs ->
    (forall suf, case_ctx (h :: gBlock 1 items :: suf) (gBlock 1 items) = true) ->
    good cfg (CStmt [h; gBlock 1 items]) (hx ++ sp ++ lines bxs).
  Proof.
    intros Hh Hit Hctx. apply chain_good. intros suf. exists [hx; lines bxs].
    split; [discriminate|]. split; [|reflexivity]. constructor; [apply free_item, Hh|].
    constructor; [|constructor].
    pose proof (item_block ([h; gBlock 1 items] ++ suf) items bxs Hit) as H.
    cbn [app] in H. rewrite Hctx in H. exact H.
  Qed.

  Lemma unop_not_default o : str_eqb (unop_text o) s_default = false.
  Proof. destruct o; reflexivity. Qed.
  Lemma binop_not_default o : str_eqb (binop_text o) s_default = false.
  Proof. destruct o; reflexivity. Qed.
  Lemma asgop_not_default o : str_eqb (asgop_text o) s_default = false.
  Proof. destruct o; reflexivity. Qed.

  (* ---- types ---- *)
  Lemma ty_chain t : chain cfg (bty t) (cty t).
  Proof.
    induction t as [n | t IH | t IH | k IHk v IHv]; cbn [bty cty].
    - apply (chain_free cfg [id n] [n]); [|discriminate]. constructor; [apply free_id | constructor].
    - eapply chain_eq; [apply (chain_free cfg _ [S "*"; cty t]); [|discriminate]|reflexivity].
      constructor; [apply free_op; reflexivity|]. constructor; [apply chain_operand, IH | constructor].
    - eapply chain_eq; [apply (chain_free cfg _ [S "[]"; cty t]); [|discriminate]|reflexivity].
      constructor; [|constructor; [apply chain_operand, IH | constructor]].
      eapply free_eq; [apply (free_index [] []); constructor | reflexivity].
    - eapply chain_eq; [apply (chain_free cfg _ [S "map[" ++ cty k ++ S "]"; cty v]); [|discriminate]|].
      + constructor; [|constructor; [apply chain_operand, IHv | constructor]].
        eapply free_eq; [apply (free_map [CStmt (bty k)] [cty k])|reflexivity].
        constructor; [apply chain_good, IHk | constructor].
      + cbn [join]. rewrite <- !app_assoc. reflexivity.
  Qed.

  Lemma ty_operand t : free cfg (CStmt (bty t)) (cty t).
  Proof. apply chain_operand, ty_chain. Qed.

  Lemma params_free ps : free cfg (bparams ps) (cparams ps).
  Proof.
    unfold bparams, cparams. apply free_params. apply Forall2_map_both. apply Forall_forall. intros [n t] _.
    unfold bparam, cparam. cbn [fst snd]. apply chain_good.
    eapply chain_eq; [apply (chain_free cfg _ [n; cty t]); [|discriminate]|reflexivity].
    constructor; [apply free_id|]. constructor; [apply ty_operand | constructor].
  Qed.

  Definition result_texts (res : option ty) : list str := match res with Some t => [cty t] | None => [] end.
  Lemma result_free res : Forall2 (free cfg) (bresult res) (result_texts res).
  Proof. destruct res as [t|]; cbn; [constructor; [apply ty_operand | constructor] | constructor]. Qed.
End Build.
