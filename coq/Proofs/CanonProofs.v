(* C01, stretch goal: render (build a) = canon a for EVERY tree of Spec/MiniGo.v.

   Method.  Nothing built by Spec/MiniGo.v contains a package token, so the import table is
   never changed; every item is non-null.  Three notions carry the induction:

     free c x      c is not null and renders to x at any table, in any context, table unchanged
     good c x      free, and c is a Statement (what every item of a group is)
     chain l x     the items l, standing at the HEAD of any statement l ++ suf, render to texts
                   that joined by blanks give x (the form in which an expression is spliced into
                   a longer chain; the suffix matters because a Block asks its statement for its
                   predecessor).

   The loops of the renderer are unfolded once (stmt_loop_ok, group_loop_ok); the rest is one
   case per constructor.

   Types are a nested inductive: induction by [ty_ind'] with the conditional lemmas
   params_free_P / results_free_P / sig_free_P / field_good_P (premise: the types inside are
   chains).  A keyed composite literal goes through the Dict theorem of Proofs/DictProofs.v
   (values_dict_spec) with the texts read off the renderer ([rtxt]): every key and value of
   MiniGo is free, hence live and settled at every table (free_values_dict).  At the end: the
   order of keyed elements (keyed_canon_sorted, keyed_canon_perm). *)
From Jen Require Import Base.Bytes Base.Num Model.Code Model.Naming Model.Render Model.FileRender Model.Exec.
From Jen Require Import Gen.Tables Proofs.CommentProofs Proofs.EmitProofs Proofs.DictProofs Spec.MiniGo.
From Jen Require Import Base.Sort.
From Coq Require Import Permutation Sorted.
Local Open Scope N_scope.

(* ------------------------------------------------------------------ lists and joins *)
Lemma join_app_ne sep (xs ys : list str) :
  xs <> [] -> ys <> [] -> join sep (xs ++ ys) = join sep xs ++ sep ++ join sep ys.
Proof.
  intros Hx Hy. induction xs as [|x xs IH]; [contradiction|].
  destruct xs as [|x2 xs].
  - destruct ys as [|y ys]; [contradiction | reflexivity].
  - change (join sep ((x :: x2 :: xs) ++ ys)) with (x ++ sep ++ join sep ((x2 :: xs) ++ ys)).
    rewrite IH by discriminate. change (join sep (x :: x2 :: xs)) with (x ++ sep ++ join sep (x2 :: xs)).
    rewrite <- !app_assoc. reflexivity.
Qed.

Lemma Forall2_weaken {A B} (R1 R2 : A -> B -> Prop) l1 l2 :
  (forall a b, R1 a b -> R2 a b) -> Forall2 R1 l1 l2 -> Forall2 R2 l1 l2.
Proof. intros H HF. induction HF; constructor; auto. Qed.

Lemma Forall2_map_both {A B C} (R : B -> C -> Prop) (f : A -> B) (g : A -> C) l :
  Forall (fun a => R (f a) (g a)) l -> Forall2 R (map f l) (map g l).
Proof. induction 1; cbn [map]; constructor; auto. Qed.

Lemma lines_eq xs : lines xs = concat_str (map (fun x => x0a :: x) xs).
Proof. reflexivity. Qed.

Section Canon.
  Variable cfg : config.

  Definition free (c : code) (x : str) : Prop :=
    (forall t, is_null cfg t c = false) /\ forall ctx t, render cfg ctx t c = Ok (t, x).

  Definition good (c : code) (x : str) : Prop := (exists l, c = CStmt l) /\ free c x.

  Definition item_ok (all : list code) (c : code) (x : str) : Prop :=
    (forall t, is_null cfg t c = false) /\ forall t, render cfg (case_ctx all c) t c = Ok (t, x).

  Definition chain (l : list code) (x : str) : Prop :=
    forall suf, exists xs, xs <> [] /\ Forall2 (item_ok (l ++ suf)) l xs /\ join sp xs = x.

  Lemma free_item all c x : free c x -> item_ok all c x.
  Proof. intros [Hn Hr]. split; [exact Hn | intros t; apply Hr]. Qed.

  (* ---- the two loops ---- *)
  Lemma stmt_loop_ok all l xs : Forall2 (item_ok all) l xs -> forall t first,
    stmt_loop cfg (render cfg) all t first l = Ok (t, group_text sp false first xs).
  Proof.
    induction 1 as [|c x l xs [Hn Hr] _ IH]; intros t first; [reflexivity|].
    cbn [stmt_loop]. rewrite Hn, Hr. cbn [bind fst snd]. rewrite IH. reflexivity.
  Qed.

  Lemma group_loop_ok name sep multi n items xs : Forall2 good items xs -> forall t first,
    group_loop cfg (render cfg) name sep multi n t first items =
    Ok (t, first && is_nil xs, group_text sep multi first xs).
  Proof.
    induction 1 as [|c x l xs [[l0 ->] [Hn Hr]] _ IH]; intros t first.
    - cbn. rewrite andb_true_r. reflexivity.
    - cbn [group_loop bind]. rewrite Hn. cbn [is_dict]. rewrite andb_false_r. cbn [andb].
      rewrite Hr. cbn [bind fst snd]. rewrite IH. cbn [bind fst snd is_nil group_text].
      rewrite andb_false_r. reflexivity.
  Qed.

  Lemma good_not_null c x items t : good c x -> forallb (is_null cfg t) (c :: items) = false.
  Proof. intros [_ [Hn _]]. cbn [forallb]. rewrite Hn. reflexivity. Qed.

  (* any Group whose items are statements as above *)
  Lemma render_group_ok gid name o cl sep multi items xs :
    Forall2 good items xs -> str_eqb name s_types = false -> forall ctx t,
    let blank := str_eqb name s_block && ctx in
    let o' := if blank then [] else o in
    let cl' := if blank then [] else cl in
    render cfg ctx t (CGroup gid name o cl sep multi items) =
    Ok (t, o' ++ group_text sep multi true xs ++ closer sep multi cl' xs ++ cl').
  Proof.
    intros HF Hty ctx t blank o' cl'. cbn [render]. rewrite Hty. cbn [andb].
    rewrite (group_loop_ok name sep multi _ items xs HF). cbn [bind fst snd andb].
    fold blank. fold o'. fold cl'. unfold closer. destruct xs; reflexivity.
  Qed.

  (* a one-line group with an opener *)
  Lemma free_flat_group gid name o cl sep items xs :
    Forall2 good items xs -> str_eqb name s_types = false -> str_eqb name s_block = false ->
    nonempty o = true ->
    free (CGroup gid name o cl sep false items) (o ++ join sep xs ++ cl).
  Proof.
    intros HF Hty Hbl Ho. split.
    - intros t. cbn [is_null]. rewrite Ho. reflexivity.
    - intros ctx t. rewrite (render_group_ok gid name o cl sep false items xs HF Hty).
      rewrite Hbl. cbn [andb]. rewrite closer_flat, group_text_join_flat. reflexivity.
  Qed.

  (* List(..): no delimiters; not null because its first item is not *)
  Lemma free_list_group gid name sep c items x xs :
    Forall2 good (c :: items) (x :: xs) -> str_eqb name s_types = false -> str_eqb name s_block = false ->
    free (CGroup gid name [] [] sep false (c :: items)) (join sep (x :: xs)).
  Proof.
    intros HF Hty Hbl. split.
    - intros t. cbn [is_null nonempty orb]. inversion HF as [|? ? ? ? Hc _]; subst.
      apply (good_not_null c x items t Hc).
    - intros ctx t. rewrite (render_group_ok gid name [] [] sep false _ _ HF Hty).
      rewrite Hbl. cbn [andb]. rewrite closer_flat, group_text_join_flat.
      cbn [app]. rewrite app_nil_r. reflexivity.
  Qed.

  (* a multi-line group without separator: Block (in either context), Defs *)
  Lemma render_multi_group gid name o cl items xs :
    Forall2 good items xs -> str_eqb name s_types = false -> nonempty cl = true -> forall ctx t,
    render cfg ctx t (CGroup gid name o cl [] true items) =
    Ok (t, if str_eqb name s_block && ctx then lines xs
           else o ++ lines xs ++ (match xs with [] => [] | _ => nl end) ++ cl).
  Proof.
    intros HF Hty Hcl ctx t. rewrite (render_group_ok gid name o cl [] true items xs HF Hty).
    rewrite group_text_multi_nosep, <- lines_eq. unfold closer.
    destruct (str_eqb name s_block && ctx).
    - cbn [nonempty andb app]. rewrite andb_false_r. rewrite !app_nil_r. reflexivity.
    - rewrite Hcl. destruct xs; reflexivity.
  Qed.

  (* ---- tokens ---- *)
  Lemma free_id n : free (id n) n.
  Proof. split; intros; reflexivity. Qed.

  Lemma free_op s : str_eqb s s_default = false -> free (op s) s.
  Proof.
    intros H. split; [intros; reflexivity|]. intros ctx t. cbn [op render render_token].
    rewrite H, app_nil_r. reflexivity.
  Qed.

  Lemma free_tkid s : free (CTok (TkId s)) s.
  Proof. split; intros; reflexivity. Qed.

  Lemma free_tktext s : str_eqb s s_default = false -> free (CTok (TkText s)) s.
  Proof. exact (free_op s). Qed.

  Lemma free_int z : free (CTok (TkLit (LInt z))) (Z_to_dec z).
  Proof. split; intros; reflexivity. Qed.

  Lemma free_str s : free (CTok (TkLit (LStr s))) (GoQuote s).
  Proof. split; intros; reflexivity. Qed.

  Lemma good_empty : good empty [].
  Proof. split; [eexists; reflexivity|]. split; intros; reflexivity. Qed.

  (* ---- statements ---- *)
  Lemma chain_good l x : chain l x -> good (CStmt l) x.
  Proof.
    intros H. destruct (H []) as (xs & Hne & HF & Hj). rewrite app_nil_r in HF.
    split; [eexists; reflexivity|]. split.
    - intros t. cbn [is_null]. destruct HF as [|c y l' ys [Hn _] _]; [contradiction|].
      cbn [forallb]. rewrite Hn. reflexivity.
    - intros ctx t. cbn [render]. rewrite (stmt_loop_ok l l xs HF), group_text_join_flat.
      rewrite <- Hj. reflexivity.
  Qed.

  Lemma good_free c x : good c x -> free c x.
  Proof. intros [_ H]. exact H. Qed.

  Lemma chain_free l xs : Forall2 free l xs -> xs <> [] -> chain l (join sp xs).
  Proof.
    intros HF Hne suf. exists xs. split; [exact Hne|]. split; [|reflexivity].
    apply (Forall2_weaken free); [intros a b; apply free_item | exact HF].
  Qed.

  Lemma chain_app l x l2 ys :
    chain l x -> Forall2 free l2 ys -> ys <> [] -> chain (l ++ l2) (x ++ sp ++ join sp ys).
  Proof.
    intros H HF Hne suf. destruct (H (l2 ++ suf)) as (xs & Hx & HF1 & Hj).
    exists (xs ++ ys). rewrite <- app_assoc. split; [destruct xs; [contradiction | discriminate]|].
    split.
    - apply Forall2_app; [exact HF1|].
      apply (Forall2_weaken free); [intros a b; apply free_item | exact HF].
    - rewrite join_app_ne by assumption. rewrite Hj. reflexivity.
  Qed.

  (* a chain wrapped as one operand: Add(..) *)
  Lemma chain_operand l x : chain l x -> free (CStmt l) x.
  Proof. intros H. apply good_free, chain_good, H. Qed.

  (* ---- Values(Dict{..}): keys and values that are free (Proofs/DictProofs.v: dict_spec with
     the texts read off the renderer - every pair is live and settled at every table) ---- *)
  Definition pair_free (cp : code * code) (kv : str * str) : Prop :=
    free (fst cp) (fst kv) /\ free (snd cp) (snd kv).

  Definition rtxt (t : table) (c : code) : str :=
    match render cfg false t c with Ok r => snd r | Panic _ => [] end.

  Lemma pairs_settled cpairs kvs t : Forall2 pair_free cpairs kvs ->
    settled cfg t (rtxt t) cpairs /\ map (pair_txt (rtxt t)) (filter (live cfg t) cpairs) = kvs.
  Proof.
    induction 1 as [|cp kv l l' [[Hnk Hk] [Hnv Hv]] _ [IH1 IH2]].
    - split; [intros kv [] | reflexivity].
    - split.
      + intros x [<- | Hin] Hl; [|exact (IH1 x Hin Hl)]. unfold rtxt. rewrite Hk, Hv. split; reflexivity.
      + cbn [filter]. unfold live at 1. rewrite Hnk, Hnv. cbn [orb negb map]. rewrite IH2.
        unfold pair_txt, rtxt. rewrite Hk, Hv. destruct kv; reflexivity.
  Qed.

  Lemma free_values_dict gid cpairs kvs : Forall2 pair_free cpairs kvs ->
    free (CGroup gid (S "values") (S "{") (S "}") (S ",") false [CDict cpairs])
         (S "{" ++ keyed_body (sort_keyed kvs) ++ S "}").
  Proof.
    intros HF. split; [intros t; reflexivity|]. intros ctx t.
    destruct (pairs_settled cpairs kvs t HF) as [Hs Hm].
    change (S "values") with s_values. rewrite (values_dict_spec cfg t (rtxt t) ctx gid cpairs Hs), Hm.
    reflexivity.
  Qed.
End Canon.

(* ------------------------------------------------------------------ the rows of the table *)
Section Tables.
  Hypothesis Hok : tables_ok = true.

  Lemma group_of_ok m n o c s mu :
    In (m, (n, o, c, s, mu)) expected_groups ->
    forall gid items, group_of m gid items = CGroup gid n o c s mu items.
  Proof.
    intros Hin gid items. unfold tables_ok in Hok. apply andb_true_iff in Hok. destruct Hok as [Hg _].
    rewrite forallb_forall in Hg. specialize (Hg _ Hin). unfold group_row_ok in Hg. unfold group_of.
    destruct (find_group m) as [r|]; [|discriminate].
    apply andb_true_iff in Hg. destruct Hg as [Hg H5]. apply andb_true_iff in Hg. destruct Hg as [Hg H4].
    apply andb_true_iff in Hg. destruct Hg as [Hg H3]. apply andb_true_iff in Hg. destruct Hg as [H1 H2].
    apply str_eqb_eq in H1, H2, H3, H4. apply Bool.eqb_prop in H5. rewrite H1, H2, H3, H4, H5. reflexivity.
  Qed.

  Lemma kw_ok m tk : In (m, tk) expected_tokens -> kw m = CTok tk.
  Proof.
    intros Hin. unfold tables_ok in Hok. apply andb_true_iff in Hok. destruct Hok as [_ Ht].
    rewrite forallb_forall in Ht. specialize (Ht _ Hin). unfold token_row_ok in Ht. cbn [fst snd] in Ht.
    unfold kw. destruct (find_token m) as [r|]; [|discriminate].
    destruct (token_of_row r) as [p|x|x|l|z|b|], tk as [p'|y|y|l'|z'|b'|]; try discriminate Ht;
      cbn [token_eqb] in Ht; apply str_eqb_eq in Ht; rewrite Ht; reflexivity.
  Qed.

  Ltac in_list := cbn [In expected_groups expected_tokens]; repeat first [left; reflexivity | right].

  Lemma gCall_eq g i : gCall g i = CGroup g (S "call") (S "(") (S ")") (S ",") false i.
  Proof. apply group_of_ok. in_list. Qed.
  Lemma gIndex_eq g i : gIndex g i = CGroup g (S "index") (S "[") (S "]") (S ":") false i.
  Proof. apply group_of_ok. in_list. Qed.
  Lemma gParens_eq g i : gParens g i = CGroup g (S "parens") (S "(") (S ")") (S "") false i.
  Proof. apply group_of_ok. in_list. Qed.
  Lemma gValues_eq g i : gValues g i = CGroup g (S "values") (S "{") (S "}") (S ",") false i.
  Proof. apply group_of_ok. in_list. Qed.
  Lemma gParams_eq g i : gParams g i = CGroup g (S "params") (S "(") (S ")") (S ",") false i.
  Proof. apply group_of_ok. in_list. Qed.
  Lemma gList_eq g i : gList g i = CGroup g (S "list") (S "") (S "") (S ",") false i.
  Proof. apply group_of_ok. in_list. Qed.
  Lemma gMap_eq g i : gMap g i = CGroup g (S "map") (S "map[") (S "]") (S "") false i.
  Proof. apply group_of_ok. in_list. Qed.
  Lemma gReturn_eq g i : gReturn g i = CGroup g (S "return") (S "return ") (S "") (S ",") false i.
  Proof. apply group_of_ok. in_list. Qed.
  Lemma gIf_eq g i : gIf g i = CGroup g (S "if") (S "if ") (S "") (S ";") false i.
  Proof. apply group_of_ok. in_list. Qed.
  Lemma gFor_eq g i : gFor g i = CGroup g (S "for") (S "for ") (S "") (S ";") false i.
  Proof. apply group_of_ok. in_list. Qed.
  Lemma gSwitch_eq g i : gSwitch g i = CGroup g (S "switch") (S "switch ") (S "") (S ";") false i.
  Proof. apply group_of_ok. in_list. Qed.
  Lemma gCase_eq g i : gCase g i = CGroup g (S "case") (S "case ") (S ":") (S ",") false i.
  Proof. apply group_of_ok. in_list. Qed.
  Lemma gBlock_eq g i : gBlock g i = CGroup g (S "block") (S "{") (S "}") (S "") true i.
  Proof. apply group_of_ok. in_list. Qed.
  Lemma gDefs_eq g i : gDefs g i = CGroup g (S "defs") (S "(") (S ")") (S "") true i.
  Proof. apply group_of_ok. in_list. Qed.
  Lemma gStruct_eq g i : gStruct g i = CGroup g (S "struct") (S "struct{") (S "}") (S "") true i.
  Proof. apply group_of_ok. in_list. Qed.
  Lemma gInterface_eq g i : gInterface g i = CGroup g (S "interface") (S "interface{") (S "}") (S "") true i.
  Proof. apply group_of_ok. in_list. Qed.
  Lemma gAssert_eq g i : gAssert g i = CGroup g (S "assert") (S ".(") (S ")") (S "") false i.
  Proof. apply group_of_ok. in_list. Qed.

  Lemma kw_True : kw (S "True") = CTok (TkId (S "true")). Proof. apply kw_ok. in_list. Qed.
  Lemma kw_False : kw (S "False") = CTok (TkId (S "false")). Proof. apply kw_ok. in_list. Qed.
  Lemma kw_Nil : kw (S "Nil") = CTok (TkId (S "nil")). Proof. apply kw_ok. in_list. Qed.
  Lemma kw_Func : kw (S "Func") = CTok (TkText (S "func")). Proof. apply kw_ok. in_list. Qed.
  Lemma kw_Else : kw (S "Else") = CTok (TkText (S "else")). Proof. apply kw_ok. in_list. Qed.
  Lemma kw_Default : kw (S "Default") = CTok (TkText (S "default")). Proof. apply kw_ok. in_list. Qed.
  Lemma kw_Break : kw (S "Break") = CTok (TkText (S "break")). Proof. apply kw_ok. in_list. Qed.
  Lemma kw_Continue : kw (S "Continue") = CTok (TkText (S "continue")). Proof. apply kw_ok. in_list. Qed.
  Lemma kw_Go : kw (S "Go") = CTok (TkText (S "go")). Proof. apply kw_ok. in_list. Qed.
  Lemma kw_Defer : kw (S "Defer") = CTok (TkText (S "defer")). Proof. apply kw_ok. in_list. Qed.
  Lemma kw_Var : kw (S "Var") = CTok (TkText (S "var")). Proof. apply kw_ok. in_list. Qed.
  Lemma kw_Const : kw (S "Const") = CTok (TkText (S "const")). Proof. apply kw_ok. in_list. Qed.
  Lemma kw_Type : kw (S "Type") = CTok (TkText (S "type")). Proof. apply kw_ok. in_list. Qed.
  Lemma kw_Range : kw (S "Range") = CTok (TkText (S "range")). Proof. apply kw_ok. in_list. Qed.
  Lemma kw_Chan : kw (S "Chan") = CTok (TkText (S "chan")). Proof. apply kw_ok. in_list. Qed.
  Lemma kw_Goto : kw (S "Goto") = CTok (TkText (S "goto")). Proof. apply kw_ok. in_list. Qed.
  Lemma kw_Fallthrough : kw (S "Fallthrough") = CTok (TkText (S "fallthrough")). Proof. apply kw_ok. in_list. Qed.
  Lemma kw_Select : kw (S "Select") = CTok (TkText (S "select")). Proof. apply kw_ok. in_list. Qed.
End Tables.

(* ------------------------------------------------------------------ the constructs *)
Section Build.
  Variable cfg : config.
  Hypothesis Hok : tables_ok = true.

  Lemma chain_eq l x y : chain cfg l x -> x = y -> chain cfg l y.
  Proof. intros H <-. exact H. Qed.

  Lemma free_eq c x y : free cfg c x -> x = y -> free cfg c y.
  Proof. intros H <-. exact H. Qed.

  Ltac side := first [assumption | reflexivity].

  Lemma free_call items xs : Forall2 (good cfg) items xs -> free cfg (gCall 0 items) (S "(" ++ join comma xs ++ S ")").
  Proof. intros H. rewrite (gCall_eq Hok). apply free_flat_group; side. Qed.
  Lemma free_index items xs : Forall2 (good cfg) items xs -> free cfg (gIndex 0 items) (S "[" ++ join (S ":") xs ++ S "]").
  Proof. intros H. rewrite (gIndex_eq Hok). apply free_flat_group; side. Qed.
  Lemma free_parens items xs : Forall2 (good cfg) items xs -> free cfg (gParens 0 items) (S "(" ++ join [] xs ++ S ")").
  Proof. intros H. rewrite (gParens_eq Hok). apply free_flat_group; side. Qed.
  Lemma free_values items xs : Forall2 (good cfg) items xs -> free cfg (gValues 0 items) (S "{" ++ join comma xs ++ S "}").
  Proof. intros H. rewrite (gValues_eq Hok). apply free_flat_group; side. Qed.
  Lemma free_params items xs : Forall2 (good cfg) items xs -> free cfg (gParams 0 items) (S "(" ++ join comma xs ++ S ")").
  Proof. intros H. rewrite (gParams_eq Hok). apply free_flat_group; side. Qed.
  Lemma free_map items xs : Forall2 (good cfg) items xs -> free cfg (gMap 0 items) (S "map[" ++ join [] xs ++ S "]").
  Proof. intros H. rewrite (gMap_eq Hok). apply free_flat_group; side. Qed.
  Lemma free_return items xs : Forall2 (good cfg) items xs -> free cfg (gReturn 0 items) (S "return " ++ join comma xs ++ []).
  Proof. intros H. rewrite (gReturn_eq Hok). apply free_flat_group; side. Qed.
  Lemma free_if items xs : Forall2 (good cfg) items xs -> free cfg (gIf 0 items) (S "if " ++ join (S ";") xs ++ []).
  Proof. intros H. rewrite (gIf_eq Hok). apply free_flat_group; side. Qed.
  Lemma free_for items xs : Forall2 (good cfg) items xs -> free cfg (gFor 0 items) (S "for " ++ join (S ";") xs ++ []).
  Proof. intros H. rewrite (gFor_eq Hok). apply free_flat_group; side. Qed.
  Lemma free_switch items xs : Forall2 (good cfg) items xs -> free cfg (gSwitch 0 items) (S "switch " ++ join (S ";") xs ++ []).
  Proof. intros H. rewrite (gSwitch_eq Hok). apply free_flat_group; side. Qed.
  Lemma free_case items xs : Forall2 (good cfg) items xs -> free cfg (gCase 0 items) (S "case " ++ join comma xs ++ S ":").
  Proof. intros H. rewrite (gCase_eq Hok). apply free_flat_group; side. Qed.
  Lemma free_list c items x xs :
    Forall2 (good cfg) (c :: items) (x :: xs) -> free cfg (gList 0 (c :: items)) (join comma (x :: xs)).
  Proof. intros H. rewrite (gList_eq Hok). apply free_list_group; side. Qed.
  Lemma free_defs items xs : Forall2 (good cfg) items xs -> free cfg (gDefs 0 items) (parens_lines xs).
  Proof.
    intros H. rewrite (gDefs_eq Hok). split; [reflexivity|]. intros ctx t.
    rewrite (render_multi_group cfg 0 (S "defs") (S "(") (S ")") items xs H); reflexivity.
  Qed.

  Lemma free_assert items xs : Forall2 (good cfg) items xs -> free cfg (gAssert 0 items) (S ".(" ++ join [] xs ++ S ")").
  Proof. intros H. rewrite (gAssert_eq Hok). apply free_flat_group; side. Qed.
  Lemma free_struct items xs : Forall2 (good cfg) items xs -> free cfg (gStruct 0 items) (type_lines (S "struct{") xs).
  Proof.
    intros H. rewrite (gStruct_eq Hok). split; [reflexivity|]. intros ctx t.
    rewrite (render_multi_group cfg 0 (S "struct") (S "struct{") (S "}") items xs H); reflexivity.
  Qed.
  Lemma free_interface items xs : Forall2 (good cfg) items xs -> free cfg (gInterface 0 items) (type_lines (S "interface{") xs).
  Proof.
    intros H. rewrite (gInterface_eq Hok). split; [reflexivity|]. intros ctx t.
    rewrite (render_multi_group cfg 0 (S "interface") (S "interface{") (S "}") items xs H); reflexivity.
  Qed.

  (* a Block: with braces, or - directly after Case / Default in its statement - without *)
  Lemma item_block all items xs : Forall2 (good cfg) items xs ->
    item_ok cfg all (gBlock 1 items) (if case_ctx all (gBlock 1 items) then lines xs else braces xs).
  Proof.
    intros H. rewrite (gBlock_eq Hok). split; [reflexivity|]. intros t.
    rewrite (render_multi_group cfg 1 (S "block") (S "{") (S "}") items xs H); [|reflexivity|reflexivity].
    change (str_eqb (S "block") s_block) with true. cbn [andb]. reflexivity.
  Qed.

  Lemma chain_block pre xs items bxs post ys :
    Forall2 (free cfg) pre xs -> Forall2 (good cfg) items bxs -> Forall2 (free cfg) post ys ->
    (forall suf, case_ctx (pre ++ gBlock 1 items :: post ++ suf) (gBlock 1 items) = false) ->
    chain cfg (pre ++ gBlock 1 items :: post) (join sp (xs ++ braces bxs :: ys)).
  Proof.
    intros Hpre Hit Hpost Hctx suf. exists (xs ++ braces bxs :: ys).
    split; [destruct xs; discriminate|]. split; [|reflexivity].
    rewrite <- app_assoc. cbn [app]. apply Forall2_app.
    - apply (Forall2_weaken (free cfg)); [intros a b; apply free_item | exact Hpre].
    - constructor.
      + pose proof (item_block (pre ++ gBlock 1 items :: post ++ suf) items bxs Hit) as H.
        rewrite Hctx in H. exact H.
      + apply (Forall2_weaken (free cfg)); [intros a b; apply free_item | exact Hpost].
  Qed.

  Lemma good_case_block h hx items bxs :
    free cfg h hx -> Forall2 (good cfg) items bxs ->
    (forall suf, case_ctx (h :: gBlock 1 items :: suf) (gBlock 1 items) = true) ->
    good cfg (CStmt [h; gBlock 1 items]) (hx ++ sp ++ lines bxs).
  Proof.
    intros Hh Hit Hctx. apply chain_good. intros suf. exists [hx; lines bxs].
    split; [discriminate|]. split; [|reflexivity]. constructor; [apply free_item, Hh|].
    constructor; [|constructor].
    pose proof (item_block ([h; gBlock 1 items] ++ suf) items bxs Hit) as H.
    cbn [app] in H. rewrite Hctx in H. exact H.
  Qed.

  Lemma unop_not_default o : str_eqb (unop_text o) s_default = false.
  Proof. destruct o; reflexivity. Qed.
  Lemma binop_not_default o : str_eqb (binop_text o) s_default = false.
  Proof. destruct o; reflexivity. Qed.
  Lemma asgop_not_default o : str_eqb (asgop_text o) s_default = false.
  Proof. destruct o; reflexivity. Qed.

  (* ---- types ---- *)
  Definition Pt (t : ty) : Prop := chain cfg (bty t) (cty t).

  Lemma free_kw_text m s : kw m = CTok (TkText s) -> str_eqb s s_default = false -> free cfg (kw m) s.
  Proof. intros -> H. apply free_tktext, H. Qed.

  Lemma param_good_P p : Pt (snd p) -> good cfg (bparam p) (cparam p).
  Proof.
    destruct p as [n t]. cbn [snd]. intros H. unfold bparam, bparam_with, cparam, cparam_with. cbn [fst snd].
    apply chain_good. eapply chain_eq; [apply (chain_free cfg _ [n; cty t]); [|discriminate]|reflexivity].
    constructor; [apply free_id|]. constructor; [apply chain_operand, H | constructor].
  Qed.

  Lemma free_tag kvs : kvs <> [] -> free cfg (CTag kvs) (tag_text kvs).
  Proof. intros H. split; intros; [destruct kvs; [congruence | reflexivity] | reflexivity]. Qed.

  (* a field: Id(n).Add(T) and, for a non-empty tag, .Tag(kvs) *)
  Lemma field_good_P f : Pt (fd_ty f) -> good cfg (bfield f) (cfield f).
  Proof.
    destruct f as [[n t] kvs]. unfold bfield, bfield_with, cfield, cfield_with, fd_name, fd_ty, fd_tag. cbn [fst snd].
    intros H. apply chain_good. destruct kvs as [|kv kvs].
    - cbn [app]. eapply chain_eq; [apply (chain_free cfg _ [n; cty t]); [|discriminate]|cbn [join]; rewrite app_nil_r; reflexivity].
      constructor; [apply free_id|]. constructor; [apply chain_operand, H | constructor].
    - eapply chain_eq; [apply (chain_free cfg _ [n; cty t; tag_text (kv :: kvs)]); [|discriminate]|reflexivity].
      constructor; [apply free_id|]. constructor; [apply chain_operand, H|].
      constructor; [apply free_tag; discriminate | constructor].
  Qed.

  Lemma params_good_P ps : ParamsP Pt ps -> Forall2 (good cfg) (map bparam ps) (map cparam ps).
  Proof. intros H. apply Forall2_map_both. eapply Forall_impl; [|exact H]. intros p Hp. apply param_good_P, Hp. Qed.

  Lemma params_free_P ps : ParamsP Pt ps -> free cfg (bparams ps) (cparams ps).
  Proof. intros H. unfold bparams, bparams_with, cparams, cparams_with. apply free_params, params_good_P, H. Qed.

  (* the texts of the result items: none, the type, or the parenthesised list *)
  Definition results_texts (res : list ty) : list str :=
    match res with
    | [] => []
    | [t] => [cty t]
    | _ => [S "(" ++ join comma (map cty res) ++ S ")"]
    end.

  Lemma results_free_P res : Forall Pt res -> Forall2 (free cfg) (bresults res) (results_texts res).
  Proof.
    intros H. unfold bresults. destruct res as [|t [|t2 res]]; cbn [bresults_with results_texts].
    - constructor.
    - inversion H; subst. constructor; [apply chain_operand; assumption | constructor].
    - constructor; [|constructor]. apply free_params. apply Forall2_map_both.
      eapply Forall_impl; [|exact H]. intros a Ha. apply chain_good, Ha.
  Qed.

  Lemma sig_free_P sg : SigP Pt sg -> Forall2 (free cfg) (bsig sg) (cparams (fst sg) :: results_texts (snd sg)).
  Proof. intros [Hp Hr]. constructor; [apply params_free_P, Hp | apply results_free_P, Hr]. Qed.

  Lemma csig_texts sg : join sp (cparams (fst sg) :: results_texts (snd sg)) = csig sg.
  Proof.
    destruct sg as [ps res]. unfold csig, csig_with. cbn [fst snd].
    destruct res as [|t [|t2 res]]; cbn [results_texts cresults_with join]; rewrite ?app_nil_r; reflexivity.
  Qed.

  Lemma join_cons_ne (x : str) xs : xs <> [] -> join sp (x :: xs) = x ++ sp ++ join sp xs.
  Proof. destruct xs; [congruence | reflexivity]. Qed.

  Lemma ty_chain t : Pt t.
  Proof.
    apply (ty_ind' Pt); unfold Pt; cbn [bty cty].
    - intros n. apply (chain_free cfg [id n] [n]); [|discriminate]. constructor; [apply free_id | constructor].
    - intros t0 IH. eapply chain_eq; [apply (chain_free cfg _ [S "*"; cty t0]); [|discriminate]|reflexivity].
      constructor; [apply free_op; reflexivity|]. constructor; [apply chain_operand, IH | constructor].
    - intros t0 IH. eapply chain_eq; [apply (chain_free cfg _ [S "[]"; cty t0]); [|discriminate]|reflexivity].
      constructor; [|constructor; [apply chain_operand, IH | constructor]].
      eapply free_eq; [apply (free_index [] []); constructor | reflexivity].
    - intros k v IHk IHv. eapply chain_eq; [apply (chain_free cfg _ [S "map[" ++ cty k ++ S "]"; cty v]); [|discriminate]|].
      + constructor; [|constructor; [apply chain_operand, IHv | constructor]].
        eapply free_eq; [apply (free_map [CStmt (bty k)] [cty k])|reflexivity].
        constructor; [apply chain_good, IHk | constructor].
      + cbn [join]. rewrite <- !app_assoc. reflexivity.
    - intros n t0 IH.
      eapply chain_eq; [apply (chain_free cfg _ [S "[" ++ Z_to_dec n ++ S "]"; cty t0]); [|discriminate]|].
      + constructor; [|constructor; [apply chain_operand, IH | constructor]].
        eapply free_eq; [apply (free_index [_] [Z_to_dec n])|reflexivity].
        constructor; [|constructor]. apply chain_good.
        apply (chain_free cfg [_] [Z_to_dec n]); [|discriminate]. constructor; [apply free_int | constructor].
      + cbn [join]. rewrite <- !app_assoc. reflexivity.
    - intros d t0 IH. destruct d.
      + eapply chain_eq; [apply (chain_free cfg _ [S "chan"; cty t0]); [|discriminate]|reflexivity].
        constructor; [apply (free_kw_text _ _ (kw_Chan Hok)); reflexivity|].
        constructor; [apply chain_operand, IH | constructor].
      + eapply chain_eq; [apply (chain_free cfg _ [S "<-"; S "chan"; cty t0]); [|discriminate]|reflexivity].
        constructor; [apply free_op; reflexivity|].
        constructor; [apply (free_kw_text _ _ (kw_Chan Hok)); reflexivity|].
        constructor; [apply chain_operand, IH | constructor].
      + eapply chain_eq; [apply (chain_free cfg _ [S "chan"; S "<-"; cty t0]); [|discriminate]|reflexivity].
        constructor; [apply (free_kw_text _ _ (kw_Chan Hok)); reflexivity|].
        constructor; [apply free_op; reflexivity|].
        constructor; [apply chain_operand, IH | constructor].
    - intros t0 IH. eapply chain_eq; [apply (chain_free cfg _ [S "..."; cty t0]); [|discriminate]|reflexivity].
      constructor; [apply free_op; reflexivity|]. constructor; [apply chain_operand, IH | constructor].
    - intros ps res Hp Hr.
      eapply chain_eq; [apply (chain_free cfg _ (S "func" :: cparams ps :: results_texts res)); [|discriminate]|].
      + constructor; [apply (free_kw_text _ _ (kw_Func Hok)); reflexivity|].
        exact (sig_free_P (ps, res) (conj Hp Hr)).
      + rewrite join_cons_ne by discriminate. pose proof (csig_texts (ps, res)) as E. cbn [fst snd] in E.
        rewrite E. reflexivity.
    - intros fs Hf. apply (chain_free cfg [_] [_]); [|discriminate]. constructor; [|constructor].
      apply free_struct. apply Forall2_map_both. eapply Forall_impl; [|exact Hf]. intros f Hf0. apply field_good_P, Hf0.
    - intros ms Hm. apply (chain_free cfg [_] [_]); [|discriminate]. constructor; [|constructor].
      apply free_interface. apply Forall2_map_both. eapply Forall_impl; [|exact Hm].
      intros [m sg] Hsg. cbn [fst snd] in *. apply chain_good.
      eapply chain_eq; [apply (chain_free cfg _ (m :: cparams (fst sg) :: results_texts (snd sg))); [|discriminate]|].
      + constructor; [apply free_id|]. exact (sig_free_P sg Hsg).
      + rewrite join_cons_ne by discriminate. rewrite csig_texts. reflexivity.
  Qed.

  Lemma ty_operand t : free cfg (CStmt (bty t)) (cty t).
  Proof. apply chain_operand, ty_chain. Qed.

  Lemma all_params ps : ParamsP Pt ps.
  Proof. apply Forall_forall. intros p _. apply ty_chain. Qed.
  Lemma all_tys res : Forall Pt res.
  Proof. apply Forall_forall. intros p _. apply ty_chain. Qed.

  Lemma params_free ps : free cfg (bparams ps) (cparams ps).
  Proof. apply params_free_P, all_params. Qed.

  Lemma result_free res : Forall2 (free cfg) (bresults res) (results_texts res).
  Proof. apply results_free_P, all_tys. Qed.
  (* ---- the induction predicates ---- *)
  Definition Pe (e : expr) : Prop := chain cfg (bexpr e) (cexpr e).
  Definition Ps (s : stmt) : Prop := chain cfg (bstmt s) (cstmt s).
  Definition Pc (c : clause) : Prop := good cfg (bclause c) (cclause c).

  Lemma exprs_good es : Forall Pe es -> Forall2 (good cfg) (map (fun a => CStmt (bexpr a)) es) (map cexpr es).
  Proof. intros H. apply Forall2_map_both. eapply Forall_impl; [|exact H]. intros a Ha. apply chain_good, Ha. Qed.

  Lemma stmts_good body : Forall Ps body -> Forall2 (good cfg) (map (fun s => CStmt (bstmt s)) body) (map cstmt body).
  Proof. intros H. apply Forall2_map_both. eapply Forall_impl; [|exact H]. intros a Ha. apply chain_good, Ha. Qed.

  Lemma clauses_good cls : Forall Pc cls -> Forall2 (good cfg) (map bclause cls) (map cclause cls).
  Proof. intros H. apply Forall2_map_both. exact H. Qed.

  Lemma opt_expr_good o : OptP Pe o -> good cfg (opt_item bexpr o) (opt_text cexpr o).
  Proof. destruct o as [e|]; cbn [OptP opt_item opt_text]; intros H; [apply chain_good, H | apply good_empty]. Qed.

  Lemma opt_stmt_good o : OptP Ps o -> good cfg (opt_item bstmt o) (opt_text cstmt o).
  Proof. destruct o as [e|]; cbn [OptP opt_item opt_text]; intros H; [apply chain_good, H | apply good_empty]. Qed.

  Lemma on_last_good ls xs : Forall2 (chain cfg) ls xs ->
    Forall2 (good cfg) (map CStmt (on_last (fun l => l ++ [op (S "...")]) ls)) (on_last (fun x => x ++ S " ...") xs).
  Proof.
    induction 1 as [|l x ls xs H HF IH]; [constructor|].
    destruct HF as [|l2 x2 ls' xs' H2 HF'].
    - cbn [on_last map]. constructor; [|constructor]. apply chain_good.
      eapply chain_eq; [apply (chain_app cfg l x [op (S "...")] [S "..."] H); [|discriminate]|reflexivity].
      constructor; [apply free_op; reflexivity | constructor].
    - change (Forall2 (good cfg)
               (CStmt l :: map CStmt (on_last (fun l => l ++ [op (S "...")]) (l2 :: ls')))
               (x :: on_last (fun x => x ++ S " ...") (x2 :: xs'))).
      constructor; [apply chain_good, H | exact IH].
  Qed.

  Lemma args_good ddd args : Forall Pe args ->
    Forall2 (good cfg) (call_args ddd (map bexpr args))
            (if ddd then on_last (fun x => x ++ S " ...") (map cexpr args) else map cexpr args).
  Proof.
    intros H. unfold call_args. destruct ddd.
    - apply on_last_good. apply Forall2_map_both. exact H.
    - rewrite map_map. apply exprs_good, H.
  Qed.

  Lemma call_chain f args ddd : Pe f -> Forall Pe args ->
    chain cfg (bexpr f ++ [gCall 0 (call_args ddd (map bexpr args))])
          (cexpr f ++ S " (" ++ arg_list ddd (map cexpr args) ++ S ")").
  Proof.
    intros Hf Ha. eapply chain_eq; [eapply (chain_app cfg _ _ _ [_] Hf); [|discriminate]|].
    - constructor; [apply free_call, (args_good ddd args Ha) | constructor].
    - reflexivity.
  Qed.

  (* ---- expressions ---- *)
  Lemma one_free c x : free cfg c x -> chain cfg [c] x.
  Proof. intros H. apply (chain_free cfg [c] [x]); [constructor; [exact H | constructor] | discriminate]. Qed.

  Lemma pe_id n : Pe (EId n). Proof. apply one_free, free_id. Qed.
  Lemma pe_int z : Pe (EInt z). Proof. apply one_free, free_int. Qed.
  Lemma pe_str s : Pe (EStr s). Proof. apply one_free, free_str. Qed.
  Lemma pe_bool b : Pe (EBool b).
  Proof. unfold Pe. destruct b; cbn [bexpr cexpr]; [rewrite (kw_True Hok) | rewrite (kw_False Hok)]; apply one_free, free_tkid. Qed.
  Lemma pe_nil : Pe ENil.
  Proof. unfold Pe. cbn [bexpr cexpr]. rewrite (kw_Nil Hok). apply one_free, free_tkid. Qed.

  Lemma pe_un o x : Pe x -> Pe (EUn o x).
  Proof.
    intros Hx. unfold Pe. cbn [bexpr cexpr].
    eapply chain_eq; [apply (chain_free cfg _ [unop_text o; cexpr x]); [|discriminate]|reflexivity].
    constructor; [apply free_op, unop_not_default|]. constructor; [apply chain_operand, Hx | constructor].
  Qed.

  Lemma pe_bin x o y : Pe x -> Pe y -> Pe (EBin x o y).
  Proof.
    intros Hx Hy. unfold Pe. cbn [bexpr cexpr].
    eapply chain_eq; [apply (chain_app cfg _ _ _ [binop_text o; cexpr y] Hx); [|discriminate]|reflexivity].
    constructor; [apply free_op, binop_not_default|]. constructor; [apply chain_operand, Hy | constructor].
  Qed.

  Lemma pe_call f args ddd : Pe f -> Forall Pe args -> Pe (ECall f args ddd).
  Proof. intros Hf Ha. apply call_chain; assumption. Qed.

  Lemma pe_index x i : Pe x -> Pe i -> Pe (EIndex x i).
  Proof.
    intros Hx Hi. unfold Pe. cbn [bexpr cexpr].
    eapply chain_eq; [eapply (chain_app cfg _ _ _ [_] Hx); [|discriminate]|].
    - constructor; [apply (free_index [_] [cexpr i]) | constructor].
      constructor; [apply chain_good, Hi | constructor].
    - reflexivity.
  Qed.

  Lemma pe_slice x lo hi : Pe x -> OptP Pe lo -> OptP Pe hi -> Pe (ESlice x lo hi).
  Proof.
    intros Hx Hlo Hhi. unfold Pe. cbn [bexpr cexpr].
    eapply chain_eq; [eapply (chain_app cfg _ _ _ [_] Hx); [|discriminate]|].
    - constructor; [apply (free_index [_; _] [opt_text cexpr lo; opt_text cexpr hi]) | constructor].
      constructor; [apply opt_expr_good, Hlo|]. constructor; [apply opt_expr_good, Hhi | constructor].
    - cbn [join]. rewrite <- !app_assoc. reflexivity.
  Qed.

  Lemma pe_slice3 x lo hi mx : Pe x -> OptP Pe lo -> OptP Pe hi -> OptP Pe mx -> Pe (ESlice3 x lo hi mx).
  Proof.
    intros Hx Hlo Hhi Hmx. unfold Pe. cbn [bexpr cexpr].
    eapply chain_eq; [eapply (chain_app cfg _ _ _ [_] Hx); [|discriminate]|].
    - constructor; [apply (free_index [_; _; _] [opt_text cexpr lo; opt_text cexpr hi; opt_text cexpr mx]) | constructor].
      constructor; [apply opt_expr_good, Hlo|]. constructor; [apply opt_expr_good, Hhi|].
      constructor; [apply opt_expr_good, Hmx | constructor].
    - cbn [join]. rewrite <- !app_assoc. reflexivity.
  Qed.

  Lemma pe_sel x sel : Pe x -> Pe (ESel x sel).
  Proof.
    intros Hx. unfold Pe. cbn [bexpr cexpr].
    eapply chain_eq; [apply (chain_app cfg _ _ _ [S "."; sel] Hx); [|discriminate]|reflexivity].
    constructor; [apply free_op; reflexivity|]. constructor; [apply free_id | constructor].
  Qed.

  Lemma pe_paren x : Pe x -> Pe (EParen x).
  Proof.
    intros Hx. unfold Pe. cbn [bexpr cexpr]. apply one_free.
    eapply free_eq; [apply (free_parens [_] [cexpr x])|reflexivity].
    constructor; [apply chain_good, Hx | constructor].
  Qed.

  Lemma pe_comp t elts : Forall Pe elts -> Pe (EComp t elts).
  Proof.
    intros He. unfold Pe. cbn [bexpr cexpr].
    eapply chain_eq; [eapply (chain_app cfg _ _ _ [_] (ty_chain t)); [|discriminate]|].
    - constructor; [apply free_values, (exprs_good elts He) | constructor].
    - reflexivity.
  Qed.

  Lemma pairs_free pairs : Forall (PairP Pe) pairs ->
    Forall2 (pair_free cfg) (map (fun kv => (CStmt (bexpr (fst kv)), CStmt (bexpr (snd kv)))) pairs)
            (map (fun kv => (cexpr (fst kv), cexpr (snd kv))) pairs).
  Proof.
    intros H. apply Forall2_map_both. eapply Forall_impl; [|exact H]. intros kv [Hk Hv].
    split; cbn [fst snd]; apply chain_operand; assumption.
  Qed.

  Lemma pe_keyed t pairs : Forall (PairP Pe) pairs -> Pe (EKeyed t pairs).
  Proof.
    intros Hp. unfold Pe. cbn [bexpr cexpr].
    eapply chain_eq; [eapply (chain_app cfg _ _ _ [_] (ty_chain t)); [|discriminate]|].
    - constructor; [rewrite (gValues_eq Hok); apply free_values_dict, (pairs_free pairs Hp) | constructor].
    - reflexivity.
  Qed.
  Ltac txt := cbn [join app opt_text]; rewrite ?app_nil_r, <- ?app_assoc; reflexivity.

  (* func [receiver] [name] (params) [result] { body } *)
  Lemma results_cases (P : list ty -> Prop) :
    P [] -> (forall t, P [t]) -> (forall t t2 r, P (t :: t2 :: r)) -> forall res, P res.
  Proof. intros H0 H1 H2 [|t [|t2 r]]; auto. Qed.

  Lemma func_chain hd hxs ps res body :
    Forall2 (free cfg) hd hxs ->
    (forall items suf, case_ctx ((hd ++ bparams ps :: bresults res) ++ gBlock 1 items :: [] ++ suf) (gBlock 1 items) = false) ->
    Forall Ps body ->
    chain cfg ((hd ++ bparams ps :: bresults res) ++ [gBlock 1 (map (fun s => CStmt (bstmt s)) body)])
          (join sp ((hxs ++ cparams ps :: results_texts res) ++ [braces (map cstmt body)])).
  Proof.
    intros Hhd Hctx Hb. apply chain_block; [|exact (stmts_good body Hb)|constructor|apply Hctx].
    apply Forall2_app; [exact Hhd|]. constructor; [apply params_free | apply result_free].
  Qed.

  Ltac ctx3 res := intros items suf; revert res; apply results_cases; intros; unfold bparams, bparams_with, bresults, bresults_with;
    rewrite ?(kw_Func Hok), ?(gParams_eq Hok), ?(gBlock_eq Hok); reflexivity.
  Ltac txt3 res := revert res; apply results_cases; intros; unfold cresults; cbn [results_texts cresults_with]; txt.

  Lemma pe_func ps res body : Forall Ps body -> Pe (EFunc ps res body).
  Proof.
    intros Hb. unfold Pe. cbn [bexpr cexpr].
    eapply chain_eq; [apply (func_chain [kw (S "Func")] [S "func"] ps res body); [| |exact Hb]|].
    - constructor; [apply (free_kw_text _ _ (kw_Func Hok)); reflexivity | constructor].
    - ctx3 res.
    - txt3 res.
  Qed.

  Lemma pe_assert x t : Pe x -> Pe (EAssert x t).
  Proof.
    intros Hx. unfold Pe. cbn [bexpr cexpr].
    eapply chain_eq; [eapply (chain_app cfg _ _ _ [_] Hx); [|discriminate]|].
    - constructor; [apply (free_assert [_] [cty t]) | constructor].
      constructor; [apply chain_good, ty_chain | constructor].
    - reflexivity.
  Qed.

  (* ---- statements ---- *)
  Lemma ps_expr e : Pe e -> Ps (SExpr e).
  Proof. intros H. exact H. Qed.

  Lemma ps_assign l ls o r rs : Pe l -> Forall Pe ls -> Pe r -> Forall Pe rs -> Ps (SAssign l ls o r rs).
  Proof.
    intros Hl Hls Hr Hrs. unfold Ps. cbn [bstmt cstmt].
    eapply chain_eq;
      [apply (chain_free cfg _ [join comma (map cexpr (l :: ls)); asgop_text o; join comma (map cexpr (r :: rs))]);
       [|discriminate]|reflexivity].
    constructor; [apply (free_list _ _ _ _ (exprs_good (l :: ls) (Forall_cons l Hl Hls)))|].
    constructor; [apply free_op, asgop_not_default|].
    constructor; [apply (free_list _ _ _ _ (exprs_good (r :: rs) (Forall_cons r Hr Hrs))) | constructor].
  Qed.

  Lemma ps_incdec x inc : Pe x -> Ps (SIncDec x inc).
  Proof.
    intros Hx. unfold Ps. cbn [bstmt cstmt].
    destruct inc;
      (eapply chain_eq; [eapply (chain_app cfg _ _ _ [_] Hx); [|discriminate]|];
       [constructor; [apply free_op; reflexivity | constructor] | reflexivity]).
  Qed.

  Lemma ps_return es : Forall Pe es -> Ps (SReturn es).
  Proof.
    intros He. unfold Ps. cbn [bstmt cstmt]. apply one_free.
    eapply free_eq; [apply free_return, (exprs_good es He) | rewrite app_nil_r; reflexivity].
  Qed.

  Lemma if_head init cond : OptP Ps init -> Pe cond ->
    free cfg (gIf 0 (opt_items (fun s => [CStmt (bstmt s)]) init ++ [CStmt (bexpr cond)]))
         (S "if " ++ opt_text (fun s => cstmt s ++ S ";") init ++ cexpr cond).
  Proof.
    intros Hi Hc. destruct init as [s|]; cbn [OptP opt_items opt_text app] in *.
    - eapply free_eq; [apply (free_if [_; _] [cstmt s; cexpr cond])|txt].
      constructor; [apply chain_good, Hi|]. constructor; [apply chain_good, Hc | constructor].
    - eapply free_eq; [apply (free_if [_] [cexpr cond])|txt].
      constructor; [apply chain_good, Hc | constructor].
  Qed.

  Lemma ps_if init cond body els :
    OptP Ps init -> Pe cond -> Forall Ps body -> OptP Ps els -> Ps (SIf init cond body els).
  Proof.
    intros Hi Hc Hb He. unfold Ps. cbn [bstmt cstmt]. pose proof (stmts_good body Hb) as HB.
    pose proof (if_head init cond Hi Hc) as HH.
    destruct els as [s2|]; cbn [OptP opt_items opt_text app] in *.
    - eapply chain_eq; [eapply (chain_block [_] [_] _ _ [_; _] [S "else"; cstmt s2]);
                        [constructor; [exact HH | constructor]|exact HB| |]|].
      + constructor; [apply (free_kw_text _ _ (kw_Else Hok)); reflexivity|].
        constructor; [apply chain_operand, He | constructor].
      + intros suf. rewrite (gIf_eq Hok), (gBlock_eq Hok). reflexivity.
      + txt.
    - eapply chain_eq; [eapply (chain_block [_] [_] _ _ [] []);
                        [constructor; [exact HH | constructor]|exact HB|constructor|]|].
      + intros suf. rewrite (gIf_eq Hok), (gBlock_eq Hok). reflexivity.
      + txt.
  Qed.

  (* a loop: For(head..).Block(body..) *)
  Lemma for_chain hd hx body : Forall Ps body -> free cfg (gFor 0 hd) hx ->
    chain cfg [gFor 0 hd; gBlock 1 (map (fun s => CStmt (bstmt s)) body)] (hx ++ sp ++ braces (map cstmt body)).
  Proof.
    intros Hb Hh. pose proof (stmts_good body Hb) as HB.
    eapply chain_eq; [eapply (chain_block [_] [hx] _ _ [] []);
                      [constructor; [exact Hh | constructor]|exact HB|constructor|]|].
    - intros suf. rewrite (gFor_eq Hok), (gBlock_eq Hok). reflexivity.
    - txt.
  Qed.

  Lemma ps_for init cond post body :
    OptP Ps init -> OptP Pe cond -> OptP Ps post -> Forall Ps body -> Ps (SFor init cond post body).
  Proof.
    intros Hi Hc Hp Hb. unfold Ps. cbn [bstmt cstmt].
    eapply chain_eq; [eapply (for_chain _ _ body Hb)|].
    - apply (free_for [_; _; _] [opt_text cstmt init; opt_text cexpr cond; opt_text cstmt post]).
      constructor; [apply opt_stmt_good, Hi|]. constructor; [apply opt_expr_good, Hc|].
      constructor; [apply opt_stmt_good, Hp | constructor].
    - txt.
  Qed.

  Lemma ps_while cond body : Pe cond -> Forall Ps body -> Ps (SWhile cond body).
  Proof.
    intros Hc Hb. unfold Ps. cbn [bstmt cstmt].
    eapply chain_eq; [eapply (for_chain _ _ body Hb)|].
    - apply (free_for [_] [cexpr cond]). constructor; [apply chain_good, Hc | constructor].
    - txt.
  Qed.

  Lemma ps_loop body : Forall Ps body -> Ps (SLoop body).
  Proof.
    intros Hb. unfold Ps. cbn [bstmt cstmt].
    eapply chain_eq; [eapply (for_chain _ _ body Hb)|].
    - apply (free_for [] []). constructor.
    - txt.
  Qed.

  Lemma ps_range k v def x body : Pe k -> OptP Pe v -> Pe x -> Forall Ps body -> Ps (SRange k v def x body).
  Proof.
    intros Hk Hv Hx Hb. unfold Ps. cbn [bstmt cstmt].
    assert (HL : free cfg (gList 0 (CStmt (bexpr k) :: opt_items (fun e => [CStmt (bexpr e)]) v))
                      (cexpr k ++ opt_text (fun e => comma ++ cexpr e) v)).
    { destruct v as [e|]; cbn [OptP opt_items opt_text] in *.
      - eapply free_eq; [apply (free_list _ [_] (cexpr k) [cexpr e])|reflexivity].
        constructor; [apply chain_good, Hk|]. constructor; [apply chain_good, Hv | constructor].
      - eapply free_eq; [apply (free_list _ [] (cexpr k) [])|txt].
        constructor; [apply chain_good, Hk | constructor]. }
    eapply chain_eq; [eapply (for_chain _ _ body Hb)|].
    - eapply (free_for [_] [_]). constructor; [|constructor]. apply chain_good.
      eapply (chain_free cfg _ [_; (if def then S ":=" else S "="); S "range"; cexpr x]); [|discriminate].
      constructor; [exact HL|]. constructor; [destruct def; apply free_op; reflexivity|].
      constructor; [apply (free_kw_text _ _ (kw_Range Hok)); reflexivity|].
      constructor; [apply chain_operand, Hx | constructor].
    - destruct def; txt.
  Qed.

  Lemma ps_switch init tag cls : OptP Ps init -> OptP Pe tag -> Forall Pc cls -> Ps (SSwitch init tag cls).
  Proof.
    intros Hi Ht Hc. unfold Ps. cbn [bstmt cstmt]. pose proof (clauses_good cls Hc) as HB.
    assert (HH : forall hd hxs, Forall2 (good cfg) hd hxs ->
              chain cfg [gSwitch 0 hd; gBlock 1 (map bclause cls)]
                    ((S "switch " ++ join (S ";") hxs) ++ sp ++ braces (map cclause cls))).
    { intros hd hxs Hhd.
      eapply chain_eq; [eapply (chain_block [_] [_] _ _ [] []);
                        [constructor; [apply (free_switch hd hxs Hhd) | constructor]|exact HB|constructor|]|].
      - intros suf. rewrite (gSwitch_eq Hok), (gBlock_eq Hok). reflexivity.
      - txt. }
    destruct init as [s|], tag as [e|]; cbn [OptP] in *.
    - eapply chain_eq; [apply (HH [_; _] [cstmt s; cexpr e])|txt].
      constructor; [apply chain_good, Hi|]. constructor; [apply chain_good, Ht | constructor].
    - eapply chain_eq; [apply (HH [_; _] [cstmt s; []])|txt].
      constructor; [apply chain_good, Hi|]. constructor; [apply good_empty | constructor].
    - eapply chain_eq; [apply (HH [_] [cexpr e])|txt].
      constructor; [apply chain_good, Ht | constructor].
    - eapply chain_eq; [apply (HH [] [])|txt]. constructor.
  Qed.

  Lemma ps_block body : Forall Ps body -> Ps (SBlock body).
  Proof.
    intros Hb. unfold Ps. cbn [bstmt cstmt]. pose proof (stmts_good body Hb) as HB.
    eapply chain_eq; [eapply (chain_block [] [] _ _ [] []); [constructor|exact HB|constructor|]|].
    - intros suf. rewrite (gBlock_eq Hok). reflexivity.
    - txt.
  Qed.

  Lemma branch_chain m s l : kw m = CTok (TkText s) -> str_eqb s s_default = false ->
    chain cfg (kw m :: opt_items (fun x => [id x]) l) (s ++ opt_text (fun x => sp ++ x) l).
  Proof.
    intros Hm Hs. destruct l as [x|]; cbn [opt_items opt_text].
    - eapply chain_eq; [apply (chain_free cfg _ [s; x]); [|discriminate]|reflexivity].
      constructor; [apply (free_kw_text _ _ Hm Hs)|]. constructor; [apply free_id | constructor].
    - rewrite app_nil_r. apply one_free, (free_kw_text _ _ Hm Hs).
  Qed.

  Lemma ps_break l : Ps (SBreak l).
  Proof. apply (branch_chain _ _ l (kw_Break Hok)). reflexivity. Qed.
  Lemma ps_continue l : Ps (SContinue l).
  Proof. apply (branch_chain _ _ l (kw_Continue Hok)). reflexivity. Qed.

  Lemma ps_go f args ddd : Pe f -> Forall Pe args -> Ps (SGo f args ddd).
  Proof.
    intros Hf Ha. unfold Ps. cbn [bstmt cstmt].
    eapply chain_eq; [eapply (chain_free cfg _ [S "go"; _]); [|discriminate]|].
    - constructor; [apply (free_kw_text _ _ (kw_Go Hok)); reflexivity|].
      constructor; [apply chain_operand, (call_chain f args ddd Hf Ha) | constructor].
    - reflexivity.
  Qed.

  Lemma ps_defer f args ddd : Pe f -> Forall Pe args -> Ps (SDefer f args ddd).
  Proof.
    intros Hf Ha. unfold Ps. cbn [bstmt cstmt].
    eapply chain_eq; [eapply (chain_free cfg _ [S "defer"; _]); [|discriminate]|].
    - constructor; [apply (free_kw_text _ _ (kw_Defer Hok)); reflexivity|].
      constructor; [apply chain_operand, (call_chain f args ddd Hf Ha) | constructor].
    - reflexivity.
  Qed.

  (* the optional type and the optional initialiser of a var statement / a value spec *)
  Definition tyval_texts (t : option ty) (e : option expr) : list str :=
    (match t with Some t => [cty t] | None => [] end) ++
    (match e with Some e => [S "="; cexpr e] | None => [] end).

  Lemma tyval_free t e : OptP Pe e ->
    Forall2 (free cfg) (opt_items (fun t => [CStmt (bty t)]) t ++ opt_items (fun e => [op (S "="); CStmt (bexpr e)]) e)
            (tyval_texts t e).
  Proof.
    intros He. unfold tyval_texts. apply Forall2_app.
    - destruct t as [t|]; cbn [opt_items]; [constructor; [apply ty_operand | constructor] | constructor].
    - destruct e as [e|]; cbn [opt_items OptP] in *; [|constructor].
      constructor; [apply free_op; reflexivity|]. constructor; [apply chain_operand, He | constructor].
  Qed.

  Lemma ps_var x t e : OptP Pe e -> Ps (SVar x t e).
  Proof.
    intros He. unfold Ps. cbn [bstmt cstmt].
    eapply chain_eq; [apply (chain_free cfg _ ([S "var"; x] ++ tyval_texts t e)); [|discriminate]|].
    - apply Forall2_app; [|apply tyval_free, He].
      constructor; [apply (free_kw_text _ _ (kw_Var Hok)); reflexivity|]. constructor; [apply free_id | constructor].
    - destruct t, e; unfold tyval_texts; txt.
  Qed.

  Lemma ps_labeled l s : Ps s -> Ps (SLabeled l s).
  Proof.
    intros Hs. unfold Ps. cbn [bstmt cstmt].
    eapply chain_eq; [apply (chain_free cfg _ [l; S ":"; cstmt s]); [|discriminate]|reflexivity].
    constructor; [apply free_id|]. constructor; [apply free_op; reflexivity|].
    constructor; [apply chain_operand, Hs | constructor].
  Qed.

  Lemma ps_goto l : Ps (SGoto l).
  Proof.
    unfold Ps. cbn [bstmt cstmt].
    eapply chain_eq; [apply (chain_free cfg _ [S "goto"; l]); [|discriminate]|reflexivity].
    constructor; [apply (free_kw_text _ _ (kw_Goto Hok)); reflexivity|]. constructor; [apply free_id | constructor].
  Qed.

  Lemma ps_fallthrough : Ps SFallthrough.
  Proof. unfold Ps. cbn [bstmt cstmt]. apply one_free, (free_kw_text _ _ (kw_Fallthrough Hok)). reflexivity. Qed.

  Lemma ps_send c v : Pe c -> Pe v -> Ps (SSend c v).
  Proof.
    intros Hc Hv. unfold Ps. cbn [bstmt cstmt].
    eapply chain_eq; [apply (chain_app cfg _ _ _ [S "<-"; cexpr v] Hc); [|discriminate]|reflexivity].
    constructor; [apply free_op; reflexivity|]. constructor; [apply chain_operand, Hv | constructor].
  Qed.

  Lemma ps_select cls : Forall Pc cls -> Ps (SSelect cls).
  Proof.
    intros Hc. unfold Ps. cbn [bstmt cstmt]. pose proof (clauses_good cls Hc) as HB.
    eapply chain_eq; [eapply (chain_block [_] [S "select"] _ _ [] []);
                      [constructor; [apply (free_kw_text _ _ (kw_Select Hok)); reflexivity | constructor]|exact HB|constructor|]|].
    - intros suf. rewrite (kw_Select Hok), (gBlock_eq Hok). reflexivity.
    - txt.
  Qed.

  (* the guard of a type switch: [b :=] x .(type) *)
  Lemma guard_good bind x : Pe x ->
    good cfg (CStmt (match bind with
                     | Some b => [id b; op (S ":="); CStmt (bexpr x ++ [gAssert 0 [CStmt [kw (S "Type")]]])]
                     | None => bexpr x ++ [gAssert 0 [CStmt [kw (S "Type")]]]
                     end))
         (opt_text (fun b => b ++ S " := ") bind ++ cexpr x ++ S " .(type)").
  Proof.
    intros Hx.
    assert (HG : chain cfg (bexpr x ++ [gAssert 0 [CStmt [kw (S "Type")]]]) (cexpr x ++ S " .(type)")).
    { eapply chain_eq; [eapply (chain_app cfg _ _ _ [_] Hx); [|discriminate]|].
      - constructor; [apply (free_assert [_] [S "type"]) | constructor].
        constructor; [|constructor]. apply chain_good, one_free, (free_kw_text _ _ (kw_Type Hok)). reflexivity.
      - reflexivity. }
    destruct bind as [b|]; cbn [opt_text].
    - apply chain_good. eapply chain_eq; [apply (chain_free cfg _ [b; S ":="; cexpr x ++ S " .(type)"]); [|discriminate]|].
      + constructor; [apply free_id|]. constructor; [apply free_op; reflexivity|].
        constructor; [apply chain_operand, HG | constructor].
      + cbn [join]. rewrite <- !app_assoc. reflexivity.
    - apply chain_good, HG.
  Qed.

  Lemma ps_typeswitch init bind x cls : OptP Ps init -> Pe x -> Forall Pc cls -> Ps (STypeSwitch init bind x cls).
  Proof.
    intros Hi Hx Hc. unfold Ps. cbn [bstmt cstmt]. pose proof (clauses_good cls Hc) as HB.
    pose proof (guard_good bind x Hx) as HG.
    set (gx := opt_text (fun b => b ++ S " := ") bind ++ cexpr x ++ S " .(type)") in *.
    assert (HH : forall hd hxs, Forall2 (good cfg) hd hxs ->
              chain cfg [gSwitch 0 hd; gBlock 1 (map bclause cls)]
                    ((S "switch " ++ join (S ";") hxs) ++ sp ++ braces (map cclause cls))).
    { intros hd hxs Hhd.
      eapply chain_eq; [eapply (chain_block [_] [_] _ _ [] []);
                        [constructor; [apply (free_switch hd hxs Hhd) | constructor]|exact HB|constructor|]|].
      - intros suf. rewrite (gSwitch_eq Hok), (gBlock_eq Hok). reflexivity.
      - txt. }
    destruct init as [s|]; cbn [OptP opt_items opt_text app] in *.
    - eapply chain_eq; [apply (HH [_; _] [cstmt s; gx])|].
      + constructor; [apply chain_good, Hi|]. constructor; [exact HG | constructor].
      + unfold gx. cbn [join]. rewrite <- !app_assoc. reflexivity.
    - eapply chain_eq; [apply (HH [_] [gx])|].
      + constructor; [exact HG | constructor].
      + unfold gx. cbn [join]. rewrite <- !app_assoc. reflexivity.
  Qed.

  (* ---- clauses: the Block after Case / Default has no braces ---- *)
  Lemma pc_case e es body : Pe e -> Forall Pe es -> Forall Ps body -> Pc (CCase e es body).
  Proof.
    intros He Hes Hb. unfold Pc. cbn [bclause cclause]. pose proof (stmts_good body Hb) as HB.
    assert (H : good cfg (CStmt [gCase 0 (map (fun a => CStmt (bexpr a)) (e :: es));
                                 gBlock 1 (map (fun s => CStmt (bstmt s)) body)])
                     ((S "case " ++ join comma (map cexpr (e :: es)) ++ S ":") ++ sp ++ lines (map cstmt body))).
    { apply good_case_block; [apply free_case, (exprs_good (e :: es) (Forall_cons e He Hes)) | exact HB |].
      intros suf. rewrite (gCase_eq Hok), (gBlock_eq Hok). reflexivity. }
    destruct H as [H1 H2]. split; [exact H1|]. eapply free_eq; [exact H2|].
    rewrite <- !app_assoc. reflexivity.
  Qed.

  Lemma pc_default body : Forall Ps body -> Pc (CDefault body).
  Proof.
    intros Hb. unfold Pc. cbn [bclause cclause]. pose proof (stmts_good body Hb) as HB.
    assert (H : good cfg (CStmt [kw (S "Default"); gBlock 1 (map (fun s => CStmt (bstmt s)) body)])
                     (S "default:" ++ sp ++ lines (map cstmt body))).
    { apply good_case_block; [|exact HB|].
      - rewrite (kw_Default Hok). split; intros; reflexivity.
      - intros suf. rewrite (kw_Default Hok), (gBlock_eq Hok). reflexivity. }
    exact H.
  Qed.
  Lemma pc_comm s body : Ps s -> Forall Ps body -> Pc (CComm s body).
  Proof.
    intros Hs Hb. unfold Pc. cbn [bclause cclause]. pose proof (stmts_good body Hb) as HB.
    assert (H : good cfg (CStmt [gCase 0 [CStmt (bstmt s)]; gBlock 1 (map (fun s => CStmt (bstmt s)) body)])
                     ((S "case " ++ join comma [cstmt s] ++ S ":") ++ sp ++ lines (map cstmt body))).
    { apply good_case_block; [apply free_case; constructor; [apply chain_good, Hs | constructor] | exact HB |].
      intros suf. rewrite (gCase_eq Hok), (gBlock_eq Hok). reflexivity. }
    destruct H as [H1 H2]. split; [exact H1|]. eapply free_eq; [exact H2|].
    cbn [join]. rewrite <- !app_assoc. reflexivity.
  Qed.

  Lemma pc_type t ts body : Forall Ps body -> Pc (CType t ts body).
  Proof.
    intros Hb. unfold Pc. cbn [bclause cclause]. pose proof (stmts_good body Hb) as HB.
    assert (H : good cfg (CStmt [gCase 0 (map (fun a => CStmt (bty a)) (t :: ts)); gBlock 1 (map (fun s => CStmt (bstmt s)) body)])
                     ((S "case " ++ join comma (map cty (t :: ts)) ++ S ":") ++ sp ++ lines (map cstmt body))).
    { apply good_case_block; [apply free_case | exact HB |].
      - apply Forall2_map_both. apply Forall_forall. intros a _. apply chain_good, ty_chain.
      - intros suf. rewrite (gCase_eq Hok), (gBlock_eq Hok). reflexivity. }
    destruct H as [H1 H2]. split; [exact H1|]. eapply free_eq; [exact H2|].
    rewrite <- !app_assoc. reflexivity.
  Qed.

  (* ---- all trees ---- *)
  Theorem all_chains : (forall e, Pe e) /\ (forall s, Ps s) /\ (forall c, Pc c).
  Proof.
    exact (mini_ind Pe Ps Pc pe_id pe_int pe_str pe_bool pe_nil pe_un pe_bin pe_call pe_index pe_slice
             pe_slice3 pe_sel pe_paren pe_comp pe_keyed pe_func pe_assert ps_expr ps_assign ps_incdec ps_return ps_if ps_for
             ps_while ps_loop ps_range ps_switch ps_block ps_break ps_continue ps_go ps_defer ps_var
             ps_labeled ps_goto ps_fallthrough ps_send ps_select ps_typeswitch pc_case pc_default pc_comm pc_type).
  Qed.

  Lemma expr_chain e : chain cfg (bexpr e) (cexpr e).
  Proof. exact (proj1 all_chains e). Qed.
  Lemma stmt_chain s : chain cfg (bstmt s) (cstmt s).
  Proof. exact (proj1 (proj2 all_chains) s). Qed.

  Lemma all_stmts body : Forall Ps body.
  Proof. apply Forall_forall. intros s _. apply stmt_chain. Qed.

  (* ---- declarations ---- *)
  Lemma spec_good sp0 : good cfg (bspec sp0) (cspec sp0).
  Proof.
    destruct sp0 as [[n t] e]. unfold bspec, cspec. apply chain_good.
    eapply chain_eq; [apply (chain_free cfg _ (n :: tyval_texts t e)); [|discriminate]|].
    - constructor; [apply free_id|]. apply tyval_free. destruct e as [e|]; [apply expr_chain | exact I].
    - destruct t, e; unfold tyval_texts; txt.
  Qed.

  Lemma defs_chain m s specs : kw m = CTok (TkText s) -> str_eqb s s_default = false ->
    chain cfg [kw m; gDefs 0 (map bspec specs)] (s ++ sp ++ parens_lines (map cspec specs)).
  Proof.
    intros Hm Hs. eapply chain_eq; [apply (chain_free cfg _ [s; parens_lines (map cspec specs)]); [|discriminate]|reflexivity].
    constructor; [apply (free_kw_text _ _ Hm Hs)|]. constructor; [|constructor].
    apply free_defs. apply Forall2_map_both. apply Forall_forall. intros x _. apply spec_good.
  Qed.

  Lemma decl_chain d : chain cfg (bdecl d) (cdecl d).
  Proof.
    destruct d as [name ps res body | recv name ps res body | specs | specs | name t]; cbn [bdecl cdecl].
    - eapply chain_eq; [apply (func_chain [kw (S "Func"); id name] [S "func"; name] ps res body); [| |apply all_stmts]|].
      + constructor; [apply (free_kw_text _ _ (kw_Func Hok)); reflexivity|]. constructor; [apply free_id | constructor].
      + ctx3 res.
      + txt3 res.
    - eapply chain_eq;
        [apply (func_chain [kw (S "Func"); bparams [recv]; id name] [S "func"; cparams [recv]; name] ps res body);
         [| |apply all_stmts]|].
      + constructor; [apply (free_kw_text _ _ (kw_Func Hok)); reflexivity|].
        constructor; [apply params_free|]. constructor; [apply free_id | constructor].
      + ctx3 res.
      + txt3 res.
    - eapply chain_eq; [apply (defs_chain _ _ specs (kw_Var Hok)); reflexivity | reflexivity].
    - eapply chain_eq; [apply (defs_chain _ _ specs (kw_Const Hok)); reflexivity | reflexivity].
    - eapply chain_eq; [apply (chain_free cfg _ [S "type"; name; cty t]); [|discriminate]|reflexivity].
      constructor; [apply (free_kw_text _ _ (kw_Type Hok)); reflexivity|]. constructor; [apply free_id|].
      constructor; [apply ty_operand | constructor].
  Qed.

  (* ---- THE THEOREM, per syntactic class: from any table, in any context, the built tree
     renders to the canonical text and leaves the table as it was ---- *)
  Lemma render_of_chain l x : chain cfg l x -> forall ctx t, render cfg ctx t (CStmt l) = Ok (t, x).
  Proof. intros H. exact (proj2 (chain_operand cfg l x H)). Qed.

  Theorem render_build_type t0 : forall ctx t, render cfg ctx t (build_type t0) = Ok (t, cty t0).
  Proof. exact (render_of_chain _ _ (ty_chain t0)). Qed.
  Theorem render_build_expr e : forall ctx t, render cfg ctx t (build_expr e) = Ok (t, cexpr e).
  Proof. exact (render_of_chain _ _ (expr_chain e)). Qed.
  Theorem render_build_stmt s : forall ctx t, render cfg ctx t (build_stmt s) = Ok (t, cstmt s).
  Proof. exact (render_of_chain _ _ (stmt_chain s)). Qed.
  Theorem render_build_decl d : forall ctx t, render cfg ctx t (build_decl d) = Ok (t, cdecl d).
  Proof. exact (render_of_chain _ _ (decl_chain d)). Qed.

  Lemma decls_good ds : Forall2 (good cfg) (map build_decl ds) (map cdecl ds).
  Proof. apply Forall2_map_both. apply Forall_forall. intros d _. apply chain_good, decl_chain. Qed.

  (* the case-block rule, as it is used above: the same Block, with the same items, is written
     with braces in a statement where it does not follow Case / Default, and without them
     where it does *)
  Theorem block_braces_rule body : forall t,
    render cfg false t (CStmt [gBlock 1 (map (fun s => CStmt (bstmt s)) body)]) = Ok (t, braces (map cstmt body)) /\
    render cfg false t (CStmt [kw (S "Default"); gBlock 1 (map (fun s => CStmt (bstmt s)) body)]) =
      Ok (t, S "default: " ++ lines (map cstmt body)).
  Proof.
    intros t. split.
    - exact (render_build_stmt (SBlock body) false t).
    - pose proof (pc_default body (all_stmts body)) as [_ [_ H]]. exact (H false t).
  Qed.
End Build.

(* ------------------------------------------------------------------ the file *)
Lemma fold_add_items l : forall f,
  fold_left add_item l f =
  mkfile (f_name f) (f_path f) (f_prefix f) (f_hints f) (f_imports f) (f_comments f) (f_headers f)
         (f_cgo f) (f_noformat f) (f_canonical f) (f_items f ++ l).
Proof.
  induction l as [|c l IH]; intros f; cbn [fold_left].
  - rewrite app_nil_r. destruct f; reflexivity.
  - rewrite IH. cbn. rewrite <- app_assoc. reflexivity.
Qed.

Theorem file_raw_build : tables_ok = true -> forall name ds,
  file_raw (build_file name ds) = Ok ([], cfile name ds).
Proof.
  intros Hok name ds. unfold build_file. rewrite fold_add_items. cbn [new_file f_name f_path f_prefix f_hints f_imports
    f_comments f_headers f_cgo f_noformat f_canonical f_items app].
  unfold file_raw, file_group. cbn [f_items f_imports f_cgo file_cfg f_path f_prefix f_hints].
  rewrite (render_group_ok (mkcfg [] [] []) 0 [] [] [] [] true _ _ (decls_good _ Hok ds)); [|reflexivity].
  cbn [bind fst snd]. rewrite group_text_multi_nosep, <- lines_eq. unfold closer.
  change (str_eqb [] s_block && false) with false. cbv iota. cbn [nonempty]. rewrite andb_false_r.
  unfold file_head, cfile. cbn. rewrite ?app_nil_r, <- ?app_assoc. reflexivity.
Qed.

Lemma tables_ok_holds : tables_ok = true.
Proof. vm_compute. reflexivity. Qed.

(* ------------------------------------------------------------------ keyed elements: the order *)
Lemma isort_by_sorted_id {A} (key : A -> str) l : StronglySorted (key_le key) l -> isort_by key l = l.
Proof.
  induction 1 as [|x l Hs IH Hall]; [reflexivity|]. cbn [isort_by]. rewrite IH.
  destruct l as [|y l]; [reflexivity|]. cbn [insert_by].
  inversion Hall as [|? ? Hxy _]; subst. unfold key_le in Hxy. rewrite Hxy. reflexivity.
Qed.

Definition ctext_pair (kv : expr * expr) : str * str := (cexpr (fst kv), cexpr (snd kv)).

Lemma keyed_texts_sorted pairs : sort_keyed (map ctext_pair pairs) = map ctext_pair (keyed_sorted pairs).
Proof.
  unfold sort_keyed, keyed_sorted. symmetry.
  apply (isort_by_map (fun kv => cexpr (fst kv)) fst ctext_pair). intros kv. reflexivity.
Qed.

Lemma keyed_sorted_idem pairs : keyed_sorted (keyed_sorted pairs) = keyed_sorted pairs.
Proof. unfold keyed_sorted. apply isort_by_sorted_id, isort_by_sorted. Qed.

(* the text of a keyed literal is the text of the literal whose elements are listed in sorted
   order; that list is a permutation of the elements *)
Theorem keyed_canon_sorted t pairs :
  cexpr (EKeyed t pairs) = cexpr (EKeyed t (keyed_sorted pairs)) /\ Permutation (keyed_sorted pairs) pairs.
Proof.
  split; [|apply isort_by_perm]. cbn [cexpr].
  change (map (fun kv => (cexpr (fst kv), cexpr (snd kv)))) with (map ctext_pair).
  rewrite !keyed_texts_sorted, keyed_sorted_idem. reflexivity.
Qed.

Lemma distinct_strs_NoDup l : distinct_strs l = true -> NoDup l.
Proof.
  induction l as [|a l IH]; intros H; [constructor|]. cbn [distinct_strs] in H.
  apply andb_true_iff in H. destruct H as [H1 H2]. constructor; [|exact (IH H2)].
  intros Hin. apply negb_true_iff in H1. assert (E : existsb (str_eqb a) l = true).
  { apply existsb_exists. exists a. split; [exact Hin | apply str_eqb_refl]. }
  congruence.
Qed.

(* with pairwise distinct key texts the order of the pairs (Go: the iteration order of the map)
   does not matter *)
Theorem keyed_sorted_perm pairs pairs' : keys_ok pairs = true -> Permutation pairs pairs' ->
  keyed_sorted pairs = keyed_sorted pairs'.
Proof.
  intros Hk Hp. unfold keyed_sorted. apply isort_by_perm_invariant; [|exact Hp].
  apply distinct_strs_NoDup, Hk.
Qed.

Theorem keyed_canon_perm t pairs pairs' : keys_ok pairs = true -> Permutation pairs pairs' ->
  cexpr (EKeyed t pairs) = cexpr (EKeyed t pairs').
Proof.
  intros Hk Hp. rewrite (proj1 (keyed_canon_sorted t pairs)), (proj1 (keyed_canon_sorted t pairs')).
  rewrite (keyed_sorted_perm pairs pairs' Hk Hp). reflexivity.
Qed.

(* a literal whose elements are already in the order of their key texts is written as it stands *)
Theorem keyed_canon_in_order t pairs : keyed_sorted pairs = pairs ->
  cexpr (EKeyed t pairs) = cty t ++ S " {" ++ keyed_body (map ctext_pair pairs) ++ S "}".
Proof.
  intros E. cbn [cexpr]. change (map (fun kv => (cexpr (fst kv), cexpr (snd kv)))) with (map ctext_pair).
  rewrite keyed_texts_sorted, E. reflexivity.
Qed.
