(* T1, second half (DESIGN.md section 4): the rendered text is the PURE text [ptext]
   (Spec/Pure.v) at the final import table.

     covered cfg t c          every path the tree needs (occs) has a registration in t
     render_covered           at a covered table rendering changes nothing and writes ptext
     render_factorisation     render cfg ctx t c = Ok (t1, s) -> ptext cfg t1 ctx c = Ok s
     ptext_ext                ptext is the same at every extension of a covered table
     ptext_contains           the text of every written sub-tree is a contiguous part of
                              the text of the tree (the constructs only concatenate)
     qual_occurrences         every written Qual(p, n) stands in the text as q.n for the one
                              q the table - hence the import block - holds for p

   Same architecture as render_stable / render_grows: one lemma per loop, nested induction
   with [code_ind']. *)
From Jen Require Import Base.Bytes Base.Sort Model.Code Model.Naming Model.Render Model.FileRender Gen.Tables.
From Jen Require Import Proofs.NamingProofs Proofs.RenderProofs Proofs.CommentProofs Proofs.EmitProofs
                        Proofs.DictProofs Proofs.OccsProofs Spec.Pure.
From Coq Require Import Lia Permutation.
Local Open Scope bool_scope.

(* every path rendering [c] from [t] would register is registered in [t] already *)
Definition covered (cfg : config) (t : table) (c : code) : Prop :=
  forall p, In p (occs cfg t c) -> exists n, registered_name t p = Some n.

Definition reg_in (t : table) (ps : list str) : Prop :=
  forall p, In p ps -> exists n, registered_name t p = Some n.

Lemma reg_in_flat_map {A} t (f : A -> list str) l x : reg_in t (flat_map f l) -> In x l -> reg_in t (f x).
Proof. intros H Hin p Hp. apply H. apply in_flat_map. exists x. split; assumption. Qed.

Lemma reg_in_app_l t a b : reg_in t (a ++ b) -> reg_in t a.
Proof. intros H p Hp. apply H. apply in_or_app. left. exact Hp. Qed.
Lemma reg_in_app_r t a b : reg_in t (a ++ b) -> reg_in t b.
Proof. intros H p Hp. apply H. apply in_or_app. right. exact Hp. Qed.

(* ------------------------------------------------------------------ facts about the pure loops *)
(* the Dict entries: one per surviving pair, in order *)
Definition ktxt (rec : prec) (c : code) : str :=
  match rec false c with Ok s => s | Panic _ => [] end.
Definition pentry_of (rec : prec) (kv : code * code) : str * result str :=
  (ktxt rec (fst kv), rec false (snd kv)).

Section PureLoops.
  Variable cfg : config.

  (* the loops look at the table through null-ness and at the items through [rec] *)
  Lemma pitems_cong t t' (rec rec' : prec) name n items :
    (forall x, In x items -> is_null cfg t' x = is_null cfg t x) ->
    (forall x, In x items -> is_null cfg t x = false -> rec' false x = rec false x) ->
    pitems cfg t' rec' name n items = pitems cfg t rec name n items.
  Proof.
    induction items as [|c l IH]; intros Hn Hr; [reflexivity|]. cbn [pitems].
    rewrite (Hn c (or_introl eq_refl)).
    assert (IH' : pitems cfg t' rec' name n l = pitems cfg t rec name n l).
    { apply IH; intros x Hx; [apply Hn | apply Hr]; right; exact Hx. }
    destruct (is_null cfg t c) eqn:En; [exact IH'|].
    rewrite (Hr c (or_introl eq_refl) En), IH'. reflexivity.
  Qed.

  Lemma pstmt_items_cong t t' (rec rec' : prec) all items :
    (forall x, In x items -> is_null cfg t' x = is_null cfg t x) ->
    (forall x, In x items -> is_null cfg t x = false -> forall b, rec' b x = rec b x) ->
    pstmt_items cfg t' rec' all items = pstmt_items cfg t rec all items.
  Proof.
    induction items as [|c l IH]; intros Hn Hr; [reflexivity|]. cbn [pstmt_items].
    rewrite (Hn c (or_introl eq_refl)).
    assert (IH' : pstmt_items cfg t' rec' all l = pstmt_items cfg t rec all l).
    { apply IH; intros x Hx; [apply Hn | apply Hr]; right; exact Hx. }
    destruct (is_null cfg t c) eqn:En; [exact IH'|].
    rewrite (Hr c (or_introl eq_refl) En), IH'. reflexivity.
  Qed.

  Lemma pdict_entries_cong t t' (rec rec' : prec) pairs :
    (forall kv, In kv pairs -> is_null cfg t' (fst kv) = is_null cfg t (fst kv) /\
                               is_null cfg t' (snd kv) = is_null cfg t (snd kv)) ->
    (forall kv, In kv pairs -> live cfg t kv = true ->
                rec' false (fst kv) = rec false (fst kv) /\ rec' false (snd kv) = rec false (snd kv)) ->
    pdict_entries cfg t' rec' pairs = pdict_entries cfg t rec pairs.
  Proof.
    induction pairs as [|kv l IH]; intros Hn Hr; [reflexivity|]. cbn [pdict_entries].
    destruct (Hn kv (or_introl eq_refl)) as [Hn1 Hn2]. rewrite Hn1, Hn2.
    assert (IH' : pdict_entries cfg t' rec' l = pdict_entries cfg t rec l).
    { apply IH; intros x Hx; [apply Hn | apply Hr]; right; exact Hx. }
    destruct (is_null cfg t (fst kv) || is_null cfg t (snd kv)) eqn:En; [exact IH'|].
    destruct (Hr kv (or_introl eq_refl)) as [Hr1 Hr2]; [unfold live; rewrite En; reflexivity|].
    rewrite Hr1, Hr2, IH'. reflexivity.
  Qed.

  (* every written item has a text, and it is one of the texts the loop returns *)
  Lemma pitems_In t (rec : prec) name n items xs x :
    pitems cfg t rec name n items = Ok xs -> In x items -> is_null cfg t x = false ->
    exists sx, rec false x = Ok sx /\ In sx xs.
  Proof.
    revert xs. induction items as [|c l IH]; intros xs H Hin En; [destruct Hin|]. cbn [pitems] in H.
    destruct (is_null cfg t c) eqn:Ec.
    - destruct Hin as [->|Hin]; [congruence|]. exact (IH _ H Hin En).
    - destruct (str_eqb name s_values && is_dict c && Nat.ltb 1 n); [discriminate|].
      destruct (rec false c) as [sc|m] eqn:Erc; cbn [bind] in H; [|discriminate].
      destruct (pitems cfg t rec name n l) as [ys|m] eqn:El; cbn [bind] in H; [|discriminate].
      injection H as <-. destruct Hin as [->|Hin].
      + exists sc. split; [exact Erc | left; reflexivity].
      + destruct (IH _ eq_refl Hin En) as (sx & Hs & Hi). exists sx. split; [exact Hs | right; exact Hi].
  Qed.

  Lemma pstmt_items_In t (rec : prec) all items xs x :
    pstmt_items cfg t rec all items = Ok xs -> In x items -> is_null cfg t x = false ->
    exists sx, rec (case_ctx all x) x = Ok sx /\ In sx xs.
  Proof.
    revert xs. induction items as [|c l IH]; intros xs H Hin En; [destruct Hin|]. cbn [pstmt_items] in H.
    destruct (is_null cfg t c) eqn:Ec.
    - destruct Hin as [->|Hin]; [congruence|]. exact (IH _ H Hin En).
    - destruct (rec (case_ctx all c) c) as [sc|m] eqn:Erc; cbn [bind] in H; [|discriminate].
      destruct (pstmt_items cfg t rec all l) as [ys|m] eqn:El; cbn [bind] in H; [|discriminate].
      injection H as <-. destruct Hin as [->|Hin].
      + exists sc. split; [exact Erc | left; reflexivity].
      + destruct (IH _ eq_refl Hin En) as (sx & Hs & Hi). exists sx. split; [exact Hs | right; exact Hi].
  Qed.

  (* the Dict entries: one per surviving pair, in order *)

  Lemma pdict_entries_spec t (rec : prec) pairs es :
    pdict_entries cfg t rec pairs = Ok es ->
    es = map (pentry_of rec) (filter (live cfg t) pairs) /\
    forall kv, In kv (filter (live cfg t) pairs) -> rec false (fst kv) = Ok (ktxt rec (fst kv)).
  Proof.
    revert es. induction pairs as [|kv l IH]; intros es H; cbn [pdict_entries filter] in *.
    - injection H as <-. split; [reflexivity | intros kv []].
    - change (live cfg t kv) with (negb (is_null cfg t (fst kv) || is_null cfg t (snd kv))).
      destruct (is_null cfg t (fst kv) || is_null cfg t (snd kv)); cbn [negb].
      + exact (IH _ H).
      + destruct (rec false (fst kv)) as [k|m] eqn:Ek; cbn [bind] in H; [|discriminate].
        destruct (pdict_entries cfg t rec l) as [es'|m]; cbn [bind] in H; [|discriminate].
        injection H as <-. destruct (IH _ eq_refl) as [-> Hk]. split.
        * cbn [map]. f_equal. unfold pentry_of, ktxt. rewrite Ek. reflexivity.
        * intros x [<-|Hx]; [unfold ktxt; rewrite Ek; reflexivity | apply Hk; exact Hx].
  Qed.

  Lemma pvalues_In l kvs e :
    pvalues l = Ok kvs -> In e l -> exists v, snd e = Ok v /\ In (fst e, v) kvs.
  Proof.
    revert kvs. induction l as [|a l IH]; intros kvs H Hin; [destruct Hin|]. cbn [pvalues] in H.
    destruct (snd a) as [v|m] eqn:Ea; cbn [bind] in H; [|discriminate].
    destruct (pvalues l) as [r|m]; cbn [bind] in H; [|discriminate]. injection H as <-.
    destruct Hin as [->|Hin].
    - exists v. split; [exact Ea | left; reflexivity].
    - destruct (IH _ eq_refl Hin) as (w & Hw & Hi). exists w. split; [exact Hw | right; exact Hi].
  Qed.

  Lemma pvalues_length l kvs : pvalues l = Ok kvs -> length kvs = length l.
  Proof.
    revert kvs. induction l as [|a l IH]; intros kvs H; cbn [pvalues] in H; [injection H as <-; reflexivity|].
    destruct (snd a) as [v|m]; cbn [bind] in H; [|discriminate].
    destruct (pvalues l) as [r|m]; cbn [bind] in H; [|discriminate]. injection H as <-.
    cbn [length]. rewrite (IH _ eq_refl). reflexivity.
  Qed.
End PureLoops.

(* ------------------------------------------------------------------ layout facts *)
(* what the second Dict pass writes for the (key text, value text) pairs in order *)
Definition dict_layout (several first : bool) (kvs : list (str * str)) : str :=
  (match kvs with [] => [] | _ => if first && several then s_nl else [] end) ++
  concat_str (map (fun kv => fst kv ++ S ":" ++ snd kv ++ (if several then S "," ++ s_nl else [])) kvs).

Lemma dict_layout_body kvs : dict_layout (Nat.ltb 1 (length kvs)) true kvs = dict_body kvs.
Proof.
  destruct kvs as [|a [|b l]].
  - reflexivity.
  - cbn. rewrite !app_nil_r. reflexivity.
  - reflexivity.
Qed.

Lemma group_text_In sep multi xs x : In x xs -> forall first,
  exists a b, group_text sep multi first xs = a ++ x ++ b.
Proof.
  induction xs as [|y ys IH]; intros Hin first; [destruct Hin|]. cbn [group_text].
  destruct Hin as [->|Hin].
  - exists ((if first then [] else sep) ++ (if multi then s_nl else [])), (group_text sep multi false ys).
    rewrite <- !app_assoc. reflexivity.
  - destruct (IH Hin false) as (a & b & E). rewrite E.
    exists ((if first then [] else sep) ++ (if multi then s_nl else []) ++ y ++ a), b.
    rewrite <- !app_assoc. reflexivity.
Qed.

Lemma concat_str_In {A} (f : A -> str) l x : In x l ->
  exists a b, concat_str (map f l) = a ++ f x ++ b.
Proof.
  induction l as [|y l IH]; intros Hin; [destruct Hin|]. cbn [map concat_str].
  destruct Hin as [->|Hin].
  - exists [], (concat_str (map f l)). reflexivity.
  - destruct (IH Hin) as (a & b & E). rewrite E. exists (f y ++ a), b. rewrite <- !app_assoc. reflexivity.
Qed.

(* the key text and the value text of every pair stand in the Dict body *)
Lemma dict_body_In kvs k v : In (k, v) kvs ->
  (exists a b, dict_body kvs = a ++ k ++ b) /\ (exists a b, dict_body kvs = a ++ v ++ b).
Proof.
  intros Hin. destruct kvs as [|x [|y l]].
  - destruct Hin.
  - destruct Hin as [->|[]]. cbn [dict_body fst snd]. split.
    + exists [], (S ":" ++ v). reflexivity.
    + exists (k ++ S ":"), []. rewrite <- !app_assoc, app_nil_r. reflexivity.
  - destruct (concat_str_In (fun kv : str * str => fst kv ++ S ":" ++ snd kv ++ S "," ++ s_nl) _ _ Hin) as (a & b & E).
    assert (Hb : dict_body (x :: y :: l) = s_nl ++ a ++ (k ++ S ":" ++ v ++ S "," ++ s_nl) ++ b)
      by (exact (f_equal (app s_nl) E)).
    split.
    + exists (s_nl ++ a), (S ":" ++ v ++ S "," ++ s_nl ++ b). rewrite Hb, <- !app_assoc. reflexivity.
    + exists (s_nl ++ a ++ k ++ S ":"), (S "," ++ s_nl ++ b). rewrite Hb, <- !app_assoc. reflexivity.
Qed.

(* ------------------------------------------------------------------ rendering at a covered table *)
Section Covered.
  Variable cfg : config.
  Variable t : table.

  Notation regd := (reg_in t).

  (* a registered or local path: the table comes back unchanged with the name *)
  Lemma register_covered p :
    (is_local cfg p = false -> exists n, registered_name t p = Some n) ->
    register cfg t p = with_table t (pkg_text cfg t p).
  Proof.
    intros H. unfold register, pkg_text. destruct (is_local cfg p); [reflexivity|].
    destruct (H eq_refl) as [n ->]. reflexivity.
  Qed.

  Lemma prereg_covered c : regd (pre_occ cfg c) -> prereg cfg t c = Ok t.
  Proof.
    intros H. unfold prereg. destruct c as [| | |tk| | | | |]; try reflexivity. destruct tk; try reflexivity.
    rewrite register_covered.
    - unfold pkg_text. destruct (is_local cfg path) eqn:El; [reflexivity|].
      destruct (H path) as [n Hn]; [cbn [pre_occ]; rewrite El; left; reflexivity|]. rewrite Hn. reflexivity.
    - intros El. apply H. cbn [pre_occ]. rewrite El. left. reflexivity.
  Qed.

  (* [c] renders at [t], in every context, to its pure text without touching the table *)
  Definition pure_at (c : code) : Prop :=
    covered cfg t c -> forall ctx, render cfg ctx t c = with_table t (ptext cfg t ctx c).

  Lemma group_loop_covered name sep multi n items :
    Forall pure_at items -> regd (flat_map (item_occs cfg t) items) ->
    forall first,
    group_loop cfg (render cfg) name sep multi n t first items =
    match pitems cfg t (ptext cfg t) name n items with
    | Ok xs => Ok (t, first && is_nil xs, group_text sep multi first xs)
    | Panic m => Panic m
    end.
  Proof.
    intros Hst. induction Hst as [|c l Hc _ IH]; intros Hreg first.
    - cbn [group_loop pitems group_text is_nil]. rewrite andb_true_r. reflexivity.
    - cbn [flat_map] in Hreg. pose proof (reg_in_app_l _ _ _ Hreg) as Hc0. pose proof (reg_in_app_r _ _ _ Hreg) as Hl0.
      unfold item_occs at 1 in Hc0.
      cbn [group_loop pitems]. fold (prereg cfg t c).
      rewrite (prereg_covered c (reg_in_app_l _ _ _ Hc0)). cbn [bind].
      destruct (is_null cfg t c) eqn:En; [apply IH; exact Hl0|].
      destruct (str_eqb name s_values && is_dict c && Nat.ltb 1 n); [reflexivity|].
      rewrite (Hc (reg_in_app_r _ _ _ Hc0) false).
      destruct (ptext cfg t false c) as [x|m]; cbn [with_table bind fst snd]; [|reflexivity].
      rewrite (IH Hl0 false).
      destruct (pitems cfg t (ptext cfg t) name n l) as [xs|m]; cbn [bind fst snd]; [|reflexivity].
      cbn [group_text is_nil andb]. rewrite andb_false_r. reflexivity.
  Qed.

  Lemma stmt_loop_covered all items :
    Forall pure_at items -> regd (flat_map (stmt_item_occs cfg t) items) ->
    forall first,
    stmt_loop cfg (render cfg) all t first items =
    match pstmt_items cfg t (ptext cfg t) all items with
    | Ok xs => Ok (t, group_text (S " ") false first xs)
    | Panic m => Panic m
    end.
  Proof.
    intros Hst. induction Hst as [|c l Hc _ IH]; intros Hreg first; [reflexivity|].
    cbn [flat_map] in Hreg. pose proof (reg_in_app_l _ _ _ Hreg) as Hc0. pose proof (reg_in_app_r _ _ _ Hreg) as Hl0.
    unfold stmt_item_occs at 1 in Hc0. cbn [stmt_loop pstmt_items].
    destruct (is_null cfg t c) eqn:En; [apply IH; exact Hl0|].
    rewrite (Hc Hc0 (case_ctx all c)).
    destruct (ptext cfg t (case_ctx all c) c) as [x|m]; cbn [with_table bind fst snd]; [|reflexivity].
    rewrite (IH Hl0 false).
    destruct (pstmt_items cfg t (ptext cfg t) all l) as [xs|m]; cbn [bind fst snd]; reflexivity.
  Qed.

  (* Dict *)
  Notation kt := (ktxt (ptext cfg t)).
  Definition entry_at (kv : code * code) : dict_entry :=
    (kt (fst kv), (fun t' => render cfg false t' (fst kv)), (fun t' => render cfg false t' (snd kv))).

  Lemma dict_pass1_covered pairs :
    Forall (fun kv => pure_at (fst kv) /\ pure_at (snd kv)) pairs ->
    regd (flat_map (pair_occs cfg t) pairs) ->
    dict_pass1 cfg (render cfg) t pairs =
    match pdict_entries cfg t (ptext cfg t) pairs with
    | Ok _ => Ok (t, map entry_at (filter (live cfg t) pairs))
    | Panic m => Panic m
    end.
  Proof.
    intros Hst. induction Hst as [|kv l [Hk Hv] _ IH]; intros Hreg; [reflexivity|].
    cbn [flat_map] in Hreg. pose proof (reg_in_app_l _ _ _ Hreg) as Hc0. pose proof (reg_in_app_r _ _ _ Hreg) as Hl0.
    unfold pair_occs at 1, dead in Hc0. cbn [dict_pass1 pdict_entries filter]. unfold live at 1.
    destruct (is_null cfg t (fst kv) || is_null cfg t (snd kv)) eqn:En; cbn [negb]; [apply IH; exact Hl0|].
    rewrite (Hk (reg_in_app_l _ _ _ Hc0) false).
    destruct (ptext cfg t false (fst kv)) as [k|m] eqn:Ek; cbn [with_table bind fst snd]; [|reflexivity].
    rewrite (IH Hl0).
    destruct (pdict_entries cfg t (ptext cfg t) l) as [es|m]; cbn [bind fst snd]; [|reflexivity].
    cbn [map]. unfold entry_at at 2, ktxt. rewrite Ek. reflexivity.
  Qed.

  Lemma dict_pass2_covered several l :
    (forall kv, In kv l -> render cfg false t (fst kv) = Ok (t, kt (fst kv)) /\
                           render cfg false t (snd kv) = with_table t (ptext cfg t false (snd kv))) ->
    forall first,
    dict_pass2 several t first (map entry_at l) =
    match pvalues (map (pentry_of (ptext cfg t)) l) with
    | Ok kvs => Ok (t, dict_layout several first kvs)
    | Panic m => Panic m
    end.
  Proof.
    induction l as [|kv l IH]; intros Hs first; [reflexivity|].
    cbn [map dict_pass2 pvalues entry_at pentry_of fst snd].
    destruct (Hs kv (or_introl eq_refl)) as [Hk Hv]. rewrite Hk. cbn [bind fst snd]. rewrite Hv.
    destruct (ptext cfg t false (snd kv)) as [v|m]; cbn [with_table bind fst snd]; [|reflexivity].
    rewrite (IH (fun x Hx => Hs x (or_intror Hx)) false).
    destruct (pvalues (map (pentry_of (ptext cfg t)) l)) as [kvs|m]; cbn [bind fst snd]; [|reflexivity].
    unfold dict_layout. cbn [map concat_str fst snd andb]. f_equal. f_equal.
    destruct kvs; cbn [app]; rewrite <- ?app_assoc; reflexivity.
  Qed.

  Lemma entry_at_key kv : dict_key (entry_at kv) = kt (fst kv).
  Proof. reflexivity. Qed.
  Lemma pentry_of_key kv : fst (pentry_of (ptext cfg t) kv) = kt (fst kv).
  Proof. reflexivity. Qed.

  (* AT A COVERED TABLE RENDERING IS PURE: the table comes back unchanged, the text is
     [ptext] at that table, and a failure of one is the same failure of the other *)
  Theorem render_covered : forall c, pure_at c.
  Proof.
    induction c as [| | |tk|gid name o cl sep multi items IH|items IH|pairs IH|kvs|s] using code_ind';
      intros Hcov ctx; try reflexivity.
    - cbn [render ptext]. destruct tk; cbn [render_token ptoken with_table]; try reflexivity.
      apply register_covered. intros El. apply Hcov. cbn [occs]. rewrite El. left. reflexivity.
    - unfold covered in Hcov. rewrite occs_group in Hcov. cbn [render ptext].
      destruct (str_eqb name s_types && forallb (is_null cfg t) items); [reflexivity|].
      rewrite (group_loop_covered name sep multi (length items) items IH Hcov true).
      destruct (pitems cfg t (ptext cfg t) name (length items) items) as [xs|m]; cbn [bind with_table fst snd]; [|reflexivity].
      unfold closer. cbn [andb]. reflexivity.
    - unfold covered in Hcov. rewrite occs_stmt in Hcov. cbn [render ptext].
      rewrite (stmt_loop_covered items items IH Hcov true).
      destruct (pstmt_items cfg t (ptext cfg t) items items) as [xs|m]; cbn [bind with_table]; [|reflexivity].
      rewrite group_text_join_flat. reflexivity.
    - unfold covered in Hcov. rewrite occs_dict in Hcov. cbn [render ptext].
      rewrite (dict_pass1_covered pairs IH Hcov).
      destruct (pdict_entries cfg t (ptext cfg t) pairs) as [es|m] eqn:Ee; cbn [bind with_table fst snd]; [|reflexivity].
      destruct (pdict_entries_spec cfg t _ _ _ Ee) as [-> Hkeys].
      rewrite <- (isort_by_map (fun kv => kt (fst kv)) dict_key entry_at entry_at_key).
      rewrite <- (isort_by_map (fun kv => kt (fst kv)) fst (pentry_of (ptext cfg t)) pentry_of_key).
      set (L := isort_by (fun kv => kt (fst kv)) (filter (live cfg t) pairs)).
      rewrite dict_pass2_covered.
      + destruct (pvalues (map (pentry_of (ptext cfg t)) L)) as [kvs|m] eqn:Ev; cbn [bind with_table]; [|reflexivity].
        rewrite map_length, <- (map_length (pentry_of (ptext cfg t)) L), <- (pvalues_length _ _ Ev).
        rewrite dict_layout_body. reflexivity.
      + intros kv Hin. unfold L in Hin. apply isort_by_In in Hin. pose proof (Hkeys kv Hin) as Hk.
        apply filter_In in Hin. destruct Hin as [Hin Hl].
        pose proof (reg_in_flat_map _ _ _ _ Hcov Hin) as Hr. unfold pair_occs, dead in Hr.
        unfold live in Hl. apply negb_true_iff in Hl. rewrite Hl in Hr.
        rewrite Forall_forall in IH. destruct (IH kv Hin) as [Pk Pv]. split.
        * rewrite (Pk (reg_in_app_l _ _ _ Hr) false), Hk. reflexivity.
        * apply Pv. exact (reg_in_app_r _ _ _ Hr).
  Qed.
End Covered.

(* ------------------------------------------------------------------ T1 *)
Section Factorisation.
  Variable cfg : config.
  Hypothesis Hcfg : cfg_ok cfg.

  (* the table a render leaves covers the tree *)
  Lemma render_leaves_covered c ctx t t1 s : render cfg ctx t c = Ok (t1, s) -> covered cfg t1 c.
  Proof.
    intros H p Hp. destruct (render_stable cfg Hcfg c ctx _ _ _ H) as [He _].
    rewrite (occs_ext cfg _ _ c He) in Hp.
    exact (render_occs_registered cfg Hcfg c ctx _ _ _ H p Hp).
  Qed.

  (* T1.  A successful render from ANY table [t] ends in a table [t1] that covers the tree,
     and the text it wrote is the pure text at [t1]: rendering = registering the needed
     imports + writing a text that depends on the tree and the final table only. *)
  Theorem render_factorisation c ctx t t1 s :
    render cfg ctx t c = Ok (t1, s) -> ptext cfg t1 ctx c = Ok s /\ covered cfg t1 c.
  Proof.
    intros H. pose proof (render_leaves_covered _ _ _ _ _ H) as Hcov. split; [|exact Hcov].
    pose proof (render_idempotent cfg Hcfg c ctx _ _ _ H) as H2.
    rewrite (render_covered cfg t1 c Hcov ctx) in H2.
    destruct (ptext cfg t1 ctx c) as [s'|m]; cbn [with_table] in H2; [|discriminate].
    injection H2 as ->. reflexivity.
  Qed.

  (* the converse direction: from a covered table the render succeeds exactly when the pure
     text exists *)
  Corollary render_at_covered c ctx t s :
    covered cfg t c -> (render cfg ctx t c = Ok (t, s) <-> ptext cfg t ctx c = Ok s).
  Proof.
    intros Hcov. rewrite (render_covered cfg t c Hcov ctx).
    destruct (ptext cfg t ctx c) as [s'|m]; cbn [with_table]; split; intros H; try discriminate;
      injection H as ->; reflexivity.
  Qed.

  Lemma covered_ext t t' c : ext cfg t t' -> covered cfg t c -> covered cfg t' c.
  Proof.
    intros He Hc p Hp. rewrite (occs_ext cfg _ _ c He) in Hp.
    destruct (Hc p Hp) as [n Hn]. exists n. destruct He as [K _]. eapply keeps_registered; eassumption.
  Qed.

  (* ---- ptext at an extension of a covered table ---- *)
  Section PExt.
    Variables t t' : table.
    Hypothesis He : ext cfg t t'.

    Definition same_text (c : code) : Prop :=
      covered cfg t c -> forall ctx, ptext cfg t' ctx c = ptext cfg t ctx c.

    Lemma ptext_ext_all : forall c, same_text c.
    Proof.
      induction c as [| | |tk|gid name o cl sep multi items IH|items IH|pairs IH|kvs|s] using code_ind';
        intros Hcov ctx; try reflexivity.
      - cbn [ptext]. destruct tk; try reflexivity. cbn [ptoken]. unfold pkg_text.
        destruct (is_local cfg path) eqn:El; [reflexivity|].
        destruct (Hcov path) as [n Hn]; [cbn [occs]; rewrite El; left; reflexivity|].
        destruct He as [K _]. rewrite (keeps_registered _ _ _ _ K Hn), Hn. reflexivity.
      - unfold covered in Hcov. rewrite occs_group in Hcov. cbn [ptext].
        rewrite (forallb_is_null_ext cfg _ _ items He).
        destruct (str_eqb name s_types && forallb (is_null cfg t) items); [reflexivity|].
        rewrite (pitems_cong cfg t t' (ptext cfg t) (ptext cfg t') name (length items) items); [reflexivity | |].
        + intros x _. apply is_null_ext. exact He.
        + intros x Hin En. rewrite Forall_forall in IH. apply (IH x Hin).
          pose proof (reg_in_flat_map _ _ _ _ Hcov Hin) as Hr. unfold item_occs in Hr. rewrite En in Hr.
          exact (reg_in_app_r _ _ _ Hr).
      - unfold covered in Hcov. rewrite occs_stmt in Hcov. cbn [ptext].
        rewrite (pstmt_items_cong cfg t t' (ptext cfg t) (ptext cfg t') items items); [reflexivity | |].
        + intros x _. apply is_null_ext. exact He.
        + intros x Hin En b. rewrite Forall_forall in IH. apply (IH x Hin).
          pose proof (reg_in_flat_map _ _ _ _ Hcov Hin) as Hr. unfold stmt_item_occs in Hr. rewrite En in Hr.
          exact Hr.
      - unfold covered in Hcov. rewrite occs_dict in Hcov. cbn [ptext].
        rewrite (pdict_entries_cong cfg t t' (ptext cfg t) (ptext cfg t') pairs); [reflexivity | |].
        + intros kv _. split; apply is_null_ext; exact He.
        + intros kv Hin Hl. rewrite Forall_forall in IH. destruct (IH kv Hin) as [Pk Pv].
          pose proof (reg_in_flat_map _ _ _ _ Hcov Hin) as Hr. unfold pair_occs, dead in Hr.
          unfold live in Hl. apply negb_true_iff in Hl. rewrite Hl in Hr.
          split; [apply Pk; exact (reg_in_app_l _ _ _ Hr) | apply Pv; exact (reg_in_app_r _ _ _ Hr)].
    Qed.
  End PExt.

  (* the pure text of a tree is the same at every extension of a table that covers it: later
     registrations, Anon entries and hints of other paths do not reach it *)
  Theorem ptext_ext t t' c ctx :
    ext cfg t t' -> covered cfg t c -> ptext cfg t' ctx c = ptext cfg t ctx c.
  Proof. intros He Hc. exact (ptext_ext_all t t' He c Hc ctx). Qed.

  (* the pure text is the text of the render at the final table AND at every later one *)
  Corollary render_factorisation_later c ctx t t1 s t2 :
    render cfg ctx t c = Ok (t1, s) -> ext cfg t1 t2 -> ptext cfg t2 ctx c = Ok s.
  Proof.
    intros H He. destruct (render_factorisation _ _ _ _ _ H) as [Hp Hc].
    rewrite (ptext_ext _ _ _ ctx He Hc). exact Hp.
  Qed.
End Factorisation.

(* the File: head, the import block of the final table, the pure text of the body at the
   final table *)
Theorem file_raw_pure f t1 raw :
  cfg_ok (file_cfg f) -> file_raw f = Ok (t1, raw) ->
  exists s, ptext (file_cfg f) t1 false (file_group f) = Ok s /\ covered (file_cfg f) t1 (file_group f) /\
            raw = file_head f ++ render_imports t1 (f_cgo f) ++ s.
Proof.
  intros Hc Hr. destruct (file_raw_render _ _ _ Hr) as (s & Hs & ->).
  destruct (render_factorisation _ Hc _ _ _ _ _ Hs) as [Hp Hcov]. exists s. repeat split; assumption.
Qed.

(* ------------------------------------------------------------------ unfolding lemmas for readers *)
Section Unfold.
  Variable cfg : config.
  Variable t : table.

  Lemma ptext_group ctx gid name o cl sep multi items :
    ptext cfg t ctx (CGroup gid name o cl sep multi items) =
    if str_eqb name s_types && forallb (is_null cfg t) items then Ok []
    else
      let blank := str_eqb name s_block && ctx in
      let o' := if blank then [] else o in
      let cl' := if blank then [] else cl in
      bind (pitems cfg t (ptext cfg t) name (length items) items) (fun xs =>
      Ok (o' ++ group_text sep multi true xs ++ closer sep multi cl' xs ++ cl')).
  Proof. reflexivity. Qed.

  Lemma ptext_stmt ctx items :
    ptext cfg t ctx (CStmt items) =
    bind (pstmt_items cfg t (ptext cfg t) items items) (fun xs => Ok (join (S " ") xs)).
  Proof. reflexivity. Qed.

  Lemma ptext_dict ctx pairs :
    ptext cfg t ctx (CDict pairs) =
    bind (pdict_entries cfg t (ptext cfg t) pairs) (fun es =>
    bind (pvalues (isort_by fst es)) (fun kvs => Ok (dict_body kvs))).
  Proof. reflexivity. Qed.

  (* when nothing fails, the loops are the closed formulas over the non-null items *)
  Definition the_text (ctx : bool) (c : code) : str :=
    match ptext cfg t ctx c with Ok s => s | Panic _ => [] end.

  Lemma pitems_ok name n items :
    (forall x, In x items -> is_null cfg t x = false ->
       str_eqb name s_values && is_dict x && Nat.ltb 1 n = false /\ exists s, ptext cfg t false x = Ok s) ->
    pitems cfg t (ptext cfg t) name n items =
    Ok (flat_map (fun x => if is_null cfg t x then [] else [the_text false x]) items).
  Proof.
    induction items as [|c l IH]; intros H; [reflexivity|]. cbn [pitems flat_map].
    assert (IH' := IH (fun x Hx => H x (or_intror Hx))).
    destruct (is_null cfg t c) eqn:En; [exact IH'|].
    destruct (H c (or_introl eq_refl) En) as [Hv [s Hs]]. rewrite Hv. unfold the_text at 1. rewrite Hs, IH'.
    reflexivity.
  Qed.

  Lemma pstmt_items_ok all items :
    (forall x, In x items -> is_null cfg t x = false -> exists s, ptext cfg t (case_ctx all x) x = Ok s) ->
    pstmt_items cfg t (ptext cfg t) all items =
    Ok (flat_map (fun x => if is_null cfg t x then [] else [the_text (case_ctx all x) x]) items).
  Proof.
    induction items as [|c l IH]; intros H; [reflexivity|]. cbn [pstmt_items flat_map].
    assert (IH' := IH (fun x Hx => H x (or_intror Hx))).
    destruct (is_null cfg t c) eqn:En; [exact IH'|].
    destruct (H c (or_introl eq_refl) En) as [s Hs]. unfold the_text at 1. rewrite Hs, IH'. reflexivity.
  Qed.

  Lemma pdict_entries_ok pairs :
    (forall kv, In kv pairs -> live cfg t kv = true -> exists k, ptext cfg t false (fst kv) = Ok k) ->
    pdict_entries cfg t (ptext cfg t) pairs = Ok (map (pentry_of (ptext cfg t)) (filter (live cfg t) pairs)).
  Proof.
    induction pairs as [|kv l IH]; intros H; [reflexivity|]. cbn [pdict_entries filter].
    assert (IH' := IH (fun x Hx => H x (or_intror Hx))).
    pose proof (H kv (or_introl eq_refl)) as Hkv. unfold live in Hkv |- * at 1.
    destruct (is_null cfg t (fst kv) || is_null cfg t (snd kv)); cbn [negb] in *; [exact IH'|].
    destruct (Hkv eq_refl) as [k Hk]. rewrite Hk, IH'. cbn [bind map]. unfold pentry_of at 2, ktxt. rewrite Hk.
    reflexivity.
  Qed.

  Definition pair_text (kv : code * code) : str * str := (the_text false (fst kv), the_text false (snd kv)).

  Lemma pvalues_ok l :
    (forall kv, In kv l -> exists v, ptext cfg t false (snd kv) = Ok v) ->
    pvalues (map (pentry_of (ptext cfg t)) l) = Ok (map pair_text l).
  Proof.
    induction l as [|kv l IH]; intros H; [reflexivity|]. cbn [map pvalues pentry_of fst snd].
    destruct (H kv (or_introl eq_refl)) as [v Hv]. rewrite Hv, (IH (fun x Hx => H x (or_intror Hx))).
    cbn [bind]. unfold pair_text at 2, the_text at 2. rewrite Hv. reflexivity.
  Qed.

  (* Dict, when no key and no value fails: the pairs with both sides non-null, as (key text,
     value text), sorted by key text, in the dict_body layout *)
  Lemma ptext_dict_ok ctx pairs :
    (forall kv, In kv pairs -> live cfg t kv = true ->
       (exists k, ptext cfg t false (fst kv) = Ok k) /\ exists v, ptext cfg t false (snd kv) = Ok v) ->
    ptext cfg t ctx (CDict pairs) =
    Ok (dict_body (isort_by fst (map pair_text (filter (live cfg t) pairs)))).
  Proof.
    intros H. rewrite ptext_dict, pdict_entries_ok by (intros kv Hin Hl; apply (H kv Hin Hl)). cbn [bind].
    rewrite <- (isort_by_map (fun kv => the_text false (fst kv)) fst (pentry_of (ptext cfg t)) (fun kv => eq_refl)).
    rewrite pvalues_ok.
    - cbn [bind]. rewrite (isort_by_map (fun kv => the_text false (fst kv)) fst pair_text (fun kv => eq_refl)). reflexivity.
    - intros kv Hin. apply isort_by_In in Hin. apply filter_In in Hin. destruct Hin as [Hin Hl]. apply (H kv Hin Hl).
  Qed.

  (* Qual(p, n) *)
  Lemma ptext_qual ctx gid p n : ptext cfg t ctx (qual gid p n) = qual_text cfg t p n.
  Proof.
    unfold qual, qual_text. cbn [ptext]. change (str_eqb (S "qual") s_types) with false.
    change (str_eqb (S "qual") s_block) with false. cbn [andb length pitems is_null].
    change (str_eqb (S "qual") s_values) with false. cbn [andb].
    destruct (is_dot cfg t p || is_local cfg p) eqn:En.
    - cbn [ptext ptoken bind group_text app closer is_nil negb andb]. rewrite !app_nil_r. reflexivity.
    - apply orb_false_iff in En. destruct En as [_ El]. cbn [ptext ptoken]. unfold pkg_text. rewrite El.
      destruct (registered_name t p) as [q|]; [|reflexivity].
      cbn [bind group_text app closer is_nil negb andb]. rewrite !app_nil_r. reflexivity.
  Qed.
End Unfold.

(* ------------------------------------------------------------------ written positions *)
Section Positions.
  Variable cfg : config.

  (* [rendered_in t c' c]: the sub-tree c' stands at a position of c that is written when
     null-ness is judged at table t - reached through items that are not null, pairs whose
     two sides are not null, and groups that are not an all-null `types` list *)
  Inductive rendered_in (t : table) (c' : code) : code -> Prop :=
  | ri_here : rendered_in t c' c'
  | ri_group gid name o cl sep multi items x :
      str_eqb name s_types && forallb (is_null cfg t) items = false ->
      In x items -> is_null cfg t x = false -> rendered_in t c' x ->
      rendered_in t c' (CGroup gid name o cl sep multi items)
  | ri_stmt items x :
      In x items -> is_null cfg t x = false -> rendered_in t c' x -> rendered_in t c' (CStmt items)
  | ri_key pairs kv :
      In kv pairs -> live cfg t kv = true -> rendered_in t c' (fst kv) -> rendered_in t c' (CDict pairs)
  | ri_val pairs kv :
      In kv pairs -> live cfg t kv = true -> rendered_in t c' (snd kv) -> rendered_in t c' (CDict pairs).

  Lemma forallb_ext_eq {A} (f g : A -> bool) l : (forall x, f x = g x) -> forallb f l = forallb g l.
  Proof. intros H. induction l as [|x l IH]; [reflexivity|]. cbn [forallb]. rewrite H, IH. reflexivity. Qed.

  (* the positions are the same at every table with the same null-ness - in particular at the
     table a render starts from, at every table it passes through, and at the one it leaves *)
  Lemma rendered_in_same_null t t' c' c :
    (forall x, is_null cfg t' x = is_null cfg t x) -> rendered_in t c' c -> rendered_in t' c' c.
  Proof.
    intros Hn H. induction H as [|gid name o cl sep multi items x Et Hin En _ IH|items x Hin En _ IH
                                 |pairs kv Hin Hl _ IH|pairs kv Hin Hl _ IH].
    - apply ri_here.
    - eapply ri_group; [|exact Hin| |exact IH].
      + rewrite (forallb_ext_eq _ _ items Hn). exact Et.
      + rewrite Hn. exact En.
    - eapply ri_stmt; [exact Hin| |exact IH]. rewrite Hn. exact En.
    - eapply ri_key; [exact Hin| |exact IH]. unfold live in *. rewrite !Hn. exact Hl.
    - eapply ri_val; [exact Hin| |exact IH]. unfold live in *. rewrite !Hn. exact Hl.
  Qed.

  Lemma rendered_in_ext t t' c' c : ext cfg t t' -> (rendered_in t c' c <-> rendered_in t' c' c).
  Proof.
    intros He. split; apply rendered_in_same_null; intros x;
      [|symmetry]; apply is_null_ext; exact He.
  Qed.

  (* THE CONSTRUCTS ONLY CONCATENATE: the pure text of every written sub-tree is a contiguous
     part of the pure text of the tree *)
  Theorem ptext_contains t c' c :
    rendered_in t c' c -> forall ctx s, ptext cfg t ctx c = Ok s ->
    exists ctx' s' pre post, ptext cfg t ctx' c' = Ok s' /\ s = pre ++ s' ++ post.
  Proof.
    intros H. induction H as [|gid name o cl sep multi items x Et Hin En _ IH|items x Hin En _ IH
                              |pairs kv Hin Hl _ IH|pairs kv Hin Hl _ IH]; intros ctx s Hs.
    - exists ctx, s, [], []. split; [exact Hs | rewrite app_nil_r; reflexivity].
    - rewrite ptext_group, Et in Hs. cbv zeta in Hs.
      destruct (pitems cfg t (ptext cfg t) name (length items) items) as [xs|m] eqn:Ep; cbn [bind] in Hs; [|discriminate].
      injection Hs as <-.
      destruct (pitems_In cfg _ _ _ _ _ _ _ Ep Hin En) as (sx & Hsx & Hix).
      destruct (IH _ _ Hsx) as (ctx' & s' & pre & post & Hp & ->).
      destruct (group_text_In sep multi xs _ Hix true) as (a & b & Eg).
      set (o' := if str_eqb name s_block && ctx then [] else o).
      set (cl' := if str_eqb name s_block && ctx then [] else cl).
      exists ctx', s', (o' ++ a ++ pre), (post ++ b ++ closer sep multi cl' xs ++ cl'). split; [exact Hp|].
      rewrite Eg, <- !app_assoc. reflexivity.
    - rewrite ptext_stmt in Hs.
      destruct (pstmt_items cfg t (ptext cfg t) items items) as [xs|m] eqn:Ep; cbn [bind] in Hs; [|discriminate].
      injection Hs as <-.
      destruct (pstmt_items_In cfg _ _ _ _ _ _ Ep Hin En) as (sx & Hsx & Hix).
      destruct (IH _ _ Hsx) as (ctx' & s' & pre & post & Hp & ->).
      destruct (group_text_In (S " ") false xs _ Hix true) as (a & b & Eg).
      exists ctx', s', (a ++ pre), (post ++ b). split; [exact Hp|].
      rewrite <- group_text_join_flat, Eg, <- !app_assoc. reflexivity.
    - rewrite ptext_dict in Hs.
      destruct (pdict_entries cfg t (ptext cfg t) pairs) as [es|m] eqn:Ee; cbn [bind] in Hs; [|discriminate].
      destruct (pvalues (isort_by fst es)) as [kvs|m] eqn:Ev; cbn [bind] in Hs; [|discriminate].
      injection Hs as <-.
      destruct (pdict_entries_spec cfg t _ _ _ Ee) as [-> Hkeys].
      assert (Hl' : In kv (filter (live cfg t) pairs)) by (apply filter_In; split; assumption).
      assert (Hie : In (pentry_of (ptext cfg t) kv) (isort_by fst (map (pentry_of (ptext cfg t)) (filter (live cfg t) pairs)))).
      { apply isort_by_In. apply in_map. exact Hl'. }
      destruct (pvalues_In _ _ _ Ev Hie) as (v & Hv & Hiv). cbn [pentry_of fst snd] in Hv, Hiv.
      destruct (IH _ _ (Hkeys kv Hl')) as (ctx' & s' & pre & post & Hp & E).
      destruct (dict_body_In _ _ _ Hiv) as [(a & b & Eb) _].
      exists ctx', s', (a ++ pre), (post ++ b). split; [exact Hp|]. rewrite Eb, E, <- !app_assoc. reflexivity.
    - rewrite ptext_dict in Hs.
      destruct (pdict_entries cfg t (ptext cfg t) pairs) as [es|m] eqn:Ee; cbn [bind] in Hs; [|discriminate].
      destruct (pvalues (isort_by fst es)) as [kvs|m] eqn:Ev; cbn [bind] in Hs; [|discriminate].
      injection Hs as <-.
      destruct (pdict_entries_spec cfg t _ _ _ Ee) as [-> Hkeys].
      assert (Hl' : In kv (filter (live cfg t) pairs)) by (apply filter_In; split; assumption).
      assert (Hie : In (pentry_of (ptext cfg t) kv) (isort_by fst (map (pentry_of (ptext cfg t)) (filter (live cfg t) pairs)))).
      { apply isort_by_In. apply in_map. exact Hl'. }
      destruct (pvalues_In _ _ _ Ev Hie) as (v & Hv & Hiv). cbn [pentry_of fst snd] in Hv, Hiv.
      destruct (IH _ _ Hv) as (ctx' & s' & pre & post & Hp & E).
      destruct (dict_body_In _ _ _ Hiv) as [_ (a & b & Eb)].
      exists ctx', s', (a ++ pre), (post ++ b). split; [exact Hp|]. rewrite Eb, E, <- !app_assoc. reflexivity.
  Qed.
End Positions.

(* ------------------------------------------------------------------ C03: occurrences *)
Lemma registered_entry t p q :
  registered_name t p = Some q -> exists d, alookup p t = Some d /\ id_name d = q /\ q <> [] /\ q <> s_us.
Proof.
  unfold registered_name. destruct (alookup p t) as [d|]; [|discriminate].
  destruct (str_eqb_spec (id_name d) []) as [E0|E0]; cbn [orb]; [discriminate|].
  destruct (str_eqb_spec (id_name d) s_us) as [E1|E1]; [discriminate|].
  intros H. injection H as <-. exists d. repeat split; assumption.
Qed.

(* Every written occurrence of Qual(p, n) in a successfully rendered tree: the rendered text
   contains, as a contiguous part, the text of that occurrence, and that text is
   - the bare name n when p is the local package or a dot import,
   - q.n otherwise, where q is THE registration of p in the final table t1: the name of
     p's entry, the one the import block printed from t1 declares for p.
   q depends on (t1, p) only, so all occurrences of p carry the same qualifier. *)
Theorem qual_occurrences cfg : cfg_ok cfg -> forall ctx t c t1 s,
  render cfg ctx t c = Ok (t1, s) ->
  forall gid p n, rendered_in cfg t1 (qual gid p n) c ->
  exists w pre post,
    s = pre ++ w ++ post /\ qual_text cfg t1 p n = Ok w /\
    (is_dot cfg t1 p || is_local cfg p = true -> w = n) /\
    (is_dot cfg t1 p || is_local cfg p = false ->
     exists q d, registered_name t1 p = Some q /\ w = q ++ S "." ++ n /\
                 alookup p t1 = Some d /\ id_name d = q /\
                 forall cgo, exists a b, render_imports t1 cgo = a ++ import_spec p d ++ [x0a] ++ b).
Proof.
  intros Hcfg ctx t c t1 s Hr gid p n Hin.
  destruct (render_factorisation cfg Hcfg _ _ _ _ _ Hr) as [Hp _].
  destruct (ptext_contains cfg t1 _ _ Hin _ _ Hp) as (ctx' & w & pre & post & Hw & ->).
  rewrite ptext_qual in Hw. exists w, pre, post. split; [reflexivity|]. split; [exact Hw|].
  unfold qual_text in Hw. split; intros E; rewrite E in Hw.
  - injection Hw as <-. reflexivity.
  - destruct (registered_name t1 p) as [q|] eqn:Eq; [|discriminate]. injection Hw as <-.
    destruct (registered_entry _ _ _ Eq) as (d & Hd & Hn & _). exists q, d.
    repeat split; try assumption; try reflexivity.
    intros cgo. apply render_imports_has_spec. apply alookup_In. exact Hd.
Qed.

(* one qualifier per path: there is ONE q such that every written Qual(p, _) of the tree
   stands in the text as q.name *)
Corollary qual_occurrences_same_q cfg : cfg_ok cfg -> forall ctx t c t1 s,
  render cfg ctx t c = Ok (t1, s) ->
  forall p, is_dot cfg t1 p || is_local cfg p = false ->
  (exists gid n, rendered_in cfg t1 (qual gid p n) c) ->
  exists q, registered_name t1 p = Some q /\
    forall gid n, rendered_in cfg t1 (qual gid p n) c -> exists pre post, s = pre ++ q ++ S "." ++ n ++ post.
Proof.
  intros Hcfg ctx t c t1 s Hr p Hnb (gid0 & n0 & H0).
  destruct (qual_occurrences cfg Hcfg _ _ _ _ _ Hr _ _ _ H0) as (w0 & _ & _ & _ & _ & _ & Hq0).
  destruct (Hq0 Hnb) as (q & _ & Hq & _). exists q. split; [exact Hq|].
  intros gid n H. destruct (qual_occurrences cfg Hcfg _ _ _ _ _ Hr _ _ _ H) as (w & pre & post & Hs & _ & _ & Hq1).
  destruct (Hq1 Hnb) as (q' & _ & Hq' & Hw & _). rewrite Hq in Hq'. injection Hq' as <-.
  exists pre, post. rewrite Hs, Hw, <- !app_assoc. reflexivity.
Qed.
