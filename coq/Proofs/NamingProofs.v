(* Invariants of the import-naming state machine (Model/Naming.v): names are unique and
   legal over every history of registrations, Anon calls and hint changes. *)
From Jen Require Import Base.Bytes Base.Num Model.Code Model.Naming Gen.Tables.
From Coq Require Import Lia ZifyBool ZifyN ZifyNat.
Local Open Scope N_scope.

(* ------------------------------------------------------------------ association lists *)
Section AssocMore.
  Context {V : Type}.

  Lemma In_aset (k : str) (v : V) m p d :
    NoDup (akeys m) ->
    In (p, d) (aset k v m) -> (p = k /\ d = v) \/ (p <> k /\ In (p, d) m).
  Proof.
    induction m as [|[k' v'] m IH]; simpl; intros Hnd.
    - intros [H|[]]. injection H as <- <-. left. split; reflexivity.
    - inversion Hnd as [|? ? Hni Hnd']; subst.
      destruct (str_eqb_spec k k') as [->|Hk]; simpl.
      + intros [H|H].
        * injection H as <- <-. left. split; reflexivity.
        * right. split; [|right; exact H].
          intros ->. apply Hni. change (In (fst (k', d)) (map fst m)). apply in_map. exact H.
      + intros [H|H].
        * injection H as <- <-. right. split; [congruence | left; reflexivity].
        * destruct (IH Hnd' H) as [[-> ->]|[Hp Hin]]; [left; split; reflexivity | right; split; [exact Hp | right; exact Hin]].
  Qed.

  Lemma In_aset_new (k : str) (v : V) m : In (k, v) (aset k v m).
  Proof.
    induction m as [|[k' v'] m IH]; simpl; [left; reflexivity|].
    destruct (str_eqb k k'); [left; reflexivity | right; exact IH].
  Qed.

  Lemma In_aset_old (k : str) (v : V) m p d : p <> k -> In (p, d) m -> In (p, d) (aset k v m).
  Proof.
    intros Hp. induction m as [|[k' v'] m IH]; simpl; [tauto|].
    intros [H|H].
    - injection H as -> ->. destruct (str_eqb_spec k p); [congruence | left; reflexivity].
    - destruct (str_eqb k k'); right; [exact H | apply IH; exact H].
  Qed.

  Lemma alookup_Some_In_iff (m : list (str * V)) k v :
    NoDup (akeys m) -> (alookup k m = Some v <-> In (k, v) m).
  Proof. intros H. split; [apply alookup_In | apply In_alookup_NoDup; exact H]. Qed.
End AssocMore.

(* ------------------------------------------------------------------ identifiers *)
Definition is_lower (c : N) : bool := (97 <=? c) && (c <=? 122).
Definition is_upper (c : N) : bool := (65 <=? c) && (c <=? 90).
Definition is_digit (c : N) : bool := (48 <=? c) && (c <=? 57).
Definition ident_start (b : byte) : bool := let c := b2n b in is_lower c || is_upper c || (c =? 95).
Definition ident_char (b : byte) : bool := ident_start b || is_digit (b2n b).

(* an ASCII Go identifier *)
Definition is_ident (s : str) : bool :=
  match s with
  | [] => false
  | b :: t => ident_start b && forallb ident_char t
  end.

Definition lower_or_digit (b : byte) : bool := let c := b2n b in is_lower c || is_digit c.

Lemma lower_alnum1_chars b r :
  forallb lower_or_digit r = true -> forallb lower_or_digit (lower_alnum1 b r) = true.
Proof.
  intros Hr. unfold lower_alnum1. cbv zeta. pose proof (b2n_lt b) as Hb.
  destruct ((65 <=? b2n b) && (b2n b <=? 90)) eqn:E1.
  - cbn [forallb]. rewrite Hr. unfold lower_or_digit, is_lower, is_digit.
    rewrite b2n_n2b by lia. rewrite andb_true_r. lia.
  - destruct (((97 <=? b2n b) && (b2n b <=? 122)) || ((48 <=? b2n b) && (b2n b <=? 57))) eqn:E2.
    + cbn [forallb]. rewrite Hr. unfold lower_or_digit, is_lower, is_digit.
      rewrite andb_true_r. exact E2.
    + exact Hr.
Qed.

Lemma lower_alnum_eq b t :
  lower_alnum (b :: t) =
  match t with
  | b1 :: t1 =>
    if beq b xc4 && beq b1 xb0 then x69 :: lower_alnum t1
    else match t1 with
         | b2 :: t2 =>
           if beq b xe2 && beq b1 x84 && beq b2 xaa then x6b :: lower_alnum t2
           else lower_alnum1 b (lower_alnum t)
         | [] => lower_alnum1 b (lower_alnum t)
         end
  | [] => lower_alnum1 b (lower_alnum t)
  end.
Proof. destruct t as [|b1 [|b2 t2]]; reflexivity. Qed.

Lemma lower_alnum_chars s : forallb lower_or_digit (lower_alnum s) = true.
Proof.
  remember (length s) as n eqn:Hn. revert s Hn.
  induction n as [n IH] using lt_wf_ind. intros s Hn.
  assert (Hgen : forall t', (length t' < n)%nat -> forallb lower_or_digit (lower_alnum t') = true).
  { intros t' Hl. eapply IH; [exact Hl | reflexivity]. }
  destruct s as [|b t]; [reflexivity|]. rewrite lower_alnum_eq.
  assert (Ht : forallb lower_or_digit (lower_alnum1 b (lower_alnum t)) = true).
  { apply lower_alnum1_chars. apply Hgen. subst n. simpl. lia. }
  destruct t as [|b1 t1]; [exact Ht|].
  destruct (beq b xc4 && beq b1 xb0).
  - cbn [forallb]. rewrite Hgen by (subst n; simpl; lia). reflexivity.
  - destruct t1 as [|b2 t2]; [exact Ht|].
    destruct (beq b xe2 && beq b1 x84 && beq b2 xaa); [|exact Ht].
    cbn [forallb]. rewrite Hgen by (subst n; simpl; lia). reflexivity.
Qed.

Lemma drop_digits_spec s :
  forallb lower_or_digit s = true ->
  forallb lower_or_digit (drop_digits s) = true /\
  match drop_digits s with [] => True | b :: _ => is_lower (b2n b) = true end.
Proof.
  induction s as [|b t IH]; intros H; [split; [reflexivity | exact I]|].
  cbn [forallb] in H. apply andb_true_iff in H. destruct H as [Hb Ht].
  cbn [drop_digits]. cbv zeta.
  destruct ((48 <=? b2n b) && (b2n b <=? 57)) eqn:E.
  - apply IH. exact Ht.
  - split.
    + cbn [forallb]. rewrite Hb, Ht. reflexivity.
    + unfold lower_or_digit, is_lower, is_digit in *. lia.
Qed.

(* a string of lower-case letters and digits that starts with a letter is an identifier *)
Lemma lower_ident b t :
  is_lower (b2n b) = true -> forallb lower_or_digit t = true -> is_ident (b :: t) = true.
Proof.
  intros Hb Ht. unfold is_ident. apply andb_true_iff. split.
  - unfold ident_start. cbv zeta. rewrite Hb. reflexivity.
  - rewrite forallb_forall in *. intros x Hx. specialize (Ht x Hx).
    unfold ident_char, ident_start, lower_or_digit in *. cbv zeta in *.
    destruct (is_lower (b2n x)); [reflexivity|]. simpl in Ht. rewrite Ht.
    rewrite orb_true_r. reflexivity.
Qed.

(* guessAlias always yields [a-z][a-z0-9]*, for every byte string *)
Definition lower_name (s : str) : Prop :=
  match s with
  | [] => False
  | b :: t => is_lower (b2n b) = true /\ forallb lower_or_digit t = true
  end.

Lemma guess_alias_lower path : lower_name (guess_alias path).
Proof.
  unfold guess_alias. cbv zeta.
  set (a := if contains_byte x2f (strip_slash path) then after_last x2f (strip_slash path) else strip_slash path).
  destruct (drop_digits_spec (lower_alnum a) (lower_alnum_chars a)) as [H1 H2].
  destruct (drop_digits (lower_alnum a)) as [|b t] eqn:E.
  - simpl. split; reflexivity.
  - simpl. cbn [forallb] in H1. apply andb_true_iff in H1. tauto.
Qed.

Lemma lower_name_ident s : lower_name s -> is_ident s = true.
Proof. destruct s as [|b t]; [intros []|]. intros [H1 H2]. apply lower_ident; assumption. Qed.

Theorem guess_alias_ident path : is_ident (guess_alias path) = true.
Proof. apply lower_name_ident, guess_alias_lower. Qed.

(* ------------------------------------------------------------------ decimal suffixes *)
From Coq Require Import DecimalPos DecimalN.

Lemma uint_to_str_nonnil u : u <> Decimal.Nil -> uint_to_str u <> [].
Proof. destruct u; simpl; congruence. Qed.

Lemma N_to_dec_nonnil n : N_to_dec n <> [].
Proof.
  unfold N_to_dec. apply uint_to_str_nonnil. destruct n as [|p]; simpl; [discriminate|].
  apply DecimalPos.Unsigned.to_uint_nonnil.
Qed.

Lemma uint_to_str_digits u : forallb (fun b => is_digit (b2n b)) (uint_to_str u) = true.
Proof. induction u; simpl; try reflexivity; exact IHu. Qed.

Lemma N_to_dec_digits n : forallb (fun b => is_digit (b2n b)) (N_to_dec n) = true.
Proof. apply uint_to_str_digits. Qed.

Lemma uint_to_str_inj u v : uint_to_str u = uint_to_str v -> u = v.
Proof.
  revert v. induction u; destruct v; simpl; intros H; try discriminate; try reflexivity;
    injection H as H; f_equal; apply IHu; exact H.
Qed.

Lemma N_to_dec_inj n m : N_to_dec n = N_to_dec m -> n = m.
Proof.
  unfold N_to_dec. intros H. apply uint_to_str_inj in H.
  rewrite <- (DecimalN.Unsigned.of_to n), <- (DecimalN.Unsigned.of_to m), H. reflexivity.
Qed.

Lemma candidate_inj name i j : candidate name i = candidate name j -> i = j.
Proof.
  unfold candidate. destruct (N.eqb_spec i 0) as [->|Hi], (N.eqb_spec j 0) as [->|Hj]; intros H.
  - reflexivity.
  - exfalso. apply (N_to_dec_nonnil j). apply (app_inv_head name). rewrite app_nil_r. symmetry. exact H.
  - exfalso. apply (N_to_dec_nonnil i). apply (app_inv_head name). rewrite app_nil_r. exact H.
  - apply app_inv_head in H. apply N_to_dec_inj. exact H.
Qed.

Lemma is_ident_app a b :
  is_ident a = true -> forallb ident_char b = true -> is_ident (a ++ b) = true.
Proof.
  destruct a as [|x a]; [discriminate|]. simpl. intros H Hb.
  apply andb_true_iff in H. destruct H as [H1 H2]. rewrite H1. simpl.
  rewrite forallb_app, H2, Hb. reflexivity.
Qed.

Lemma is_ident_chars a : is_ident a = true -> forallb ident_char a = true.
Proof.
  destruct a as [|x a]; [discriminate|]. simpl. intros H.
  apply andb_true_iff in H. destruct H as [H1 H2]. rewrite H2. unfold ident_char. rewrite H1. reflexivity.
Qed.

Lemma digits_ident_chars s :
  forallb (fun b => is_digit (b2n b)) s = true -> forallb ident_char s = true.
Proof.
  rewrite !forallb_forall. intros H x Hx. unfold ident_char. rewrite (H x Hx). apply orb_true_r.
Qed.

Lemma candidate_ident name i : is_ident name = true -> is_ident (candidate name i) = true.
Proof.
  intros H. unfold candidate. destruct (i =? 0); [exact H|].
  apply is_ident_app; [exact H|]. apply digits_ident_chars, N_to_dec_digits.
Qed.

(* ------------------------------------------------------------------ the register step *)
Definition names_of (t : table) : list str := map (fun e => id_name (snd e)) t.

Lemma valid_alias_spec t a :
  is_valid_alias t a = true ->
  a = s_dot \/ (is_reserved a = false /\ forall p d, In (p, d) t -> id_name d <> a).
Proof.
  unfold is_valid_alias. destruct (str_eqb_spec a s_dot) as [->|Hd]; [left; reflexivity|].
  destruct (is_reserved a); [discriminate|]. intros H. right. split; [reflexivity|].
  apply negb_true_iff in H. intros p d Hin E.
  assert (existsb (fun e => str_eqb a (id_name (snd e))) t = true); [|congruence].
  apply existsb_exists. exists (p, d). split; [exact Hin|]. simpl. rewrite E. apply str_eqb_refl.
Qed.

Section Reg.
  Variable cfg : config.

  Lemma uniquify_ok t name alias fuel i0 i :
    uniquify cfg t name alias fuel i0 = Some i ->
    candidate_ok cfg t name alias i = true /\ i0 <= i /\
    forall j, i0 <= j < i -> candidate_ok cfg t name alias j = false.
  Proof.
    revert i0. induction fuel as [|fuel IH]; intros i0; simpl; [discriminate|].
    destruct (candidate_ok cfg t name alias i0) eqn:E.
    - intros H. injection H as <-. split; [exact E|]. split; [lia|]. intros j Hj. lia.
    - intros H. apply IH in H. destruct H as (H1 & H2 & H3). split; [exact H1|]. split; [lia|].
      intros j Hj. destruct (N.eq_dec j i0) as [->|Hne]; [exact E|]. apply H3. lia.
  Qed.

  Inductive reg_case (t : table) (path : str) : table -> str -> Prop :=
  | RLocal : is_local cfg path = true -> reg_case t path t []
  | RKnown n : is_local cfg path = false -> registered_name t path = Some n -> reg_case t path t n
  | RC : is_local cfg path = false -> registered_name t path = None -> path = s_C ->
         reg_case t path (aset s_C (mkdef s_C false) t) s_C
  | RNew name alias i :
      is_local cfg path = false -> registered_name t path = None -> path <> s_C ->
      choose_name cfg path = (name, alias) ->
      candidate_ok cfg t name alias i = true ->
      (forall j, j < i -> candidate_ok cfg t name alias j = false) ->
      reg_case t path
        (aset path (mkdef (with_prefix cfg (candidate name i) (alias || negb (str_eqb (candidate name i) name)))
                          (alias || negb (str_eqb (candidate name i) name))) t)
        (with_prefix cfg (candidate name i) (alias || negb (str_eqb (candidate name i) name))).

  Lemma register_cases t path t' n : register cfg t path = Ok (t', n) -> reg_case t path t' n.
  Proof.
    unfold register.
    destruct (is_local cfg path) eqn:El.
    - intros H. injection H as <- <-. apply RLocal. exact El.
    - destruct (registered_name t path) as [n0|] eqn:Er.
      + intros H. injection H as <- <-. apply RKnown; assumption.
      + destruct (str_eqb_spec path s_C) as [->|Hc].
        * intros H. injection H as <- <-. apply RC; auto.
        * destruct (choose_name cfg path) as [name alias] eqn:Ec.
          destruct (uniquify cfg t name alias (register_fuel t) 0) as [i|] eqn:Eu; [|discriminate].
          intros H. injection H as <- <-.
          apply uniquify_ok in Eu. destruct Eu as (H1 & _ & H3).
          apply RNew; auto. intros j Hj. apply H3. lia.
  Qed.
End Reg.

(* ------------------------------------------------------------------ invariants *)
Definition special (n : str) : Prop := n = s_us \/ n = s_dot.

Record Inv (t : table) : Prop := {
  inv_nodup : NoDup (akeys t);
  inv_unique : forall p1 d1 p2 d2, In (p1, d1) t -> In (p2, d2) t -> p1 <> p2 ->
                                   id_name d1 = id_name d2 -> special (id_name d1);
  inv_C : forall p d, In (p, d) t -> id_name d = s_C -> p = s_C
}.

Definition legal_name (n : str) : Prop :=
  n = s_us \/ n = s_dot \/ n = s_C \/ (is_ident n = true /\ is_reserved n = false).
Definition Legal (t : table) : Prop := forall p d, In (p, d) t -> legal_name (id_name d).

(* what a user may legally pass as a hint name: nothing, ".", or an identifier other than
   C (a hint named C is the recorded finding hint-named-C) and the blank identifier *)
Definition hint_name_ok (n : str) : Prop :=
  n = [] \/ n = s_dot \/ (is_ident n = true /\ n <> s_C /\ n <> s_us).
Definition cfg_ok (cfg : config) : Prop :=
  (forall p h, alookup p (cfg_hints cfg) = Some h -> hint_name_ok (id_name h)) /\
  (cfg_prefix cfg = [] \/ is_ident (cfg_prefix cfg) = true).

Definition std_hints_check : bool :=
  forallb (fun e => is_ident (snd e) && negb (str_eqb (snd e) s_C) && negb (str_eqb (snd e) s_us)) std_hints.
Lemma std_hints_ok : std_hints_check = true.
Proof. vm_compute. reflexivity. Qed.

Lemma std_hint_ok path :
  std_hint path <> [] -> is_ident (std_hint path) = true /\ std_hint path <> s_C /\ std_hint path <> s_us.
Proof.
  unfold std_hint. destruct (alookup path std_hints) as [n|] eqn:E; [|congruence].
  intros _. apply alookup_In in E. pose proof std_hints_ok as H. unfold std_hints_check in H.
  rewrite forallb_forall in H. specialize (H _ E). simpl in H.
  apply andb_true_iff in H. destruct H as [H H3]. apply andb_true_iff in H. destruct H as [H1 H2].
  split; [exact H1|].
  apply negb_true_iff, str_eqb_neq in H2. apply negb_true_iff, str_eqb_neq in H3. auto.
Qed.

Lemma lower_name_not_C s : lower_name s -> s <> s_C /\ s <> s_us.
Proof.
  destruct s as [|b t]; [intros []|]. intros [H _].
  split; intros E; injection E as -> _; vm_compute in H; discriminate.
Qed.

Lemma choose_name_ok cfg path name alias :
  cfg_ok cfg -> choose_name cfg path = (name, alias) ->
  name <> [] /\ name <> s_C /\ name <> s_us /\ (name = s_dot \/ is_ident name = true).
Proof.
  intros [Hh _] Hc. unfold choose_name in Hc.
  assert (Hstd : std_hint path <> [] -> (std_hint path, false) = (name, alias) ->
                 name <> [] /\ name <> s_C /\ name <> s_us /\ (name = s_dot \/ is_ident name = true)).
  { intros Hne E. injection E as <- <-. destruct (std_hint_ok path Hne) as (H1 & H2 & H3). auto. }
  assert (Hg : (guess_alias path, true) = (name, alias) ->
               name <> [] /\ name <> s_C /\ name <> s_us /\ (name = s_dot \/ is_ident name = true)).
  { intros E. injection E as <- <-. pose proof (guess_alias_lower path) as Hl.
    split; [destruct (guess_alias path); [destruct Hl | discriminate]|].
    destruct (lower_name_not_C _ Hl). split; [assumption|]. split; [assumption|].
    right; apply lower_name_ident; exact Hl. }
  destruct (alookup path (cfg_hints cfg)) as [h|] eqn:El.
  - destruct (str_eqb_spec (id_name h) []) as [E0|E0]; simpl in Hc.
    + destruct (str_eqb_spec (std_hint path) []) as [E1|E1]; simpl in Hc; auto.
    + injection Hc as <- <-. destruct (Hh _ _ El) as [H|[H|(H1 & H2 & H3)]]; [congruence | |].
      * rewrite H. split; [discriminate|]. split; [discriminate|]. split; [discriminate | left; reflexivity].
      * auto.
  - destruct (str_eqb_spec (std_hint path) []) as [E1|E1]; simpl in Hc; auto.
Qed.

Lemma candidate_nonempty name i : name <> [] -> candidate name i <> [].
Proof. unfold candidate. destruct (i =? 0); [auto|]. destruct name; [congruence | discriminate]. Qed.

(* a candidate is never a one-byte name other than the base name itself *)
Lemma candidate_not_1 name i c : name <> [] -> name <> [c] -> candidate name i <> [c].
Proof.
  unfold candidate. intros Hn Hc. destruct (i =? 0); [exact Hc|].
  intros E. assert (L : length (name ++ N_to_dec i) = 1%nat) by (rewrite E; reflexivity).
  rewrite app_length in L. pose proof (N_to_dec_nonnil i).
  destruct name; [congruence|]. destruct (N_to_dec i); [congruence|]. simpl in L. lia.
Qed.

Lemma with_prefix_cases cfg u a :
  with_prefix cfg u a = u \/
  (cfg_prefix cfg <> [] /\ u <> s_dot /\ with_prefix cfg u a = cfg_prefix cfg ++ s_us ++ u).
Proof.
  unfold with_prefix. destruct (str_eqb_spec (cfg_prefix cfg) []) as [E|E]; simpl; [left; reflexivity|].
  destruct a; simpl; [|left; reflexivity].
  destruct (str_eqb_spec u s_dot); simpl; [left; reflexivity | right; auto].
Qed.

Lemma with_prefix_dot cfg a : with_prefix cfg s_dot a = s_dot.
Proof. destruct (with_prefix_cases cfg s_dot a) as [H|(_ & H & _)]; [exact H | congruence]. Qed.

Lemma with_prefix_not_1 cfg u a c : u <> [] -> u <> [c] -> with_prefix cfg u a <> [c].
Proof.
  intros Hn Hc. destruct (with_prefix_cases cfg u a) as [->|(Hp & _ & ->)]; [exact Hc|].
  intros E. assert (L : length (cfg_prefix cfg ++ s_us ++ u) = 1%nat) by (rewrite E; reflexivity).
  rewrite !app_length in L. destruct u; [congruence|]. simpl in L. lia.
Qed.

Lemma with_prefix_ident cfg u a :
  cfg_ok cfg -> is_ident u = true -> is_ident (with_prefix cfg u a) = true.
Proof.
  intros [_ Hp] Hu. destruct (with_prefix_cases cfg u a) as [->|(Hne & _ & ->)]; [exact Hu|].
  destruct Hp as [Hp|Hp]; [congruence|]. apply is_ident_app; [exact Hp|].
  change (forallb ident_char (x5f :: u) = true). cbn [forallb]. rewrite (is_ident_chars _ Hu). reflexivity.
Qed.

Section RegInv.
  Variable cfg : config.
  Hypothesis Hcfg : cfg_ok cfg.

  (* facts about the name chosen in the RNew case *)
  Lemma new_name_facts t path name alias i :
    choose_name cfg path = (name, alias) ->
    candidate_ok cfg t name alias i = true ->
    (forall j, j < i -> candidate_ok cfg t name alias j = false) ->
    let u := candidate name i in
    let a' := alias || negb (str_eqb u name) in
    let final := with_prefix cfg u a' in
    is_valid_alias t final = true /\ final <> [] /\ final <> s_C /\ final <> s_us /\
    (final = s_dot \/ is_ident final = true).
  Proof.
    intros Hc Hok Hmin u a' final.
    destruct (choose_name_ok _ _ _ _ Hcfg Hc) as (Hne & HnC & Hnu & Hid).
    unfold candidate_ok in Hok. fold u in Hok. apply andb_true_iff in Hok. destruct Hok as [Hv1 Hv2].
    fold a' in Hv2. fold final in Hv2.
    pose proof (candidate_nonempty name i Hne) as Hune. fold u in Hune.
    split; [exact Hv2|]. split.
    { subst final. destruct (with_prefix_cases cfg u a') as [->|(Hp & _ & ->)]; [exact Hune|].
      destruct (cfg_prefix cfg); [congruence | discriminate]. }
    split; [apply with_prefix_not_1; [exact Hune | apply candidate_not_1; assumption]|].
    split; [apply with_prefix_not_1; [exact Hune | apply candidate_not_1; assumption]|].
    destruct Hid as [Hd|Hid].
    - (* the hint is ".": the first candidate is accepted at once *)
      assert (i = 0) as Hi.
      { destruct (N.eq_dec i 0) as [E|E]; [exact E|]. exfalso.
        assert (H0 : candidate_ok cfg t name alias 0 = false) by (apply Hmin; lia).
        unfold candidate_ok in H0. change (candidate name 0) with name in H0. subst name.
        rewrite with_prefix_dot in H0. unfold is_valid_alias in H0. rewrite str_eqb_refl in H0. discriminate. }
      left. subst final u i. change (candidate name 0) with name. subst name. apply with_prefix_dot.
    - right. apply with_prefix_ident; [exact Hcfg | apply candidate_ident; exact Hid].
  Qed.

  Lemma Inv_aset t path d :
    Inv t ->
    (special (id_name d) \/ forall p' d', In (p', d') t -> p' <> path -> id_name d' <> id_name d) ->
    (id_name d = s_C -> path = s_C) ->
    Inv (aset path d t).
  Proof.
    intros [Hnd Hu HC] Hfresh HdC. constructor.
    - apply akeys_aset_NoDup. exact Hnd.
    - intros p1 d1 p2 d2 H1 H2 Hne Heq.
      destruct (In_aset _ _ _ _ _ Hnd H1) as [[-> ->]|[Hp1 Hin1]];
        destruct (In_aset _ _ _ _ _ Hnd H2) as [[-> ->]|[Hp2 Hin2]].
      + congruence.
      + destruct Hfresh as [Hd|Hf]; [exact Hd|]. exfalso. apply (Hf _ _ Hin2 Hp2). symmetry. exact Heq.
      + destruct Hfresh as [Hd|Hf]; [rewrite Heq; exact Hd|]. exfalso. apply (Hf _ _ Hin1 Hp1). exact Heq.
      + apply (Hu _ _ _ _ Hin1 Hin2 Hne Heq).
    - intros p d0 Hin E. destruct (In_aset _ _ _ _ _ Hnd Hin) as [[-> ->]|[Hp Hin']].
      + apply HdC. exact E.
      + apply (HC _ _ Hin' E).
  Qed.

  Theorem register_Inv t path t' n : Inv t -> register cfg t path = Ok (t', n) -> Inv t'.
  Proof.
    intros HI Hr. apply register_cases in Hr.
    destruct Hr as [Hl | n Hl Hk | Hl Hk HC | name alias i Hl Hk HC Hc Hok Hmin]; try exact HI.
    - (* "C": no other entry is named C *)
      apply Inv_aset; [exact HI | | reflexivity].
      right. intros p' d' Hin Hp E. simpl in E. apply Hp. apply (inv_C _ HI _ _ Hin E).
    - destruct (new_name_facts _ _ _ _ _ Hc Hok Hmin) as (Hv & _ & HnC & _).
      apply Inv_aset; [exact HI | | simpl; congruence].
      simpl. destruct (valid_alias_spec _ _ Hv) as [Hd|[_ Hf]]; [left; right; exact Hd|].
      right. intros p' d' Hin _. apply (Hf _ _ Hin).
  Qed.

  Theorem register_Legal t path t' n : Inv t -> Legal t -> register cfg t path = Ok (t', n) -> Legal t'.
  Proof.
    intros HI HL Hr. apply register_cases in Hr.
    destruct Hr as [Hl | n Hl Hk | Hl Hk HC | name alias i Hl Hk HC Hc Hok Hmin]; try exact HL.
    - intros p d Hin. destruct (In_aset _ _ _ _ _ (inv_nodup _ HI) Hin) as [[-> ->]|[_ Hin']].
      + right. right. left. reflexivity.
      + apply (HL _ _ Hin').
    - destruct (new_name_facts _ _ _ _ _ Hc Hok Hmin) as (Hv & _ & _ & _ & Hid).
      intros p d Hin. destruct (In_aset _ _ _ _ _ (inv_nodup _ HI) Hin) as [[-> ->]|[_ Hin']]; [|apply (HL _ _ Hin')].
      simpl. destruct Hid as [Hd|Hid]; [right; left; exact Hd|].
      destruct (valid_alias_spec _ _ Hv) as [Hd|[Hr _]]; [right; left; exact Hd|].
      right. right. right. split; assumption.
  Qed.

  (* the name returned is the name stored for the path; it is a registration (neither
     empty nor "_"), so every later register returns it unchanged *)
  Theorem register_returns_entry t path t' n :
    is_local cfg path = false -> register cfg t path = Ok (t', n) ->
    registered_name t' path = Some n.
  Proof.
    intros Hloc Hr. apply register_cases in Hr.
    destruct Hr as [Hl | n Hl Hk | Hl Hk HC | name alias i Hl Hk HC Hc Hok Hmin].
    - congruence.
    - exact Hk.
    - subst path. unfold registered_name. rewrite alookup_aset_same. reflexivity.
    - destruct (new_name_facts _ _ _ _ _ Hc Hok Hmin) as (_ & Hne & _ & Hnu & _).
      unfold registered_name. rewrite alookup_aset_same. cbn [id_name].
      apply str_eqb_neq in Hne, Hnu. rewrite Hne, Hnu. reflexivity.
  Qed.
End RegInv.

(* ------------------------------------------------------------------ histories *)
(* Every operation that touches a File's import table: a registration performed by some
   render (under the hints and prefix in force at that moment - they may change between
   operations) or an Anon call. *)
Inductive nop :=
| NReg (cfg : config) (path : str)
| NAnon (path : str).

Definition nstep (t : table) (o : nop) : table :=
  match o with
  | NReg cfg p => match register cfg t p with Ok (t', _) => t' | Panic _ => t end
  | NAnon p => aset p (mkdef s_us true) t
  end.

Definition nop_ok (o : nop) : Prop :=
  match o with
  | NReg cfg _ => cfg_ok cfg
  | NAnon p => p <> s_C   (* Anon("C") is stated separately (C19) *)
  end.

Lemma Inv_nil : Inv [].
Proof. constructor; [constructor | intros ? ? ? ? [] | intros ? ? []]. Qed.
Lemma Legal_nil : Legal [].
Proof. intros ? ? []. Qed.

Lemma nstep_Inv t o : nop_ok o -> Inv t -> Legal t -> Inv (nstep t o) /\ Legal (nstep t o).
Proof.
  destruct o as [cfg p|p]; simpl; intros Hok HI HL.
  - destruct (register cfg t p) as [[t' n]|m] eqn:E; [|split; assumption].
    split; [eapply register_Inv | eapply register_Legal]; eassumption.
  - split.
    + apply Inv_aset; [exact HI | left; left; reflexivity | simpl; discriminate].
    + intros q d Hin. destruct (In_aset _ _ _ _ _ (inv_nodup _ HI) Hin) as [[-> ->]|[_ Hin']].
      * left. reflexivity.
      * apply (HL _ _ Hin').
Qed.

Theorem history_Inv ops t :
  Forall nop_ok ops -> Inv t -> Legal t -> Inv (fold_left nstep ops t) /\ Legal (fold_left nstep ops t).
Proof.
  revert t. induction ops as [|o ops IH]; intros t Hok HI HL; simpl; [split; assumption|].
  inversion Hok as [|? ? Ho Hops]; subst.
  destruct (nstep_Inv t o Ho HI HL) as [HI' HL']. apply IH; assumption.
Qed.

(* distinct paths never share a name other than "_" and "." *)
Corollary history_names_unique ops p1 d1 p2 d2 :
  Forall nop_ok ops ->
  let t := fold_left nstep ops [] in
  alookup p1 t = Some d1 -> alookup p2 t = Some d2 -> p1 <> p2 ->
  id_name d1 = id_name d2 -> id_name d1 = s_us \/ id_name d1 = s_dot.
Proof.
  intros Hok t H1 H2 Hne Heq.
  destruct (history_Inv ops [] Hok Inv_nil Legal_nil) as [HI _].
  apply (inv_unique _ HI p1 d1 p2 d2); auto using alookup_In.
Qed.

Corollary history_names_legal ops p d :
  Forall nop_ok ops ->
  alookup p (fold_left nstep ops []) = Some d -> legal_name (id_name d).
Proof.
  intros Hok H. destruct (history_Inv ops [] Hok Inv_nil Legal_nil) as [_ HL].
  apply (HL p d). apply alookup_In. exact H.
Qed.

(* every Go keyword and every universe-scope identifier of the installed toolchain is reserved *)
From Jen Require Import Gen.Goroot.
Definition reserved_complete_check : bool :=
  forallb is_reserved (go_keywords ++ go_universe).
Lemma reserved_complete : reserved_complete_check = true.
Proof. vm_compute. reflexivity. Qed.

Lemma reserved_word_never_chosen w :
  In w (go_keywords ++ go_universe) -> is_reserved w = true.
Proof.
  intros H. pose proof reserved_complete as Hc. unfold reserved_complete_check in Hc.
  rewrite forallb_forall in Hc. apply Hc. exact H.
Qed.
