(* Review items C03 (the import block line by line), C05 (a hint named C; a reserved or
   taken hint), C17 (no key is invented), C18 (coverage of the toolchain's packages). *)
From Jen Require Import Base.Bytes Base.Num Base.Sort Model.Code Model.Naming Model.Render Model.FileRender.
From Jen Require Import GoStd.Quote GoStd.IsPrint GoStd.StructTag Gen.Tables Gen.Goroot.
From Jen Require Import Proofs.NamingProofs Proofs.RenderProofs Proofs.QuoteProofs Proofs.DictProofs
                        Proofs.ImportsProofs Proofs.OccsProofs Proofs.TagProofs Proofs.StdProofs Proofs.LitProofs.
From Coq Require Import Lia Permutation Sorted.
Local Open Scope bool_scope.

(* ================================================================== C03: the block, line by line *)
(* one ImportSpec: an optional alias and the path *)
Definition ispec := (option str * str)%type.

Definition spec_of (e : str * importdef) : ispec :=
  (if id_alias (snd e) && negb (str_eqb (fst e) s_C) then Some (id_name (snd e)) else None, fst e).

Definition spec_text (sp : ispec) : str :=
  match fst sp with
  | Some a => a ++ S " " ++ GoQuote (snd sp)
  | None => GoQuote (snd sp)
  end.

Lemma import_spec_text p d : import_spec p d = spec_text (spec_of (p, d)).
Proof. unfold import_spec, spec_text, spec_of. cbn [fst snd]. destruct (id_alias d && negb (str_eqb p s_C)); reflexivity. Qed.

(* the ImportSpecs of the main declaration, in the order printed *)
Definition block_specs (l : table) : list ispec := map spec_of (isort_by fst l).
Definition block_lines (l : table) : list str := map spec_text (block_specs l).

(* the main import declaration as a function of its lines: nothing, the single-import form,
   or the parenthesised form with one line per spec *)
Definition block_text (lines : list str) : str :=
  match lines with
  | [] => []
  | [x] => S "import " ++ x ++ [x0a; x0a]
  | _ => S "import (" ++ [x0a] ++ concat_str (map (fun x => x ++ [x0a]) lines) ++ S ")" ++ [x0a; x0a]
  end.

Lemma block_lines_eq l : block_lines l = map (fun e => import_spec (fst e) (snd e)) (isort_by fst l).
Proof.
  unfold block_lines, block_specs. rewrite map_map. apply map_ext. intros [p d]. symmetry. apply import_spec_text.
Qed.

Lemma main_block_lines l : main_block l = block_text (block_lines l).
Proof.
  rewrite block_lines_eq. destruct l as [|a [|b l0]]; try reflexivity.
  unfold main_block.
  pose proof (isort_by_length fst (a :: b :: l0)) as Hl.
  destruct (isort_by fst (a :: b :: l0)) as [|x [|y r]] eqn:E; try discriminate.
  cbn [map block_text]. rewrite !map_map. reflexivity.
Qed.

Lemma block_specs_paths l : map snd (block_specs l) = akeys (isort_by fst l).
Proof. unfold block_specs, akeys. rewrite map_map. reflexivity. Qed.

(* THE BLOCK, EXACTLY.  For a table without repeated paths: the text of the import block is
   block_text of the lines of the listed entries (all entries, minus "C" when a cgo preamble
   exists), followed by the preamble part; there is ONE spec per listed path; the spec of a
   path p is the one its entry (p, d) determines - alias shown iff the entry says alias (and
   p is not "C") - and no other spec of the block carries the path p; every spec belongs to
   an entry. *)
Theorem block_line_exact t cgo :
  NoDup (akeys t) ->
  render_imports t cgo =
    block_text (block_lines (listed t cgo)) ++ (if nonempty_list cgo then preamble_block cgo else []) /\
  block_lines (listed t cgo) = map (fun e => import_spec (fst e) (snd e)) (isort_by fst (listed t cgo)) /\
  NoDup (map snd (block_specs (listed t cgo))) /\
  (forall p d, alookup p t = Some d -> cgo = [] \/ p <> s_C ->
     In (spec_of (p, d)) (block_specs (listed t cgo)) /\
     forall sp, In sp (block_specs (listed t cgo)) -> snd sp = p -> sp = spec_of (p, d)) /\
  (forall sp, In sp (block_specs (listed t cgo)) ->
     exists d, alookup (snd sp) t = Some d /\ sp = spec_of (snd sp, d)).
Proof.
  intros Hnd. destruct (imports_block_exact t cgo Hnd) as (Hr & _ & Hnd' & Hin).
  split; [rewrite Hr, main_block_lines; reflexivity|]. split; [apply block_lines_eq|].
  split; [rewrite block_specs_paths; exact Hnd'|].
  assert (Hspec : forall sp, In sp (block_specs (listed t cgo)) ->
                    exists d, In (snd sp, d) (listed t cgo) /\ alookup (snd sp) t = Some d /\ sp = spec_of (snd sp, d)).
  { intros sp Hsp. unfold block_specs in Hsp. apply in_map_iff in Hsp. destruct Hsp as ([p d] & <- & He).
    apply isort_by_In in He. exists d. cbn [spec_of fst snd]. split; [exact He|]. split; [|reflexivity].
    apply In_alookup_NoDup; [exact Hnd|]. apply (proj1 (Hin p d) He). }
  split.
  - intros p d Hl Hc. split.
    + unfold block_specs. apply in_map. apply isort_by_In. apply Hin. split; [apply alookup_In; exact Hl | exact Hc].
    + intros sp Hsp Hp. destruct (Hspec sp Hsp) as (d' & _ & Hl' & ->). cbn [snd spec_of fst] in Hp. subst p.
      cbn [snd fst] in Hl'. rewrite Hl in Hl'. injection Hl' as <-. reflexivity.
  - intros sp Hsp. destruct (Hspec sp Hsp) as (d & _ & Hl & E). exists d. split; assumption.
Qed.

(* the case the review names: an entry WITHOUT alias.  Its line is the bare quoted path, and
   no spec of the block - in particular none of the form `q "p"` - carries the path p *)
Corollary block_unaliased_line t cgo p d :
  NoDup (akeys t) -> alookup p t = Some d -> cgo = [] \/ p <> s_C -> id_alias d = false ->
  import_spec p d = GoQuote p /\
  In (None, p) (block_specs (listed t cgo)) /\
  forall a, ~ In (Some a, p) (block_specs (listed t cgo)).
Proof.
  intros Hnd Hl Hc Ha. destruct (block_line_exact t cgo Hnd) as (_ & _ & _ & Hp & _).
  destruct (Hp p d Hl Hc) as [Hin Hu].
  assert (E : spec_of (p, d) = (None, p)) by (unfold spec_of; cbn [fst snd]; rewrite Ha; reflexivity).
  split; [unfold import_spec; rewrite Ha; reflexivity|]. split; [rewrite <- E; exact Hin|].
  intros a Hi. specialize (Hu _ Hi eq_refl). rewrite E in Hu. discriminate.
Qed.

(* ... and an entry WITH alias (path other than "C"): its line is `name "p"`, and the bare line
   `"p"` is not a spec of the block *)
Corollary block_aliased_line t cgo p d :
  NoDup (akeys t) -> alookup p t = Some d -> p <> s_C -> id_alias d = true ->
  import_spec p d = id_name d ++ S " " ++ GoQuote p /\
  In (Some (id_name d), p) (block_specs (listed t cgo)) /\
  ~ In (None, p) (block_specs (listed t cgo)) /\
  forall a, In (Some a, p) (block_specs (listed t cgo)) -> a = id_name d.
Proof.
  intros Hnd Hl Hc Ha. destruct (block_line_exact t cgo Hnd) as (_ & _ & _ & Hp & _).
  destruct (Hp p d Hl (or_intror Hc)) as [Hin Hu].
  assert (Hn : str_eqb p s_C = false) by (apply str_eqb_neq; exact Hc).
  assert (E : spec_of (p, d) = (Some (id_name d), p)) by (unfold spec_of; cbn [fst snd]; rewrite Ha, Hn; reflexivity).
  split; [unfold import_spec; rewrite Ha, Hn; reflexivity|]. split; [rewrite <- E; exact Hin|].
  split.
  - intros Hi. specialize (Hu _ Hi eq_refl). rewrite E in Hu. discriminate.
  - intros a Hi. specialize (Hu _ Hi eq_refl). rewrite E in Hu. injection Hu as ->. reflexivity.
Qed.

(* a spec is read back from its line: different paths give different lines *)
Lemma GoQuote_inj a b : GoQuote a = GoQuote b -> a = b.
Proof. intros H. pose proof (GoQuote_value a) as Ha. rewrite H, GoQuote_value in Ha. congruence. Qed.

(* ---- the text determines the lines: no line contains a newline ---- *)
Fixpoint nl_lines (s cur : str) : list str :=
  match s with
  | [] => match cur with [] => [] | _ => [rev cur] end
  | b :: r => if beq b x0a then rev cur :: nl_lines r [] else nl_lines r (b :: cur)
  end.

Lemma nl_lines_line l : ~ In x0a l -> forall r cur, nl_lines (l ++ x0a :: r) cur = (rev cur ++ l) :: nl_lines r [].
Proof.
  induction l as [|b l IH]; intros Hn r cur; cbn [app nl_lines].
  - rewrite app_nil_r. reflexivity.
  - destruct (beq_spec b x0a) as [->|Hb]; [exfalso; apply Hn; left; reflexivity|].
    rewrite IH by (intros H; apply Hn; right; exact H). cbn [rev]. rewrite <- app_assoc. reflexivity.
Qed.

Lemma nl_lines_concat ls tail : Forall (fun l => ~ In x0a l) ls ->
  nl_lines (concat_str (map (fun x => x ++ [x0a]) ls) ++ tail) [] = ls ++ nl_lines tail [].
Proof.
  induction 1 as [|l ls Hl _ IH]; [reflexivity|]. cbn [map concat_str].
  rewrite <- !app_assoc. cbn [app]. rewrite nl_lines_line by exact Hl. cbn [rev app]. rewrite IH. reflexivity.
Qed.

Lemma spec_text_no_nl sp :
  (forall a, fst sp = Some a -> ~ In x0a a) -> ~ In x0a (spec_text sp).
Proof.
  destruct sp as [[a|] p]; unfold spec_text; cbn [fst snd]; intros Ha; [|apply GoQuote_no_nl].
  intros H. apply in_app_or in H. destruct H as [H|H]; [exact (Ha a eq_refl H)|].
  apply in_app_or in H. destruct H as [[E|[]]|H]; [discriminate | exact (GoQuote_no_nl _ H)].
Qed.

(* read as lines, the parenthesised block is `import (`, the lines of the specs, `)` and an
   empty line - nothing else; hypothesis: no stored name contains a newline (true of every
   name jennifer chooses: C05_names_legal) *)
Theorem block_text_lines l :
  (forall p d, In (p, d) l -> ~ In x0a (id_name d)) -> (2 <= length l)%nat ->
  nl_lines (main_block l) [] = S "import (" :: block_lines l ++ [S ")"; []].
Proof.
  intros Hn Hlen. rewrite main_block_lines.
  assert (Hl : length (block_lines l) = length l).
  { unfold block_lines, block_specs. rewrite !map_length. apply isort_by_length. }
  destruct (block_lines l) as [|x [|y r]] eqn:E; cbn [length] in Hl; try lia.
  rewrite <- E. unfold block_text. rewrite E. rewrite <- E.
  change (S "import (" ++ [x0a] ++ concat_str (map (fun x0 => x0 ++ [x0a]) (block_lines l)) ++ S ")" ++ [x0a; x0a])
    with (S "import (" ++ x0a :: (concat_str (map (fun x0 => x0 ++ [x0a]) (block_lines l)) ++ S ")" ++ [x0a; x0a])).
  rewrite nl_lines_line by (vm_compute; intuition discriminate). cbn [rev app]. f_equal.
  rewrite nl_lines_concat; [reflexivity|].
  apply Forall_forall. intros ln Hin. unfold block_lines in Hin. apply in_map_iff in Hin.
  destruct Hin as (sp & <- & Hsp). apply spec_text_no_nl. intros a Ha.
  unfold block_specs in Hsp. apply in_map_iff in Hsp. destruct Hsp as ([p d] & <- & He).
  apply isort_by_In in He. unfold spec_of in Ha. cbn [fst snd] in Ha.
  destruct (id_alias d && negb (str_eqb p s_C)); [|discriminate]. injection Ha as <-. exact (Hn p d He).
Qed.

(* ================================================================== C05 *)
(* THE FINDING hint-named-C AS A THEOREM.  ImportName("a/b", "C"), a reference to a/b, a
   reference to "C": the hint is an identifier that is not reserved and not taken, so a/b is
   stored under the name C without alias; the cgo pseudo package is then stored under C as
   well.  Two paths share the name C, and in the rendered file `C.X` (meant: a/b) resolves to
   cgo.  So the exclusion of C in hint_name_ok is necessary for C05_names_unique. *)
Definition hint_C_cfg : config := mkcfg [] [] [(S "a/b", mkdef s_C false)].
Definition hint_C_ops : list nop := [NReg hint_C_cfg (S "a/b"); NReg hint_C_cfg s_C].
Definition hint_C_file : file :=
  let f := new_file (S "main") in
  let f := import_name f (S "a/b") (S "C") in
  let f := add_item f (CStmt [qual 1 (S "a/b") (S "X")]) in
  add_item f (CStmt [qual 2 s_C (S "Y")]).

Lemma hint_named_C_refuted :
  (* every requirement of cfg_ok holds, except that the hint is named C *)
  (forall p h, alookup p (cfg_hints hint_C_cfg) = Some h ->
               is_ident (id_name h) = true /\ id_name h <> s_us /\ is_reserved (id_name h) = false) /\
  cfg_prefix hint_C_cfg = [] /\
  Forall (fun o => match o with NReg _ _ => True | NAnon p => p <> s_C end) hint_C_ops /\
  exists p1 d1 p2 d2,
    let t := fold_left nstep hint_C_ops [] in
    alookup p1 t = Some d1 /\ alookup p2 t = Some d2 /\ p1 <> p2 /\
    id_name d1 = id_name d2 /\ id_name d1 = s_C /\ id_name d1 <> s_us /\ id_name d1 <> s_dot.
Proof.
  split.
  - intros p h. simpl. destruct (str_eqb p (S "a/b")); [|discriminate]. intros E. injection E as <-.
    split; [reflexivity|]. split; [discriminate | vm_compute; reflexivity].
  - split; [reflexivity|]. split; [repeat constructor|].
    exists (S "a/b"), (mkdef s_C false), s_C, (mkdef s_C false). cbv zeta.
    split; [vm_compute; reflexivity|]. split; [vm_compute; reflexivity|].
    split; [discriminate|]. split; [reflexivity|]. split; [reflexivity|]. split; discriminate.
Qed.

(* the same history through File.Render: both imports unaliased, both references written C.* *)
Lemma hint_named_C_file :
  file_cfg hint_C_file = hint_C_cfg /\
  file_raw hint_C_file =
    Ok ([(S "a/b", mkdef s_C false); (s_C, mkdef s_C false)],
        concat_str (map (fun l => l ++ [x0a])
          [S "package main"; []; S "import ("; S """C"""; S """a/b"""; S ")"; []; []; S "C.X"]) ++ S "C.Y").
Proof. split; vm_compute; reflexivity. Qed.

Lemma app_nonnil_neq (a b : str) : b <> [] -> a ++ b <> a.
Proof. intros Hb E. apply Hb. apply (app_inv_head a). rewrite app_nil_r. exact E. Qed.

(* A RESERVED OR TAKEN HINT IS REPLACED.  One register call that creates the entry of a path
   with a hint name (ImportName or ImportAlias) other than ".": if the name is reserved, or
   some entry of the table already carries it, the name stored and written differs from the
   hint and the entry is an explicit alias. *)
Lemma reserved_or_taken_hint_is_replaced cfg t p t' n h :
  register cfg t p = Ok (t', n) ->
  is_local cfg p = false -> registered_name t p = None -> p <> s_C ->
  alookup p (cfg_hints cfg) = Some h -> id_name h <> [] -> id_name h <> s_dot ->
  (is_reserved (id_name h) = true \/ exists p' d', In (p', d') t /\ id_name d' = id_name h) ->
  n <> id_name h /\ alookup p t' = Some (mkdef n true) /\
  exists i, (i <> 0)%N /\
    (n = id_name h ++ N_to_dec i \/ n = cfg_prefix cfg ++ s_us ++ id_name h ++ N_to_dec i).
Proof.
  intros Hr Hl Hk HC Hh Hne Hnd Hbad. apply register_cases in Hr.
  destruct Hr as [Hl' | n Hl' Hk' | Hl' Hk' HC' | name alias i Hl' Hk' HC' Hc Hok Hmin]; try congruence.
  assert (En : name = id_name h).
  { unfold choose_name in Hc. rewrite Hh in Hc. apply str_eqb_neq in Hne. rewrite Hne in Hc.
    cbn [negb] in Hc. injection Hc as <- _. reflexivity. }
  subst name.
  assert (Hi : (i <> 0)%N).
  { intros ->. unfold candidate_ok in Hok. change (candidate (id_name h) 0) with (id_name h) in Hok.
    apply andb_true_iff in Hok. destruct Hok as [Hv _].
    destruct (valid_alias_spec _ _ Hv) as [Hd|[Hres Hfree]]; [congruence|].
    destruct Hbad as [Hb|(p' & d' & Hin & Hd')]; [congruence | exact (Hfree _ _ Hin Hd')]. }
  assert (Eu : candidate (id_name h) i = id_name h ++ N_to_dec i).
  { unfold candidate. apply N.eqb_neq in Hi. rewrite Hi. reflexivity. }
  assert (Hneq : str_eqb (candidate (id_name h) i) (id_name h) = false).
  { apply str_eqb_neq. rewrite Eu. apply app_nonnil_neq. apply N_to_dec_nonnil. }
  rewrite Hneq. cbn [negb]. rewrite orb_true_r.
  set (final := with_prefix cfg (candidate (id_name h) i) true).
  split; [|split; [apply alookup_aset_same|]].
  - intros E. assert (L : length final = length (id_name h)) by (rewrite E; reflexivity).
    pose proof (N_to_dec_nonnil i) as Hdn.
    unfold final in L. destruct (with_prefix_cases cfg (candidate (id_name h) i) true) as [W|(_ & _ & W)];
      rewrite W, Eu in L; rewrite !app_length in L; destruct (N_to_dec i); try congruence; cbn [length] in L; lia.
  - exists i. split; [exact Hi|]. unfold final.
    destruct (with_prefix_cases cfg (candidate (id_name h) i) true) as [W|(_ & _ & W)]; rewrite W, Eu; [left | right]; reflexivity.
Qed.

(* ================================================================== C17: no key is invented *)
Section TagsAbsent.
  Variable is_print : N -> bool.
  Hypothesis print_nl : is_print 10%N = false.

  Lemma lookup_nil f k : lookup_fuel f [] k = None.
  Proof. destruct f; reflexivity. Qed.

  (* Lookup of a key that is not a key of the list finds nothing: it walks over every
     `key:"value"` item - whatever bytes the values hold, the quoted form is skipped as one
     unit - and reaches the end *)
  Theorem lookup_join_absent l :
    Forall conv_key (map fst l) ->
    forall fuel k, ~ In k (map fst l) ->
      lookup_fuel fuel (join (S " ") (map (item is_print) l)) k = None.
  Proof.
    induction l as [|[k0 v0] l IH]; intros Hck fuel k Hni; [apply lookup_nil|].
    cbn [map fst] in Hck, Hni. inversion Hck as [|? ? Hc0 Hck']; subst.
    assert (Hne : str_eqb k k0 = false) by (apply str_eqb_neq; intros ->; apply Hni; left; reflexivity).
    assert (Hni' : ~ In k (map fst l)) by (intros H; apply Hni; right; exact H).
    destruct fuel as [|f]; [reflexivity|].
    destruct l as [|kv1 l'].
    - cbn [map join]. rewrite <- (app_nil_r (item is_print (k0, v0))).
      rewrite (lookup_step is_print print_nl) by exact Hc0. rewrite Hne. apply lookup_nil.
    - cbn [map]. rewrite join_cons2. rewrite (lookup_step is_print print_nl) by exact Hc0. rewrite Hne.
      rewrite lookup_skip. apply (IH Hck' f k Hni').
  Qed.
End TagsAbsent.

Theorem tag_absent_key (kvs : list (str * str)) :
  Forall conv_key (map fst kvs) -> kvs <> [] ->
  exists body,
    go_string_value (tag_text kvs) = Some body /\
    body = join (S " ") (map (item go_is_print) (isort_by fst kvs)) /\
    forall k, ~ In k (map fst kvs) -> struct_tag_lookup body k = None.
Proof.
  intros Hck Hne. exists (tag_body kvs).
  assert (Hbody : tag_body kvs = join (S " ") (map (item go_is_print) (isort_by fst kvs))) by reflexivity.
  split; [|split; [exact Hbody|]].
  - unfold tag_text. destruct kvs as [|kv kvs']; [congruence|].
    cbv zeta. destruct (CanBackquote (tag_body (kv :: kvs'))) eqn:Ecb.
    + unfold go_string_value.
      rewrite <- (app_nil_r ([c_bq] ++ tag_body (kv :: kvs') ++ [c_bq])). rewrite <- !app_assoc.
      rewrite backquoted_roundtrip by exact Ecb. reflexivity.
    + apply Quote_roundtrip. exact go_is_print_nl.
  - intros k Hni. unfold struct_tag_lookup. rewrite Hbody.
    pose proof (isort_by_perm fst kvs) as Hp.
    apply (lookup_join_absent go_is_print go_is_print_nl).
    + eapply Permutation_Forall; [apply Permutation_map, Permutation_sym, Hp | exact Hck].
    + intros Hin. apply Hni. eapply Permutation_in; [apply Permutation_map, Hp | exact Hin].
Qed.

(* with the round trip: Lookup returns a value for k exactly when k is a key of the map, and
   then the value of the map *)
Theorem tag_lookup_exact (kvs : list (str * str)) :
  NoDup (map fst kvs) -> Forall conv_key (map fst kvs) -> kvs <> [] ->
  exists body,
    go_string_value (tag_text kvs) = Some body /\
    forall k v, struct_tag_lookup body k = Some v <-> In (k, v) kvs.
Proof.
  intros Hnd Hck Hne.
  destruct (tag_roundtrip kvs Hnd Hck Hne) as (body & Hb & Hl & _).
  destruct (tag_absent_key kvs Hck Hne) as (body' & Hb' & _ & Ha).
  rewrite Hb in Hb'. injection Hb' as <-. exists body. split; [exact Hb|].
  intros k v. split; [|apply Hl].
  intros H. destruct (in_dec str_eq_dec k (map fst kvs)) as [Hin|Hni].
  - apply in_map_iff in Hin. destruct Hin as ([k' v'] & <- & Hin). cbn [fst] in *.
    rewrite (Hl _ _ Hin) in H. injection H as <-. exact Hin.
  - rewrite (Ha k Hni) in H. discriminate.
Qed.

(* ================================================================== C18: coverage *)
Definition goroot_all_hinted : bool :=
  forallb (fun e => negb (str_eqb (std_hint (fst e)) [])) goroot_packages.

Lemma goroot_all_hinted_ok : goroot_all_hinted = true.
Proof. vm_compute. reflexivity. Qed.

(* every importable package of the installed toolchain is in jennifer's table *)
Theorem std_hints_cover_goroot p : In p (akeys goroot_packages) -> std_hint p <> [].
Proof.
  intros H. unfold akeys in H. apply in_map_iff in H. destruct H as (e & <- & He).
  pose proof goroot_all_hinted_ok as Hc. unfold goroot_all_hinted in Hc. rewrite forallb_forall in Hc.
  specialize (Hc e He). apply negb_true_iff, str_eqb_neq in Hc. exact Hc.
Qed.

(* ... under its declared name *)
Corollary std_hint_is_declared_name p real : alookup p goroot_packages = Some real -> std_hint p = real.
Proof.
  intros H. apply std_hint_true; [|exact H]. apply std_hints_cover_goroot.
  apply alookup_In in H. unfold akeys. change p with (fst (p, real)). apply in_map. exact H.
Qed.

(* the entries of jennifer's table that are not importable packages of the toolchain
   (internal and vendored directories, packages of other Go versions) *)
Definition std_hints_not_in_goroot : list (str * str) :=
  filter (fun e => match alookup (fst e) goroot_packages with Some _ => false | None => true end) std_hints.
