(* C15: comments are contained.  Lemmas about the skeleton lexer (GoStd/Skeleton.v) run on
   the text jennifer writes for a comment (Model/Render.v comment_text), about the layout of
   multi-line groups (group_loop / render) and of the head of a file (file_head). *)
From Jen Require Import Base.Bytes GoStd.Quote GoStd.Skeleton GoStd.IsPrint.
From Jen Require Import Model.Render Model.FileRender Gen.Tables.
From Jen Require Import Proofs.QuoteProofs.

(* ---- small facts about bytes and strings ---- *)
Lemma beq_sym a b : beq a b = beq b a.
Proof.
  destruct (beq_spec a b) as [->|H].
  - symmetry. apply beq_refl.
  - symmetry. apply beq_neq. congruence.
Qed.

Definition s_close : str := [x2a; x2f].       (* the two bytes that end a block comment *)
Lemma s_close_eq : S "*/" = s_close. Proof. reflexivity. Qed.

Lemma contains_cons p c s : contains p (c :: s) = has_prefix p (c :: s) || contains p s.
Proof. reflexivity. Qed.

Lemma has_prefix_app_l p a b : has_prefix p a = true -> has_prefix p (a ++ b) = true.
Proof.
  intros H. apply has_prefix_app in H. destruct H as [r ->].
  apply has_prefix_app. exists (r ++ b). rewrite app_assoc. reflexivity.
Qed.

Lemma no_close_app_l a b : contains s_close (a ++ b) = false -> contains s_close a = false.
Proof.
  induction a as [|c a IH]; intros H; [reflexivity|].
  rewrite <- app_comm_cons in H. rewrite contains_cons in H |- *.
  apply orb_false_iff in H. destruct H as [H1 H2].
  apply orb_false_iff. split; [|apply IH; exact H2].
  destruct (has_prefix s_close (c :: a)) eqn:E; [|reflexivity].
  apply (has_prefix_app_l _ _ b) in E. rewrite <- app_comm_cons in E. congruence.
Qed.

Lemma has_suffix_nl t : has_suffix [x0a] t = true -> exists t', t = t' ++ [x0a].
Proof.
  unfold has_suffix. intros H. apply has_prefix_app in H. destruct H as [r H].
  exists (rev r). rewrite <- (rev_involutive t), H. reflexivity.
Qed.

(* ---- composition of the lexer ---- *)
Lemma lex_app m acc a b :
  lex m acc (a ++ b) = let '(o, m', acc') := lex_run m acc a in o ++ lex m' acc' b.
Proof.
  revert m acc. induction a as [|c a IH]; intros m acc; cbn [app lex lex_run]; [reflexivity|].
  destruct (lex_step m acc c) as [[o m1] acc1]. rewrite IH.
  destruct (lex_run m1 acc1 a) as [[o2 m2] acc2]. rewrite app_assoc. reflexivity.
Qed.

Lemma lex_run_app m acc a b :
  lex_run m acc (a ++ b) =
  let '(o, m1, acc1) := lex_run m acc a in
  let '(o2, m2, acc2) := lex_run m1 acc1 b in (o ++ o2, m2, acc2).
Proof.
  revert m acc. induction a as [|c a IH]; intros m acc; cbn [app lex_run].
  - destruct (lex_run m acc b) as [[o2 m2] acc2]. reflexivity.
  - destruct (lex_step m acc c) as [[o m1] acc1]. rewrite IH.
    destruct (lex_run m1 acc1 a) as [[o1 m2] acc2].
    destruct (lex_run m2 acc2 b) as [[o3 m3] acc3]. rewrite app_assoc. reflexivity.
Qed.

Lemma lex_run_end m acc s :
  lex m acc s = let '(o, m', acc') := lex_run m acc s in o ++ lex_end m' acc'.
Proof.
  rewrite <- (app_nil_r s) at 1. rewrite lex_app.
  destruct (lex_run m acc s) as [[o m'] acc']. reflexivity.
Qed.

(* the regions partition the text *)
Lemma text_of_app a b : text_of (a ++ b) = text_of a ++ text_of b.
Proof.
  unfold text_of. induction a as [|x a IH]; cbn [app map concat_str]; [reflexivity|].
  rewrite IH. apply app_assoc.
Qed.

Lemma text_of_flush k acc : text_of (flush k acc) = rev acc.
Proof. destruct acc; [reflexivity|]. unfold flush, text_of. cbn [map concat_str snd]. apply app_nil_r. Qed.

Lemma text_of_one k x : text_of [(k, x)] = x.
Proof. unfold text_of. cbn. apply app_nil_r. Qed.

Lemma rev_cons_app (c : byte) acc : rev (c :: acc) = rev acc ++ [c].
Proof. reflexivity. Qed.

Ltac step_cases c :=
  repeat match goal with
         | |- context [beq c ?k] => destruct (beq_spec c k) as [-> | ?]
         | |- context [beq ?a ?b] =>
           let v := eval vm_compute in (beq a b) in
           match v with true => idtac | false => idtac end; change (beq a b) with v
         end; cbv iota.

Lemma lex_step_text m acc c :
  let '(o, m', acc') := lex_step m acc c in
  text_of o ++ rev acc' ++ (match m' with MSlash => [c_slash] | _ => [] end)
  = rev acc ++ (match m with MSlash => [c_slash] | _ => [] end) ++ [c].
Proof.
  destruct m; unfold lex_step, code_step, quoted_step, esc_step; step_cases c;
    rewrite ?text_of_flush, ?text_of_one; cbn [text_of map concat_str rev app];
    rewrite <- ?app_assoc; cbn [app]; rewrite ?app_nil_r; reflexivity.
Qed.

Lemma lex_end_text m acc :
  text_of (lex_end m acc) = rev acc ++ (match m with MSlash => [c_slash] | _ => [] end).
Proof.
  destruct m; cbn [lex_end]; rewrite ?text_of_flush, ?text_of_one; cbn [rev]; rewrite ?app_nil_r; reflexivity.
Qed.

Lemma lex_text s : forall m acc,
  text_of (lex m acc s) = rev acc ++ (match m with MSlash => [c_slash] | _ => [] end) ++ s.
Proof.
  induction s as [|c s IH]; intros m acc; cbn [lex].
  - rewrite lex_end_text, app_nil_r. reflexivity.
  - pose proof (lex_step_text m acc c) as H.
    destruct (lex_step m acc c) as [[o m'] acc'].
    rewrite text_of_app, IH.
    rewrite app_assoc, app_assoc. rewrite <- (app_assoc (text_of o)). rewrite H.
    rewrite <- !app_assoc. reflexivity.
Qed.

Theorem skel_partition s : text_of (skel s) = s.
Proof. unfold skel. rewrite lex_text. reflexivity. Qed.

(* ---- line comments ---- *)
Lemma lex_of_run m acc a o m' acc' b :
  lex_run m acc a = (o, m', acc') -> lex m acc (a ++ b) = o ++ lex m' acc' b.
Proof. intros H. rewrite lex_app, H. reflexivity. Qed.

Lemma run_line t : contains_byte x0a t = false ->
  forall acc, lex_run MLine acc t = ([], MLine, rev t ++ acc).
Proof.
  induction t as [|c t IH]; intros H acc; [reflexivity|].
  cbn [contains_byte] in H. apply orb_false_iff in H. destruct H as [H1 H2].
  cbn [lex_run lex_step]. unfold c_nl. rewrite beq_sym, H1. rewrite IH by exact H2.
  cbn [app rev]. rewrite <- app_assoc. reflexivity.
Qed.

Lemma run_open_line acc : lex_run MCode acc [x2f; x2f; x20] = (flush KCode acc, MLine, [x20; x2f; x2f]).
Proof. destruct acc; reflexivity. Qed.
Lemma run_open_block acc : lex_run MCode acc [x2f; x2a] = (flush KCode acc, MBlock, [x2a; x2f]).
Proof. destruct acc; reflexivity. Qed.
Lemma run_nl_line acc : lex_run MLine acc [x0a] = ([(KLine, rev acc)], MCode, [x0a]).
Proof. reflexivity. Qed.
Lemma run_nl_code acc : lex_run MCode acc [x0a] = ([], MCode, x0a :: acc).
Proof. reflexivity. Qed.

Lemma run_line_comment t acc : contains_byte x0a t = false ->
  lex_run MCode acc (S "// " ++ t) = (flush KCode acc, MLine, rev t ++ [x20; x2f; x2f]).
Proof.
  intros H. change (S "// ") with [x2f; x2f; x20].
  rewrite lex_run_app, run_open_line, run_line by exact H. rewrite app_nil_r. reflexivity.
Qed.

Lemma run_line_comment_nl t acc : contains_byte x0a t = false ->
  lex_run MCode acc ((S "// " ++ t) ++ [x0a]) = (flush KCode acc ++ [(KLine, S "// " ++ t)], MCode, [x0a]).
Proof.
  intros H. rewrite lex_run_app, run_line_comment by exact H. rewrite run_nl_line.
  rewrite rev_app_distr, rev_involutive. reflexivity.
Qed.

Lemma line_comment_lex t acc rest : contains_byte x0a t = false ->
  lex MCode acc (S "// " ++ t ++ x0a :: rest)
  = flush KCode acc ++ (KLine, S "// " ++ t) :: lex MCode [] (x0a :: rest).
Proof.
  intros H.
  replace (S "// " ++ t ++ x0a :: rest) with (((S "// " ++ t) ++ [x0a]) ++ rest)
    by (rewrite <- !app_assoc; reflexivity).
  rewrite (lex_of_run _ _ _ _ _ _ _ (run_line_comment_nl t acc H)).
  rewrite <- app_assoc. reflexivity.
Qed.

(* the domain of the property: the text does not itself start with a comment marker *)
Definition no_marker (t : str) : Prop :=
  has_prefix (S "//") t = false /\ has_prefix (S "/*") t = false.

Lemma comment_text_line t : no_marker t -> contains_byte x0a t = false ->
  comment_text t = S "// " ++ t.
Proof. intros [H1 H2] H. unfold comment_text. rewrite H1, H2, H. reflexivity. Qed.

Definition block_text (t : str) : str :=
  S "/*" ++ [x0a] ++ t ++ (if has_suffix [x0a] t then [] else [x0a]) ++ S "*/".

Lemma comment_text_block t : no_marker t -> contains_byte x0a t = true ->
  comment_text t = block_text t.
Proof. intros [H1 H2] H. unfold comment_text, block_text. rewrite H1, H2, H. reflexivity. Qed.

Theorem line_comment_contained t rest acc :
  no_marker t -> contains_byte x0a t = false ->
  lex MCode acc (comment_text t ++ [x0a] ++ rest)
  = flush KCode acc ++ (KLine, S "// " ++ t) :: lex MCode [] ([x0a] ++ rest).
Proof.
  intros Hm H. rewrite comment_text_line by assumption. rewrite app_assoc.
  rewrite (lex_of_run _ _ _ _ _ _ _ (run_line_comment_nl t acc H)).
  rewrite <- app_assoc. reflexivity.
Qed.

Theorem line_comment_contained_eof t acc :
  no_marker t -> contains_byte x0a t = false ->
  lex MCode acc (comment_text t) = flush KCode acc ++ [(KLine, S "// " ++ t)].
Proof.
  intros Hm H. rewrite comment_text_line by assumption.
  rewrite lex_run_end, run_line_comment by exact H. cbn [lex_end].
  rewrite rev_app_distr, rev_involutive. reflexivity.
Qed.

(* ---- block comments ---- *)
Definition block_ok (m : mode) (b : str) : Prop :=
  m = MBlock \/ (m = MBlockStar /\ has_prefix [x2f] b = false).

Lemma block_scan b : contains s_close b = false ->
  forall m acc, block_ok m b ->
    lex_run m acc (b ++ [x0a; x2a; x2f])
    = ([(KBlock, rev acc ++ b ++ [x0a; x2a; x2f])], MCode, []).
Proof.
  induction b as [|c b IH]; intros H m acc Hok.
  - destruct Hok as [-> | [-> _]]; cbn; rewrite <- !app_assoc; reflexivity.
  - rewrite contains_cons in H. apply orb_false_iff in H. destruct H as [Hp Hc].
    unfold s_close in Hp. cbn [has_prefix] in Hp.
    cbn [app lex_run].
    destruct (beq_spec c x2a) as [-> | Hs].
    + (* a star: the next byte is not a slash *)
      rewrite beq_refl in Hp. cbn [andb] in Hp.
      assert (Hnext : has_prefix [x2f] b = false).
      { destruct b as [|d b']; [reflexivity|]. cbn [has_prefix] in Hp |- *. exact Hp. }
      assert (Hstep : lex_step m acc x2a = ([], MBlockStar, x2a :: acc)).
      { destruct Hok as [-> | [-> _]]; reflexivity. }
      rewrite Hstep. rewrite IH; [|exact Hc | right; split; [reflexivity | exact Hnext]].
      cbn [app]. rewrite rev_cons_app, <- app_assoc. reflexivity.
    + assert (Hstep : lex_step m acc c = ([], MBlock, c :: acc)).
      { apply beq_neq in Hs. destruct Hok as [-> | [-> Hn]]; cbn [lex_step]; unfold c_star, c_slash.
        - rewrite Hs. reflexivity.
        - cbn [has_prefix] in Hn. rewrite andb_true_r in Hn. rewrite (beq_sym c x2f), Hn, Hs. reflexivity. }
      rewrite Hstep. rewrite IH; [|exact Hc | left; reflexivity].
      cbn [app]. rewrite rev_cons_app, <- app_assoc. reflexivity.
Qed.

Lemma run_block_comment t acc : contains s_close t = false ->
  lex_run MCode acc (block_text t) = (flush KCode acc ++ [(KBlock, block_text t)], MCode, []).
Proof.
  intros H. unfold block_text. change (S "/*") with [x2f; x2a]. change (S "*/") with [x2a; x2f].
  rewrite lex_run_app, run_open_block.
  destruct (has_suffix [x0a] t) eqn:Es.
  - destruct (has_suffix_nl t Es) as [t' ->].
    replace ([x0a] ++ (t' ++ [x0a]) ++ [] ++ [x2a; x2f]) with ((x0a :: t') ++ [x0a; x2a; x2f])
      by (cbn [app]; rewrite <- !app_assoc; reflexivity).
    rewrite block_scan; [| |left; reflexivity].
    + cbn [rev app]. reflexivity.
    + rewrite contains_cons. apply orb_false_iff. split; [reflexivity|].
      apply no_close_app_l in H. exact H.
  - replace ([x0a] ++ t ++ [x0a] ++ [x2a; x2f]) with ((x0a :: t) ++ [x0a; x2a; x2f]) by reflexivity.
    rewrite block_scan; [| |left; reflexivity].
    + cbn [rev app]. reflexivity.
    + rewrite contains_cons. apply orb_false_iff. split; [reflexivity | exact H].
Qed.

Theorem block_comment_contained t rest acc :
  no_marker t -> contains_byte x0a t = true -> contains (S "*/") t = false ->
  lex MCode acc (comment_text t ++ rest)
  = flush KCode acc ++ (KBlock, block_text t) :: lex MCode [] rest.
Proof.
  intros Hm Hn Hc. rewrite comment_text_block by assumption.
  rewrite (lex_of_run _ _ _ _ _ _ _ (run_block_comment t acc Hc)).
  rewrite <- app_assoc. reflexivity.
Qed.

(* Both styles at once: the text of a comment in the domain, wherever it stands in code,
   is one comment region; a line comment needs the newline (or the end of the text) that
   every multi-line group supplies. *)
Definition in_domain (t : str) : Prop := no_marker t /\ contains (S "*/") t = false.
Definition comment_kind (t : str) : kind := if contains_byte x0a t then KBlock else KLine.

Lemma run_comment_then_newline t acc : in_domain t ->
  lex_run MCode acc (comment_text t ++ [x0a])
  = (flush KCode acc ++ [(comment_kind t, comment_text t)], MCode, [x0a]).
Proof.
  intros [Hm Hc]. unfold comment_kind. destruct (contains_byte x0a t) eqn:E.
  - rewrite comment_text_block by assumption.
    rewrite lex_run_app, run_block_comment by exact Hc. rewrite run_nl_code, app_nil_r. reflexivity.
  - rewrite comment_text_line by assumption. apply run_line_comment_nl. exact E.
Qed.

Lemma comment_then_newline t acc rest : in_domain t ->
  lex MCode acc (comment_text t ++ [x0a] ++ rest)
  = flush KCode acc ++ (comment_kind t, comment_text t) :: lex MCode [] ([x0a] ++ rest).
Proof.
  intros Hd. rewrite app_assoc.
  rewrite (lex_of_run _ _ _ _ _ _ _ (run_comment_then_newline t acc Hd)).
  rewrite <- app_assoc. reflexivity.
Qed.

Lemma comment_at_eof t acc : in_domain t ->
  lex MCode acc (comment_text t) = flush KCode acc ++ [(comment_kind t, comment_text t)].
Proof.
  intros [Hm Hc]. unfold comment_kind. destruct (contains_byte x0a t) eqn:E.
  - rewrite <- (app_nil_r (comment_text t)) at 1.
    rewrite block_comment_contained by assumption. rewrite comment_text_block by assumption. reflexivity.
  - rewrite line_comment_contained_eof by assumption. rewrite comment_text_line by assumption. reflexivity.
Qed.

(* ---- the text outside comments ---- *)
Lemma code_of_app a b : code_of (a ++ b) = code_of a ++ code_of b.
Proof.
  unfold code_of. induction a as [|x a IH]; cbn [app filter]; [reflexivity|].
  destruct (negb (is_comment (fst x))); cbn [map concat_str]; rewrite IH; [apply app_assoc | reflexivity].
Qed.

Lemma code_of_flush acc : code_of (flush KCode acc) = rev acc.
Proof. destruct acc; [reflexivity|]. unfold flush, code_of. cbn. apply app_nil_r. Qed.

Lemma code_of_code x rs : code_of ((KCode, x) :: rs) = x ++ code_of rs.
Proof. reflexivity. Qed.

Lemma code_of_lex_acc s : forall acc,
  code_of (lex MCode acc s) = rev acc ++ code_of (lex MCode [] s) /\
  code_of (lex MSlash acc s) = rev acc ++ code_of (lex MSlash [] s).
Proof.
  induction s as [|c s IH]; intros acc.
  - cbn [lex lex_end]. rewrite !code_of_flush. cbn [rev app]. rewrite app_nil_r. split; reflexivity.
  - assert (Hcode : forall a, code_of (lex MCode a (c :: s)) = rev a ++ code_of (lex MCode [] (c :: s))).
    { intros a. cbn [lex]. unfold lex_step, code_step. step_cases c; cbn [app flush];
        rewrite ?code_of_app, ?code_of_flush; try reflexivity.
      - apply (proj2 (IH a)).
      - rewrite (proj1 (IH (c :: a))), (proj1 (IH [c])). cbn [rev app]. rewrite <- app_assoc. reflexivity. }
    split; [apply Hcode|].
    cbn [lex]. unfold lex_step, code_step. step_cases c; cbn [app flush];
      rewrite ?code_of_app, ?code_of_flush; try reflexivity;
      try (cbn [rev app]; rewrite <- ?app_assoc; reflexivity);
      try (rewrite !code_of_code; cbn [rev app]; rewrite <- ?app_assoc; reflexivity).
    rewrite (proj1 (IH (c :: c_slash :: acc))), (proj1 (IH [c; c_slash])).
    cbn [rev app]. rewrite <- !app_assoc. reflexivity.
Qed.

Lemma code_of_comment k x rs : is_comment k = true -> code_of ((k, x) :: rs) = code_of rs.
Proof. intros H. unfold code_of. cbn [filter fst]. rewrite H. reflexivity. Qed.

Lemma comment_kind_is_comment t : is_comment (comment_kind t) = true.
Proof. unfold comment_kind. destruct (contains_byte x0a t); reflexivity. Qed.

(* deleting the comment (and nothing else) leaves the text outside comments unchanged *)
Theorem code_outside_comment_unchanged t acc rest : in_domain t ->
  code_of (lex MCode acc (comment_text t ++ [x0a] ++ rest)) = code_of (lex MCode acc ([x0a] ++ rest)).
Proof.
  intros Hd. rewrite comment_then_newline by exact Hd.
  rewrite code_of_app, code_of_flush, code_of_comment by apply comment_kind_is_comment.
  symmetry. apply (proj1 (code_of_lex_acc _ acc)).
Qed.

Theorem code_outside_comment_unchanged_eof t acc : in_domain t ->
  code_of (lex MCode acc (comment_text t)) = code_of (lex MCode acc []).
Proof.
  intros Hd. rewrite comment_at_eof by exact Hd.
  rewrite code_of_app, code_of_flush, code_of_comment by apply comment_kind_is_comment.
  cbn [lex lex_end]. rewrite code_of_flush. apply app_nil_r.
Qed.

(* ---- whole texts: any prefix after which the lexer is in code ---- *)
Definition ends_in_code (pre : str) : Prop := exists o acc, lex_run MCode [] pre = (o, MCode, acc).

Theorem comment_in_context pre t rest : ends_in_code pre -> in_domain t ->
  exists o acc, lex_run MCode [] pre = (o, MCode, acc) /\
    skel (pre ++ comment_text t ++ [x0a] ++ rest)
    = o ++ flush KCode acc ++ (comment_kind t, comment_text t) :: skel ([x0a] ++ rest) /\
    code_of (skel (pre ++ comment_text t ++ [x0a] ++ rest)) = code_of (skel (pre ++ [x0a] ++ rest)).
Proof.
  intros (o & acc & Hr) Hd. exists o, acc. split; [exact Hr|]. unfold skel.
  rewrite !lex_app, Hr. split.
  - rewrite comment_then_newline by exact Hd. reflexivity.
  - rewrite !code_of_app. f_equal. apply code_outside_comment_unchanged. exact Hd.
Qed.

(* ---- multi-line groups ---- *)
Fixpoint group_text (sep : str) (multi first : bool) (xs : list str) : str :=
  match xs with
  | [] => []
  | x :: xs' => (if first then [] else sep) ++ (if multi then s_nl else []) ++ x ++ group_text sep multi false xs'
  end.

Definition is_nil {A} (l : list A) : bool := match l with [] => true | _ => false end.

Section Groups.
  Variable cfg : config.
  Variable rec : renderer.

  (* the texts [rec] produced for the items that are not null, in order *)
  Inductive item_texts : table -> list code -> table -> list str -> Prop :=
  | it_nil t : item_texts t [] t []
  | it_null t t0 c l t' xs :
      (match c with
       | CTok (TkPkg p) => bind (register cfg t p) (fun r => Ok (fst r))
       | _ => Ok t
       end) = Ok t0 ->
      is_null cfg t0 c = true -> item_texts t0 l t' xs -> item_texts t (c :: l) t' xs
  | it_item t t0 c l r1 t' xs :
      (match c with
       | CTok (TkPkg p) => bind (register cfg t p) (fun r => Ok (fst r))
       | _ => Ok t
       end) = Ok t0 ->
      is_null cfg t0 c = false -> rec false t0 c = Ok r1 ->
      item_texts (fst r1) l t' xs -> item_texts t (c :: l) t' (snd r1 :: xs).

  Lemma group_loop_text name sep multi n : forall l t first t' isnull text,
    group_loop cfg rec name sep multi n t first l = Ok (t', isnull, text) ->
    exists xs, item_texts t l t' xs /\ text = group_text sep multi first xs /\
               isnull = (first && is_nil xs).
  Proof.
    induction l as [|c l IH]; intros t first t' isnull text H.
    - cbn in H. injection H as <- <- <-. exists []. split; [constructor|].
      split; [reflexivity | destruct first; reflexivity].
    - cbn [group_loop] in H.
      destruct (match c with
                | CTok (TkPkg p) => bind (register cfg t p) (fun r => Ok (fst r))
                | _ => Ok t
                end) as [t0|msg] eqn:E0; [|discriminate].
      cbn [bind] in H.
      destruct (is_null cfg t0 c) eqn:En.
      + destruct (IH _ _ _ _ _ H) as (xs & Hi & Ht & Hn).
        exists xs. split; [eapply it_null; eassumption | split; assumption].
      + destruct (str_eqb name s_values && is_dict c && Nat.ltb 1 n); [discriminate|].
        destruct (rec false t0 c) as [r1|m1] eqn:E1; [|discriminate]. cbn [bind] in H.
        destruct (group_loop cfg rec name sep multi n (fst r1) false l) as [r2|m2] eqn:E2; [|discriminate].
        cbn [bind] in H. injection H as <- <- <-.
        destruct r2 as [[t2 n2] x2]. destruct (IH _ _ _ _ _ E2) as (xs & Hi & Ht & Hn).
        exists (snd r1 :: xs). split; [eapply it_item; eassumption|].
        cbn [fst snd group_text is_nil]. split; [rewrite Ht; reflexivity | rewrite andb_false_r; exact Hn].
  Qed.
End Groups.

(* with no separator every item text of a multi-line group stands on lines of its own *)
Lemma group_text_multi_nosep first xs :
  group_text [] true first xs = concat_str (map (fun x => x0a :: x) xs).
Proof.
  revert first. induction xs as [|x xs IH]; intros first; cbn [group_text map concat_str]; [reflexivity|].
  rewrite IH. destruct first; reflexivity.
Qed.

Definition starts_with_nl (s : str) : Prop := exists r, s = x0a :: r.

Lemma lines_split xs1 x xs2 tail :
  concat_str (map (fun x => x0a :: x) (xs1 ++ x :: xs2)) ++ tail
  = (concat_str (map (fun x => x0a :: x) xs1) ++ [x0a]) ++ x ++
    (concat_str (map (fun x => x0a :: x) xs2) ++ tail).
Proof.
  induction xs1 as [|y xs1 IH]; cbn [app map concat_str].
  - rewrite <- app_assoc. reflexivity.
  - rewrite <- !app_assoc. cbn [app]. f_equal. f_equal.
    rewrite <- !app_assoc in IH. exact IH.
Qed.

(* render of a multi-line group without separator: layout, and what follows each item *)
Theorem multi_group_layout cfg ctx t gid name open close items t' out :
  render cfg ctx t (CGroup gid name open close [] true items) = Ok (t', out) ->
  let blank := str_eqb name s_block && ctx in
  let o := if blank then [] else open in
  let cl := if blank then [] else close in
  (str_eqb name s_types && forallb (is_null cfg t) items = true /\ out = []) \/
  exists xs, item_texts cfg (render cfg) t items t' xs /\
    out = o ++ concat_str (map (fun x => x0a :: x) xs) ++
          (if negb (is_nil xs) && nonempty cl then [x0a] else []) ++ cl /\
    forall xs1 x xs2, xs = xs1 ++ x :: xs2 ->
      exists before after, out = before ++ [x0a] ++ x ++ after /\
        (starts_with_nl after \/ (after = [] /\ cl = [])).
Proof.
  intros H blank o cl. cbn [render] in H.
  destruct (str_eqb name s_types && forallb (is_null cfg t) items) eqn:Et.
  { injection H as <- <-. left. split; reflexivity. }
  right.
  destruct (group_loop cfg (render cfg) name [] true (length items) t true items) as [r|m] eqn:E; [|discriminate].
  cbn [bind] in H. injection H as <- <-.
  destruct r as [[t1 isnull] text]. cbn [fst snd].
  destruct (group_loop_text cfg (render cfg) _ _ _ _ _ _ _ _ _ _ E) as (xs & Hi & Ht & Hn).
  exists xs. split; [exact Hi|].
  rewrite group_text_multi_nosep in Ht. subst text isnull. cbn [andb].
  fold blank. fold o. fold cl.
  rewrite andb_true_r. change s_nl with [x0a].
  split; [reflexivity|].
  intros xs1 x xs2 ->.
  exists (o ++ concat_str (map (fun x => x0a :: x) xs1)),
         (concat_str (map (fun x => x0a :: x) xs2) ++
          (if negb (is_nil (xs1 ++ x :: xs2)) && nonempty cl then [x0a] else []) ++ cl).
  split.
  - rewrite lines_split. rewrite <- !app_assoc. reflexivity.
  - destruct xs2 as [|y xs2].
    + cbn [map concat_str app].
      assert (Hnn : is_nil (xs1 ++ [x]) = false) by (destruct xs1; reflexivity).
      rewrite Hnn. cbn [negb andb].
      destruct cl as [|c cl']; [right; split; reflexivity | left; eexists; reflexivity].
    + left. cbn [map concat_str app]. eexists. reflexivity.
Qed.

(* every multi-line construct of the generated table is written without separator *)
Lemma multi_rows_no_separator :
  forallb (fun r => negb (gr_multi r) || is_nil (gr_sep r)) group_table = true.
Proof. vm_compute. reflexivity. Qed.

(* ---- the head of a file ---- *)
Definition comment_lines (cs : list str) : str := concat_str (map (fun c => comment_text c ++ [x0a]) cs).
Definition header_block (hs : list str) : str :=
  match hs with [] => [] | _ => comment_lines hs ++ [x0a] end.
Definition package_clause (f : file) : str :=
  S "package " ++ f_name f ++
  (if nonempty (f_canonical f) then S " // import " ++ GoQuote (f_canonical f) else []) ++ [x0a; x0a].

Lemma file_head_layout f :
  file_head f = header_block (f_headers f) ++ comment_lines (f_comments f) ++ package_clause f.
Proof.
  unfold file_head, header_block, comment_lines, package_clause.
  destruct (f_headers f); rewrite <- ?app_assoc; reflexivity.
Qed.

(* regions of a list of comments, each on lines of its own *)
Fixpoint comment_regions (sepcode : str) (cs : list str) : list region :=
  match cs with
  | [] => []
  | c :: cs' => flush KCode sepcode ++ (comment_kind c, comment_text c) :: comment_regions [x0a] cs'
  end.

Lemma run_comment_lines cs : Forall in_domain cs -> forall acc,
  lex_run MCode acc (comment_lines cs)
  = (comment_regions acc cs, MCode, if is_nil cs then acc else [x0a]).
Proof.
  induction cs as [|c cs IH]; intros Hd acc; [reflexivity|].
  inversion Hd as [|? ? Hc Hcs]; subst.
  unfold comment_lines. cbn [map concat_str]. fold (comment_lines cs).
  rewrite lex_run_app, run_comment_then_newline by exact Hc.
  rewrite (IH Hcs [x0a]). cbn [comment_regions is_nil].
  rewrite <- app_assoc. cbn [app].
  destruct cs; reflexivity.
Qed.

Lemma run_header_block hs : Forall in_domain hs -> forall acc,
  lex_run MCode acc (header_block hs)
  = (comment_regions acc hs, MCode, if is_nil hs then acc else [x0a; x0a]).
Proof.
  intros Hd acc. destruct hs as [|h hs]; [reflexivity|].
  unfold header_block. rewrite lex_run_app, run_comment_lines by exact Hd.
  cbn [is_nil]. rewrite run_nl_code, app_nil_r. reflexivity.
Qed.

(* the lexer on the head of a file: header comments, an empty line, the package comments
   one per line, and `package` right after the newline of the last one *)
Theorem file_head_lex f rest :
  Forall in_domain (f_headers f) -> Forall in_domain (f_comments f) ->
  let a1 := if is_nil (f_headers f) then [] else [x0a; x0a] in
  let a2 := if is_nil (f_comments f) then a1 else [x0a] in
  skel (file_head f ++ rest)
  = comment_regions [] (f_headers f) ++ comment_regions a1 (f_comments f) ++
    lex MCode a2 (package_clause f ++ rest).
Proof.
  intros Hh Hc a1 a2. unfold skel. rewrite file_head_layout, <- !app_assoc.
  rewrite (lex_of_run _ _ _ _ _ _ _ (run_header_block _ Hh [])). fold a1.
  rewrite (lex_of_run _ _ _ _ _ _ _ (run_comment_lines _ Hc a1)). fold a2.
  reflexivity.
Qed.

(* ---- the import comment ---- *)
Lemma first_line_app a r : contains_byte x0a a = false -> first_line (a ++ x0a :: r) = a.
Proof.
  induction a as [|c a IH]; intros H; cbn [app first_line].
  - reflexivity.
  - cbn [contains_byte] in H. apply orb_false_iff in H. destruct H as [H1 H2].
    unfold c_nl. rewrite beq_sym, H1. rewrite IH by exact H2. reflexivity.
Qed.

Lemma trim_left_keep a s : is_space a = false -> trim_left (a :: s) = a :: s.
Proof. intros H. unfold trim_left. rewrite H. reflexivity. Qed.

Lemma trim_space_keep a m b : is_space a = false -> is_space b = false ->
  trim_space (a :: m ++ [b]) = a :: m ++ [b].
Proof.
  intros Ha Hb. unfold trim_space. rewrite trim_left_keep by exact Ha.
  rewrite app_comm_cons, rev_unit. rewrite trim_left_keep by exact Hb.
  change (rev (b :: rev (a :: m))) with (rev (rev (a :: m)) ++ [b]).
  rewrite rev_involutive. reflexivity.
Qed.

Lemma trim_space_blank s : trim_space (x20 :: s) = trim_space s.
Proof. reflexivity. Qed.

Lemma parse_import_generic Q B p rest :
  Q = c_dq :: B ++ [c_dq] -> contains_byte x0a Q = false -> go_string_value Q = Some p ->
  parse_import_comment (S " // import " ++ Q ++ x0a :: rest) = Some p.
Proof.
  intros HQ Hn Hv. unfold parse_import_comment.
  change (S " // import " ++ Q ++ x0a :: rest)
    with (x20 :: x2f :: x2f :: (S " import " ++ Q ++ x0a :: rest)).
  change (skip_blank (x20 :: x2f :: x2f :: (S " import " ++ Q ++ x0a :: rest)))
    with (x2f :: x2f :: (S " import " ++ Q ++ x0a :: rest)).
  change (strip_prefix (S "//") (x2f :: x2f :: (S " import " ++ Q ++ x0a :: rest)))
    with (Some (S " import " ++ Q ++ x0a :: rest)).
  cbv iota beta.
  rewrite app_assoc, first_line_app.
  2:{ change (S " import ") with ([x20] ++ S "import ").
      destruct (contains_byte x0a (([x20] ++ S "import ") ++ Q)) eqn:E; [|reflexivity].
      apply contains_byte_In in E. apply in_app_or in E. destruct E as [E | E].
      - exfalso. cbn in E. repeat (destruct E as [E | E]; [discriminate|]). exact E.
      - apply contains_byte_In in E. congruence. }
  change (S " import " ++ Q) with (x20 :: (S "import " ++ Q)).
  rewrite trim_space_blank.
  assert (Ht : trim_space (S "import " ++ Q) = S "import " ++ Q).
  { rewrite HQ. change (S "import " ++ c_dq :: B ++ [c_dq]) with (x69 :: (S "mport " ++ c_dq :: B) ++ [c_dq]).
    apply trim_space_keep; reflexivity. }
  rewrite Ht.
  change (strip_prefix (S "import") (S "import " ++ Q)) with (Some (x20 :: Q)).
  cbv iota beta. change (is_space x20) with true. cbn [orb].
  rewrite trim_space_blank. rewrite HQ, trim_space_keep by reflexivity. rewrite <- HQ. exact Hv.
Qed.

Lemma go_is_print_newline : go_is_print 10 = false.
Proof. vm_compute. reflexivity. Qed.

Lemma GoQuote_no_nl p : contains_byte x0a (GoQuote p) = false.
Proof.
  apply contains_byte_false. unfold GoQuote, Quote, quote_with. intros [E | Hin]; [discriminate|].
  apply in_app_or in Hin. destruct Hin as [Hin | [E | []]]; [|discriminate].
  exact (quote_body_no_nl go_is_print go_is_print_newline c_dq _ _ (or_introl eq_refl) Hin).
Qed.

Theorem import_comment_parses p rest :
  parse_import_comment (S " // import " ++ GoQuote p ++ x0a :: rest) = Some p.
Proof.
  apply (parse_import_generic _ (quote_body go_is_print (b2n c_dq) (length p) p)).
  - reflexivity.
  - apply GoQuote_no_nl.
  - apply (Quote_roundtrip go_is_print go_is_print_newline).
Qed.

(* the annotation is one line comment that ends at the newline of the package clause *)
Theorem import_comment_contained p acc rest :
  lex MCode acc (S "// import " ++ GoQuote p ++ x0a :: rest)
  = flush KCode acc ++ (KLine, S "// import " ++ GoQuote p) :: lex MCode [] (x0a :: rest).
Proof.
  change (S "// import ") with (S "// " ++ S "import "). rewrite <- app_assoc.
  rewrite (app_assoc (S "import ")).
  rewrite line_comment_lex.
  - rewrite <- app_assoc. reflexivity.
  - destruct (contains_byte x0a (S "import " ++ GoQuote p)) eqn:E; [|reflexivity].
    apply contains_byte_In in E. apply in_app_or in E. destruct E as [E | E].
    + exfalso. cbn in E. repeat (destruct E as [E | E]; [discriminate|]). exact E.
    + apply contains_byte_In in E. rewrite GoQuote_no_nl in E. discriminate.
Qed.

(* ---- a comment item changes nothing else ---- *)
Section Inert.
  Variable cfg : config.

  Lemma item_texts_app rec t l1 tm xs1 l2 t' xs2 :
    item_texts cfg rec t l1 tm xs1 -> item_texts cfg rec tm l2 t' xs2 ->
    item_texts cfg rec t (l1 ++ l2) t' (xs1 ++ xs2).
  Proof.
    intros Ha. induction Ha as [t | t t0 c l tm xs E0 En Hi IH | t t0 c l r1 tm xs E0 En Er Hi IH];
      intros Hb; cbn [app].
    - exact Hb.
    - eapply it_null; eauto.
    - eapply it_item; eauto.
  Qed.

  Lemma item_texts_fun rec t l t1 xs : item_texts cfg rec t l t1 xs ->
    forall t2 ys, item_texts cfg rec t l t2 ys -> t1 = t2 /\ xs = ys.
  Proof.
    induction 1 as [t | t t0 c l t' xs E0 En Hi IH | t t0 c l r1 t' xs E0 En Er Hi IH]; intros t2 ys H2.
    - inversion H2; subst. split; reflexivity.
    - inversion H2 as [| ? t0' ? ? ? ? E0' En' Hi' | ? t0' ? ? r1' ? ? E0' En' Er' Hi']; subst;
        rewrite E0 in E0'; injection E0' as <-.
      + apply IH. exact Hi'.
      + congruence.
    - inversion H2 as [| ? t0' ? ? ? ? E0' En' Hi' | ? t0' ? ? r1' ? ? E0' En' Er' Hi']; subst;
        rewrite E0 in E0'; injection E0' as <-.
      + congruence.
      + rewrite Er in Er'. injection Er' as <-.
        destruct (IH _ _ Hi') as [-> ->]. split; reflexivity.
  Qed.

  Lemma render_comment_stmt ctx t s : render cfg ctx t (CStmt [CComment s]) = Ok (t, comment_text s).
  Proof. cbn. rewrite app_nil_r. reflexivity. Qed.

  (* a comment added as an item of its own: same import table, same texts of the other
     items, its own text at its place *)
  Theorem comment_item_inert t l1 tm xs1 l2 t' xs2 s :
    item_texts cfg (render cfg) t l1 tm xs1 -> item_texts cfg (render cfg) tm l2 t' xs2 ->
    item_texts cfg (render cfg) t (l1 ++ l2) t' (xs1 ++ xs2) /\
    item_texts cfg (render cfg) t (l1 ++ CStmt [CComment s] :: l2) t' (xs1 ++ comment_text s :: xs2).
  Proof.
    intros H1 H2. split; [exact (item_texts_app _ _ _ _ _ _ _ _ H1 H2)|].
    apply (item_texts_app _ _ _ _ _ _ _ _ H1).
    apply (it_item cfg (render cfg) tm tm (CStmt [CComment s]) l2 (tm, comment_text s) t' xs2).
    - reflexivity.
    - reflexivity.
    - apply render_comment_stmt.
    - exact H2.
  Qed.

  Lemma prev_of_app_comment gid s : forall l p, prev_of gid p (l ++ [CComment s]) = prev_of gid p l.
  Proof.
    induction l as [|x l IH]; intros p; cbn [app prev_of]; [reflexivity|].
    destruct x; rewrite ?IH; reflexivity.
  Qed.

  Lemma case_ctx_app_comment all s c : case_ctx (all ++ [CComment s]) c = case_ctx all c.
  Proof. destruct c; cbn [case_ctx]; rewrite ?prev_of_app_comment; reflexivity. Qed.

  Lemma stmt_loop_app_comment all s : forall l t first t1 x,
    stmt_loop cfg (render cfg) all t first l = Ok (t1, x) ->
    exists sp, (sp = [] \/ sp = S " ") /\
      stmt_loop cfg (render cfg) (all ++ [CComment s]) t first (l ++ [CComment s])
      = Ok (t1, x ++ sp ++ comment_text s).
  Proof.
    induction l as [|c l IH]; intros t first t1 x H.
    - cbn in H. injection H as <- <-. exists (if first then [] else S " ").
      split; [destruct first; [left | right]; reflexivity|].
      cbn. rewrite app_nil_r. reflexivity.
    - cbn [app stmt_loop] in H |- *.
      destruct (is_null cfg t c) eqn:En; [apply IH; exact H|].
      rewrite case_ctx_app_comment.
      destruct (render cfg (case_ctx all c) t c) as [r1|m1]; [|discriminate]. cbn [bind] in H |- *.
      destruct (stmt_loop cfg (render cfg) all (fst r1) false l) as [r2|m2] eqn:E2; [|discriminate].
      cbn [bind] in H. injection H as <- <-.
      destruct r2 as [t2 x2]. destruct (IH _ _ _ _ E2) as (sp & Hsp & Hl).
      exists sp. split; [exact Hsp|]. rewrite Hl. cbn [bind fst snd].
      rewrite <- !app_assoc. reflexivity.
  Qed.

  (* a comment appended to the end of an item: the item's text, at most one space, the comment *)
  Theorem comment_at_item_end ctx t items t1 x s :
    render cfg ctx t (CStmt items) = Ok (t1, x) ->
    exists sp, (sp = [] \/ sp = S " ") /\
      render cfg ctx t (CStmt (items ++ [CComment s])) = Ok (t1, x ++ sp ++ comment_text s).
  Proof. cbn [render]. apply stmt_loop_app_comment. Qed.
End Inert.

(* ---- the statements of Props/C15.v about the head of a file ---- *)
Lemma header_block_lex hs acc :
  Forall in_domain hs -> hs <> [] ->
  lex_run MCode acc (header_block hs) = (comment_regions acc hs, MCode, [x0a; x0a]).
Proof.
  intros Hd Hne. rewrite (run_header_block hs Hd acc). destruct hs; [contradiction | reflexivity].
Qed.

Lemma package_comments_lex cs acc :
  Forall in_domain cs -> cs <> [] ->
  lex_run MCode acc (comment_lines cs) = (comment_regions acc cs, MCode, [x0a]) /\
  forall f, has_prefix (S "package ") (package_clause f) = true.
Proof.
  intros Hd Hne. split; [|reflexivity].
  rewrite (run_comment_lines cs Hd acc). destruct cs; [contradiction | reflexivity].
Qed.

Lemma canonical_wellformed f rest :
  nonempty (f_canonical f) = true ->
  package_clause f = S "package " ++ f_name f ++ S " // import " ++ GoQuote (f_canonical f) ++ [x0a; x0a] /\
  parse_import_comment (S " // import " ++ GoQuote (f_canonical f) ++ x0a :: rest) = Some (f_canonical f).
Proof.
  intros H. split; [unfold package_clause; rewrite H; rewrite <- app_assoc; reflexivity|].
  exact (import_comment_parses _ _).
Qed.
