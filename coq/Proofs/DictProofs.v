(* C16 / C07: what a Dict renders to, and its independence of the map iteration order. *)
From Jen Require Import Base.Bytes Base.Sort Model.Code Model.Naming Model.Render Gen.Tables.
From Coq Require Import Lia Permutation Sorted.

Section SortMap.
  Context {A B : Type} (ka : A -> str) (kb : B -> str) (f : A -> B).
  Hypothesis Hk : forall x, kb (f x) = ka x.
  Lemma insert_by_map x l : map f (insert_by ka x l) = insert_by kb (f x) (map f l).
  Proof.
    induction l as [|y l IH]; [reflexivity|]. cbn [insert_by map]. rewrite !Hk.
    destruct (str_leb (ka x) (ka y)); [reflexivity|]. cbn [map]. rewrite IH. reflexivity.
  Qed.
  Lemma isort_by_map l : map f (isort_by ka l) = isort_by kb (map f l).
  Proof. induction l as [|x l IH]; [reflexivity|]. cbn [isort_by map]. rewrite insert_by_map, IH. reflexivity. Qed.
End SortMap.

(* the body between the braces, for the surviving pairs (key text, value text) in order *)
Definition dict_body (kvs : list (str * str)) : str :=
  match kvs with
  | [] => []
  | [kv] => fst kv ++ S ":" ++ snd kv
  | _ => s_nl ++ concat_str (map (fun kv => fst kv ++ S ":" ++ snd kv ++ S "," ++ s_nl) kvs)
  end.

Section Dict.
  Variable cfg : config.
  Variable t : table.
  (* the text a key or value renders to at this table *)
  Variable txt : code -> str.

  Definition live (kv : code * code) : bool := negb (is_null cfg t (fst kv) || is_null cfg t (snd kv)).

  (* every surviving key and value renders at [t] without registering anything new (literals,
     identifiers, calls, qualified identifiers of already imported packages ...) *)
  Definition settled (pairs : list (code * code)) : Prop :=
    forall kv, In kv pairs -> live kv = true ->
      render cfg false t (fst kv) = Ok (t, txt (fst kv)) /\ render cfg false t (snd kv) = Ok (t, txt (snd kv)).

  Definition entry_of (kv : code * code) : dict_entry :=
    (txt (fst kv), (fun t' => render cfg false t' (fst kv)), (fun t' => render cfg false t' (snd kv))).

  Lemma dict_pass1_settled pairs :
    settled pairs ->
    dict_pass1 cfg (render cfg) t pairs = Ok (t, map entry_of (filter live pairs)).
  Proof.
    induction pairs as [|kv l IH]; intros Hs; [reflexivity|]. cbn [dict_pass1 filter].
    assert (Hl : settled l) by (intros x Hx; apply Hs; right; exact Hx).
    unfold live at 1. destruct (is_null cfg t (fst kv) || is_null cfg t (snd kv)) eqn:E; cbn [negb].
    - apply IH. exact Hl.
    - destruct (Hs kv (or_introl eq_refl)) as [Hk _]; [unfold live; rewrite E; reflexivity|].
      rewrite Hk. cbn [bind fst snd]. rewrite (IH Hl). reflexivity.
  Qed.

  Definition pair_txt (kv : code * code) : str * str := (txt (fst kv), txt (snd kv)).

  Definition item_txt (several : bool) (kv : code * code) : str :=
    txt (fst kv) ++ S ":" ++ txt (snd kv) ++ (if several then S "," ++ s_nl else []).

  Lemma dict_pass2_settled several l :
    (forall kv, In kv l -> render cfg false t (fst kv) = Ok (t, txt (fst kv)) /\
                           render cfg false t (snd kv) = Ok (t, txt (snd kv))) ->
    forall first,
    dict_pass2 several t first (map entry_of l) =
    Ok (t, (match l with [] => [] | _ => if first && several then s_nl else [] end) ++
           concat_str (map (item_txt several) l)).
  Proof.
    induction l as [|kv l IH]; intros Hs first; [reflexivity|]. cbn [map dict_pass2 entry_of fst snd].
    destruct (Hs kv (or_introl eq_refl)) as [Hk Hv]. rewrite Hk. cbn [bind fst snd]. rewrite Hv. cbn [bind fst snd].
    rewrite (IH (fun x Hx => Hs x (or_intror Hx)) false). cbn [bind fst snd andb concat_str map].
    unfold item_txt. f_equal. f_equal.
    destruct l; cbn [app]; rewrite <- !app_assoc; reflexivity.
  Qed.

  Lemma dict_key_entry kv : dict_key (entry_of kv) = txt (fst kv).
  Proof. reflexivity. Qed.

  (* DICT SPEC: the surviving pairs, each exactly once, sorted by key text; nothing for no
     pair, `k:v` for one, one `k:v,` per line for several; the table is untouched *)
  Theorem dict_spec ctx pairs :
    settled pairs ->
    render cfg ctx t (CDict pairs) =
    Ok (t, dict_body (isort_by fst (map pair_txt (filter live pairs)))).
  Proof.
    intros Hs. cbn [render]. rewrite (dict_pass1_settled pairs Hs). cbn [bind fst snd].
    rewrite <- (isort_by_map (fun kv => txt (fst kv)) dict_key entry_of dict_key_entry).
    rewrite map_length, isort_by_length.
    assert (Hin : forall kv, In kv (isort_by (fun kv => txt (fst kv)) (filter live pairs)) ->
                  render cfg false t (fst kv) = Ok (t, txt (fst kv)) /\ render cfg false t (snd kv) = Ok (t, txt (snd kv))).
    { intros kv H. apply isort_by_In in H. apply filter_In in H. destruct H as [H1 H2]. apply Hs; assumption. }
    rewrite (dict_pass2_settled _ _ Hin true).
    rewrite <- (isort_by_map (fun kv => txt (fst kv)) fst pair_txt (fun kv => eq_refl)).
    rewrite <- (isort_by_length (fun kv => txt (fst kv)) (filter live pairs)).
    set (l := isort_by (fun kv => txt (fst kv)) (filter live pairs)).
    f_equal. f_equal. destruct l as [|a [|b l']].
    - reflexivity.
    - cbn. unfold item_txt, pair_txt. cbn. rewrite !app_nil_r. reflexivity.
    - cbn [length Nat.ltb Nat.leb andb map dict_body]. unfold item_txt, pair_txt. cbn [fst snd].
      rewrite map_map. reflexivity.
  Qed.

  (* a Dict is null exactly when no pair survives *)
  Lemma dict_null_iff pairs : is_null cfg t (CDict pairs) = true <-> filter live pairs = [].
  Proof.
    cbn [is_null]. induction pairs as [|kv l IH]; [split; reflexivity|]. cbn [forallb filter].
    unfold live at 1. destruct (is_null cfg t (fst kv) || is_null cfg t (snd kv)); cbn [negb andb].
    - exact IH.
    - split; discriminate.
  Qed.

  (* ORDER INDEPENDENCE: any two iteration orders of the same map give the same text, when
     the surviving keys render to pairwise distinct texts *)
  Theorem dict_perm ctx pairs pairs' :
    settled pairs -> Permutation pairs pairs' ->
    NoDup (map (fun kv => txt (fst kv)) (filter live pairs)) ->
    render cfg ctx t (CDict pairs) = render cfg ctx t (CDict pairs').
  Proof.
    intros Hs Hp Hnd.
    assert (Hs' : settled pairs').
    { intros kv Hin Hl. apply Hs; [|exact Hl]. eapply Permutation_in; [apply Permutation_sym; exact Hp | exact Hin]. }
    rewrite (dict_spec ctx pairs Hs), (dict_spec ctx pairs' Hs').
    f_equal. f_equal. f_equal. apply isort_by_perm_invariant.
    - rewrite map_map. exact Hnd.
    - apply Permutation_map. clear -Hp. induction Hp; cbn [filter].
      + constructor.
      + destruct (live x); [constructor|]; assumption.
      + destruct (live x), (live y); first [apply perm_swap | apply Permutation_refl | constructor; apply Permutation_refl].
      + eapply perm_trans; eassumption.
  Qed.

  (* Values(Dict{...}): the composite-literal body between braces *)
  Theorem values_dict_spec ctx gid pairs :
    settled pairs ->
    render cfg ctx t (CGroup gid s_values (S "{") (S "}") (S ",") false [CDict pairs]) =
    Ok (t, S "{" ++ dict_body (isort_by fst (map pair_txt (filter live pairs))) ++ S "}").
  Proof.
    intros Hs. cbn [render]. change (str_eqb s_values s_types) with false. change (str_eqb s_values s_block) with false.
    cbn [andb group_loop length bind]. destruct (is_null cfg t (CDict pairs)) eqn:En.
    - apply dict_null_iff in En. rewrite En. reflexivity.
    - change (Nat.ltb 1 1) with false. rewrite andb_false_r.
      rewrite (dict_spec false pairs Hs). cbn [bind fst snd negb andb nonempty app]. rewrite !app_nil_r. reflexivity.
  Qed.
End Dict.

(* ---- order independence of everything that is looked up in a Go map ---- *)
Section Perm.
  Context {V : Type}.
  Lemma alookup_perm (m m' : list (str * V)) k :
    NoDup (akeys m) -> Permutation m m' -> alookup k m = alookup k m'.
  Proof.
    intros Hnd Hp.
    assert (Hnd' : NoDup (akeys m')) by (eapply Permutation_NoDup; [apply Permutation_map; exact Hp | exact Hnd]).
    destruct (alookup k m) as [v|] eqn:E.
    - symmetry. apply In_alookup_NoDup; [exact Hnd'|]. eapply Permutation_in; [exact Hp|]. apply alookup_In. exact E.
    - symmetry. apply alookup_None. apply alookup_None in E. intros Hin. apply E.
      eapply Permutation_in; [apply Permutation_sym, Permutation_map; exact Hp | exact Hin].
  Qed.
End Perm.

Lemma existsb_perm {A} (f : A -> bool) l l' : Permutation l l' -> existsb f l = existsb f l'.
Proof.
  induction 1; cbn [existsb]; try reflexivity; try congruence.
  destruct (f x), (f y); reflexivity.
Qed.

Lemma is_valid_alias_perm t t' a : Permutation t t' -> is_valid_alias t a = is_valid_alias t' a.
Proof. intros H. unfold is_valid_alias. rewrite (existsb_perm _ _ _ H). reflexivity. Qed.

Lemma filter_perm {A} (f : A -> bool) l l' : Permutation l l' -> Permutation (filter f l) (filter f l').
Proof.
  induction 1; cbn [filter].
  - constructor.
  - destruct (f x); [constructor|]; assumption.
  - destruct (f x), (f y); first [apply perm_swap | apply Permutation_refl | constructor; apply Permutation_refl].
  - eapply perm_trans; eassumption.
Qed.
