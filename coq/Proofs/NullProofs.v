(* C13: null items vanish from lists.  [nullish] is the table-independent class of items the
   property names: nil, typed nil pointers, Null(), statements and delimiter-less groups
   made only of such items, empty tags, Dicts without a surviving pair. *)
From Jen Require Import Base.Bytes Base.Sort Model.Code Model.Naming Model.Render Gen.Tables.
From Coq Require Import Lia.

Fixpoint nullish (c : code) : bool :=
  match c with
  | CNil | CNilStmt | CNilGroup => true
  | CTok TkNull => true
  | CTok _ => false
  | CGroup _ _ open close _ _ items => negb (nonempty open || nonempty close) && forallb nullish items
  | CStmt items => forallb nullish items
  | CDict pairs => forallb (fun kv => nullish (fst kv) || nullish (snd kv)) pairs
  | CTag kvs => match kvs with [] => true | _ => false end
  | CComment _ => false
  end.

Section Null.
  Variable cfg : config.

  Lemma nullish_is_null c : nullish c = true -> forall t, is_null cfg t c = true.
  Proof.
    induction c as [| | |tk|gid name o cl sep multi items IH|items IH|pairs IH|kvs|s] using code_ind';
      cbn [nullish is_null]; intros H t; try reflexivity; try discriminate.
    - destruct tk; try discriminate; reflexivity.
    - apply andb_true_iff in H. destruct H as [H1 H2]. apply negb_true_iff in H1. rewrite H1.
      induction IH as [|x l Hx _ IHl]; [reflexivity|]. cbn [forallb] in *.
      apply andb_true_iff in H2. destruct H2 as [Ha Hb]. rewrite (Hx Ha t), (IHl Hb). reflexivity.
    - induction IH as [|x l Hx _ IHl]; [reflexivity|]. cbn [forallb] in *.
      apply andb_true_iff in H. destruct H as [Ha Hb]. rewrite (Hx Ha t), (IHl Hb). reflexivity.
    - induction IH as [|[k v] l [Hk Hv] _ IHl]; [reflexivity|]. cbn [forallb fst snd] in *.
      apply andb_true_iff in H. destruct H as [Ha Hb]. rewrite (IHl Hb), andb_true_r.
      apply orb_true_iff in Ha. destruct Ha as [Ha|Ha]; [rewrite (Hk Ha t) | rewrite (Hv Ha t), orb_true_r]; reflexivity.
    - exact H.
  Qed.

  Lemma nullish_not_pkg c : nullish c = true -> forall p, c <> CTok (TkPkg p).
  Proof. intros H p ->. discriminate. Qed.

  Lemma nullish_not_dict_live c t : nullish c = true -> is_null cfg t c = true.
  Proof. intros H. apply nullish_is_null. exact H. Qed.

  (* ---- Group.renderItems ---- *)
  Section Loop.
    Variable rec : renderer.
    Variables (name sep : str) (multi : bool).

    (* the Values/Dict panic is the only use of the item count *)
    Definition dict_free (l : list code) : Prop :=
      str_eqb name s_values = false \/ forallb (fun c => negb (is_dict c)) l = true.

    Lemma group_loop_skip n ns l t first :
      forallb nullish ns = true ->
      group_loop cfg rec name sep multi n t first (ns ++ l) = group_loop cfg rec name sep multi n t first l.
    Proof.
      induction ns as [|c ns IH]; intros H; [reflexivity|]. cbn [forallb] in H.
      apply andb_true_iff in H. destruct H as [Hc Hns]. cbn [app group_loop].
      assert (Hp : match c with CTok (TkPkg p) => bind (register cfg t p) (fun r => Ok (fst r)) | _ => Ok t end = Ok t).
      { destruct c as [| | |tk| | | | |]; try reflexivity. destruct tk; try reflexivity. discriminate. }
      rewrite Hp. cbn [bind]. rewrite (nullish_is_null c Hc t). apply IH. exact Hns.
    Qed.

    Lemma dict_free_app_l a b : dict_free (a ++ b) -> dict_free a.
    Proof. intros [H|H]; [left; exact H | right]. rewrite forallb_app in H. apply andb_true_iff in H. tauto. Qed.
    Lemma dict_free_app_r a b : dict_free (a ++ b) -> dict_free b.
    Proof. intros [H|H]; [left; exact H | right]. rewrite forallb_app in H. apply andb_true_iff in H. tauto. Qed.
    Lemma dict_free_cons c l : dict_free (c :: l) -> dict_free l.
    Proof. intros [H|H]; [left; exact H | right]. cbn [forallb] in H. apply andb_true_iff in H. tauto. Qed.

    (* the item count does not matter when no live Dict can meet the Values test *)
    Lemma group_loop_count n n' l t first :
      dict_free l ->
      group_loop cfg rec name sep multi n t first l = group_loop cfg rec name sep multi n' t first l.
    Proof.
      revert t first. induction l as [|c l IH]; intros t first Hd; [reflexivity|]. cbn [group_loop].
      destruct (match c with CTok (TkPkg p) => bind (register cfg t p) (fun r => Ok (fst r)) | _ => Ok t end) as [t0|m];
        cbn [bind]; [|reflexivity].
      destruct (is_null cfg t0 c); [apply IH; eapply dict_free_cons; exact Hd|].
      assert (Hv : forall k, str_eqb name s_values && is_dict c && Nat.ltb 1 k = false).
      { intros k. destruct Hd as [Hd|Hd]; [rewrite Hd; reflexivity|].
        cbn [forallb] in Hd. apply andb_true_iff in Hd. destruct Hd as [Hd _]. apply negb_true_iff in Hd.
        rewrite Hd, andb_false_r. reflexivity. }
      rewrite !Hv. destruct (rec false t0 c) as [r1|m]; cbn [bind]; [|reflexivity].
      rewrite (IH (fst r1) false (dict_free_cons _ _ Hd)). reflexivity.
    Qed.

    Lemma group_loop_insert n xs ns ys t first :
      forallb nullish ns = true ->
      group_loop cfg rec name sep multi n t first (xs ++ ns ++ ys) =
      group_loop cfg rec name sep multi n t first (xs ++ ys).
    Proof.
      intros Hns. revert t first. induction xs as [|c xs IH]; intros t first; cbn [app].
      - apply group_loop_skip. exact Hns.
      - cbn [group_loop].
        destruct (match c with CTok (TkPkg p) => bind (register cfg t p) (fun r => Ok (fst r)) | _ => Ok t end) as [t0|m];
          cbn [bind]; [|reflexivity].
        destruct (is_null cfg t0 c); [apply IH|].
        destruct (str_eqb name s_values && is_dict c && Nat.ltb 1 n); [reflexivity|].
        destruct (rec false t0 c) as [r1|m]; cbn [bind]; [|reflexivity].
        rewrite IH. reflexivity.
    Qed.
  End Loop.

  Lemma forallb_is_null_insert t xs ns ys :
    forallb nullish ns = true ->
    forallb (is_null cfg t) (xs ++ ns ++ ys) = forallb (is_null cfg t) (xs ++ ys).
  Proof.
    intros H. rewrite !forallb_app.
    assert (Hn : forallb (is_null cfg t) ns = true).
    { rewrite forallb_forall in *. intros x Hx. apply nullish_is_null. apply H. exact Hx. }
    rewrite Hn. reflexivity.
  Qed.

  (* NULL INVARIANCE, one level: for every group - every construct of the table, every
     Custom option set, every arity, position and multiplicity - inserting nullish items
     changes neither the text nor the import table, nor whether the group itself is null. *)
  Theorem group_null_invariance gid name o cl sep multi xs ns ys :
    forallb nullish ns = true -> dict_free name (xs ++ ys) ->
    (forall ctx t, render cfg ctx t (CGroup gid name o cl sep multi (xs ++ ns ++ ys)) =
                   render cfg ctx t (CGroup gid name o cl sep multi (xs ++ ys))) /\
    (forall t, is_null cfg t (CGroup gid name o cl sep multi (xs ++ ns ++ ys)) =
               is_null cfg t (CGroup gid name o cl sep multi (xs ++ ys))).
  Proof.
    intros Hns Hd. split.
    - intros ctx t. cbn [render]. rewrite (forallb_is_null_insert t xs ns ys Hns).
      destruct (str_eqb name s_types && forallb (is_null cfg t) (xs ++ ys)); [reflexivity|].
      rewrite group_loop_insert by exact Hns.
      rewrite (group_loop_count (render cfg) name sep multi (length (xs ++ ns ++ ys)) (length (xs ++ ys)) _ t true Hd).
      reflexivity.
    - intros t. cbn [is_null]. rewrite (forallb_is_null_insert t xs ns ys Hns). reflexivity.
  Qed.

  (* ---- closure under nesting: replacing items by equivalent items ---- *)
  Definition same_shape (c c' : code) : Prop :=
    match c, c' with
    | CGroup g n _ _ _ _ _, CGroup g' n' _ _ _ _ _ => g = g' /\ n = n'
    | CTok t, CTok t' => t = t'
    | CStmt _, CStmt _ => True
    | CDict _, CDict _ => True
    | CNil, CNil | CNilStmt, CNilStmt | CNilGroup, CNilGroup => True
    | CTag a, CTag b => a = b
    | CComment a, CComment b => a = b
    | _, _ => False
    end.

  (* c and c' are interchangeable anywhere: same text and table from every state, same
     null-ness, and the same look to the tests an enclosing element performs *)
  Definition req (c c' : code) : Prop :=
    same_shape c c' /\
    (forall ctx t, render cfg ctx t c = render cfg ctx t c') /\
    (forall t, is_null cfg t c = is_null cfg t c').

  Lemma same_shape_refl c : same_shape c c.
  Proof. destruct c; simpl; auto. Qed.
  Lemma req_refl c : req c c.
  Proof. split; [apply same_shape_refl|]. split; reflexivity. Qed.
  Lemma same_shape_trans a b c : same_shape a b -> same_shape b c -> same_shape a c.
  Proof.
    destruct a, b; simpl; try tauto; destruct c; simpl; try tauto; try congruence.
    intros [-> ->] [-> ->]. auto.
  Qed.
  Lemma req_trans a b c : req a b -> req b c -> req a c.
  Proof.
    intros (S1 & R1 & N1) (S2 & R2 & N2). split; [eapply same_shape_trans; eassumption|].
    split; [intros ctx t; rewrite R1; apply R2 | intros t; rewrite N1; apply N2].
  Qed.

  Lemma same_shape_is_dict c c' : same_shape c c' -> is_dict c = is_dict c'.
  Proof. destruct c, c'; simpl; tauto. Qed.
  Lemma same_shape_prereg c c' t : same_shape c c' ->
    match c with CTok (TkPkg p) => bind (register cfg t p) (fun r => Ok (fst r)) | _ => Ok t end =
    match c' with CTok (TkPkg p) => bind (register cfg t p) (fun r => Ok (fst r)) | _ => Ok t end.
  Proof. destruct c, c'; simpl; try tauto. intros ->. reflexivity. Qed.
  Lemma same_shape_case c c' : same_shape c c' -> is_case_or_default c = is_case_or_default c'.
  Proof. destruct c, c'; simpl; try tauto; [intros ->; reflexivity | intros [_ ->]; reflexivity]. Qed.

  Lemma forallb_is_null_req t l l' : Forall2 req l l' -> forallb (is_null cfg t) l = forallb (is_null cfg t) l'.
  Proof.
    induction 1 as [|x y l l' (_ & _ & Hn) _ IH]; [reflexivity|]. cbn [forallb]. rewrite Hn, IH. reflexivity.
  Qed.

  Lemma group_loop_req name sep multi n l l' :
    Forall2 req l l' -> forall t first,
    group_loop cfg (render cfg) name sep multi n t first l = group_loop cfg (render cfg) name sep multi n t first l'.
  Proof.
    induction 1 as [|c c' l l' (Hs & Hr & Hn) _ IH]; intros t first; [reflexivity|]. cbn [group_loop].
    rewrite (same_shape_prereg c c' t Hs).
    destruct (match c' with CTok (TkPkg p) => bind (register cfg t p) (fun r => Ok (fst r)) | _ => Ok t end) as [t0|m];
      cbn [bind]; [|reflexivity].
    rewrite Hn, (same_shape_is_dict _ _ Hs), Hr.
    destruct (is_null cfg t0 c'); [apply IH|].
    destruct (str_eqb name s_values && is_dict c' && Nat.ltb 1 n); [reflexivity|].
    destruct (render cfg false t0 c') as [r1|m]; cbn [bind]; [|reflexivity]. rewrite IH. reflexivity.
  Qed.

  Lemma Forall2_len {A B} (R : A -> B -> Prop) l l' : Forall2 R l l' -> length l = length l'.
  Proof. induction 1; simpl; congruence. Qed.

  Theorem group_cong gid name o cl sep multi l l' :
    Forall2 req l l' -> req (CGroup gid name o cl sep multi l) (CGroup gid name o cl sep multi l').
  Proof.
    intros H. split; [split; reflexivity|]. split.
    - intros ctx t. cbn [render]. rewrite (forallb_is_null_req t _ _ H), (Forall2_len _ _ _ H).
      destruct (str_eqb name s_types && forallb (is_null cfg t) l'); [reflexivity|].
      rewrite (group_loop_req name sep multi (length l') _ _ H). reflexivity.
    - intros t. cbn [is_null]. rewrite (forallb_is_null_req t _ _ H). reflexivity.
  Qed.

  Definition orel (a b : option code) : Prop :=
    match a, b with Some x, Some y => same_shape x y | None, None => True | _, _ => False end.

  Lemma prev_of_shape gid l l' : Forall2 req l l' -> forall p p', orel p p' -> orel (prev_of gid p l) (prev_of gid p' l').
  Proof.
    induction 1 as [|c c' l l' (Hs & _ & _) _ IH]; intros p p' Hp; [exact I|]. cbn [prev_of].
    destruct c, c'; simpl in Hs; try tauto; try (apply IH; simpl; auto).
    destruct Hs as [<- <-]. destruct (gid0 =? gid)%N; [exact Hp | apply IH; simpl; auto].
  Qed.

  Lemma case_ctx_req all all' c c' : Forall2 req all all' -> same_shape c c' -> case_ctx all c = case_ctx all' c'.
  Proof.
    intros Ha Hs. destruct c, c'; simpl in Hs; try tauto; try reflexivity.
    destruct Hs as [<- <-]. cbn [case_ctx].
    pose proof (prev_of_shape gid _ _ Ha None None I) as Hp.
    destruct (prev_of gid None all), (prev_of gid None all'); simpl in Hp; try tauto.
    apply same_shape_case. exact Hp.
  Qed.

  Lemma stmt_loop_req all all' l l' :
    Forall2 req all all' -> Forall2 req l l' -> forall t first,
    stmt_loop cfg (render cfg) all t first l = stmt_loop cfg (render cfg) all' t first l'.
  Proof.
    intros Ha. induction 1 as [|c c' l l' (Hs & Hr & Hn) _ IH]; intros t first; [reflexivity|]. cbn [stmt_loop].
    rewrite Hn. destruct (is_null cfg t c'); [apply IH|].
    rewrite (case_ctx_req _ _ _ _ Ha Hs), Hr.
    destruct (render cfg (case_ctx all' c') t c') as [r1|m]; cbn [bind]; [|reflexivity]. rewrite IH. reflexivity.
  Qed.

  Theorem stmt_cong l l' : Forall2 req l l' -> req (CStmt l) (CStmt l').
  Proof.
    intros H. split; [exact I|]. split.
    - intros ctx t. cbn [render]. apply stmt_loop_req; exact H.
    - intros t. cbn [is_null]. apply forallb_is_null_req. exact H.
  Qed.

  (* an inserted nullish item is interchangeable with nothing; with [group_cong] and
     [stmt_cong] the invariance holds at any depth of a program *)
  Theorem group_null_req gid name o cl sep multi xs ns ys :
    forallb nullish ns = true -> dict_free name (xs ++ ys) ->
    req (CGroup gid name o cl sep multi (xs ++ ns ++ ys)) (CGroup gid name o cl sep multi (xs ++ ys)).
  Proof.
    intros Hns Hd. destruct (group_null_invariance gid name o cl sep multi xs ns ys Hns Hd) as [H1 H2].
    split; [split; reflexivity|]. split; assumption.
  Qed.
End Null.
