(* C18, the gennames tool: what the line processing of getPackages (Model/Gennames.v) does
   with ANY listing, and what the generated file prints for ANY table. *)
From Jen Require Import Base.Bytes Base.Sort GoStd.Quote Model.Code Model.Naming Model.Render Model.FileRender Gen.Tables.
From Jen Require Import Model.Gennames Proofs.DictProofs Proofs.LitProofs Proofs.CommentProofs Proofs.EmitProofs.
From Coq Require Import Permutation Sorted Lia.

(* ---- splitting ---- *)
Lemma split_on_nonempty c s : split_on c s <> [].
Proof.
  destruct s as [|x s]; cbn [split_on]; [discriminate|].
  destruct (beq x c); [discriminate|]. destruct (split_on c s); discriminate.
Qed.

(* ---- one line ---- *)
Section Lines.
  Variable o : gn_opts.

  (* the -standard class of the line matches the flag *)
  Definition gn_selected (line : str) : bool :=
    Bool.eqb (str_eqb (hd [] (split_on x20 line)) s_true) (o_standard o).
  (* fewer than three space-separated fields *)
  Definition gn_short (line : str) : bool := Nat.ltb (length (split_on x20 line)) 3.
  (* a selected line that is too short: getPackages indexes past the end of parts *)
  Definition gn_bad (line : str) : bool := gn_selected line && gn_short line.

  (* what a line offers to the table: (path after vendor stripping, name) *)
  Definition gn_kept (line : str) : option (str * str) :=
    match split_on x20 line with
    | t :: p :: n :: _ =>
      if Bool.eqb (str_eqb t s_true) (o_standard o) && negb (o_novendor o && has_vendor p) &&
         negb (str_eqb n s_main) && o_filter o p
      then Some (unvendor p, n) else None
    | _ => None
    end.

  (* packages[path] != "" -> continue; packages[path] = name *)
  Definition gn_add (tbl : gn_table) (e : str * str) : gn_table :=
    if nonempty (gn_get tbl (fst e)) then tbl else aset (fst e) (snd e) tbl.

  Definition gn_upd (tbl : gn_table) (oe : option (str * str)) : gn_table :=
    match oe with Some e => gn_add tbl e | None => tbl end.

  Lemma gn_step_unselected tbl line : gn_selected line = false -> gn_step o tbl line = Ok tbl.
  Proof.
    unfold gn_selected, gn_step. destruct (split_on x20 line) as [|p0 rest] eqn:E.
    - exfalso. exact (split_on_nonempty _ _ E).
    - cbn [hd]. intros ->. reflexivity.
  Qed.

  Lemma gn_step_short tbl line :
    gn_selected line = true -> gn_short line = true -> exists m, gn_step o tbl line = Panic m.
  Proof.
    unfold gn_selected, gn_short, gn_step. destruct (split_on x20 line) as [|p0 [|p1 [|p2 r]]]; cbn [hd length].
    - intros _ _. eexists. reflexivity.
    - intros -> _. eexists. reflexivity.
    - intros -> _. eexists. reflexivity.
    - intros _ H. discriminate.
  Qed.

  Lemma gn_step_long tbl line :
    gn_selected line = true -> gn_short line = false -> gn_step o tbl line = Ok (gn_upd tbl (gn_kept line)).
  Proof.
    unfold gn_selected, gn_short, gn_step, gn_kept.
    destruct (split_on x20 line) as [|p0 [|p1 [|p2 r]]]; cbn [hd length]; try (intros _ H; discriminate).
    intros -> _. cbn [negb andb].
    destruct (o_novendor o && has_vendor p1); cbn [negb andb gn_upd]; [reflexivity|].
    destruct (str_eqb p2 s_main); cbn [negb andb gn_upd]; [reflexivity|].
    destruct (o_filter o p1); cbn [negb gn_upd]; [|reflexivity].
    unfold gn_add. cbn [fst snd]. destruct (nonempty (gn_get tbl (unvendor p1))); reflexivity.
  Qed.

  Lemma gn_kept_unselected line : gn_selected line = false -> gn_kept line = None.
  Proof.
    unfold gn_selected, gn_kept. destruct (split_on x20 line) as [|p0 [|p1 [|p2 r]]]; cbn [hd]; try reflexivity.
    intros ->. reflexivity.
  Qed.

  (* a line that changes nothing, whatever the table: the other -standard class (however
     short), or a main package *)
  Lemma gn_step_skip_class tbl line :
    str_eqb (hd [] (split_on x20 line)) s_true <> o_standard o -> gn_step o tbl line = Ok tbl.
  Proof.
    intros H. apply gn_step_unselected. unfold gn_selected.
    destruct (str_eqb (hd [] (split_on x20 line)) s_true), (o_standard o); try reflexivity; congruence.
  Qed.

  Lemma gn_step_skip_main tbl line t p extra :
    split_on x20 line = t :: p :: s_main :: extra -> gn_step o tbl line = Ok tbl.
  Proof.
    intros E. unfold gn_step. rewrite E.
    destruct (negb (Bool.eqb (str_eqb t s_true) (o_standard o))); [reflexivity|].
    destruct (o_novendor o && has_vendor p); reflexivity.
  Qed.

  (* unpacking gn_kept *)
  Lemma gn_kept_inv line k n :
    gn_kept line = Some (k, n) ->
    exists t p extra, split_on x20 line = t :: p :: n :: extra /\ k = unvendor p /\
      str_eqb t s_true = o_standard o /\ n <> s_main /\ o_filter o p = true /\
      (o_novendor o = true -> has_vendor p = false /\ k = p).
  Proof.
    unfold gn_kept. destruct (split_on x20 line) as [|t [|p [|n' extra]]]; try discriminate.
    destruct (Bool.eqb (str_eqb t s_true) (o_standard o)) eqn:E1; cbn [andb]; [|discriminate].
    destruct (o_novendor o && has_vendor p) eqn:E2; cbn [negb andb]; [discriminate|].
    destruct (str_eqb n' s_main) eqn:E3; cbn [negb andb]; [discriminate|].
    destruct (o_filter o p) eqn:E4; [|discriminate].
    intros H. injection H as <- <-. exists t, p, extra.
    split; [reflexivity|]. split; [reflexivity|]. split; [apply eqb_prop; exact E1|].
    split; [apply str_eqb_neq; exact E3|]. split; [exact E4|].
    intros Hnv. rewrite Hnv in E2. cbn [andb] in E2. split; [exact E2|].
    unfold unvendor, has_vendor in *. destruct (find_vendor p); [discriminate | reflexivity].
  Qed.

  Lemma gn_kept_intro line t p n extra :
    split_on x20 line = t :: p :: n :: extra ->
    str_eqb t s_true = o_standard o -> n <> s_main -> o_filter o p = true ->
    (o_novendor o = true -> has_vendor p = false) ->
    gn_kept line = Some (unvendor p, n).
  Proof.
    intros E Ht Hn Hf Hv. unfold gn_kept. rewrite E, Ht, Hf. rewrite eqb_reflx. cbn [andb].
    apply str_eqb_neq in Hn. rewrite Hn. cbn [negb andb].
    destruct (o_novendor o); cbn [andb negb]; [|reflexivity]. rewrite (Hv eq_refl). reflexivity.
  Qed.

  Lemma gn_selected_of_fields line t rest :
    split_on x20 line = t :: rest -> str_eqb t s_true = o_standard o -> gn_selected line = true.
  Proof. intros E Ht. unfold gn_selected. rewrite E. cbn [hd]. rewrite Ht. apply eqb_reflx. Qed.

  (* ---- the loop ---- *)
  Definition gn_entries (lines : list str) : list (str * str) :=
    flat_map (fun l => match gn_kept l with Some e => [e] | None => [] end) lines.

  Lemma gn_entries_app a b : gn_entries (a ++ b) = gn_entries a ++ gn_entries b.
  Proof. unfold gn_entries. apply flat_map_app. Qed.

  Lemma gn_entries_In e lines : In e (gn_entries lines) <-> exists l, In l lines /\ gn_kept l = Some e.
  Proof.
    unfold gn_entries. rewrite in_flat_map. split.
    - intros (l & Hl & Hin). exists l. split; [exact Hl|].
      destruct (gn_kept l) as [e'|]; [|destruct Hin]. destruct Hin as [->|[]]. reflexivity.
    - intros (l & Hl & Hk). exists l. split; [exact Hl|]. rewrite Hk. left. reflexivity.
  Qed.

  Lemma gn_fold_app tbl a b :
    gn_fold o tbl (a ++ b) = bind (gn_fold o tbl a) (fun t => gn_fold o t b).
  Proof.
    revert tbl. induction a as [|l a IH]; intros tbl; [reflexivity|]. cbn [app gn_fold].
    destruct (gn_step o tbl l) as [t|m]; cbn [bind]; [apply IH | reflexivity].
  Qed.

  Lemma gn_fold_ok lines tbl :
    existsb gn_bad lines = false ->
    gn_fold o tbl lines = Ok (fold_left gn_add (gn_entries lines) tbl).
  Proof.
    revert tbl. induction lines as [|l lines IH]; intros tbl Hb; [reflexivity|].
    cbn [existsb] in Hb. apply orb_false_iff in Hb. destruct Hb as [Hl Hb].
    cbn [gn_fold]. change (gn_entries (l :: lines)) with
        ((match gn_kept l with Some e => [e] | None => [] end) ++ gn_entries lines).
    rewrite fold_left_app. unfold gn_bad in Hl. destruct (gn_selected l) eqn:Es.
    - cbn [andb] in Hl. rewrite (gn_step_long tbl l Es Hl). cbn [bind]. rewrite (IH _ Hb).
      destruct (gn_kept l); reflexivity.
    - rewrite (gn_step_unselected tbl l Es). cbn [bind]. rewrite (IH _ Hb).
      rewrite (gn_kept_unselected l Es). reflexivity.
  Qed.

  Lemma gn_fold_panic lines tbl :
    existsb gn_bad lines = true -> exists m, gn_fold o tbl lines = Panic m.
  Proof.
    revert tbl. induction lines as [|l lines IH]; intros tbl Hb; [discriminate|].
    cbn [existsb] in Hb. cbn [gn_fold]. destruct (gn_bad l) eqn:El.
    - unfold gn_bad in El. apply andb_true_iff in El. destruct El as [Es Esh].
      destruct (gn_step_short tbl l Es Esh) as [m Hm]. rewrite Hm. exists m. reflexivity.
    - cbn [orb] in Hb. destruct (gn_step o tbl l) as [t|m]; cbn [bind]; [apply IH; exact Hb | exists m; reflexivity].
  Qed.

  (* the tool panics exactly on the listings that have a selected line with < 3 fields *)
  Lemma gn_fold_Ok_iff lines tbl :
    (exists t, gn_fold o tbl lines = Ok t) <-> existsb gn_bad lines = false.
  Proof.
    split.
    - intros [t Ht]. destruct (existsb gn_bad lines) eqn:E; [|reflexivity].
      destruct (gn_fold_panic lines tbl E) as [m Hm]. congruence.
    - intros E. eexists. apply gn_fold_ok. exact E.
  Qed.

  Lemma gn_fold_Ok_inv lines tbl t :
    gn_fold o tbl lines = Ok t ->
    existsb gn_bad lines = false /\ t = fold_left gn_add (gn_entries lines) tbl.
  Proof.
    intros H. assert (E : existsb gn_bad lines = false) by (apply (gn_fold_Ok_iff lines tbl); eexists; exact H).
    split; [exact E|]. rewrite (gn_fold_ok lines tbl E) in H. congruence.
  Qed.
End Lines.

(* ---- the table as a function of the entries offered, in order ---- *)

(* the first non-empty name offered for k; the empty name if names were offered but all are
   empty; nothing if no line offers k *)
Fixpoint gn_first (k : str) (es : list (str * str)) : option str :=
  match es with
  | [] => None
  | e :: r =>
    if str_eqb k (fst e) then
      if nonempty (snd e) then Some (snd e)
      else match gn_first k r with Some n => Some n | None => Some [] end
    else gn_first k r
  end.

Lemma nonempty_false (s : str) : nonempty s = false -> s = [].
Proof. destruct s; [reflexivity | discriminate]. Qed.

Lemma gn_add_lookup_other tbl e k : k <> fst e -> alookup k (gn_add tbl e) = alookup k tbl.
Proof.
  intros Hk. unfold gn_add. destruct (nonempty (gn_get tbl (fst e))); [reflexivity|].
  apply alookup_aset_other. congruence.
Qed.

Lemma gn_fold_lookup es : forall tbl k,
  alookup k (fold_left gn_add es tbl) =
  match alookup k tbl with
  | Some n => if nonempty n then Some n
              else match gn_first k es with Some n' => Some n' | None => Some n end
  | None => gn_first k es
  end.
Proof.
  induction es as [|e es IH]; intros tbl k; cbn [fold_left gn_first].
  - destruct (alookup k tbl) as [n|]; [destruct (nonempty n)|]; reflexivity.
  - rewrite IH. destruct (str_eqb_spec k (fst e)) as [->|Hk].
    + unfold gn_add, gn_get. destruct (alookup (fst e) tbl) as [n|] eqn:EA.
      * destruct (nonempty n) eqn:En.
        -- rewrite EA, En. reflexivity.
        -- rewrite alookup_aset_same. apply nonempty_false in En. subst n.
           destruct (nonempty (snd e)) eqn:En'; [reflexivity|].
           apply nonempty_false in En'. rewrite En'. destruct (gn_first (fst e) es); reflexivity.
      * cbn [nonempty]. rewrite alookup_aset_same.
        destruct (nonempty (snd e)) eqn:En'; [reflexivity|].
        apply nonempty_false in En'. rewrite En'. destruct (gn_first (fst e) es); reflexivity.
    + rewrite (gn_add_lookup_other tbl e k Hk). reflexivity.
Qed.

Lemma gn_table_lookup es k : alookup k (fold_left gn_add es []) = gn_first k es.
Proof. rewrite gn_fold_lookup. reflexivity. Qed.

Lemma gn_add_NoDup tbl e : NoDup (akeys tbl) -> NoDup (akeys (gn_add tbl e)).
Proof. intros H. unfold gn_add. destruct (nonempty _); [exact H | apply akeys_aset_NoDup; exact H]. Qed.

Lemma gn_fold_NoDup es : forall tbl, NoDup (akeys tbl) -> NoDup (akeys (fold_left gn_add es tbl)).
Proof. induction es as [|e es IH]; intros tbl H; cbn [fold_left]; [exact H | apply IH, gn_add_NoDup, H]. Qed.

Lemma gn_first_In k n es : gn_first k es = Some n -> In (k, n) es.
Proof.
  induction es as [|[k' n'] es IH]; cbn [gn_first fst snd]; [discriminate|].
  destruct (str_eqb_spec k k') as [->|Hk].
  - destruct (nonempty n') eqn:En.
    + intros H. injection H as <-. left. reflexivity.
    + apply nonempty_false in En. subst n'. destruct (gn_first k' es) as [x|].
      * intros H. injection H as <-. right. apply IH. reflexivity.
      * intros H. injection H as <-. left. reflexivity.
  - intros H. right. apply IH. exact H.
Qed.

Lemma gn_first_None k es : gn_first k es = None <-> ~ In k (map fst es).
Proof.
  induction es as [|[k' n'] es IH]; cbn [gn_first fst snd map]; [tauto|].
  destruct (str_eqb_spec k k') as [->|Hk].
  - split; [|intros H; exfalso; apply H; left; reflexivity].
    destruct (nonempty n'); [discriminate|]. destruct (gn_first k' es); discriminate.
  - rewrite IH. split; [intros H [E|E]; [congruence | contradiction] | intros H E; apply H; right; exact E].
Qed.

(* FIRST NON-EMPTY NAME WINS *)
Lemma gn_first_wins k n pre post :
  n <> [] -> (forall n', In (k, n') pre -> n' = []) ->
  gn_first k (pre ++ (k, n) :: post) = Some n.
Proof.
  intros Hn. induction pre as [|[k' n'] pre IH]; intros Hpre; cbn [app gn_first fst snd].
  - rewrite str_eqb_refl. destruct n; [congruence | reflexivity].
  - destruct (str_eqb_spec k k') as [->|Hk].
    + rewrite (Hpre n' (or_introl eq_refl)). cbn [nonempty].
      rewrite IH; [reflexivity|]. intros x Hx. apply Hpre. right. exact Hx.
    + apply IH. intros x Hx. apply Hpre. right. exact Hx.
Qed.

(* an earlier non-empty name for the same path beats every later line *)
Lemma gn_first_beaten k n0 pre rest :
  n0 <> [] -> (forall n', In (k, n') pre -> n' = []) ->
  gn_first k (pre ++ (k, n0) :: rest) = Some n0.
Proof. exact (gn_first_wins k n0 pre rest). Qed.

Lemma gn_first_unique k n es :
  NoDup (map fst es) -> In (k, n) es -> gn_first k es = Some n.
Proof.
  induction es as [|[k' n'] es IH]; cbn [map fst]; [intros _ []|].
  intros Hnd Hin. inversion Hnd as [|? ? Hni Hnd']; subst. cbn [gn_first fst snd].
  destruct Hin as [E|Hin].
  - injection E as -> ->. rewrite str_eqb_refl.
    destruct (nonempty n) eqn:En; [reflexivity|]. apply nonempty_false in En. subst n.
    apply gn_first_None in Hni. rewrite Hni. reflexivity.
  - destruct (str_eqb_spec k k') as [->|Hk].
    + exfalso. apply Hni. change k' with (fst (k', n)). apply in_map. exact Hin.
    + apply IH; assumption.
Qed.

(* ---- order of the lines ---- *)
Lemma flat_map_perm {A B} (f : A -> list B) l l' : Permutation l l' -> Permutation (flat_map f l) (flat_map f l').
Proof.
  induction 1; cbn [flat_map].
  - constructor.
  - apply Permutation_app_head. assumption.
  - rewrite !app_assoc. apply Permutation_app_tail. apply Permutation_app_comm.
  - eapply perm_trans; eassumption.
Qed.

Lemma assoc_perm_of_lookup (m m' : gn_table) :
  NoDup (akeys m) -> NoDup (akeys m') -> (forall k, alookup k m = alookup k m') -> Permutation m m'.
Proof.
  intros Hn Hn' Hl.
  assert (Hnd : forall t : gn_table, NoDup (akeys t) -> NoDup t).
  { intros t. induction t as [|[k v] t IH]; cbn [akeys map fst]; intros H; [constructor|].
    inversion H as [|? ? Hni Hnd']; subst. constructor; [|apply IH; exact Hnd'].
    intros Hin. apply Hni. change k with (fst (k, v)). apply in_map. exact Hin. }
  apply NoDup_Permutation; [apply Hnd, Hn | apply Hnd, Hn' |].
  intros [k v]. split; intros H.
  - apply alookup_In. rewrite <- Hl. apply In_alookup_NoDup; assumption.
  - apply alookup_In. rewrite Hl. apply In_alookup_NoDup; assumption.
Qed.

Lemma gn_tables_perm es es' :
  Permutation es es' -> NoDup (map fst es) ->
  Permutation (fold_left gn_add es []) (fold_left gn_add es' []).
Proof.
  intros Hp Hnd.
  assert (Hnd' : NoDup (map fst es')) by (eapply Permutation_NoDup; [apply Permutation_map; exact Hp | exact Hnd]).
  apply assoc_perm_of_lookup; try (apply gn_fold_NoDup; constructor).
  intros k. rewrite !gn_table_lookup.
  destruct (gn_first k es) as [n|] eqn:E.
  - symmetry. apply gn_first_unique; [exact Hnd'|]. eapply Permutation_in; [exact Hp|]. apply gn_first_In. exact E.
  - symmetry. apply gn_first_None. apply gn_first_None in E. intros Hin. apply E.
    eapply Permutation_in; [apply Permutation_sym, Permutation_map; exact Hp | exact Hin].
Qed.

Lemma existsb_perm' {A} (f : A -> bool) l l' : Permutation l l' -> existsb f l = existsb f l'.
Proof.
  induction 1; cbn [existsb]; try reflexivity; try congruence.
  destruct (f x), (f y); reflexivity.
Qed.

(* ---- the generated file ---- *)
Definition gn_txt (c : code) : str :=
  match c with CTok (TkLit (LStr s)) => GoQuote s | _ => [] end.

Definition gn_pairs (tbl : gn_table) : list (code * code) :=
  map (fun kv => (CTok (TkLit (LStr (fst kv))), CTok (TkLit (LStr (snd kv))))) tbl.

Lemma gn_pairs_settled cfg t tbl : settled cfg t gn_txt (gn_pairs tbl).
Proof.
  intros kv Hin _. unfold gn_pairs in Hin. apply in_map_iff in Hin. destruct Hin as ([k n] & <- & _).
  split; reflexivity.
Qed.

Lemma gn_pairs_live cfg t tbl : filter (live cfg t) (gn_pairs tbl) = gn_pairs tbl.
Proof. induction tbl as [|[k n] tbl IH]; [reflexivity|]. cbn [gn_pairs map filter]. unfold live at 1. cbn. f_equal. exact IH. Qed.

Lemma gn_pairs_txt tbl : map (pair_txt gn_txt) (gn_pairs tbl) = gn_quoted tbl.
Proof. unfold gn_pairs, gn_quoted. rewrite map_map. reflexivity. Qed.

(* the text between the braces *)
Definition gn_body (tbl : gn_table) : str := dict_body (isort_by fst (gn_quoted tbl)).

Lemma gn_values_render cfg t tbl :
  render cfg false t (gn_group (S "Values") 2 [gn_dict tbl]) = Ok (t, S "{" ++ gn_body tbl ++ S "}").
Proof.
  change (gn_group (S "Values") 2 [gn_dict tbl]) with
      (CGroup 2 s_values (S "{") (S "}") (S ",") false [CDict (gn_pairs tbl)]).
  rewrite (values_dict_spec cfg t gn_txt false 2 (gn_pairs tbl) (gn_pairs_settled cfg t tbl)).
  rewrite gn_pairs_live, gn_pairs_txt. reflexivity.
Qed.

Definition cfg0 : config := mkcfg [] [] [].
Definition txt0 (c : code) : str := match render cfg0 false [] c with Ok r => snd r | Panic _ => [] end.

Definition gn_var_items (name : str) (tbl : gn_table) : list code :=
  [gn_tok (S "Var"); CTok (TkId name); CTok (TkText (S "="));
   gn_group (S "Map") 1 [CStmt [gn_tok (S "String")]]; gn_tok (S "String");
   gn_group (S "Values") 2 [gn_dict tbl]].

(* the declaration as handed to go/format *)
Definition gn_decl (name : str) (tbl : gn_table) : str :=
  S "var " ++ name ++ S " = map[string] string {" ++ gn_body tbl ++ S "}".

Lemma gn_var_stmt name tbl :
  render cfg0 false [] (CStmt (gn_var_items name tbl)) = Ok ([], gn_decl name tbl).
Proof.
  rewrite (render_stmt_settled cfg0 [] txt0).
  - change (filter (live_item cfg0 []) (gn_var_items name tbl)) with (gn_var_items name tbl).
    cbn [map gn_var_items]. unfold txt0 at 6. rewrite gn_values_render. cbn [snd].
    reflexivity.
  - intros c Hin _. unfold txt0.
    destruct Hin as [<-|[<-|[<-|[<-|[<-|[<-|[]]]]]]]; try reflexivity.
    rewrite !gn_values_render. reflexivity.
Qed.

(* the whole file as handed to go/format *)
Definition gn_text (pkg name : str) (tbl : gn_table) : str :=
  S "// " ++ s_header ++ [x0a; x0a] ++ S "package " ++ pkg ++ [x0a; x0a] ++
  [x0a; x0a] ++ [x0a] ++ comment_text (name ++ s_contains) ++ [x0a] ++ gn_decl name tbl.

Lemma gn_file_raw pkg name tbl : file_raw (gn_file pkg name tbl) = Ok ([], gn_text pkg name tbl).
Proof.
  unfold file_raw, file_group.
  change (file_cfg (gn_file pkg name tbl)) with cfg0.
  change (f_imports (gn_file pkg name tbl)) with (@nil (str * importdef)).
  change (f_items (gn_file pkg name tbl)) with
      [CStmt [CTok (TkText [x0a])]; CStmt [CComment (name ++ s_contains)]; CStmt (gn_var_items name tbl)].
  rewrite (render_group_settled cfg0 [] txt0).
  - cbn [bind fst snd]. f_equal. f_equal.
    change (filter (live_item cfg0 []) [CStmt [CTok (TkText [x0a])]; CStmt [CComment (name ++ s_contains)]; CStmt (gn_var_items name tbl)])
      with [CStmt [CTok (TkText [x0a])]; CStmt [CComment (name ++ s_contains)]; CStmt (gn_var_items name tbl)].
    cbn [map]. unfold txt0 at 3. rewrite gn_var_stmt. cbn [snd].
    change (str_eqb [] s_types) with false. change (str_eqb [] s_block) with false.
    unfold closer. cbn [andb is_nil negb nonempty group_text app]. rewrite !app_nil_r.
    assert (E1 : txt0 (CStmt [CTok (TkText [x0a])]) = [x0a]) by reflexivity.
    assert (E2 : txt0 (CStmt [CComment (name ++ s_contains)]) = comment_text (name ++ s_contains)).
    { unfold txt0. cbn [render stmt_loop is_null forallb bind fst snd case_ctx app]. apply app_nil_r. }
    rewrite E1, E2.
    assert (E3 : file_head (gn_file pkg name tbl) = S "// " ++ s_header ++ [x0a; x0a] ++ S "package " ++ pkg ++ [x0a; x0a]) by reflexivity.
    assert (E4 : render_imports [] (f_cgo (gn_file pkg name tbl)) = []) by reflexivity.
    rewrite E3, E4. unfold gn_text, s_nl. rewrite <- !app_assoc. reflexivity.
  - intros c Hin. split; [destruct Hin as [<-|[<-|[<-|[]]]]; exact I|]. intros _. unfold txt0.
    destruct Hin as [<-|[<-|[<-|[]]]]; try reflexivity.
    rewrite gn_var_stmt. reflexivity.
  - intros c Hin _. reflexivity.
Qed.

(* ---- what is between the braces ---- *)
Lemma GoQuote_inj a b : GoQuote a = GoQuote b -> a = b.
Proof. intros H. pose proof (GoQuote_value a) as Ha. rewrite H, GoQuote_value in Ha. congruence. Qed.

Lemma NoDup_map_inj {A B} (f : A -> B) l : (forall a b, f a = f b -> a = b) -> NoDup l -> NoDup (map f l).
Proof.
  intros Hi. induction 1 as [|x l Hni Hnd IH]; cbn [map]; constructor; [|exact IH].
  intros Hin. apply in_map_iff in Hin. destruct Hin as (y & Hy & Hin). apply Hi in Hy. subst y. contradiction.
Qed.

Lemma gn_quoted_sorted_printed tbl : isort_by fst (gn_quoted tbl) = gn_quoted (gn_printed tbl).
Proof.
  unfold gn_quoted, gn_printed. symmetry.
  apply (isort_by_map (fun kv : str * str => GoQuote (fst kv)) fst (fun kv => (GoQuote (fst kv), GoQuote (snd kv)))).
  reflexivity.
Qed.

Lemma gn_printed_perm tbl : Permutation (gn_printed tbl) tbl.
Proof. apply isort_by_perm. Qed.

Lemma gn_printed_sorted tbl : StronglySorted (fun a b => str_leb (GoQuote (fst a)) (GoQuote (fst b)) = true) (gn_printed tbl).
Proof. apply (isort_by_sorted (fun kv : str * str => GoQuote (fst kv))). Qed.

(* the Go map's iteration order does not show *)
Lemma gn_printed_perm_invariant tbl tbl' :
  Permutation tbl tbl' -> NoDup (map fst tbl) -> gn_printed tbl = gn_printed tbl'.
Proof.
  intros Hp Hnd. apply isort_by_perm_invariant; [|exact Hp].
  rewrite <- (map_map fst GoQuote). apply NoDup_map_inj; [exact GoQuote_inj | exact Hnd].
Qed.

Lemma gn_body_perm_invariant tbl tbl' :
  Permutation tbl tbl' -> NoDup (map fst tbl) -> gn_body tbl = gn_body tbl'.
Proof.
  intros Hp Hnd. unfold gn_body. rewrite !gn_quoted_sorted_printed.
  rewrite (gn_printed_perm_invariant tbl tbl' Hp Hnd). reflexivity.
Qed.

Lemma gn_file_perm_invariant pkg name tbl tbl' :
  Permutation tbl tbl' -> NoDup (map fst tbl) ->
  file_raw (gn_file pkg name tbl) = file_raw (gn_file pkg name tbl').
Proof.
  intros Hp Hnd. rewrite !gn_file_raw. unfold gn_text, gn_decl.
  rewrite (gn_body_perm_invariant tbl tbl' Hp Hnd). reflexivity.
Qed.

(* ---- the theorems of Props/C18_gennames.v ---- *)
Section Theorems.
  Variable o : gn_opts.

  Theorem gennames_table_spec lines tbl :
    gn_fold o [] lines = Ok tbl ->
    NoDup (map fst tbl) /\ forall k, alookup k tbl = gn_first k (gn_entries o lines).
  Proof.
    intros H. apply gn_fold_Ok_inv in H. destruct H as [_ ->]. split.
    - apply (gn_fold_NoDup (gn_entries o lines) []). constructor.
    - intros k. apply gn_table_lookup.
  Qed.

  Theorem gennames_line pre line post tbl t p n extra :
    split_on x20 line = t :: p :: n :: extra ->
    str_eqb t s_true = o_standard o -> n <> s_main -> o_filter o p = true ->
    (o_novendor o = true -> has_vendor p = false) ->
    n <> [] ->
    (forall l n', In l pre -> gn_kept o l = Some (unvendor p, n') -> n' = []) ->
    gn_fold o [] (pre ++ line :: post) = Ok tbl ->
    alookup (unvendor p) tbl = Some n /\ In (unvendor p, n) tbl.
  Proof.
    intros E Ht Hm Hf Hv Hn Hpre H.
    destruct (gennames_table_spec _ _ H) as [_ Hl].
    assert (Hk : gn_kept o line = Some (unvendor p, n)) by (eapply gn_kept_intro; eassumption).
    assert (Hlk : alookup (unvendor p) tbl = Some n).
    { rewrite Hl. change (line :: post) with ([line] ++ post). rewrite !gn_entries_app.
      change (gn_entries o [line]) with ((match gn_kept o line with Some e => [e] | None => [] end) ++ []).
      rewrite Hk. cbn [app]. apply gn_first_wins; [exact Hn|].
      intros n' Hin. apply gn_entries_In in Hin. destruct Hin as (l & Hl1 & Hl2). eapply Hpre; eassumption. }
    split; [exact Hlk | apply alookup_In; exact Hlk].
  Qed.

  (* ... and when an earlier line for the same path has a non-empty name, that one stays *)
  Theorem gennames_line_beaten pre l0 mid tbl k n0 :
    gn_kept o l0 = Some (k, n0) -> n0 <> [] ->
    (forall l n', In l pre -> gn_kept o l = Some (k, n') -> n' = []) ->
    gn_fold o [] (pre ++ l0 :: mid) = Ok tbl ->
    alookup k tbl = Some n0.
  Proof.
    intros Hk Hn Hpre H. destruct (gennames_table_spec _ _ H) as [_ Hl]. rewrite Hl.
    change (l0 :: mid) with ([l0] ++ mid). rewrite !gn_entries_app.
    change (gn_entries o [l0]) with ((match gn_kept o l0 with Some e => [e] | None => [] end) ++ []).
    rewrite Hk. cbn [app]. apply gn_first_wins; [exact Hn|].
    intros n' Hin. apply gn_entries_In in Hin. destruct Hin as (l & Hl1 & Hl2). eapply Hpre; eassumption.
  Qed.

  Theorem gennames_only_listed lines tbl k n :
    gn_fold o [] lines = Ok tbl -> In (k, n) tbl ->
    exists line t p extra, In line lines /\ split_on x20 line = t :: p :: n :: extra /\ k = unvendor p /\
      str_eqb t s_true = o_standard o /\ n <> s_main /\ o_filter o p = true /\
      (o_novendor o = true -> has_vendor p = false /\ k = p).
  Proof.
    intros H Hin. destruct (gennames_table_spec _ _ H) as [Hnd Hl].
    assert (Hk : alookup k tbl = Some n) by (apply In_alookup_NoDup; assumption).
    rewrite Hl in Hk. apply gn_first_In, gn_entries_In in Hk. destruct Hk as (line & Hline & Hk).
    destruct (gn_kept_inv o line k n Hk) as (t & p & extra & H1). exists line, t, p, extra. split; [exact Hline | exact H1].
  Qed.

  Theorem gennames_no_main lines tbl k :
    gn_fold o [] lines = Ok tbl -> ~ In (k, s_main) tbl.
  Proof.
    intros H Hin. destruct (gennames_only_listed _ _ _ _ H Hin) as (l & t & p & e & _ & _ & _ & _ & Hm & _).
    apply Hm. reflexivity.
  Qed.

  Lemma gn_fold_skip tbl0 pre line post :
    (forall tbl, gn_step o tbl line = Ok tbl) ->
    gn_fold o tbl0 (pre ++ line :: post) = gn_fold o tbl0 (pre ++ post).
  Proof.
    intros Hs. rewrite !gn_fold_app. destruct (gn_fold o tbl0 pre) as [t|m]; cbn [bind gn_fold]; [|reflexivity].
    rewrite Hs. reflexivity.
  Qed.

  Theorem gennames_main_skipped tbl0 pre line post t p extra :
    split_on x20 line = t :: p :: s_main :: extra ->
    gn_fold o tbl0 (pre ++ line :: post) = gn_fold o tbl0 (pre ++ post).
  Proof. intros E. apply gn_fold_skip. intros tbl. eapply gn_step_skip_main. exact E. Qed.

  Theorem gennames_nonstandard_skipped tbl0 pre line post :
    str_eqb (hd [] (split_on x20 line)) s_true <> o_standard o ->
    gn_fold o tbl0 (pre ++ line :: post) = gn_fold o tbl0 (pre ++ post).
  Proof. intros E. apply gn_fold_skip. intros tbl. apply gn_step_skip_class. exact E. Qed.

  Theorem gennames_panics_iff lines :
    (exists m, gn_fold o [] lines = Panic m) <->
    exists line, In line lines /\ gn_selected o line = true /\ (length (split_on x20 line) < 3)%nat.
  Proof.
    split.
    - intros [m Hm]. destruct (existsb (gn_bad o) lines) eqn:E.
      + apply existsb_exists in E. destruct E as (l & Hl & Hb). unfold gn_bad in Hb.
        apply andb_true_iff in Hb. destruct Hb as [Hs Hsh]. exists l. split; [exact Hl|]. split; [exact Hs|].
        unfold gn_short in Hsh. apply Nat.ltb_lt in Hsh. exact Hsh.
      + rewrite (gn_fold_ok o lines [] E) in Hm. discriminate.
    - intros (l & Hl & Hs & Hsh). apply gn_fold_panic. apply existsb_exists. exists l. split; [exact Hl|].
      unfold gn_bad, gn_short. rewrite Hs. apply Nat.ltb_lt in Hsh. rewrite Hsh. reflexivity.
  Qed.

  Theorem gennames_lines_order lines lines' tbl :
    Permutation lines lines' -> NoDup (map fst (gn_entries o lines)) ->
    gn_fold o [] lines = Ok tbl ->
    exists tbl', gn_fold o [] lines' = Ok tbl' /\ Permutation tbl tbl' /\ gn_printed tbl = gn_printed tbl' /\
      forall pkg name, file_raw (gn_file pkg name tbl) = file_raw (gn_file pkg name tbl').
  Proof.
    intros Hp Hnd H. destruct (gennames_table_spec _ _ H) as [Hndt _].
    apply gn_fold_Ok_inv in H. destruct H as [Hb ->].
    assert (Hb' : existsb (gn_bad o) lines' = false) by (rewrite <- (existsb_perm' _ _ _ Hp); exact Hb).
    exists (fold_left gn_add (gn_entries o lines') []). split; [apply gn_fold_ok; exact Hb'|].
    assert (Hpe : Permutation (gn_entries o lines) (gn_entries o lines')) by (apply flat_map_perm; exact Hp).
    assert (Hpt := gn_tables_perm _ _ Hpe Hnd).
    split; [exact Hpt|]. split; [apply gn_printed_perm_invariant; assumption|].
    intros pkg name. apply gn_file_perm_invariant; assumption.
  Qed.
End Theorems.

(* without the distinctness hypothesis the order of the lines DOES show: first wins *)
Definition gn_o_std : gn_opts := mkopts true false (fun _ => true).
Definition gn_l_a : str := S "true vendor/golang.org/x/net/idna idna".
Definition gn_l_b : str := S "true golang.org/x/net/idna other".

Lemma gennames_order_matters :
  Permutation [gn_l_a; gn_l_b] [gn_l_b; gn_l_a] /\
  gn_fold gn_o_std [] [gn_l_a; gn_l_b] = Ok [(S "golang.org/x/net/idna", S "idna")] /\
  gn_fold gn_o_std [] [gn_l_b; gn_l_a] = Ok [(S "golang.org/x/net/idna", S "other")].
Proof. split; [apply perm_swap|]. split; vm_compute; reflexivity. Qed.

(* the whole run: the only outcomes are "go list failed", the index panic, and a file whose
   text is gn_text of the table *)
Lemma gn_run_spec o pkg name golist :
  gn_run o pkg name golist =
  match golist with
  | None => GnGoListFailed
  | Some out => match gn_packages o out with
                | Panic m => GnPanic m
                | Ok tbl => GnWritten tbl (gn_text pkg name tbl)
                end
  end.
Proof.
  unfold gn_run. destruct golist as [out|]; [|reflexivity].
  destruct (gn_packages o out) as [tbl|m]; [|reflexivity]. rewrite gn_file_raw. reflexivity.
Qed.

Lemma gn_body_entries tbl :
  gn_body tbl = dict_body (gn_quoted (gn_printed tbl)) /\
  Permutation (gn_printed tbl) tbl /\
  StronglySorted (fun a b => str_leb (GoQuote (fst a)) (GoQuote (fst b)) = true) (gn_printed tbl).
Proof.
  split; [unfold gn_body; rewrite gn_quoted_sorted_printed; reflexivity|].
  split; [apply gn_printed_perm | apply gn_printed_sorted].
Qed.

Lemma gennames_order_refuted :
  exists o l1 l2 t1 t2, Permutation l1 l2 /\ gn_fold o [] l1 = Ok t1 /\ gn_fold o [] l2 = Ok t2 /\ t1 <> t2.
Proof.
  exists gn_o_std, [gn_l_a; gn_l_b], [gn_l_b; gn_l_a], [(S "golang.org/x/net/idna", S "idna")], [(S "golang.org/x/net/idna", S "other")].
  split; [exact (proj1 gennames_order_matters)|]. split; [exact (proj1 (proj2 gennames_order_matters))|].
  split; [exact (proj2 (proj2 gennames_order_matters)) | discriminate].
Qed.
