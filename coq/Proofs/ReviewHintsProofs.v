(* Review item C08 (a): the TEXT of a rendered tree is stable when hints and PackagePrefix
   change afterwards.

   render_stable (RenderProofs.v) fixes the configuration.  Here: after a successful render
   under cfg, every path the tree needs is registered in the resulting table t1 (covered,
   PureProofs.v); register answers a registered path from the table without looking at hints
   or prefix, and whether a registered path is a dot import is decided by its entry.  So a
   render of the same tree from t1 (or any later table) under ANY configuration cfg' with the
   same local path leaves the table alone and writes the same bytes - for every tree in which
   package tokens stand where Qual puts them (all trees the API builds), and for arbitrary
   trees of the model as long as no package token of the tree changes between dot import and
   ordinary import. *)
From Jen Require Import Base.Bytes Base.Sort Model.Code Model.Naming Model.Render Model.FileRender Gen.Tables.
From Jen Require Import Proofs.NamingProofs Proofs.RenderProofs Proofs.CommentProofs Proofs.EmitProofs
                        Proofs.DictProofs Proofs.OccsProofs Spec.Pure Proofs.PureProofs.
From Coq Require Import Lia.
Local Open Scope bool_scope.

(* every package path that occurs in the tree, written or not *)
Fixpoint pkgs (c : code) : list str :=
  match c with
  | CTok (TkPkg p) => [p]
  | CGroup _ _ _ _ _ _ items => flat_map pkgs items
  | CStmt items => flat_map pkgs items
  | CDict pairs => flat_map (fun kv => pkgs (fst kv) ++ pkgs (snd kv)) pairs
  | _ => []
  end.

Lemma forallb_In_ext {A} (f g : A -> bool) l : (forall x, In x l -> f x = g x) -> forallb f l = forallb g l.
Proof.
  induction l as [|x l IH]; intros H; [reflexivity|]. cbn [forallb].
  rewrite (H x (or_introl eq_refl)), IH; [reflexivity|]. intros y Hy. apply H. right. exact Hy.
Qed.

Lemma flat_map_In_ext {A B} (f g : A -> list B) l : (forall x, In x l -> f x = g x) -> flat_map f l = flat_map g l.
Proof. intros H. apply flat_map_Forall_ext. apply Forall_forall. exact H. Qed.

(* whether a REGISTERED path is a dot import is decided by its entry, under any hints *)
Lemma is_dot_registered cfg cfg' t p n :
  registered_name t p = Some n -> is_dot cfg' t p = is_dot cfg t p.
Proof.
  unfold registered_name, is_dot. destruct (str_eqb p s_C); [reflexivity|].
  destruct (alookup p t) as [d|]; [|discriminate].
  destruct (str_eqb (id_name d) [] || str_eqb (id_name d) s_us); [discriminate | reflexivity].
Qed.

(* the hints reach is_dot only through hint_is_dot *)
Lemma is_dot_hint cfg cfg' t p : hint_is_dot cfg' p = hint_is_dot cfg p -> is_dot cfg' t p = is_dot cfg t p.
Proof. intros H. unfold is_dot. rewrite H. reflexivity. Qed.

Section TwoConfigs.
  Variables cfg cfg' : config.
  Hypothesis Hpath : cfg_path cfg = cfg_path cfg'.

  Notation loc_same := (is_local_same cfg cfg' Hpath).

  Lemma pkg_text_same t p : pkg_text cfg' t p = pkg_text cfg t p.
  Proof. unfold pkg_text. rewrite <- loc_same. reflexivity. Qed.

  Lemma ptoken_same t tk : ptoken cfg' t tk = ptoken cfg t tk.
  Proof. destruct tk; try reflexivity. apply pkg_text_same. Qed.

  Lemma pre_occ_same x : pre_occ cfg' x = pre_occ cfg x.
  Proof. destruct x as [| | |tk| | | | |]; try reflexivity. destruct tk; try reflexivity. cbn [pre_occ]. rewrite <- loc_same. reflexivity. Qed.

  (* ---- the pure loops under two configurations ---- *)
  Lemma pitems_cong2 t (rec rec' : prec) name n items :
    (forall x, In x items -> is_null cfg' t x = is_null cfg t x) ->
    (forall x, In x items -> is_null cfg t x = false -> rec' false x = rec false x) ->
    pitems cfg' t rec' name n items = pitems cfg t rec name n items.
  Proof.
    induction items as [|c l IH]; intros Hn Hr; [reflexivity|]. cbn [pitems].
    rewrite (Hn c (or_introl eq_refl)).
    assert (IH' : pitems cfg' t rec' name n l = pitems cfg t rec name n l).
    { apply IH; intros x Hx; [apply Hn | apply Hr]; right; exact Hx. }
    destruct (is_null cfg t c) eqn:En; [exact IH'|].
    rewrite (Hr c (or_introl eq_refl) En), IH'. reflexivity.
  Qed.

  Lemma pstmt_items_cong2 t (rec rec' : prec) all items :
    (forall x, In x items -> is_null cfg' t x = is_null cfg t x) ->
    (forall x, In x items -> is_null cfg t x = false -> forall b, rec' b x = rec b x) ->
    pstmt_items cfg' t rec' all items = pstmt_items cfg t rec all items.
  Proof.
    induction items as [|c l IH]; intros Hn Hr; [reflexivity|]. cbn [pstmt_items].
    rewrite (Hn c (or_introl eq_refl)).
    assert (IH' : pstmt_items cfg' t rec' all l = pstmt_items cfg t rec all l).
    { apply IH; intros x Hx; [apply Hn | apply Hr]; right; exact Hx. }
    destruct (is_null cfg t c) eqn:En; [exact IH'|].
    rewrite (Hr c (or_introl eq_refl) En), IH'. reflexivity.
  Qed.

  Lemma pdict_entries_cong2 t (rec rec' : prec) pairs :
    (forall kv, In kv pairs -> is_null cfg' t (fst kv) = is_null cfg t (fst kv) /\
                               is_null cfg' t (snd kv) = is_null cfg t (snd kv)) ->
    (forall kv, In kv pairs -> is_null cfg t (fst kv) || is_null cfg t (snd kv) = false ->
                rec' false (fst kv) = rec false (fst kv) /\ rec' false (snd kv) = rec false (snd kv)) ->
    pdict_entries cfg' t rec' pairs = pdict_entries cfg t rec pairs.
  Proof.
    induction pairs as [|kv l IH]; intros Hn Hr; [reflexivity|]. cbn [pdict_entries].
    destruct (Hn kv (or_introl eq_refl)) as [Hn1 Hn2]. rewrite Hn1, Hn2.
    assert (IH' : pdict_entries cfg' t rec' l = pdict_entries cfg t rec l).
    { apply IH; intros x Hx; [apply Hn | apply Hr]; right; exact Hx. }
    destruct (is_null cfg t (fst kv) || is_null cfg t (snd kv)) eqn:En; [exact IH'|].
    destruct (Hr kv (or_introl eq_refl) En) as [Hr1 Hr2].
    rewrite Hr1, Hr2, IH'. reflexivity.
  Qed.

  (* ================================================================ arbitrary trees *)
  Section AtTable.
    Variable t : table.

    (* no package token of the tree changes between dot import and ordinary import (tokens
       of the local package are null anyway) *)
    Definition dot_agree (c : code) : Prop :=
      forall p, In p (pkgs c) -> is_local cfg p = true \/ is_dot cfg' t p = is_dot cfg t p.

    Lemma dot_agree_item (f : code -> list str) items x :
      (forall p, In p (flat_map pkgs items) -> is_local cfg p = true \/ is_dot cfg' t p = is_dot cfg t p) ->
      In x items -> dot_agree x.
    Proof. intros H Hx p Hp. apply H. apply in_flat_map. exists x. split; assumption. Qed.

    Lemma dot_agree_pair pairs kv :
      dot_agree (CDict pairs) -> In kv pairs -> dot_agree (fst kv) /\ dot_agree (snd kv).
    Proof.
      intros H Hin. split; intros p Hp; apply H; cbn [pkgs]; apply in_flat_map; exists kv;
        (split; [exact Hin|]); apply in_or_app; [left | right]; exact Hp.
    Qed.

    Lemma agree_null : forall c, dot_agree c -> is_null cfg' t c = is_null cfg t c.
    Proof.
      induction c as [| | |tk|gid name o cl sep multi items IH|items IH|pairs IH|kvs|s] using code_ind';
        intros Ha; try reflexivity.
      - destruct tk; try reflexivity. cbn [is_null]. rewrite <- loc_same.
        destruct (Ha path (or_introl eq_refl)) as [Hl|Hd]; [rewrite Hl, !orb_true_r; reflexivity | rewrite Hd; reflexivity].
      - cbn [is_null]. destruct (nonempty o || nonempty cl); [reflexivity|].
        apply forallb_In_ext. intros x Hx. rewrite Forall_forall in IH. apply (IH x Hx).
        exact (dot_agree_item pkgs items x Ha Hx).
      - cbn [is_null]. apply forallb_In_ext. intros x Hx. rewrite Forall_forall in IH. apply (IH x Hx).
        exact (dot_agree_item pkgs items x Ha Hx).
      - cbn [is_null]. apply forallb_In_ext. intros kv Hx. rewrite Forall_forall in IH.
        destruct (IH kv Hx) as [Ik Iv]. destruct (dot_agree_pair _ _ Ha Hx) as [Ak Av].
        rewrite (Ik Ak), (Iv Av). reflexivity.
    Qed.

    (* same set of needed paths, same pure text *)
    Lemma agree_all : forall c, dot_agree c ->
      occs cfg' t c = occs cfg t c /\ forall ctx, ptext cfg' t ctx c = ptext cfg t ctx c.
    Proof.
      induction c as [| | |tk|gid name o cl sep multi items IH|items IH|pairs IH|kvs|s] using code_ind';
        intros Ha; try (split; reflexivity).
      - split.
        + destruct tk; try reflexivity. cbn [occs]. rewrite <- loc_same. reflexivity.
        + intros ctx. cbn [ptext]. apply ptoken_same.
      - rewrite Forall_forall in IH.
        assert (Hi : forall x, In x items -> dot_agree x) by (intros x Hx; exact (dot_agree_item pkgs items x Ha Hx)).
        assert (Hn : forallb (is_null cfg' t) items = forallb (is_null cfg t) items).
        { apply forallb_In_ext. intros x Hx. apply agree_null. exact (Hi x Hx). }
        split.
        + rewrite !occs_group, Hn. destruct (str_eqb name s_types && forallb (is_null cfg t) items); [reflexivity|].
          apply flat_map_In_ext. intros x Hx. unfold item_occs.
          rewrite pre_occ_same, (agree_null x (Hi x Hx)), (proj1 (IH x Hx (Hi x Hx))). reflexivity.
        + intros ctx. rewrite !ptext_group, Hn.
          destruct (str_eqb name s_types && forallb (is_null cfg t) items); [reflexivity|]. cbv zeta.
          rewrite (pitems_cong2 t (ptext cfg t) (ptext cfg' t) name (length items) items); [reflexivity | |].
          * intros x Hx. apply agree_null. exact (Hi x Hx).
          * intros x Hx _. apply (proj2 (IH x Hx (Hi x Hx))).
      - rewrite Forall_forall in IH.
        assert (Hi : forall x, In x items -> dot_agree x) by (intros x Hx; exact (dot_agree_item pkgs items x Ha Hx)).
        split.
        + rewrite !occs_stmt. apply flat_map_In_ext. intros x Hx. unfold stmt_item_occs.
          rewrite (agree_null x (Hi x Hx)), (proj1 (IH x Hx (Hi x Hx))). reflexivity.
        + intros ctx. rewrite !ptext_stmt.
          rewrite (pstmt_items_cong2 t (ptext cfg t) (ptext cfg' t) items items); [reflexivity | |].
          * intros x Hx. apply agree_null. exact (Hi x Hx).
          * intros x Hx _ b. apply (proj2 (IH x Hx (Hi x Hx))).
      - rewrite Forall_forall in IH.
        assert (Hi : forall kv, In kv pairs -> dot_agree (fst kv) /\ dot_agree (snd kv))
          by (intros kv Hx; exact (dot_agree_pair _ _ Ha Hx)).
        split.
        + rewrite !occs_dict. apply flat_map_In_ext. intros kv Hx. unfold pair_occs, dead.
          destruct (Hi kv Hx) as [Ak Av]. destruct (IH kv Hx) as [Ik Iv].
          rewrite (agree_null _ Ak), (agree_null _ Av), (proj1 (Ik Ak)), (proj1 (Iv Av)). reflexivity.
        + intros ctx. rewrite !ptext_dict.
          rewrite (pdict_entries_cong2 t (ptext cfg t) (ptext cfg' t) pairs); [reflexivity | |].
          * intros kv Hx. destruct (Hi kv Hx) as [Ak Av]. split; apply agree_null; assumption.
          * intros kv Hx _. destruct (Hi kv Hx) as [Ak Av]. destruct (IH kv Hx) as [Ik Iv].
            split; [apply (proj2 (Ik Ak)) | apply (proj2 (Iv Av))].
    Qed.

    (* ================================================================ trees the API builds *)
    (* package tokens only where Qual puts them: null-ness of every element that the
       traversal tests does not depend on hints at all, and the package token of a written
       Qual is registered *)
    Lemma qual_items_text p n :
      (is_local cfg p = false -> exists q, registered_name t p = Some q) ->
      forall name k,
      pitems cfg' t (ptext cfg' t) name k [CTok (TkPkg p); CTok (TkId n)] =
      pitems cfg t (ptext cfg t) name k [CTok (TkPkg p); CTok (TkId n)].
    Proof.
      intros Hreg name k. apply pitems_cong2.
      - intros x [<-|[<-|[]]]; [|reflexivity]. cbn [is_null]. rewrite <- loc_same.
        destruct (is_local cfg p) eqn:El; [rewrite !orb_true_r; reflexivity|].
        destruct (Hreg eq_refl) as [q Hq]. rewrite (is_dot_registered cfg cfg' t p q Hq). reflexivity.
      - intros x [<-|[<-|[]]] _; [|reflexivity]. cbn [ptext]. apply ptoken_same.
    Qed.

    Lemma qual_only_text : forall c, qual_only c = true -> covered cfg t c ->
      forall ctx, ptext cfg' t ctx c = ptext cfg t ctx c.
    Proof.
      induction c as [| | |tk|gid name o cl sep multi items IH|items IH|pairs IH|kvs|s] using code_ind';
        intros Hq Hcov ctx; try reflexivity.
      - destruct tk; try reflexivity. discriminate.
      - cbn [qual_only] in Hq. rewrite !ptext_group.
        rewrite <- (qual_only_forallb_null cfg cfg' t t items Hq).
        unfold covered in Hcov. rewrite occs_group in Hcov.
        destruct (str_eqb name s_types && forallb (is_null cfg t) items); [reflexivity|]. cbv zeta.
        assert (Hp : pitems cfg' t (ptext cfg' t) name (length items) items =
                     pitems cfg t (ptext cfg t) name (length items) items); [|rewrite Hp; reflexivity].
        destruct (is_qual_items items) eqn:Eq.
        + apply is_qual_items_inv in Eq. destruct Eq as (p & n & ->). apply qual_items_text.
          intros El. apply Hcov. cbn [flat_map]. apply in_or_app. left. unfold item_occs. cbn [pre_occ].
          rewrite El. left. reflexivity.
        + cbn [orb] in Hq. rewrite forallb_forall in Hq. rewrite Forall_forall in IH. apply pitems_cong2.
          * intros x Hx. symmetry. apply (qual_only_null cfg cfg' t t x (Hq x Hx)).
          * intros x Hx En. apply (IH x Hx (Hq x Hx)).
            pose proof (reg_in_flat_map _ _ _ _ Hcov Hx) as Hr. unfold item_occs in Hr. rewrite En in Hr.
            exact (reg_in_app_r _ _ _ Hr).
      - cbn [qual_only] in Hq. rewrite forallb_forall in Hq. rewrite Forall_forall in IH.
        unfold covered in Hcov. rewrite occs_stmt in Hcov. rewrite !ptext_stmt.
        rewrite (pstmt_items_cong2 t (ptext cfg t) (ptext cfg' t) items items); [reflexivity | |].
        + intros x Hx. symmetry. apply (qual_only_null cfg cfg' t t x (Hq x Hx)).
        + intros x Hx En b. apply (IH x Hx (Hq x Hx)).
          pose proof (reg_in_flat_map _ _ _ _ Hcov Hx) as Hr. unfold stmt_item_occs in Hr. rewrite En in Hr. exact Hr.
      - cbn [qual_only] in Hq. rewrite forallb_forall in Hq. rewrite Forall_forall in IH.
        unfold covered in Hcov. rewrite occs_dict in Hcov. rewrite !ptext_dict.
        rewrite (pdict_entries_cong2 t (ptext cfg t) (ptext cfg' t) pairs); [reflexivity | |].
        + intros kv Hx. specialize (Hq kv Hx). apply andb_true_iff in Hq. destruct Hq as [Q1 Q2].
          split; symmetry; [apply (qual_only_null cfg cfg' t t _ Q1) | apply (qual_only_null cfg cfg' t t _ Q2)].
        + intros kv Hx En. specialize (Hq kv Hx). apply andb_true_iff in Hq. destruct Hq as [Q1 Q2].
          destruct (IH kv Hx) as [Ik Iv].
          pose proof (reg_in_flat_map _ _ _ _ Hcov Hx) as Hr. unfold pair_occs, dead in Hr. rewrite En in Hr.
          split; [apply (Ik Q1); exact (reg_in_app_l _ _ _ Hr) | apply (Iv Q2); exact (reg_in_app_r _ _ _ Hr)].
    Qed.

    Lemma qual_only_covered c : qual_only c = true -> covered cfg t c -> covered cfg' t c.
    Proof. intros Hq Hc p Hp. apply Hc. apply (qual_only_occs cfg cfg' Hpath t t c Hq p). exact Hp. Qed.
  End AtTable.

  Hypothesis Hcfg : cfg_ok cfg.

  (* THE TEXT IS STABLE UNDER LATER HINTS AND PREFIX, trees of the API.  No hypothesis on
     cfg' other than the same local path: any hints (legal or not), any prefix. *)
  Theorem text_stable_later_hints c ctx t t1 s :
    qual_only c = true -> render cfg ctx t c = Ok (t1, s) ->
    forall t2, ext cfg t1 t2 -> render cfg' ctx t2 c = Ok (t2, s).
  Proof.
    intros Hq Hr t2 He.
    destruct (render_factorisation cfg Hcfg _ _ _ _ _ Hr) as [_ Hcov1].
    pose proof (covered_ext cfg _ _ _ He Hcov1) as Hcov.
    pose proof (render_factorisation_later cfg Hcfg _ _ _ _ _ _ Hr He) as Hp.
    rewrite (render_covered cfg' t2 c (qual_only_covered t2 c Hq Hcov) ctx).
    rewrite (qual_only_text t2 c Hq Hcov ctx), Hp. reflexivity.
  Qed.

  (* ... arbitrary trees of the model: as long as no package token of the tree changes
     between dot import and ordinary import at the table the later render starts from *)
  Theorem text_stable_later_hints_general c ctx t t1 s :
    render cfg ctx t c = Ok (t1, s) ->
    forall t2, ext cfg t1 t2 -> dot_agree t2 c -> render cfg' ctx t2 c = Ok (t2, s).
  Proof.
    intros Hr t2 He Ha.
    destruct (render_factorisation cfg Hcfg _ _ _ _ _ Hr) as [_ Hcov1].
    pose proof (covered_ext cfg _ _ _ He Hcov1) as Hcov.
    pose proof (render_factorisation_later cfg Hcfg _ _ _ _ _ _ Hr He) as Hp.
    destruct (agree_all t2 c Ha) as [Ho Ht].
    assert (Hcov' : covered cfg' t2 c) by (intros p Hin; apply Hcov; rewrite <- Ho; exact Hin).
    rewrite (render_covered cfg' t2 c Hcov' ctx), Ht, Hp. reflexivity.
  Qed.

  (* two ways to meet dot_agree: the later hints say the same about dot imports for the
     paths of the tree; or every path of the tree is registered (or local) *)
  Lemma dot_agree_hints t c :
    (forall p, In p (pkgs c) -> hint_is_dot cfg' p = hint_is_dot cfg p) -> dot_agree t c.
  Proof. intros H p Hp. right. apply is_dot_hint. apply H. exact Hp. Qed.

  Lemma dot_agree_registered t c :
    (forall p, In p (pkgs c) -> is_local cfg p = true \/ exists q, registered_name t p = Some q) -> dot_agree t c.
  Proof. intros H p Hp. destruct (H p Hp) as [Hl|[q Hq]]; [left; exact Hl | right; exact (is_dot_registered cfg cfg' t p q Hq)]. Qed.
End TwoConfigs.

(* File level: File.Render, then any ImportName / ImportAlias / ImportNames / PackagePrefix
   calls, then File.Render again: the same table and the same bytes handed to the formatter. *)
Definition same_file_but_hints (f f' : file) : Prop :=
  f_name f' = f_name f /\ f_path f' = f_path f /\ f_comments f' = f_comments f /\
  f_headers f' = f_headers f /\ f_cgo f' = f_cgo f /\ f_canonical f' = f_canonical f /\ f_items f' = f_items f.

Theorem file_raw_stable_later_hints f f' t1 raw :
  cfg_ok (file_cfg f) -> forallb qual_only (f_items f) = true ->
  file_raw f = Ok (t1, raw) ->
  same_file_but_hints f f' -> f_imports f' = t1 ->
  file_raw f' = Ok (t1, raw).
Proof.
  intros Hc Hq Hr (Hn & Hp & Hcm & Hh & Hcg & Hcan & Hit) Hi.
  destruct (file_raw_render _ _ _ Hr) as (s & Hs & ->).
  assert (Hpath : cfg_path (file_cfg f) = cfg_path (file_cfg f')) by (cbn; symmetry; exact Hp).
  pose proof (text_stable_later_hints (file_cfg f) (file_cfg f') Hpath Hc (file_group f) false _ _ _
                (file_group_qual_only f Hq) Hs t1 (ext_refl _ _)) as H2.
  unfold file_raw. rewrite Hi. unfold file_group at 1. rewrite Hit. fold (file_group f). rewrite H2.
  cbn [bind fst snd]. unfold file_head. rewrite Hh, Hcm, Hn, Hcan, Hcg. reflexivity.
Qed.

(* the condition is needed for arbitrary model trees: a BARE package token as an item of a
   statement is null under a dot hint - skipped, never registered - and written once the hint
   is gone (no API function builds such a tree) *)
Lemma bare_token_hint_exception :
  exists cfg cfg' c,
    cfg_ok cfg /\ cfg_ok cfg' /\ cfg_path cfg = cfg_path cfg' /\ qual_only c = false /\
    render cfg false [] c = Ok ([], S "X") /\
    render cfg' false [] c = Ok ([(S "a/b", mkdef (S "b") true)], S "b X").
Proof.
  exists (mkcfg [] [] [(S "a/b", mkdef s_dot true)]), (mkcfg [] [] []),
         (CStmt [CTok (TkPkg (S "a/b")); CTok (TkId (S "X"))]).
  split; [|split; [|split; [reflexivity|]]].
  - split; [|left; reflexivity]. intros p h. simpl. destruct (str_eqb p (S "a/b")); [|discriminate].
    intros E. injection E as <-. right. left. reflexivity.
  - split; [intros p h E; discriminate | left; reflexivity].
  - split; [reflexivity|]. split; vm_compute; reflexivity.
Qed.
