(* T1a: the set of import paths a render registers, computed structurally on the tree
   ([occs]), and the theorem that the domain of the import table after a successful render is
   exactly the domain before it united with [occs] - nothing is lost, nothing else is added,
   and entries of other paths are not touched.  Same architecture as the stabilisation
   theorem of RenderProofs.v (one lemma per loop, nested induction with [code_ind']). *)
From Jen Require Import Base.Bytes Base.Num Base.Sort Model.Code Model.Naming Model.Render Model.FileRender Gen.Tables.
From Jen Require Import Proofs.NamingProofs Proofs.RenderProofs.
From Coq Require Import Lia Permutation.
Local Open Scope bool_scope.

(* ------------------------------------------------------------------ association lists *)
Section AssocDom.
  Context {V : Type}.

  Lemma akeys_aset_In (k : str) (v : V) m q : In q (akeys (aset k v m)) <-> q = k \/ In q (akeys m).
  Proof.
    induction m as [|[k' v'] m IH]; simpl.
    - split; [intros [H|[]]; left; congruence | intros [H|[]]; left; congruence].
    - destruct (str_eqb_spec k k') as [->|Hk]; simpl.
      + split; [intros [H|H]; [left; congruence | right; right; exact H] | intros [H|[H|H]]; [left; congruence | left; exact H | right; exact H]].
      + rewrite IH. split; [intros [H|[H|H]]; auto | intros [H|[H|H]]; auto].
  Qed.

  Lemma alookup_Some_akeys (m : list (str * V)) k v : alookup k m = Some v -> In k (akeys m).
  Proof. intros H. apply alookup_In in H. change k with (fst (k, v)). apply in_map. exact H. Qed.

  Lemma akeys_alookup (m : list (str * V)) k : In k (akeys m) -> exists v, alookup k m = Some v.
  Proof.
    intros H. destruct (alookup k m) as [v|] eqn:E; [exists v; reflexivity|].
    apply alookup_None in E. contradiction.
  Qed.
End AssocDom.

Lemma flat_map_Forall_ext {A B} (f g : A -> list B) l :
  Forall (fun x => f x = g x) l -> flat_map f l = flat_map g l.
Proof. induction 1 as [|x l Hx _ IH]; [reflexivity|]. cbn [flat_map]. rewrite Hx, IH. reflexivity. Qed.

(* ------------------------------------------------------------------ growth of a table *)
(* [grows t t1 O]: t1 has exactly the paths of t and those of O, and the entries of all
   paths outside O are the ones t had *)
Definition grows (t t1 : table) (O : list str) : Prop :=
  (forall p, In p (akeys t1) <-> In p (akeys t) \/ In p O) /\
  (forall q, ~ In q O -> alookup q t1 = alookup q t) /\
  keeps t t1 /\
  (forall p, In p O -> exists q, registered_name t1 p = Some q).

Lemma grows_refl t : grows t t [].
Proof. split; [intros p; simpl; tauto|]. split; [reflexivity|]. split; [apply keeps_refl | intros p []]. Qed.

Lemma grows_trans t ta tb O1 O2 : grows t ta O1 -> grows ta tb O2 -> grows t tb (O1 ++ O2).
Proof.
  intros (D1 & F1 & K1 & R1) (D2 & F2 & K2 & R2). split; [|split; [|split]].
  - intros p. rewrite D2, D1, in_app_iff. tauto.
  - intros q Hq. rewrite in_app_iff in Hq. rewrite F2 by tauto. apply F1. tauto.
  - eapply keeps_trans; eassumption.
  - intros p Hp. apply in_app_iff in Hp. destruct Hp as [Hp|Hp]; [|apply R2; exact Hp].
    destruct (R1 p Hp) as [q Hq]. exists q. eapply keeps_registered; eassumption.
Qed.

Lemma grows_equiv t t1 O O' : (forall p, In p O <-> In p O') -> grows t t1 O -> grows t t1 O'.
Proof.
  intros He (D & F & K & R). split; [|split; [|split]].
  - intros p. rewrite D, He. reflexivity.
  - intros q Hq. apply F. rewrite He. exact Hq.
  - exact K.
  - intros p Hp. apply R. rewrite He. exact Hp.
Qed.

Lemma registered_in_dom t p n : registered_name t p = Some n -> In p (akeys t).
Proof.
  unfold registered_name. destruct (alookup p t) as [d|] eqn:E; [|discriminate].
  intros _. eapply alookup_Some_akeys. exact E.
Qed.

(* ------------------------------------------------------------------ registrations as steps *)
Section Steps.
  Variable cfg : config.

  (* t' is reached from t by a sequence of register calls *)
  Inductive reg_steps : table -> table -> Prop :=
  | rs_nil t : reg_steps t t
  | rs_cons t p t' n t'' : register cfg t p = Ok (t', n) -> reg_steps t' t'' -> reg_steps t t''.

  Lemma reg_steps_trans a b c : reg_steps a b -> reg_steps b c -> reg_steps a c.
  Proof. induction 1 as [|t p t' n t'' Hr _ IH]; [auto|]. intros H. eapply rs_cons; [exact Hr | apply IH; exact H]. Qed.

  Lemma reg_steps_one t p t' n : register cfg t p = Ok (t', n) -> reg_steps t t'.
  Proof. intros H. eapply rs_cons; [exact H | apply rs_nil]. Qed.

  (* every property of tables kept by [register] is kept by a sequence of them *)
  Lemma reg_steps_invariant (I : table -> Prop) :
    (forall t p t' n, I t -> register cfg t p = Ok (t', n) -> I t') ->
    forall t t', reg_steps t t' -> I t -> I t'.
  Proof. intros Hstep t t' H. induction H as [|t p t' n t'' Hr _ IH]; [auto|]. intros Ht. apply IH. eapply Hstep; eassumption. Qed.

  (* ... and it is a history in the sense of NamingProofs.v *)
  Lemma reg_steps_history t t' : reg_steps t t' -> exists ps, t' = fold_left nstep (map (NReg cfg) ps) t.
  Proof.
    induction 1 as [t|t p t' n t'' Hr _ [ps IH]]; [exists []; reflexivity|].
    exists (p :: ps). cbn [map fold_left nstep]. rewrite Hr. exact IH.
  Qed.

  Definition steps_fn {A} (f : table -> result (table * A)) : Prop :=
    forall t t1 s, f t = Ok (t1, s) -> reg_steps t t1.

  Lemma token_steps tk : steps_fn (fun t => render_token cfg t tk).
  Proof.
    intros t t1 s. destruct tk; cbn [render_token]; try (intros H; injection H as <- <-; apply rs_nil).
    - apply reg_steps_one.
    - destruct (lit_text l) as [x|m]; cbn [bind]; [|discriminate]. intros H; injection H as <- <-; apply rs_nil.
  Qed.

  Definition steps (c : code) : Prop := forall ctx, steps_fn (fun t => render cfg ctx t c).

  Lemma group_loop_steps name sep multi nitems items :
    Forall steps items ->
    forall first t t1 isn s,
      group_loop cfg (render cfg) name sep multi nitems t first items = Ok (t1, isn, s) -> reg_steps t t1.
  Proof.
    intros Hst. induction Hst as [|c l Hc _ IH]; intros first t t1 isn s; cbn [group_loop].
    - intros H. injection H as <- <- <-. apply rs_nil.
    - assert (Hp : forall t0, match c with
                              | CTok (TkPkg p) => bind (register cfg t p) (fun r => Ok (fst r))
                              | _ => Ok t
                              end = Ok t0 -> reg_steps t t0).
      { intros t0. destruct c as [| | |tk| | | | |]; try (intros H; injection H as <-; apply rs_nil).
        destruct tk; try (intros H; injection H as <-; apply rs_nil).
        destruct (register cfg t path) as [[t' n]|m] eqn:E; cbn [bind fst]; [|discriminate].
        intros H. injection H as <-. eapply reg_steps_one. exact E. }
      destruct (match c with
                | CTok (TkPkg p) => bind (register cfg t p) (fun r => Ok (fst r))
                | _ => Ok t
                end) as [t0|m]; cbn [bind]; [|discriminate].
      specialize (Hp t0 eq_refl).
      destruct (is_null cfg t0 c).
      + intros H. eapply reg_steps_trans; [exact Hp | eapply IH; exact H].
      + destruct (str_eqb name s_values && is_dict c && Nat.ltb 1 nitems); [discriminate|].
        destruct (render cfg false t0 c) as [[ta sa]|m] eqn:Er; cbn [bind fst snd]; [|discriminate].
        destruct (group_loop cfg (render cfg) name sep multi nitems ta false l) as [[[tb isb] sb]|m] eqn:El;
          cbn [bind fst snd]; [|discriminate].
        intros H. injection H as <- <- <-.
        eapply reg_steps_trans; [exact Hp|]. eapply reg_steps_trans; [eapply Hc; exact Er | eapply IH; exact El].
  Qed.

  Lemma stmt_loop_steps all items :
    Forall steps items -> forall first, steps_fn (fun t => stmt_loop cfg (render cfg) all t first items).
  Proof.
    intros Hst. induction Hst as [|c l Hc _ IH]; intros first t t1 s; cbn [stmt_loop].
    - intros H. injection H as <- <-. apply rs_nil.
    - destruct (is_null cfg t c); [apply IH|].
      destruct (render cfg (case_ctx all c) t c) as [[ta sa]|m] eqn:Er; cbn [bind fst snd]; [|discriminate].
      destruct (stmt_loop cfg (render cfg) all ta false l) as [[tb sb]|m] eqn:El; cbn [bind fst snd]; [|discriminate].
      intros H. injection H as <- <-.
      eapply reg_steps_trans; [eapply Hc; exact Er | eapply IH; exact El].
  Qed.

  Definition entry_steps (e : dict_entry) : Prop := steps_fn (snd (fst e)) /\ steps_fn (snd e).

  Lemma dict_pass1_steps pairs :
    Forall (fun kv => steps (fst kv) /\ steps (snd kv)) pairs ->
    forall t t1 es, dict_pass1 cfg (render cfg) t pairs = Ok (t1, es) ->
      reg_steps t t1 /\ Forall entry_steps es.
  Proof.
    intros Hst. induction Hst as [|[k v] l [Hk Hv] _ IH]; intros t t1 es; cbn [dict_pass1 fst snd].
    - intros H. injection H as <- <-. split; [apply rs_nil | constructor].
    - cbn [fst snd] in Hk, Hv. destruct (is_null cfg t k || is_null cfg t v); [apply IH|].
      destruct (render cfg false t k) as [[ta sa]|m] eqn:Er; cbn [bind fst snd]; [|discriminate].
      destruct (dict_pass1 cfg (render cfg) ta l) as [[tb esb]|m] eqn:El; cbn [bind fst snd]; [|discriminate].
      intros H. injection H as <- <-. destruct (IH _ _ _ El) as [Hs Hes].
      split; [eapply reg_steps_trans; [eapply Hk; exact Er | exact Hs]|].
      constructor; [|exact Hes]. split; cbn [fst snd]; [apply Hk | apply Hv].
  Qed.

  Lemma dict_pass2_steps several l :
    Forall entry_steps l -> forall first, steps_fn (fun t => dict_pass2 several t first l).
  Proof.
    intros Hst. induction Hst as [|e l [Hk Hv] _ IH]; intros first t t1 s; cbn [dict_pass2].
    - intros H. injection H as <- <-. apply rs_nil.
    - destruct (snd (fst e) t) as [[ta sa]|m] eqn:Ek; cbn [bind fst snd]; [|discriminate].
      destruct (snd e ta) as [[tb sb]|m] eqn:Ev; cbn [bind fst snd]; [|discriminate].
      destruct (dict_pass2 several tb false l) as [[tc sc]|m] eqn:El; cbn [bind fst snd]; [|discriminate].
      intros H. injection H as <- <-.
      eapply reg_steps_trans; [eapply Hk; exact Ek|].
      eapply reg_steps_trans; [eapply Hv; exact Ev | eapply IH; exact El].
  Qed.

  (* a render changes the import table only through register calls *)
  Theorem render_steps : forall c, steps c.
  Proof.
    induction c as [| | |tk|gid name o cl sep multi items IH|items IH|pairs IH|kvs|s] using code_ind';
      intros ctx t t1 s0; cbn [render]; try discriminate.
    - apply token_steps.
    - destruct (str_eqb name s_types && forallb (is_null cfg t) items).
      + intros H. injection H as <- <-. apply rs_nil.
      + destruct (group_loop cfg (render cfg) name sep multi (length items) t true items) as [[[ta isa] sa]|m] eqn:El;
          cbn [bind fst snd]; [|discriminate].
        intros H. injection H as <- <-. eapply group_loop_steps; [exact IH | exact El].
    - apply stmt_loop_steps. exact IH.
    - destruct (dict_pass1 cfg (render cfg) t pairs) as [[ta es]|m] eqn:E1; cbn [bind fst snd]; [|discriminate].
      destruct (dict_pass1_steps pairs IH _ _ _ E1) as [Hs Hes]. intros H2.
      eapply reg_steps_trans; [exact Hs|].
      eapply (dict_pass2_steps _ (isort_by dict_key es)); [|exact H2].
      rewrite Forall_forall in *. intros e He. apply Hes. apply (isort_by_In dict_key). exact He.
    - intros H. injection H as <- <-. apply rs_nil.
    - intros H. injection H as <- <-. apply rs_nil.
  Qed.

  Corollary render_invariant (I : table -> Prop) :
    (forall t p t' n, I t -> register cfg t p = Ok (t', n) -> I t') ->
    forall c ctx t t1 s, render cfg ctx t c = Ok (t1, s) -> I t -> I t1.
  Proof. intros Hstep c ctx t t1 s H. eapply reg_steps_invariant; [exact Hstep | eapply render_steps; exact H]. Qed.

  Corollary render_history c ctx t t1 s :
    render cfg ctx t c = Ok (t1, s) -> exists ps, t1 = fold_left nstep (map (NReg cfg) ps) t.
  Proof. intros H. apply reg_steps_history. eapply render_steps. exact H. Qed.

  Lemma register_NoDup t p t' n : NoDup (akeys t) -> register cfg t p = Ok (t', n) -> NoDup (akeys t').
  Proof.
    intros Hnd Hr. apply register_cases in Hr.
    destruct Hr as [Hl | n Hl Hk | Hl Hk HC | name alias i Hl Hk HC Hc Hok Hmin]; try exact Hnd;
      apply akeys_aset_NoDup; exact Hnd.
  Qed.

  (* no path is ever listed twice *)
  Corollary render_NoDup c ctx t t1 s :
    render cfg ctx t c = Ok (t1, s) -> NoDup (akeys t) -> NoDup (akeys t1).
  Proof. apply (render_invariant (fun t => NoDup (akeys t))). intros; eapply register_NoDup; eassumption. Qed.
End Steps.

Corollary render_Inv cfg c ctx t t1 s :
  cfg_ok cfg -> render cfg ctx t c = Ok (t1, s) -> Inv t -> Inv t1.
Proof. intros Hc. apply (render_invariant cfg Inv). intros; eapply register_Inv; eassumption. Qed.

Corollary render_Inv_Legal cfg c ctx t t1 s :
  cfg_ok cfg -> render cfg ctx t c = Ok (t1, s) -> Inv t /\ Legal t -> Inv t1 /\ Legal t1.
Proof.
  intros Hc. apply (render_invariant cfg (fun t => Inv t /\ Legal t)).
  intros t0 p t' n [HI HL] Hr. split; [eapply register_Inv | eapply register_Legal]; eassumption.
Qed.

(* ------------------------------------------------------------------ occs *)
Section Occs.
  Variable cfg : config.

  (* what Group.renderItems registers for an item before it looks at its null-ness
     (group.go:89-95): the path of a package token, even when the token is a dot import *)
  Definition pre_occ (c : code) : list str :=
    match c with
    | CTok (TkPkg p) => if is_local cfg p then [] else [p]
    | _ => []
    end.

  (* THE SPEC: the non-local paths that rendering [c] from table [t] registers, as a set
     (order irrelevant, repetitions allowed), by recursion on the tree; null-ness is taken at
     the initial table *)
  Fixpoint occs (t : table) (c : code) : list str :=
    match c with
    | CTok (TkPkg p) => if is_local cfg p then [] else [p]
    | CGroup _ name _ _ _ _ items =>
      if str_eqb name s_types && forallb (is_null cfg t) items then []
      else flat_map (fun x => pre_occ x ++ (if is_null cfg t x then [] else occs t x)) items
    | CStmt items => flat_map (fun x => if is_null cfg t x then [] else occs t x) items
    | CDict pairs =>
      flat_map (fun kv => if is_null cfg t (fst kv) || is_null cfg t (snd kv) then []
                          else occs t (fst kv) ++ occs t (snd kv)) pairs
    | _ => []
    end.

  Definition item_occs (t : table) (x : code) : list str :=
    pre_occ x ++ (if is_null cfg t x then [] else occs t x).
  Definition stmt_item_occs (t : table) (x : code) : list str :=
    if is_null cfg t x then [] else occs t x.
  Definition dead (t : table) (kv : code * code) : bool := is_null cfg t (fst kv) || is_null cfg t (snd kv).
  Definition pair_occs (t : table) (kv : code * code) : list str :=
    if dead t kv then [] else occs t (fst kv) ++ occs t (snd kv).
  Definition key_occs (t : table) (kv : code * code) : list str :=
    if dead t kv then [] else occs t (fst kv).
  Definition both_occs (t : table) (kv : code * code) : list str := occs t (fst kv) ++ occs t (snd kv).

  Lemma occs_group t gid name o cl sep multi items :
    occs t (CGroup gid name o cl sep multi items) =
    if str_eqb name s_types && forallb (is_null cfg t) items then [] else flat_map (item_occs t) items.
  Proof. reflexivity. Qed.
  Lemma occs_stmt t items : occs t (CStmt items) = flat_map (stmt_item_occs t) items.
  Proof. reflexivity. Qed.
  Lemma occs_dict t pairs : occs t (CDict pairs) = flat_map (pair_occs t) pairs.
  Proof. reflexivity. Qed.

  (* every path of occs is a non-local path *)
  Lemma occs_not_local t c p : In p (occs t c) -> is_local cfg p = false.
  Proof.
    induction c as [| | |tk|gid name o cl sep multi items IH|items IH|pairs IH|kvs|s] using code_ind';
      cbn [occs]; try (intros []).
    - destruct tk; try (intros []). destruct (is_local cfg path) eqn:E; [intros [] | intros [<-|[]]; exact E].
    - destruct (str_eqb name s_types && forallb (is_null cfg t) items); [intros []|].
      intros H. apply in_flat_map in H. destruct H as (x & Hx & Hp). rewrite Forall_forall in IH.
      apply in_app_iff in Hp. destruct Hp as [Hp|Hp].
      + destruct x as [| | |tk| | | | |]; try destruct Hp. destruct tk; try destruct Hp.
        cbn [pre_occ] in Hp. destruct (is_local cfg path) eqn:E; [destruct Hp | destruct Hp as [<-|[]]; exact E].
      + destruct (is_null cfg t x); [destruct Hp | apply (IH x Hx Hp)].
    - intros H. apply in_flat_map in H. destruct H as (x & Hx & Hp). rewrite Forall_forall in IH.
      destruct (is_null cfg t x); [destruct Hp | apply (IH x Hx Hp)].
    - intros H. apply in_flat_map in H. destruct H as (kv & Hx & Hp). rewrite Forall_forall in IH.
      destruct (is_null cfg t (fst kv) || is_null cfg t (snd kv)); [destruct Hp|].
      apply in_app_iff in Hp. destruct (IH kv Hx) as [H1 H2]. destruct Hp as [Hp|Hp]; auto.
  Qed.

  Hypothesis Hcfg : cfg_ok cfg.
  Notation ext := (ext cfg).

  Lemma forallb_is_null_ext t t' l : ext t t' -> forallb (is_null cfg t') l = forallb (is_null cfg t) l.
  Proof.
    intros H. induction l as [|x l IHl]; [reflexivity|]. cbn [forallb].
    rewrite (is_null_ext cfg _ _ x H), IHl. reflexivity.
  Qed.

  (* occs only looks at the table through null-ness, which extensions preserve *)
  Lemma occs_ext t t' c : ext t t' -> occs t' c = occs t c.
  Proof.
    intros H. induction c as [| | |tk|gid name o cl sep multi items IH|items IH|pairs IH|kvs|s] using code_ind';
      try reflexivity; cbn [occs].
    - rewrite (forallb_is_null_ext _ _ items H).
      destruct (str_eqb name s_types && forallb (is_null cfg t) items); [reflexivity|].
      apply flat_map_Forall_ext. eapply Forall_impl; [|exact IH]. intros x Hx. cbv beta.
      rewrite (is_null_ext cfg _ _ x H), Hx. reflexivity.
    - apply flat_map_Forall_ext. eapply Forall_impl; [|exact IH]. intros x Hx. cbv beta.
      rewrite (is_null_ext cfg _ _ x H), Hx. reflexivity.
    - apply flat_map_Forall_ext. eapply Forall_impl; [|exact IH]. intros kv [Hk Hv]. cbv beta.
      rewrite !(is_null_ext cfg _ _ _ H), Hk, Hv. reflexivity.
  Qed.

  Lemma item_occs_ext t t' l : ext t t' -> flat_map (item_occs t') l = flat_map (item_occs t) l.
  Proof.
    intros H. apply flat_map_ext. intros x. unfold item_occs.
    rewrite (is_null_ext cfg _ _ x H), (occs_ext _ _ x H). reflexivity.
  Qed.
  Lemma stmt_item_occs_ext t t' l : ext t t' -> flat_map (stmt_item_occs t') l = flat_map (stmt_item_occs t) l.
  Proof.
    intros H. apply flat_map_ext. intros x. unfold stmt_item_occs.
    rewrite (is_null_ext cfg _ _ x H), (occs_ext _ _ x H). reflexivity.
  Qed.
  Lemma dead_ext t t' kv : ext t t' -> dead t' kv = dead t kv.
  Proof. intros H. unfold dead. rewrite !(is_null_ext cfg _ _ _ H). reflexivity. Qed.
  Lemma key_occs_ext t t' l : ext t t' -> flat_map (key_occs t') l = flat_map (key_occs t) l.
  Proof.
    intros H. apply flat_map_ext. intros x. unfold key_occs.
    rewrite (dead_ext _ _ x H), (occs_ext _ _ _ H). reflexivity.
  Qed.
  Lemma both_occs_ext t t' l : ext t t' -> flat_map (both_occs t') l = flat_map (both_occs t) l.
  Proof.
    intros H. apply flat_map_ext. intros x. unfold both_occs. rewrite !(occs_ext _ _ _ H). reflexivity.
  Qed.
  Lemma filter_live_ext t t' l : ext t t' -> filter (fun kv => negb (dead t' kv)) l = filter (fun kv => negb (dead t kv)) l.
  Proof. intros H. apply filter_ext. intros kv. rewrite (dead_ext _ _ kv H). reflexivity. Qed.

  (* one register call: exactly the path, when it is not the local one *)
  Lemma register_grows t p t1 n :
    register cfg t p = Ok (t1, n) -> grows t t1 (if is_local cfg p then [] else [p]).
  Proof.
    intros Hr0. pose proof (register_ext cfg Hcfg _ _ _ _ Hr0) as [HK _].
    assert (Hret : is_local cfg p = false -> registered_name t1 p = Some n).
    { intros Hl. eapply register_returns_entry; eassumption. }
    pose proof Hr0 as Hr. apply register_cases in Hr.
    destruct Hr as [Hl | n Hl Hk | Hl Hk HC | name alias i Hl Hk HC Hc Hok Hmin]; rewrite Hl.
    - apply grows_refl.
    - split; [|split; [reflexivity|split; [exact HK|]]].
      + intros q. split; [auto|]. intros [H|[<-|[]]]; [exact H|]. eapply registered_in_dom. exact Hk.
      + intros q [<-|[]]. exists n. exact Hk.
    - subst p. split; [|split; [|split; [exact HK|]]].
      + intros q. rewrite akeys_aset_In. simpl. split; [intros [H|H]; auto | intros [H|[H|[]]]; auto].
      + intros q Hq. apply alookup_aset_other. intros E. apply Hq. left. exact E.
      + intros q [<-|[]]. eexists. apply Hret. exact Hl.
    - split; [|split; [|split; [exact HK|]]].
      + intros q. rewrite akeys_aset_In. simpl. split; [intros [H|H]; auto | intros [H|[H|[]]]; auto].
      + intros q Hq. apply alookup_aset_other. intros E. apply Hq. left. exact E.
      + intros q [<-|[]]. eexists. apply Hret. exact Hl.
  Qed.

  Lemma prereg_grows t c t0 : prereg cfg t c = Ok t0 -> grows t t0 (pre_occ c).
  Proof.
    unfold prereg, pre_occ. destruct c as [| | |tk| | | | |]; try (intros H; injection H as <-; apply grows_refl).
    destruct tk; try (intros H; injection H as <-; apply grows_refl).
    destruct (register cfg t path) as [[t' n]|m] eqn:E; cbn [bind fst]; [|discriminate].
    intros H. injection H as <-. eapply register_grows. exact E.
  Qed.

  Definition grows_ok (c : code) : Prop :=
    forall ctx t t1 s, render cfg ctx t c = Ok (t1, s) -> grows t t1 (occs t c).

  Lemma token_grows tk : grows_ok (CTok tk).
  Proof.
    intros ctx t t1 s. cbn [render occs]. destruct tk; cbn [render_token];
      try (intros H; injection H as <- <-; apply grows_refl).
    - apply register_grows.
    - destruct (lit_text l) as [x|m]; cbn [bind]; [|discriminate]. intros H; injection H as <- <-; apply grows_refl.
  Qed.

  Lemma group_loop_grows name sep multi nitems items :
    Forall grows_ok items ->
    forall first t t1 isn s,
      group_loop cfg (render cfg) name sep multi nitems t first items = Ok (t1, isn, s) ->
      grows t t1 (flat_map (item_occs t) items).
  Proof.
    intros Hst. induction Hst as [|c l Hc _ IH]; intros first t t1 isn s; cbn [group_loop flat_map].
    - intros H. injection H as <- <- <-. apply grows_refl.
    - fold (prereg cfg t c).
      destruct (prereg cfg t c) as [t0|m] eqn:Ep; cbn [bind]; [|discriminate].
      destruct (prereg_stable cfg Hcfg _ _ _ Ep) as [He0 _].
      pose proof (prereg_grows _ _ _ Ep) as Hg0.
      unfold item_occs at 1. rewrite <- (is_null_ext cfg _ _ c He0).
      destruct (is_null cfg t0 c) eqn:En.
      + intros H. specialize (IH _ _ _ _ _ H). rewrite (item_occs_ext _ _ l He0) in IH.
        rewrite app_nil_r. eapply grows_trans; eassumption.
      + destruct (str_eqb name s_values && is_dict c && Nat.ltb 1 nitems); [discriminate|].
        destruct (render cfg false t0 c) as [[ta sa]|m] eqn:Er; cbn [bind fst snd]; [|discriminate].
        destruct (render_stable cfg Hcfg c false _ _ _ Er) as [Hea _].
        pose proof (Hc _ _ _ _ Er) as Hga. rewrite (occs_ext _ _ c He0) in Hga.
        destruct (group_loop cfg (render cfg) name sep multi nitems ta false l) as [[[tb isb] sb]|m] eqn:El;
          cbn [bind fst snd]; [|discriminate].
        intros H. injection H as <- <- <-.
        specialize (IH _ _ _ _ _ El). rewrite (item_occs_ext _ _ l (ext_trans _ _ _ _ He0 Hea)) in IH.
        eapply grows_trans; [eapply grows_trans; eassumption | exact IH].
  Qed.

  Lemma stmt_loop_grows all items :
    Forall grows_ok items ->
    forall first t t1 s,
      stmt_loop cfg (render cfg) all t first items = Ok (t1, s) ->
      grows t t1 (flat_map (stmt_item_occs t) items).
  Proof.
    intros Hst. induction Hst as [|c l Hc _ IH]; intros first t t1 s; cbn [stmt_loop flat_map].
    - intros H. injection H as <- <-. apply grows_refl.
    - unfold stmt_item_occs at 1. destruct (is_null cfg t c) eqn:En.
      + intros H. exact (IH _ _ _ _ H).
      + destruct (render cfg (case_ctx all c) t c) as [[ta sa]|m] eqn:Er; cbn [bind fst snd]; [|discriminate].
        destruct (render_stable cfg Hcfg c _ _ _ _ Er) as [Hea _].
        pose proof (Hc _ _ _ _ Er) as Hga.
        destruct (stmt_loop cfg (render cfg) all ta false l) as [[tb sb]|m] eqn:El; cbn [bind fst snd]; [|discriminate].
        intros H. injection H as <- <-.
        specialize (IH _ _ _ _ El). rewrite (stmt_item_occs_ext _ _ l Hea) in IH.
        eapply grows_trans; eassumption.
  Qed.

  (* the entries of the first Dict pass are the renderers of the surviving pairs, in order *)
  Definition entry_rel (e : dict_entry) (kv : code * code) : Prop :=
    snd (fst e) = (fun t' => render cfg false t' (fst kv)) /\
    snd e = (fun t' => render cfg false t' (snd kv)) /\
    grows_ok (fst kv) /\ grows_ok (snd kv).

  Lemma dict_pass1_grows pairs :
    Forall (fun kv => grows_ok (fst kv) /\ grows_ok (snd kv)) pairs ->
    forall t t1 es, dict_pass1 cfg (render cfg) t pairs = Ok (t1, es) ->
      ext t t1 /\ grows t t1 (flat_map (key_occs t) pairs) /\
      Forall2 entry_rel es (filter (fun kv => negb (dead t kv)) pairs).
  Proof.
    intros Hst. induction Hst as [|kv l [Hk Hv] _ IH]; intros t t1 es; cbn [dict_pass1 flat_map filter].
    - intros H. injection H as <- <-. split; [apply ext_refl|]. split; [apply grows_refl | constructor].
    - change (is_null cfg t (fst kv) || is_null cfg t (snd kv)) with (dead t kv).
      unfold key_occs at 1. destruct (dead t kv) eqn:En; cbn [negb app].
      + intros H. exact (IH _ _ _ H).
      + destruct (render cfg false t (fst kv)) as [[ta sa]|m] eqn:Er; cbn [bind fst snd]; [|discriminate].
        destruct (render_stable cfg Hcfg (fst kv) _ _ _ _ Er) as [Hea _].
        pose proof (Hk _ _ _ _ Er) as Hga.
        destruct (dict_pass1 cfg (render cfg) ta l) as [[tb esb]|m] eqn:El; cbn [bind fst snd]; [|discriminate].
        intros H. injection H as <- <-.
        destruct (IH _ _ _ El) as (Heb & Hgb & Hes).
        rewrite (key_occs_ext _ _ l Hea) in Hgb. rewrite (filter_live_ext _ _ l Hea) in Hes.
        split; [eapply ext_trans; eassumption|]. split; [eapply grows_trans; eassumption|].
        constructor; [|exact Hes]. split; [reflexivity|]. split; [reflexivity|]. split; assumption.
  Qed.

  Lemma dict_pass2_grows several es kvs :
    Forall2 entry_rel es kvs ->
    forall first t t1 s, dict_pass2 several t first es = Ok (t1, s) ->
      grows t t1 (flat_map (both_occs t) kvs).
  Proof.
    intros Hst. induction Hst as [|e kv es kvs (Ek & Ev & Hk & Hv) _ IH]; intros first t t1 s; cbn [dict_pass2 flat_map].
    - intros H. injection H as <- <-. apply grows_refl.
    - rewrite Ek, Ev.
      destruct (render cfg false t (fst kv)) as [[ta sa]|m] eqn:Erk; cbn [bind fst snd]; [|discriminate].
      destruct (render_stable cfg Hcfg (fst kv) _ _ _ _ Erk) as [Hea _].
      pose proof (Hk _ _ _ _ Erk) as Hga.
      destruct (render cfg false ta (snd kv)) as [[tb sb]|m] eqn:Erv; cbn [bind fst snd]; [|discriminate].
      destruct (render_stable cfg Hcfg (snd kv) _ _ _ _ Erv) as [Heb _].
      pose proof (Hv _ _ _ _ Erv) as Hgb. rewrite (occs_ext _ _ _ Hea) in Hgb.
      destruct (dict_pass2 several tb false es) as [[tc sc]|m] eqn:El; cbn [bind fst snd]; [|discriminate].
      intros H. injection H as <- <-.
      specialize (IH _ _ _ _ El). rewrite (both_occs_ext _ _ kvs (ext_trans _ _ _ _ Hea Heb)) in IH.
      unfold both_occs at 1. eapply grows_trans; [eapply grows_trans; eassumption | exact IH].
  Qed.

  (* T1a.  For every tree, context and table: a successful render leaves a table whose paths
     are exactly the paths it had plus [occs], and whose entries for every other path are
     untouched. *)
  Theorem render_grows : forall c, grows_ok c.
  Proof.
    induction c as [| | |tk|gid name o cl sep multi items IH|items IH|pairs IH|kvs|s] using code_ind'.
    - intros ctx t t1 s H. discriminate.
    - intros ctx t t1 s H. discriminate.
    - intros ctx t t1 s H. discriminate.
    - apply token_grows.
    - intros ctx t t1 s. rewrite occs_group. cbn [render].
      destruct (str_eqb name s_types && forallb (is_null cfg t) items).
      + intros H. injection H as <- <-. apply grows_refl.
      + destruct (group_loop cfg (render cfg) name sep multi (length items) t true items) as [[[ta isa] sa]|m] eqn:El;
          cbn [bind fst snd]; [|discriminate].
        intros H. injection H as <- <-. eapply group_loop_grows; [exact IH | exact El].
    - intros ctx t t1 s. rewrite occs_stmt. cbn [render]. apply stmt_loop_grows. exact IH.
    - intros ctx t t1 s. rewrite occs_dict. cbn [render].
      destruct (dict_pass1 cfg (render cfg) t pairs) as [[ta es]|m] eqn:E1; cbn [bind fst snd]; [|discriminate].
      destruct (dict_pass1_grows pairs IH _ _ _ E1) as (Hea & Hga & Hes).
      intros H2.
      (* the second pass runs over a permutation of the first pass' entries *)
      destruct (Permutation_Forall2 (Permutation_sym (isort_by_perm dict_key es)) Hes) as (kvs' & Hperm & Hes').
      pose proof (dict_pass2_grows _ _ _ Hes' _ _ _ _ H2) as Hgb.
      rewrite (both_occs_ext _ _ kvs' Hea) in Hgb.
      eapply grows_equiv; [|eapply grows_trans; [exact Hga | exact Hgb]].
      intros p. rewrite in_app_iff, !in_flat_map. split.
      + intros [(kv & Hin & Hp)|(kv & Hin & Hp)].
        * exists kv. split; [exact Hin|]. unfold key_occs, pair_occs in *.
          destruct (dead t kv); [exact Hp | apply in_app_iff; left; exact Hp].
        * apply (Permutation_in _ (Permutation_sym Hperm)) in Hin. apply filter_In in Hin.
          destruct Hin as [Hin Hl]. exists kv. split; [exact Hin|]. unfold pair_occs.
          apply negb_true_iff in Hl. rewrite Hl. exact Hp.
      + intros (kv & Hin & Hp). right. exists kv. unfold pair_occs in Hp.
        destruct (dead t kv) eqn:Hd; [destruct Hp|]. split; [|exact Hp].
        apply (Permutation_in _ Hperm). apply filter_In. split; [exact Hin|]. rewrite Hd. reflexivity.
    - intros ctx t t1 s H. cbn [render] in H. injection H as <- <-. apply grows_refl.
    - intros ctx t t1 s0 H. cbn [render] in H. injection H as <- <-. apply grows_refl.
  Qed.

  (* T1a, the domain: set equality of table domains *)
  Theorem render_registers_occs c ctx t t1 s :
    render cfg ctx t c = Ok (t1, s) ->
    forall p, In p (akeys t1) <-> In p (akeys t) \/ In p (occs t c).
  Proof. intros H. exact (proj1 (render_grows c ctx t t1 s H)). Qed.

  (* registrations of t stay; the entry of a path outside occs is the one t had (so names
     are only given, and Anon entries only replaced, for paths in occs) *)
  Theorem render_keeps_entries c ctx t t1 s :
    render cfg ctx t c = Ok (t1, s) ->
    keeps t t1 /\ forall q, ~ In q (occs t c) -> alookup q t1 = alookup q t.
  Proof.
    intros H. destruct (render_grows c ctx t t1 s H) as (_ & F & K & _). split; assumption.
  Qed.

  (* every path of occs ends with a registration: a name other than "" and "_" *)
  Theorem render_occs_registered c ctx t t1 s :
    render cfg ctx t c = Ok (t1, s) -> forall p, In p (occs t c) -> exists q, registered_name t1 p = Some q.
  Proof. intros H. exact (proj2 (proj2 (proj2 (render_grows c ctx t t1 s H)))). Qed.
End Occs.
