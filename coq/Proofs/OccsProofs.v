(* T1a: the set of import paths a render registers, computed structurally on the tree
   ([occs]), and the theorem that the domain of the import table after a successful render is
   exactly the domain before it united with [occs] - nothing is lost, nothing else is added,
   and entries of other paths are not touched.  Same architecture as the stabilisation
   theorem of RenderProofs.v (one lemma per loop, nested induction with [code_ind']). *)
From Jen Require Import Base.Bytes Base.Num Base.Sort Model.Code Model.Naming Model.Render Model.FileRender Gen.Tables.
From Jen Require Import GoStd.Quote Proofs.NamingProofs Proofs.RenderProofs Proofs.DictProofs Proofs.ImportsProofs.
From Coq Require Import Lia Permutation Sorted.
Local Open Scope bool_scope.

(* ------------------------------------------------------------------ association lists *)
Section AssocDom.
  Context {V : Type}.

  Lemma akeys_aset_In (k : str) (v : V) m q : In q (akeys (aset k v m)) <-> q = k \/ In q (akeys m).
  Proof.
    induction m as [|[k' v'] m IH]; simpl.
    - split; [intros [H|[]]; left; congruence | intros [H|[]]; left; congruence].
    - destruct (str_eqb_spec k k') as [->|Hk]; simpl.
      + split; [intros [H|H]; [left; congruence | right; right; exact H] | intros [H|[H|H]]; [left; congruence | left; exact H | right; exact H]].
      + rewrite IH. split; [intros [H|[H|H]]; auto | intros [H|[H|H]]; auto].
  Qed.

  Lemma alookup_Some_akeys (m : list (str * V)) k v : alookup k m = Some v -> In k (akeys m).
  Proof. intros H. apply alookup_In in H. change k with (fst (k, v)). apply in_map. exact H. Qed.

  Lemma akeys_alookup (m : list (str * V)) k : In k (akeys m) -> exists v, alookup k m = Some v.
  Proof.
    intros H. destruct (alookup k m) as [v|] eqn:E; [exists v; reflexivity|].
    apply alookup_None in E. contradiction.
  Qed.
End AssocDom.

Lemma flat_map_Forall_ext {A B} (f g : A -> list B) l :
  Forall (fun x => f x = g x) l -> flat_map f l = flat_map g l.
Proof. induction 1 as [|x l Hx _ IH]; [reflexivity|]. cbn [flat_map]. rewrite Hx, IH. reflexivity. Qed.

(* ------------------------------------------------------------------ growth of a table *)
(* [grows t t1 O]: t1 has exactly the paths of t and those of O, and the entries of all
   paths outside O are the ones t had *)
Definition grows (t t1 : table) (O : list str) : Prop :=
  (forall p, In p (akeys t1) <-> In p (akeys t) \/ In p O) /\
  (forall q, ~ In q O -> alookup q t1 = alookup q t) /\
  keeps t t1 /\
  (forall p, In p O -> exists q, registered_name t1 p = Some q).

Lemma grows_refl t : grows t t [].
Proof. split; [intros p; simpl; tauto|]. split; [reflexivity|]. split; [apply keeps_refl | intros p []]. Qed.

Lemma grows_trans t ta tb O1 O2 : grows t ta O1 -> grows ta tb O2 -> grows t tb (O1 ++ O2).
Proof.
  intros (D1 & F1 & K1 & R1) (D2 & F2 & K2 & R2). split; [|split; [|split]].
  - intros p. rewrite D2, D1, in_app_iff. tauto.
  - intros q Hq. rewrite in_app_iff in Hq. rewrite F2 by tauto. apply F1. tauto.
  - eapply keeps_trans; eassumption.
  - intros p Hp. apply in_app_iff in Hp. destruct Hp as [Hp|Hp]; [|apply R2; exact Hp].
    destruct (R1 p Hp) as [q Hq]. exists q. eapply keeps_registered; eassumption.
Qed.

Lemma grows_equiv t t1 O O' : (forall p, In p O <-> In p O') -> grows t t1 O -> grows t t1 O'.
Proof.
  intros He (D & F & K & R). split; [|split; [|split]].
  - intros p. rewrite D, He. reflexivity.
  - intros q Hq. apply F. rewrite He. exact Hq.
  - exact K.
  - intros p Hp. apply R. rewrite He. exact Hp.
Qed.

Lemma registered_in_dom t p n : registered_name t p = Some n -> In p (akeys t).
Proof.
  unfold registered_name. destruct (alookup p t) as [d|] eqn:E; [|discriminate].
  intros _. eapply alookup_Some_akeys. exact E.
Qed.

(* ------------------------------------------------------------------ registrations as steps *)
Section Steps.
  Variable cfg : config.

  (* t' is reached from t by a sequence of register calls *)
  Inductive reg_steps : table -> table -> Prop :=
  | rs_nil t : reg_steps t t
  | rs_cons t p t' n t'' : register cfg t p = Ok (t', n) -> reg_steps t' t'' -> reg_steps t t''.

  Lemma reg_steps_trans a b c : reg_steps a b -> reg_steps b c -> reg_steps a c.
  Proof. induction 1 as [|t p t' n t'' Hr _ IH]; [auto|]. intros H. eapply rs_cons; [exact Hr | apply IH; exact H]. Qed.

  Lemma reg_steps_one t p t' n : register cfg t p = Ok (t', n) -> reg_steps t t'.
  Proof. intros H. eapply rs_cons; [exact H | apply rs_nil]. Qed.

  (* every property of tables kept by [register] is kept by a sequence of them *)
  Lemma reg_steps_invariant (I : table -> Prop) :
    (forall t p t' n, I t -> register cfg t p = Ok (t', n) -> I t') ->
    forall t t', reg_steps t t' -> I t -> I t'.
  Proof. intros Hstep t t' H. induction H as [|t p t' n t'' Hr _ IH]; [auto|]. intros Ht. apply IH. eapply Hstep; eassumption. Qed.

  (* ... and it is a history in the sense of NamingProofs.v *)
  Lemma reg_steps_history t t' : reg_steps t t' -> exists ps, t' = fold_left nstep (map (NReg cfg) ps) t.
  Proof.
    induction 1 as [t|t p t' n t'' Hr _ [ps IH]]; [exists []; reflexivity|].
    exists (p :: ps). cbn [map fold_left nstep]. rewrite Hr. exact IH.
  Qed.

  Definition steps_fn {A} (f : table -> result (table * A)) : Prop :=
    forall t t1 s, f t = Ok (t1, s) -> reg_steps t t1.

  Lemma token_steps tk : steps_fn (fun t => render_token cfg t tk).
  Proof.
    intros t t1 s. destruct tk; cbn [render_token]; try (intros H; injection H as <- <-; apply rs_nil).
    - apply reg_steps_one.
    - destruct (lit_text l) as [x|m]; cbn [bind]; [|discriminate]. intros H; injection H as <- <-; apply rs_nil.
  Qed.

  Definition steps (c : code) : Prop := forall ctx, steps_fn (fun t => render cfg ctx t c).

  Lemma group_loop_steps name sep multi nitems items :
    Forall steps items ->
    forall first t t1 isn s,
      group_loop cfg (render cfg) name sep multi nitems t first items = Ok (t1, isn, s) -> reg_steps t t1.
  Proof.
    intros Hst. induction Hst as [|c l Hc _ IH]; intros first t t1 isn s; cbn [group_loop].
    - intros H. injection H as <- <- <-. apply rs_nil.
    - assert (Hp : forall t0, match c with
                              | CTok (TkPkg p) => bind (register cfg t p) (fun r => Ok (fst r))
                              | _ => Ok t
                              end = Ok t0 -> reg_steps t t0).
      { intros t0. destruct c as [| | |tk| | | | |]; try (intros H; injection H as <-; apply rs_nil).
        destruct tk; try (intros H; injection H as <-; apply rs_nil).
        destruct (register cfg t path) as [[t' n]|m] eqn:E; cbn [bind fst]; [|discriminate].
        intros H. injection H as <-. eapply reg_steps_one. exact E. }
      destruct (match c with
                | CTok (TkPkg p) => bind (register cfg t p) (fun r => Ok (fst r))
                | _ => Ok t
                end) as [t0|m]; cbn [bind]; [|discriminate].
      specialize (Hp t0 eq_refl).
      destruct (is_null cfg t0 c).
      + intros H. eapply reg_steps_trans; [exact Hp | eapply IH; exact H].
      + destruct (str_eqb name s_values && is_dict c && Nat.ltb 1 nitems); [discriminate|].
        destruct (render cfg false t0 c) as [[ta sa]|m] eqn:Er; cbn [bind fst snd]; [|discriminate].
        destruct (group_loop cfg (render cfg) name sep multi nitems ta false l) as [[[tb isb] sb]|m] eqn:El;
          cbn [bind fst snd]; [|discriminate].
        intros H. injection H as <- <- <-.
        eapply reg_steps_trans; [exact Hp|]. eapply reg_steps_trans; [eapply Hc; exact Er | eapply IH; exact El].
  Qed.

  Lemma stmt_loop_steps all items :
    Forall steps items -> forall first, steps_fn (fun t => stmt_loop cfg (render cfg) all t first items).
  Proof.
    intros Hst. induction Hst as [|c l Hc _ IH]; intros first t t1 s; cbn [stmt_loop].
    - intros H. injection H as <- <-. apply rs_nil.
    - destruct (is_null cfg t c); [apply IH|].
      destruct (render cfg (case_ctx all c) t c) as [[ta sa]|m] eqn:Er; cbn [bind fst snd]; [|discriminate].
      destruct (stmt_loop cfg (render cfg) all ta false l) as [[tb sb]|m] eqn:El; cbn [bind fst snd]; [|discriminate].
      intros H. injection H as <- <-.
      eapply reg_steps_trans; [eapply Hc; exact Er | eapply IH; exact El].
  Qed.

  Definition entry_steps (e : dict_entry) : Prop := steps_fn (snd (fst e)) /\ steps_fn (snd e).

  Lemma dict_pass1_steps pairs :
    Forall (fun kv => steps (fst kv) /\ steps (snd kv)) pairs ->
    forall t t1 es, dict_pass1 cfg (render cfg) t pairs = Ok (t1, es) ->
      reg_steps t t1 /\ Forall entry_steps es.
  Proof.
    intros Hst. induction Hst as [|[k v] l [Hk Hv] _ IH]; intros t t1 es; cbn [dict_pass1 fst snd].
    - intros H. injection H as <- <-. split; [apply rs_nil | constructor].
    - cbn [fst snd] in Hk, Hv. destruct (is_null cfg t k || is_null cfg t v); [apply IH|].
      destruct (render cfg false t k) as [[ta sa]|m] eqn:Er; cbn [bind fst snd]; [|discriminate].
      destruct (dict_pass1 cfg (render cfg) ta l) as [[tb esb]|m] eqn:El; cbn [bind fst snd]; [|discriminate].
      intros H. injection H as <- <-. destruct (IH _ _ _ El) as [Hs Hes].
      split; [eapply reg_steps_trans; [eapply Hk; exact Er | exact Hs]|].
      constructor; [|exact Hes]. split; cbn [fst snd]; [apply Hk | apply Hv].
  Qed.

  Lemma dict_pass2_steps several l :
    Forall entry_steps l -> forall first, steps_fn (fun t => dict_pass2 several t first l).
  Proof.
    intros Hst. induction Hst as [|e l [Hk Hv] _ IH]; intros first t t1 s; cbn [dict_pass2].
    - intros H. injection H as <- <-. apply rs_nil.
    - destruct (snd (fst e) t) as [[ta sa]|m] eqn:Ek; cbn [bind fst snd]; [|discriminate].
      destruct (snd e ta) as [[tb sb]|m] eqn:Ev; cbn [bind fst snd]; [|discriminate].
      destruct (dict_pass2 several tb false l) as [[tc sc]|m] eqn:El; cbn [bind fst snd]; [|discriminate].
      intros H. injection H as <- <-.
      eapply reg_steps_trans; [eapply Hk; exact Ek|].
      eapply reg_steps_trans; [eapply Hv; exact Ev | eapply IH; exact El].
  Qed.

  (* a render changes the import table only through register calls *)
  Theorem render_steps : forall c, steps c.
  Proof.
    induction c as [| | |tk|gid name o cl sep multi items IH|items IH|pairs IH|kvs|s] using code_ind';
      intros ctx t t1 s0; cbn [render]; try discriminate.
    - apply token_steps.
    - destruct (str_eqb name s_types && forallb (is_null cfg t) items).
      + intros H. injection H as <- <-. apply rs_nil.
      + destruct (group_loop cfg (render cfg) name sep multi (length items) t true items) as [[[ta isa] sa]|m] eqn:El;
          cbn [bind fst snd]; [|discriminate].
        intros H. injection H as <- <-. eapply group_loop_steps; [exact IH | exact El].
    - apply stmt_loop_steps. exact IH.
    - destruct (dict_pass1 cfg (render cfg) t pairs) as [[ta es]|m] eqn:E1; cbn [bind fst snd]; [|discriminate].
      destruct (dict_pass1_steps pairs IH _ _ _ E1) as [Hs Hes]. intros H2.
      eapply reg_steps_trans; [exact Hs|].
      eapply (dict_pass2_steps _ (isort_by dict_key es)); [|exact H2].
      rewrite Forall_forall in *. intros e He. apply Hes. apply (isort_by_In dict_key). exact He.
    - intros H. injection H as <- <-. apply rs_nil.
    - intros H. injection H as <- <-. apply rs_nil.
  Qed.

  Corollary render_invariant (I : table -> Prop) :
    (forall t p t' n, I t -> register cfg t p = Ok (t', n) -> I t') ->
    forall c ctx t t1 s, render cfg ctx t c = Ok (t1, s) -> I t -> I t1.
  Proof. intros Hstep c ctx t t1 s H. eapply reg_steps_invariant; [exact Hstep | eapply render_steps; exact H]. Qed.

  Corollary render_history c ctx t t1 s :
    render cfg ctx t c = Ok (t1, s) -> exists ps, t1 = fold_left nstep (map (NReg cfg) ps) t.
  Proof. intros H. apply reg_steps_history. eapply render_steps. exact H. Qed.

  Lemma register_NoDup t p t' n : NoDup (akeys t) -> register cfg t p = Ok (t', n) -> NoDup (akeys t').
  Proof.
    intros Hnd Hr. apply register_cases in Hr.
    destruct Hr as [Hl | n Hl Hk | Hl Hk HC | name alias i Hl Hk HC Hc Hok Hmin]; try exact Hnd;
      apply akeys_aset_NoDup; exact Hnd.
  Qed.

  (* no path is ever listed twice *)
  Corollary render_NoDup c ctx t t1 s :
    render cfg ctx t c = Ok (t1, s) -> NoDup (akeys t) -> NoDup (akeys t1).
  Proof. apply (render_invariant (fun t => NoDup (akeys t))). intros; eapply register_NoDup; eassumption. Qed.
End Steps.

Corollary render_Inv cfg c ctx t t1 s :
  cfg_ok cfg -> render cfg ctx t c = Ok (t1, s) -> Inv t -> Inv t1.
Proof. intros Hc. apply (render_invariant cfg Inv). intros; eapply register_Inv; eassumption. Qed.

Corollary render_Inv_Legal cfg c ctx t t1 s :
  cfg_ok cfg -> render cfg ctx t c = Ok (t1, s) -> Inv t /\ Legal t -> Inv t1 /\ Legal t1.
Proof.
  intros Hc. apply (render_invariant cfg (fun t => Inv t /\ Legal t)).
  intros t0 p t' n [HI HL] Hr. split; [eapply register_Inv | eapply register_Legal]; eassumption.
Qed.

(* ------------------------------------------------------------------ occs *)
Section Occs.
  Variable cfg : config.

  (* what Group.renderItems registers for an item before it looks at its null-ness
     (group.go:89-95): the path of a package token, even when the token is a dot import *)
  Definition pre_occ (c : code) : list str :=
    match c with
    | CTok (TkPkg p) => if is_local cfg p then [] else [p]
    | _ => []
    end.

  (* THE SPEC: the non-local paths that rendering [c] from table [t] registers, as a set
     (order irrelevant, repetitions allowed), by recursion on the tree; null-ness is taken at
     the initial table *)
  Fixpoint occs (t : table) (c : code) : list str :=
    match c with
    | CTok (TkPkg p) => if is_local cfg p then [] else [p]
    | CGroup _ name _ _ _ _ items =>
      if str_eqb name s_types && forallb (is_null cfg t) items then []
      else flat_map (fun x => pre_occ x ++ (if is_null cfg t x then [] else occs t x)) items
    | CStmt items => flat_map (fun x => if is_null cfg t x then [] else occs t x) items
    | CDict pairs =>
      flat_map (fun kv => if is_null cfg t (fst kv) || is_null cfg t (snd kv) then []
                          else occs t (fst kv) ++ occs t (snd kv)) pairs
    | _ => []
    end.

  Definition item_occs (t : table) (x : code) : list str :=
    pre_occ x ++ (if is_null cfg t x then [] else occs t x).
  Definition stmt_item_occs (t : table) (x : code) : list str :=
    if is_null cfg t x then [] else occs t x.
  Definition dead (t : table) (kv : code * code) : bool := is_null cfg t (fst kv) || is_null cfg t (snd kv).
  Definition pair_occs (t : table) (kv : code * code) : list str :=
    if dead t kv then [] else occs t (fst kv) ++ occs t (snd kv).
  Definition key_occs (t : table) (kv : code * code) : list str :=
    if dead t kv then [] else occs t (fst kv).
  Definition both_occs (t : table) (kv : code * code) : list str := occs t (fst kv) ++ occs t (snd kv).

  Lemma occs_group t gid name o cl sep multi items :
    occs t (CGroup gid name o cl sep multi items) =
    if str_eqb name s_types && forallb (is_null cfg t) items then [] else flat_map (item_occs t) items.
  Proof. reflexivity. Qed.
  Lemma occs_stmt t items : occs t (CStmt items) = flat_map (stmt_item_occs t) items.
  Proof. reflexivity. Qed.
  Lemma occs_dict t pairs : occs t (CDict pairs) = flat_map (pair_occs t) pairs.
  Proof. reflexivity. Qed.

  (* every path of occs is a non-local path *)
  Lemma occs_not_local t c p : In p (occs t c) -> is_local cfg p = false.
  Proof.
    induction c as [| | |tk|gid name o cl sep multi items IH|items IH|pairs IH|kvs|s] using code_ind';
      cbn [occs]; try (intros []).
    - destruct tk; try (intros []). destruct (is_local cfg path) eqn:E; [intros [] | intros [<-|[]]; exact E].
    - destruct (str_eqb name s_types && forallb (is_null cfg t) items); [intros []|].
      intros H. apply in_flat_map in H. destruct H as (x & Hx & Hp). rewrite Forall_forall in IH.
      apply in_app_iff in Hp. destruct Hp as [Hp|Hp].
      + destruct x as [| | |tk| | | | |]; try destruct Hp. destruct tk; try destruct Hp.
        cbn [pre_occ] in Hp. destruct (is_local cfg path) eqn:E; [destruct Hp | destruct Hp as [<-|[]]; exact E].
      + destruct (is_null cfg t x); [destruct Hp | apply (IH x Hx Hp)].
    - intros H. apply in_flat_map in H. destruct H as (x & Hx & Hp). rewrite Forall_forall in IH.
      destruct (is_null cfg t x); [destruct Hp | apply (IH x Hx Hp)].
    - intros H. apply in_flat_map in H. destruct H as (kv & Hx & Hp). rewrite Forall_forall in IH.
      destruct (is_null cfg t (fst kv) || is_null cfg t (snd kv)); [destruct Hp|].
      apply in_app_iff in Hp. destruct (IH kv Hx) as [H1 H2]. destruct Hp as [Hp|Hp]; auto.
  Qed.

  Hypothesis Hcfg : cfg_ok cfg.
  Notation ext := (ext cfg).

  Lemma forallb_is_null_ext t t' l : ext t t' -> forallb (is_null cfg t') l = forallb (is_null cfg t) l.
  Proof.
    intros H. induction l as [|x l IHl]; [reflexivity|]. cbn [forallb].
    rewrite (is_null_ext cfg _ _ x H), IHl. reflexivity.
  Qed.

  (* occs only looks at the table through null-ness, which extensions preserve *)
  Lemma occs_ext t t' c : ext t t' -> occs t' c = occs t c.
  Proof.
    intros H. induction c as [| | |tk|gid name o cl sep multi items IH|items IH|pairs IH|kvs|s] using code_ind';
      try reflexivity; cbn [occs].
    - rewrite (forallb_is_null_ext _ _ items H).
      destruct (str_eqb name s_types && forallb (is_null cfg t) items); [reflexivity|].
      apply flat_map_Forall_ext. eapply Forall_impl; [|exact IH]. intros x Hx. cbv beta.
      rewrite (is_null_ext cfg _ _ x H), Hx. reflexivity.
    - apply flat_map_Forall_ext. eapply Forall_impl; [|exact IH]. intros x Hx. cbv beta.
      rewrite (is_null_ext cfg _ _ x H), Hx. reflexivity.
    - apply flat_map_Forall_ext. eapply Forall_impl; [|exact IH]. intros kv [Hk Hv]. cbv beta.
      rewrite !(is_null_ext cfg _ _ _ H), Hk, Hv. reflexivity.
  Qed.

  Lemma item_occs_ext t t' l : ext t t' -> flat_map (item_occs t') l = flat_map (item_occs t) l.
  Proof.
    intros H. apply flat_map_ext. intros x. unfold item_occs.
    rewrite (is_null_ext cfg _ _ x H), (occs_ext _ _ x H). reflexivity.
  Qed.
  Lemma stmt_item_occs_ext t t' l : ext t t' -> flat_map (stmt_item_occs t') l = flat_map (stmt_item_occs t) l.
  Proof.
    intros H. apply flat_map_ext. intros x. unfold stmt_item_occs.
    rewrite (is_null_ext cfg _ _ x H), (occs_ext _ _ x H). reflexivity.
  Qed.
  Lemma dead_ext t t' kv : ext t t' -> dead t' kv = dead t kv.
  Proof. intros H. unfold dead. rewrite !(is_null_ext cfg _ _ _ H). reflexivity. Qed.
  Lemma key_occs_ext t t' l : ext t t' -> flat_map (key_occs t') l = flat_map (key_occs t) l.
  Proof.
    intros H. apply flat_map_ext. intros x. unfold key_occs.
    rewrite (dead_ext _ _ x H), (occs_ext _ _ _ H). reflexivity.
  Qed.
  Lemma both_occs_ext t t' l : ext t t' -> flat_map (both_occs t') l = flat_map (both_occs t) l.
  Proof.
    intros H. apply flat_map_ext. intros x. unfold both_occs. rewrite !(occs_ext _ _ _ H). reflexivity.
  Qed.
  Lemma filter_live_ext t t' l : ext t t' -> filter (fun kv => negb (dead t' kv)) l = filter (fun kv => negb (dead t kv)) l.
  Proof. intros H. apply filter_ext. intros kv. rewrite (dead_ext _ _ kv H). reflexivity. Qed.

  (* one register call: exactly the path, when it is not the local one *)
  Lemma register_grows t p t1 n :
    register cfg t p = Ok (t1, n) -> grows t t1 (if is_local cfg p then [] else [p]).
  Proof.
    intros Hr0. pose proof (register_ext cfg Hcfg _ _ _ _ Hr0) as [HK _].
    assert (Hret : is_local cfg p = false -> registered_name t1 p = Some n).
    { intros Hl. eapply register_returns_entry; eassumption. }
    pose proof Hr0 as Hr. apply register_cases in Hr.
    destruct Hr as [Hl | n Hl Hk | Hl Hk HC | name alias i Hl Hk HC Hc Hok Hmin]; rewrite Hl.
    - apply grows_refl.
    - split; [|split; [reflexivity|split; [exact HK|]]].
      + intros q. split; [auto|]. intros [H|[<-|[]]]; [exact H|]. eapply registered_in_dom. exact Hk.
      + intros q [<-|[]]. exists n. exact Hk.
    - subst p. split; [|split; [|split; [exact HK|]]].
      + intros q. rewrite akeys_aset_In. simpl. split; [intros [H|H]; auto | intros [H|[H|[]]]; auto].
      + intros q Hq. apply alookup_aset_other. intros E. apply Hq. left. exact E.
      + intros q [<-|[]]. eexists. apply Hret. exact Hl.
    - split; [|split; [|split; [exact HK|]]].
      + intros q. rewrite akeys_aset_In. simpl. split; [intros [H|H]; auto | intros [H|[H|[]]]; auto].
      + intros q Hq. apply alookup_aset_other. intros E. apply Hq. left. exact E.
      + intros q [<-|[]]. eexists. apply Hret. exact Hl.
  Qed.

  Lemma prereg_grows t c t0 : prereg cfg t c = Ok t0 -> grows t t0 (pre_occ c).
  Proof.
    unfold prereg, pre_occ. destruct c as [| | |tk| | | | |]; try (intros H; injection H as <-; apply grows_refl).
    destruct tk; try (intros H; injection H as <-; apply grows_refl).
    destruct (register cfg t path) as [[t' n]|m] eqn:E; cbn [bind fst]; [|discriminate].
    intros H. injection H as <-. eapply register_grows. exact E.
  Qed.

  Definition grows_ok (c : code) : Prop :=
    forall ctx t t1 s, render cfg ctx t c = Ok (t1, s) -> grows t t1 (occs t c).

  Lemma token_grows tk : grows_ok (CTok tk).
  Proof.
    intros ctx t t1 s. cbn [render occs]. destruct tk; cbn [render_token];
      try (intros H; injection H as <- <-; apply grows_refl).
    - apply register_grows.
    - destruct (lit_text l) as [x|m]; cbn [bind]; [|discriminate]. intros H; injection H as <- <-; apply grows_refl.
  Qed.

  Lemma group_loop_grows name sep multi nitems items :
    Forall grows_ok items ->
    forall first t t1 isn s,
      group_loop cfg (render cfg) name sep multi nitems t first items = Ok (t1, isn, s) ->
      grows t t1 (flat_map (item_occs t) items).
  Proof.
    intros Hst. induction Hst as [|c l Hc _ IH]; intros first t t1 isn s; cbn [group_loop flat_map].
    - intros H. injection H as <- <- <-. apply grows_refl.
    - fold (prereg cfg t c).
      destruct (prereg cfg t c) as [t0|m] eqn:Ep; cbn [bind]; [|discriminate].
      destruct (prereg_stable cfg Hcfg _ _ _ Ep) as [He0 _].
      pose proof (prereg_grows _ _ _ Ep) as Hg0.
      unfold item_occs at 1. rewrite <- (is_null_ext cfg _ _ c He0).
      destruct (is_null cfg t0 c) eqn:En.
      + intros H. specialize (IH _ _ _ _ _ H). rewrite (item_occs_ext _ _ l He0) in IH.
        rewrite app_nil_r. eapply grows_trans; eassumption.
      + destruct (str_eqb name s_values && is_dict c && Nat.ltb 1 nitems); [discriminate|].
        destruct (render cfg false t0 c) as [[ta sa]|m] eqn:Er; cbn [bind fst snd]; [|discriminate].
        destruct (render_stable cfg Hcfg c false _ _ _ Er) as [Hea _].
        pose proof (Hc _ _ _ _ Er) as Hga. rewrite (occs_ext _ _ c He0) in Hga.
        destruct (group_loop cfg (render cfg) name sep multi nitems ta false l) as [[[tb isb] sb]|m] eqn:El;
          cbn [bind fst snd]; [|discriminate].
        intros H. injection H as <- <- <-.
        specialize (IH _ _ _ _ _ El). rewrite (item_occs_ext _ _ l (ext_trans _ _ _ _ He0 Hea)) in IH.
        eapply grows_trans; [eapply grows_trans; eassumption | exact IH].
  Qed.

  Lemma stmt_loop_grows all items :
    Forall grows_ok items ->
    forall first t t1 s,
      stmt_loop cfg (render cfg) all t first items = Ok (t1, s) ->
      grows t t1 (flat_map (stmt_item_occs t) items).
  Proof.
    intros Hst. induction Hst as [|c l Hc _ IH]; intros first t t1 s; cbn [stmt_loop flat_map].
    - intros H. injection H as <- <-. apply grows_refl.
    - unfold stmt_item_occs at 1. destruct (is_null cfg t c) eqn:En.
      + intros H. exact (IH _ _ _ _ H).
      + destruct (render cfg (case_ctx all c) t c) as [[ta sa]|m] eqn:Er; cbn [bind fst snd]; [|discriminate].
        destruct (render_stable cfg Hcfg c _ _ _ _ Er) as [Hea _].
        pose proof (Hc _ _ _ _ Er) as Hga.
        destruct (stmt_loop cfg (render cfg) all ta false l) as [[tb sb]|m] eqn:El; cbn [bind fst snd]; [|discriminate].
        intros H. injection H as <- <-.
        specialize (IH _ _ _ _ El). rewrite (stmt_item_occs_ext _ _ l Hea) in IH.
        eapply grows_trans; eassumption.
  Qed.

  (* the entries of the first Dict pass are the renderers of the surviving pairs, in order *)
  Definition entry_rel (e : dict_entry) (kv : code * code) : Prop :=
    snd (fst e) = (fun t' => render cfg false t' (fst kv)) /\
    snd e = (fun t' => render cfg false t' (snd kv)) /\
    grows_ok (fst kv) /\ grows_ok (snd kv).

  Lemma dict_pass1_grows pairs :
    Forall (fun kv => grows_ok (fst kv) /\ grows_ok (snd kv)) pairs ->
    forall t t1 es, dict_pass1 cfg (render cfg) t pairs = Ok (t1, es) ->
      ext t t1 /\ grows t t1 (flat_map (key_occs t) pairs) /\
      Forall2 entry_rel es (filter (fun kv => negb (dead t kv)) pairs).
  Proof.
    intros Hst. induction Hst as [|kv l [Hk Hv] _ IH]; intros t t1 es; cbn [dict_pass1 flat_map filter].
    - intros H. injection H as <- <-. split; [apply ext_refl|]. split; [apply grows_refl | constructor].
    - change (is_null cfg t (fst kv) || is_null cfg t (snd kv)) with (dead t kv).
      unfold key_occs at 1. destruct (dead t kv) eqn:En; cbn [negb app].
      + intros H. exact (IH _ _ _ H).
      + destruct (render cfg false t (fst kv)) as [[ta sa]|m] eqn:Er; cbn [bind fst snd]; [|discriminate].
        destruct (render_stable cfg Hcfg (fst kv) _ _ _ _ Er) as [Hea _].
        pose proof (Hk _ _ _ _ Er) as Hga.
        destruct (dict_pass1 cfg (render cfg) ta l) as [[tb esb]|m] eqn:El; cbn [bind fst snd]; [|discriminate].
        intros H. injection H as <- <-.
        destruct (IH _ _ _ El) as (Heb & Hgb & Hes).
        rewrite (key_occs_ext _ _ l Hea) in Hgb. rewrite (filter_live_ext _ _ l Hea) in Hes.
        split; [eapply ext_trans; eassumption|]. split; [eapply grows_trans; eassumption|].
        constructor; [|exact Hes]. split; [reflexivity|]. split; [reflexivity|]. split; assumption.
  Qed.

  Lemma dict_pass2_grows several es kvs :
    Forall2 entry_rel es kvs ->
    forall first t t1 s, dict_pass2 several t first es = Ok (t1, s) ->
      grows t t1 (flat_map (both_occs t) kvs).
  Proof.
    intros Hst. induction Hst as [|e kv es kvs (Ek & Ev & Hk & Hv) _ IH]; intros first t t1 s; cbn [dict_pass2 flat_map].
    - intros H. injection H as <- <-. apply grows_refl.
    - rewrite Ek, Ev.
      destruct (render cfg false t (fst kv)) as [[ta sa]|m] eqn:Erk; cbn [bind fst snd]; [|discriminate].
      destruct (render_stable cfg Hcfg (fst kv) _ _ _ _ Erk) as [Hea _].
      pose proof (Hk _ _ _ _ Erk) as Hga.
      destruct (render cfg false ta (snd kv)) as [[tb sb]|m] eqn:Erv; cbn [bind fst snd]; [|discriminate].
      destruct (render_stable cfg Hcfg (snd kv) _ _ _ _ Erv) as [Heb _].
      pose proof (Hv _ _ _ _ Erv) as Hgb. rewrite (occs_ext _ _ _ Hea) in Hgb.
      destruct (dict_pass2 several tb false es) as [[tc sc]|m] eqn:El; cbn [bind fst snd]; [|discriminate].
      intros H. injection H as <- <-.
      specialize (IH _ _ _ _ El). rewrite (both_occs_ext _ _ kvs (ext_trans _ _ _ _ Hea Heb)) in IH.
      unfold both_occs at 1. eapply grows_trans; [eapply grows_trans; eassumption | exact IH].
  Qed.

  (* T1a.  For every tree, context and table: a successful render leaves a table whose paths
     are exactly the paths it had plus [occs], and whose entries for every other path are
     untouched. *)
  Theorem render_grows : forall c, grows_ok c.
  Proof.
    induction c as [| | |tk|gid name o cl sep multi items IH|items IH|pairs IH|kvs|s] using code_ind'.
    - intros ctx t t1 s H. discriminate.
    - intros ctx t t1 s H. discriminate.
    - intros ctx t t1 s H. discriminate.
    - apply token_grows.
    - intros ctx t t1 s. rewrite occs_group. cbn [render].
      destruct (str_eqb name s_types && forallb (is_null cfg t) items).
      + intros H. injection H as <- <-. apply grows_refl.
      + destruct (group_loop cfg (render cfg) name sep multi (length items) t true items) as [[[ta isa] sa]|m] eqn:El;
          cbn [bind fst snd]; [|discriminate].
        intros H. injection H as <- <-. eapply group_loop_grows; [exact IH | exact El].
    - intros ctx t t1 s. rewrite occs_stmt. cbn [render]. apply stmt_loop_grows. exact IH.
    - intros ctx t t1 s. rewrite occs_dict. cbn [render].
      destruct (dict_pass1 cfg (render cfg) t pairs) as [[ta es]|m] eqn:E1; cbn [bind fst snd]; [|discriminate].
      destruct (dict_pass1_grows pairs IH _ _ _ E1) as (Hea & Hga & Hes).
      intros H2.
      (* the second pass runs over a permutation of the first pass' entries *)
      destruct (Permutation_Forall2 (Permutation_sym (isort_by_perm dict_key es)) Hes) as (kvs' & Hperm & Hes').
      pose proof (dict_pass2_grows _ _ _ Hes' _ _ _ _ H2) as Hgb.
      rewrite (both_occs_ext _ _ kvs' Hea) in Hgb.
      eapply grows_equiv; [|eapply grows_trans; [exact Hga | exact Hgb]].
      intros p. rewrite in_app_iff, !in_flat_map. split.
      + intros [(kv & Hin & Hp)|(kv & Hin & Hp)].
        * exists kv. split; [exact Hin|]. unfold key_occs, pair_occs in *.
          destruct (dead t kv); [exact Hp | apply in_app_iff; left; exact Hp].
        * apply (Permutation_in _ (Permutation_sym Hperm)) in Hin. apply filter_In in Hin.
          destruct Hin as [Hin Hl]. exists kv. split; [exact Hin|]. unfold pair_occs.
          apply negb_true_iff in Hl. rewrite Hl. exact Hp.
      + intros (kv & Hin & Hp). right. exists kv. unfold pair_occs in Hp.
        destruct (dead t kv) eqn:Hd; [destruct Hp|]. split; [|exact Hp].
        apply (Permutation_in _ Hperm). apply filter_In. split; [exact Hin|]. rewrite Hd. reflexivity.
    - intros ctx t t1 s H. cbn [render] in H. injection H as <- <-. apply grows_refl.
    - intros ctx t t1 s0 H. cbn [render] in H. injection H as <- <-. apply grows_refl.
  Qed.

  (* T1a, the domain: set equality of table domains *)
  Theorem render_registers_occs c ctx t t1 s :
    render cfg ctx t c = Ok (t1, s) ->
    forall p, In p (akeys t1) <-> In p (akeys t) \/ In p (occs t c).
  Proof. intros H. exact (proj1 (render_grows c ctx t t1 s H)). Qed.

  (* registrations of t stay; the entry of a path outside occs is the one t had (so names
     are only given, and Anon entries only replaced, for paths in occs) *)
  Theorem render_keeps_entries c ctx t t1 s :
    render cfg ctx t c = Ok (t1, s) ->
    keeps t t1 /\ forall q, ~ In q (occs t c) -> alookup q t1 = alookup q t.
  Proof.
    intros H. destruct (render_grows c ctx t t1 s H) as (_ & F & K & _). split; assumption.
  Qed.

  (* every path of occs ends with a registration: a name other than "" and "_" *)
  Theorem render_occs_registered c ctx t t1 s :
    render cfg ctx t c = Ok (t1, s) -> forall p, In p (occs t c) -> exists q, registered_name t1 p = Some q.
  Proof. intros H. exact (proj2 (proj2 (proj2 (render_grows c ctx t t1 s H)))). Qed.
End Occs.

(* ------------------------------------------------------------------ the File level (C04) *)
Lemma file_raw_render f t1 raw :
  file_raw f = Ok (t1, raw) ->
  exists s, render (file_cfg f) false (f_imports f) (file_group f) = Ok (t1, s) /\
            raw = file_head f ++ render_imports t1 (f_cgo f) ++ s.
Proof.
  unfold file_raw. destruct (render (file_cfg f) false (f_imports f) (file_group f)) as [[t s]|m]; cbn [bind fst snd]; [|discriminate].
  intros H. injection H as <- <-. exists s. split; reflexivity.
Qed.

(* the body of a File is a group without name: every top-level item counts *)
Lemma occs_file_group cfg t f : occs cfg t (file_group f) = flat_map (item_occs cfg t) (f_items f).
Proof. reflexivity. Qed.

(* EXACTNESS: after File.Render the import table has exactly the paths it had before (the
   Anon set of a freshly built File) and the paths of occs of the body *)
Theorem file_imports_exact f t1 raw :
  cfg_ok (file_cfg f) -> file_raw f = Ok (t1, raw) ->
  forall p, In p (akeys t1) <->
            In p (akeys (f_imports f)) \/ In p (occs (file_cfg f) (f_imports f) (file_group f)).
Proof.
  intros Hc Hr. destruct (file_raw_render _ _ _ Hr) as (s & Hs & _).
  eapply render_registers_occs; eassumption.
Qed.

(* ... the entries of all other paths (Anon entries, earlier registrations) are untouched,
   and every path of occs carries a registration *)
Theorem file_imports_entries f t1 raw :
  cfg_ok (file_cfg f) -> file_raw f = Ok (t1, raw) ->
  (forall q, ~ In q (occs (file_cfg f) (f_imports f) (file_group f)) -> alookup q t1 = alookup q (f_imports f)) /\
  (forall p, In p (occs (file_cfg f) (f_imports f) (file_group f)) -> exists q, registered_name t1 p = Some q).
Proof.
  intros Hc Hr. destruct (file_raw_render _ _ _ Hr) as (s & Hs & _). split.
  - exact (proj2 (render_keeps_entries _ Hc _ _ _ _ _ Hs)).
  - exact (render_occs_registered _ Hc _ _ _ _ _ Hs).
Qed.

Lemma anon_fold_dom ps : forall t p,
  In p (akeys (fold_left (fun t p => aset p (mkdef s_us true) t) ps t)) <-> In p (akeys t) \/ In p ps.
Proof.
  induction ps as [|x ps IH]; intros t p; cbn [fold_left]; [simpl; tauto|].
  rewrite IH, akeys_aset_In. simpl. split; [intros [[H|H]|H]; auto | intros [H|[H|H]]; auto].
Qed.

(* Anon adds exactly its paths to the table *)
Lemma anon_dom f ps p : In p (akeys (f_imports (anon f ps))) <-> In p (akeys (f_imports f)) \/ In p ps.
Proof. apply anon_fold_dom. Qed.

(* the name "_" (and the empty name) does not count as a registration *)
Lemma anon_entry_unregistered t p : alookup p t = Some (mkdef s_us true) -> registered_name t p = None.
Proof. intros H. unfold registered_name. rewrite H. reflexivity. Qed.

Lemma file_render_NoDup f t1 raw :
  file_raw f = Ok (t1, raw) -> NoDup (akeys (f_imports f)) -> NoDup (akeys t1).
Proof. intros Hr. destruct (file_raw_render _ _ _ Hr) as (s & Hs & _). eapply render_NoDup. exact Hs. Qed.

Lemma anon_NoDup f ps : NoDup (akeys (f_imports f)) -> NoDup (akeys (f_imports (anon f ps))).
Proof.
  unfold anon. cbn [f_imports set_imports]. generalize (f_imports f) as t.
  induction ps as [|x ps IH]; intros t H; cbn [fold_left]; [exact H|]. apply IH. apply akeys_aset_NoDup. exact H.
Qed.

(* ------------------------------------------------------------------ the import block *)
Lemma concat_str_app a b : concat_str (a ++ b) = concat_str a ++ concat_str b.
Proof. induction a as [|x a IH]; [reflexivity|]. cbn [app concat_str]. rewrite IH, app_assoc. reflexivity. Qed.

(* the entries the main import declaration lists: all of them, except "C" when a cgo preamble
   exists (it is then printed under the preamble) *)
Definition listed (t : table) (cgo : list str) : table :=
  if nonempty_list cgo then filter (fun e => negb (str_eqb (fst e) s_C)) t else t.

Lemma akeys_filter_NoDup (f : str * importdef -> bool) (t : table) : NoDup (akeys t) -> NoDup (akeys (filter f t)).
Proof.
  induction t as [|e l IH]; intros Hnd; [constructor|]. cbn [filter]. inversion Hnd as [|? ? Hni Hnd']; subst.
  destruct (f e); [|apply IH; exact Hnd']. cbn [akeys map]. constructor; [|apply IH; exact Hnd'].
  intros Hin. apply Hni. unfold akeys in *. rewrite in_map_iff in *. destruct Hin as (x & Hx & Hin).
  exists x. split; [exact Hx|]. apply filter_In in Hin. tauto.
Qed.

Theorem imports_block_exact t cgo :
  NoDup (akeys t) ->
  render_imports t cgo = main_block (listed t cgo) ++ (if nonempty_list cgo then preamble_block cgo else []) /\
  Permutation (isort_by fst (listed t cgo)) (listed t cgo) /\
  NoDup (akeys (isort_by fst (listed t cgo))) /\
  (forall p d, In (p, d) (listed t cgo) <-> In (p, d) t /\ (cgo = [] \/ p <> s_C)).
Proof.
  intros Hnd. split; [|split; [apply isort_by_perm | split]].
  - destruct cgo as [|c cgo]; unfold listed; cbn [nonempty_list].
    + rewrite render_imports_plain, app_nil_r. reflexivity.
    + apply render_imports_preamble. discriminate.
  - assert (Hl : NoDup (akeys (listed t cgo))).
    { unfold listed. destruct (nonempty_list cgo); [apply akeys_filter_NoDup|]; exact Hnd. }
    eapply Permutation_NoDup; [|exact Hl]. apply Permutation_map, Permutation_sym, isort_by_perm.
  - intros p d. unfold listed. destruct cgo as [|c cgo]; cbn [nonempty_list].
    + split; [intros H; split; [exact H | left; reflexivity] | intros [H _]; exact H].
    + rewrite filter_In. cbn [fst]. split.
      * intros [H Hn]. split; [exact H|]. right. apply negb_true_iff, str_eqb_neq in Hn. exact Hn.
      * intros [H [Hn|Hn]]; [discriminate|]. split; [exact H|]. apply negb_true_iff, str_eqb_neq. exact Hn.
Qed.

Lemma main_block_has_spec l p d :
  In (p, d) l -> exists pre post, main_block l = pre ++ import_spec p d ++ [x0a] ++ post.
Proof.
  intros Hin. destruct l as [|a [|b l0]].
  - destruct Hin.
  - destruct Hin as [->|[]]. exists (S "import "), [x0a]. reflexivity.
  - unfold main_block. apply (isort_by_In fst) in Hin. apply in_split in Hin. destruct Hin as (l1 & l2 & ->).
    rewrite map_app, concat_str_app. cbn [map concat_str fst snd].
    exists (S "import (" ++ [x0a] ++ concat_str (map (fun e => import_spec (fst e) (snd e) ++ [x0a]) l1)),
           (concat_str (map (fun e => import_spec (fst e) (snd e) ++ [x0a]) l2) ++ S ")" ++ [x0a; x0a]).
    rewrite <- !app_assoc. reflexivity.
Qed.

(* the block contains the line of every entry of the table ("C" under the preamble) *)
Theorem render_imports_has_spec t cgo p d :
  In (p, d) t -> exists pre post, render_imports t cgo = pre ++ import_spec p d ++ [x0a] ++ post.
Proof.
  intros Hin. destruct cgo as [|c cgo].
  - rewrite render_imports_plain. apply main_block_has_spec. exact Hin.
  - rewrite render_imports_preamble by discriminate.
    destruct (str_eqb_spec p s_C) as [->|Hp].
    + unfold preamble_block.
      assert (Hs : import_spec s_C d = [c_dq] ++ S "C" ++ [c_dq]).
      { unfold import_spec. rewrite str_eqb_refl. cbn [negb]. rewrite andb_false_r. vm_compute. reflexivity. }
      rewrite Hs.
      exists (main_block (filter (fun e => negb (str_eqb (fst e) s_C)) t) ++
              concat_str (map (fun c0 => comment_text (trim_raw_preamble c0) ++ [x0a]) (c :: cgo)) ++ S "import "), [x0a].
      rewrite <- !app_assoc. reflexivity.
    + destruct (main_block_has_spec (filter (fun e => negb (str_eqb (fst e) s_C)) t) p d) as (pre & post & E).
      { apply filter_In. split; [exact Hin|]. cbn [fst]. apply negb_true_iff, str_eqb_neq. exact Hp. }
      rewrite E. exists pre, (post ++ preamble_block (c :: cgo)). rewrite <- !app_assoc. reflexivity.
Qed.

(* ------------------------------------------------------------------ hints and the domain *)
(* trees in which every package token sits where Qual puts it: first item of a group whose
   second and last item is the identifier (jen/tokens.go, Qual; no other function of the
   library creates a package token) *)
Definition is_qual_items (items : list code) : bool :=
  match items with [CTok (TkPkg _); CTok (TkId _)] => true | _ => false end.

Fixpoint qual_only (c : code) : bool :=
  match c with
  | CTok (TkPkg _) => false
  | CGroup _ _ _ _ _ _ items => is_qual_items items || forallb qual_only items
  | CStmt items => forallb qual_only items
  | CDict pairs => forallb (fun kv => qual_only (fst kv) && qual_only (snd kv)) pairs
  | _ => true
  end.

Lemma is_qual_items_inv items :
  is_qual_items items = true -> exists p n, items = [CTok (TkPkg p); CTok (TkId n)].
Proof.
  destruct items as [|a [|b [|c l]]]; try discriminate;
    destruct a as [| | |ta| | | | |]; try discriminate; destruct ta; try discriminate;
    destruct b as [| | |tb| | | | |]; try discriminate; destruct tb; try discriminate.
  intros _. eexists _, _. reflexivity.
Qed.

Section Hints.
  Variables cfg cfg' : config.
  Hypothesis Hpath : cfg_path cfg = cfg_path cfg'.
  Variables t t' : table.

  Lemma is_local_same p : is_local cfg p = is_local cfg' p.
  Proof. unfold is_local. rewrite Hpath. reflexivity. Qed.

  (* null-ness of such a tree depends neither on the hints nor on the table: a Qual group
     is never null, and nothing else contains a package token *)
  Lemma qual_only_null c : qual_only c = true -> is_null cfg t c = is_null cfg' t' c.
  Proof.
    induction c as [| | |tk|gid name o cl sep multi items IH|items IH|pairs IH|kvs|s] using code_ind';
      cbn [qual_only is_null]; intros H; try reflexivity.
    - destruct tk; try reflexivity. discriminate.
    - destruct (nonempty o || nonempty cl); [reflexivity|].
      destruct (is_qual_items items) eqn:Eq.
      + apply is_qual_items_inv in Eq. destruct Eq as (p & n & ->). cbn [forallb is_null andb].
        rewrite !andb_false_r. reflexivity.
      + cbn [orb] in H. clear Eq. induction IH as [|x l Hx _ IHl]; [reflexivity|]. cbn [forallb] in *.
        apply andb_true_iff in H. destruct H as [Ha Hb]. rewrite (Hx Ha), (IHl Hb). reflexivity.
    - induction IH as [|x l Hx _ IHl]; [reflexivity|]. cbn [forallb] in *.
      apply andb_true_iff in H. destruct H as [Ha Hb]. rewrite (Hx Ha), (IHl Hb). reflexivity.
    - induction IH as [|[k v] l [Hk Hv] _ IHl]; [reflexivity|]. cbn [forallb fst snd] in *.
      apply andb_true_iff in H. destruct H as [Ha Hb]. apply andb_true_iff in Ha. destruct Ha as [Ha1 Ha2].
      rewrite (Hk Ha1), (Hv Ha2), (IHl Hb). reflexivity.
  Qed.

  Lemma qual_only_forallb_null items :
    is_qual_items items || forallb qual_only items = true ->
    forallb (is_null cfg t) items = forallb (is_null cfg' t') items.
  Proof.
    destruct (is_qual_items items) eqn:Eq; cbn [orb].
    - intros _. apply is_qual_items_inv in Eq. destruct Eq as (p & n & ->). cbn [forallb is_null andb].
      rewrite !andb_false_r. reflexivity.
    - clear Eq. intros H. induction items as [|x l IHl]; [reflexivity|]. cbn [forallb] in *.
      apply andb_true_iff in H. destruct H as [Ha Hb].
      rewrite (qual_only_null x Ha), (IHl Hb). reflexivity.
  Qed.

  Lemma pkg_item_occs c0 tt p q :
    In p (item_occs c0 tt (CTok (TkPkg q))) <-> is_local c0 q = false /\ p = q.
  Proof.
    unfold item_occs. cbn [pre_occ occs]. destruct (is_local c0 q).
    - destruct (is_null c0 tt (CTok (TkPkg q))); simpl; split; try tauto; intros [H _]; discriminate.
    - destruct (is_null c0 tt (CTok (TkPkg q))); simpl; split;
        try (intros [H|H]; [split; [reflexivity | symmetry; exact H] | tauto]);
        try (intros [H|[H|H]]; [split; [reflexivity | symmetry; exact H] | split; [reflexivity | symmetry; exact H] | tauto]);
        intros [_ ->]; left; reflexivity.
  Qed.

  (* ... and so does the set of paths it registers *)
  Lemma qual_only_occs c : qual_only c = true -> forall p, In p (occs cfg t c) <-> In p (occs cfg' t' c).
  Proof.
    induction c as [| | |tk|gid name o cl sep multi items IH|items IH|pairs IH|kvs|s] using code_ind';
      intros H p; try (cbn [occs]; tauto).
    - destruct tk; try (cbn [occs]; tauto). discriminate.
    - rewrite !occs_group. cbn [qual_only] in H. rewrite (qual_only_forallb_null items H).
      destruct (str_eqb name s_types && forallb (is_null cfg' t') items); [tauto|].
      destruct (is_qual_items items) eqn:Eq.
      + apply is_qual_items_inv in Eq. destruct Eq as (q & n & ->). cbn [flat_map]. rewrite !app_nil_r.
        rewrite !pkg_item_occs, is_local_same. reflexivity.
      + cbn [orb] in H. rewrite !in_flat_map. rewrite Forall_forall in IH. rewrite forallb_forall in H.
        assert (Hx : forall x, In x items -> (In p (item_occs cfg t x) <-> In p (item_occs cfg' t' x))).
        { intros x Hin. unfold item_occs. rewrite (qual_only_null x (H x Hin)).
          assert (Hpre : pre_occ cfg x = [] /\ pre_occ cfg' x = []).
          { specialize (H x Hin). destruct x as [| | |tk| | | | |]; try (split; reflexivity).
            destruct tk; try (split; reflexivity). discriminate. }
          destruct Hpre as [-> ->]. cbn [app]. destruct (is_null cfg' t' x); [tauto|]. apply IH; auto. }
        split; intros (x & Hin & Hp); exists x; (split; [exact Hin|]); apply (Hx x Hin); exact Hp.
    - rewrite !occs_stmt, !in_flat_map. cbn [qual_only] in H. rewrite Forall_forall in IH. rewrite forallb_forall in H.
      assert (Hx : forall x, In x items -> (In p (stmt_item_occs cfg t x) <-> In p (stmt_item_occs cfg' t' x))).
      { intros x Hin. unfold stmt_item_occs. rewrite (qual_only_null x (H x Hin)).
        destruct (is_null cfg' t' x); [tauto|]. apply IH; auto. }
      split; intros (x & Hin & Hp); exists x; (split; [exact Hin|]); apply (Hx x Hin); exact Hp.
    - rewrite !occs_dict, !in_flat_map. cbn [qual_only] in H. rewrite Forall_forall in IH. rewrite forallb_forall in H.
      assert (Hx : forall kv, In kv pairs -> (In p (pair_occs cfg t kv) <-> In p (pair_occs cfg' t' kv))).
      { intros kv Hin. unfold pair_occs, dead. specialize (H kv Hin). apply andb_true_iff in H. destruct H as [H1 H2].
        rewrite (qual_only_null _ H1), (qual_only_null _ H2).
        destruct (is_null cfg' t' (fst kv) || is_null cfg' t' (snd kv)); [tauto|].
        destruct (IH kv Hin) as [Ik Iv]. rewrite !in_app_iff, (Ik H1 p), (Iv H2 p). tauto. }
      split; intros (x & Hin & Hp); exists x; (split; [exact Hin|]); apply (Hx x Hin); exact Hp.
  Qed.
End Hints.

(* HINTS ARE INERT: two renders of the same body from the same table under configurations
   that differ in hints and prefix (same local path) end with the same set of paths *)
Theorem hints_inert cfg cfg' c ctx ctx' t t1 s t1' s' :
  cfg_ok cfg -> cfg_ok cfg' -> cfg_path cfg = cfg_path cfg' -> qual_only c = true ->
  render cfg ctx t c = Ok (t1, s) -> render cfg' ctx' t c = Ok (t1', s') ->
  forall p, In p (akeys t1) <-> In p (akeys t1').
Proof.
  intros Hc Hc' Hp Hq H H' p.
  rewrite (render_registers_occs cfg Hc _ _ _ _ _ H p), (render_registers_occs cfg' Hc' _ _ _ _ _ H' p).
  rewrite (qual_only_occs cfg cfg' Hp t t c Hq p). reflexivity.
Qed.

Lemma file_group_qual_only f : forallb qual_only (f_items f) = true -> qual_only (file_group f) = true.
Proof. intros H. unfold file_group. cbn [qual_only]. rewrite H. apply orb_true_r. Qed.

(* ------------------------------------------------------------------ null elements *)
From Jen Require Import Proofs.NullProofs.

Lemma flat_map_nil {A B} (f : A -> list B) l : (forall x, In x l -> f x = []) -> flat_map f l = [].
Proof.
  induction l as [|x l IH]; intros H; [reflexivity|]. cbn [flat_map].
  rewrite (H x (or_introl eq_refl)), IH; [reflexivity|]. intros y Hy. apply H. right. exact Hy.
Qed.

Section NullOccs.
  Variable cfg : config.
  Variable t : table.

  (* nil, Null(), empty tags, statements and delimiter-less groups of such items, Dicts
     without a surviving pair: nothing *)
  Lemma occs_nullish c : nullish c = true -> occs cfg t c = [].
  Proof.
    destruct c as [| | |tk|gid name o cl sep multi items|items|pairs|kvs|s]; try reflexivity; cbn [nullish]; intros H.
    - destruct tk; try reflexivity. discriminate.
    - apply andb_true_iff in H. destruct H as [_ H]. rewrite forallb_forall in H. rewrite occs_group.
      destruct (str_eqb name s_types && forallb (is_null cfg t) items); [reflexivity|].
      apply flat_map_nil. intros x Hx. unfold item_occs. rewrite (nullish_is_null cfg x (H x Hx) t).
      specialize (H x Hx). destruct x as [| | |tk| | | | |]; try reflexivity. destruct tk; try reflexivity. discriminate.
    - rewrite forallb_forall in H. rewrite occs_stmt. apply flat_map_nil. intros x Hx. unfold stmt_item_occs.
      rewrite (nullish_is_null cfg x (H x Hx) t). reflexivity.
    - rewrite forallb_forall in H. rewrite occs_dict. apply flat_map_nil. intros kv Hx. unfold pair_occs, dead.
      specialize (H kv Hx). apply orb_true_iff in H.
      destruct H as [H|H]; rewrite (nullish_is_null cfg _ H t); [|rewrite orb_true_r]; reflexivity.
  Qed.

  (* an item that is null at the table - whatever it contains - adds nothing to a statement *)
  Lemma occs_stmt_null_item xs x ys :
    is_null cfg t x = true -> occs cfg t (CStmt (xs ++ x :: ys)) = occs cfg t (CStmt (xs ++ ys)).
  Proof.
    intros H. rewrite !occs_stmt, !flat_map_app. cbn [flat_map]. unfold stmt_item_occs at 2. rewrite H. reflexivity.
  Qed.

  (* ... nor to a group, unless it is a package token (whose path the group registers first) *)
  Lemma occs_group_null_item gid name o cl sep multi xs x ys :
    is_null cfg t x = true -> pre_occ cfg x = [] ->
    occs cfg t (CGroup gid name o cl sep multi (xs ++ x :: ys)) = occs cfg t (CGroup gid name o cl sep multi (xs ++ ys)).
  Proof.
    intros H Hp. rewrite !occs_group, !forallb_app. cbn [forallb]. rewrite H. cbn [andb].
    destruct (str_eqb name s_types && (forallb (is_null cfg t) xs && forallb (is_null cfg t) ys)); [reflexivity|].
    rewrite !flat_map_app. cbn [flat_map]. unfold item_occs at 2. rewrite H, Hp. reflexivity.
  Qed.

  (* a Dict pair with a null key or a null value adds nothing, whatever the other side holds *)
  Lemma occs_dict_null_pair xs kv ys :
    is_null cfg t (fst kv) || is_null cfg t (snd kv) = true ->
    occs cfg t (CDict (xs ++ kv :: ys)) = occs cfg t (CDict (xs ++ ys)).
  Proof.
    intros H. rewrite !occs_dict, !flat_map_app. cbn [flat_map]. unfold pair_occs at 2. unfold dead. rewrite H. reflexivity.
  Qed.

  (* an all-null type-parameter list adds nothing, not even the paths of its dot-import
     package tokens *)
  Lemma occs_types_all_null gid o cl sep multi items :
    forallb (is_null cfg t) items = true -> occs cfg t (CGroup gid s_types o cl sep multi items) = [].
  Proof. intros H. rewrite occs_group, H. reflexivity. Qed.

  (* by T1a: a tree without occs leaves the import table as it was *)
  Lemma render_no_occs c ctx t1 s :
    cfg_ok cfg -> occs cfg t c = [] -> render cfg ctx t c = Ok (t1, s) ->
    (forall p, In p (akeys t1) <-> In p (akeys t)) /\ forall q, alookup q t1 = alookup q t.
  Proof.
    intros Hc Ho Hr. split.
    - intros p. rewrite (render_registers_occs cfg Hc _ _ _ _ _ Hr p), Ho. simpl. tauto.
    - intros q. apply (proj2 (render_keeps_entries cfg Hc _ _ _ _ _ Hr)). rewrite Ho. intros [].
  Qed.
End NullOccs.

(* ------------------------------------------------------------------ qualifiers (C03) *)
Lemma registered_name_entry t p q :
  registered_name t p = Some q -> exists d, alookup p t = Some d /\ id_name d = q /\ q <> [] /\ q <> s_us.
Proof.
  unfold registered_name. destruct (alookup p t) as [d|]; [|discriminate].
  destruct (str_eqb_spec (id_name d) []) as [E0|E0]; cbn [orb]; [discriminate|].
  destruct (str_eqb_spec (id_name d) s_us) as [E1|E1]; [discriminate|].
  intros H. injection H as <-. exists d. auto.
Qed.

Section Binding.
  Variable cfg : config.
  Hypothesis Hcfg : cfg_ok cfg.

  (* a registered, non-dot path is written under its registered name by every render of a
     Qual from that table or any extension of it, and the table is left alone *)
  Lemma qual_uses_registered_name t1 p q :
    is_local cfg p = false -> registered_name t1 p = Some q -> is_dot cfg t1 p = false ->
    forall t2, ext cfg t1 t2 -> forall ctx gid n,
      render cfg ctx t2 (qual gid p n) = Ok (t2, q ++ S "." ++ n).
  Proof.
    intros Hl Hk Hd t2 [K D] ctx gid n.
    pose proof (keeps_registered _ _ _ _ K Hk) as Hk2.
    apply render_qual_imported; [exact Hl | | rewrite D; exact Hd | exact Hk2].
    unfold register. rewrite Hl, Hk2. reflexivity.
  Qed.

  (* an occurrence met DURING a render: whatever the table was when the Qual was reached,
     if the table after the whole render keeps the table after the Qual (it always does:
     render_keeps) and the path is not a dot import there, the text written is the FINAL
     registered name *)
  Lemma qual_occurrence_final_name ctx tm gid p n tm' s' t1 q :
    render cfg ctx tm (qual gid p n) = Ok (tm', s') -> keeps tm' t1 ->
    is_local cfg p = false -> is_dot cfg tm' p = false -> registered_name t1 p = Some q ->
    s' = q ++ S "." ++ n.
  Proof.
    intros H K Hl Hd Hq. rewrite render_qual in H.
    destruct (register cfg tm p) as [[t0 q0]|m] eqn:E0; [|discriminate].
    rewrite Hl, orb_false_r in H. destruct (is_dot cfg t0 p) eqn:Ed0.
    - injection H as <- <-. congruence.
    - destruct (register cfg t0 p) as [[tb q']|m] eqn:E1; [|discriminate]. injection H as <- <-.
      pose proof (register_returns_entry cfg Hcfg _ _ _ _ Hl E1) as Hk'.
      pose proof (keeps_registered _ _ _ _ K Hk') as Hk1. rewrite Hq in Hk1. injection Hk1 as ->. reflexivity.
  Qed.

  (* QUALIFIER = BINDING for one render: every path of occs that is not a dot import has a
     registration q in the final table; its entry d carries q; every Qual of that path
     rendered from the final table or a later one reads q.name; the import block has the
     line of (p, d) *)
  Theorem render_qualifier_binding c ctx t t1 s cgo :
    render cfg ctx t c = Ok (t1, s) ->
    forall p, In p (occs cfg t c) -> is_dot cfg t1 p = false ->
    exists q d,
      registered_name t1 p = Some q /\ alookup p t1 = Some d /\ id_name d = q /\ q <> [] /\ q <> s_us /\
      (forall t2, ext cfg t1 t2 -> forall ctx' gid n,
          render cfg ctx' t2 (qual gid p n) = Ok (t2, q ++ S "." ++ n)) /\
      (exists pre post, render_imports t1 cgo = pre ++ import_spec p d ++ [x0a] ++ post) /\
      import_spec p d = (if id_alias d && negb (str_eqb p s_C) then q ++ S " " ++ GoQuote p else GoQuote p).
  Proof.
    intros H p Hp Hd.
    destruct (render_occs_registered cfg Hcfg _ _ _ _ _ H p Hp) as [q Hq].
    destruct (registered_name_entry _ _ _ Hq) as (d & Hl & Hn & Hne & Hnu).
    exists q, d. split; [exact Hq|]. split; [exact Hl|]. split; [exact Hn|]. split; [exact Hne|]. split; [exact Hnu|].
    split; [|split].
    - apply qual_uses_registered_name; [eapply occs_not_local; exact Hp | exact Hq | exact Hd].
    - apply render_imports_has_spec. apply alookup_In. exact Hl.
    - unfold import_spec. rewrite Hn. reflexivity.
  Qed.
End Binding.

Theorem file_qualifier_binding f t1 raw :
  cfg_ok (file_cfg f) -> file_raw f = Ok (t1, raw) ->
  forall p, In p (occs (file_cfg f) (f_imports f) (file_group f)) -> is_dot (file_cfg f) t1 p = false ->
  exists q d,
    registered_name t1 p = Some q /\ alookup p t1 = Some d /\ id_name d = q /\ q <> [] /\ q <> s_us /\
    (forall t2, ext (file_cfg f) t1 t2 -> forall ctx' gid n,
        render (file_cfg f) ctx' t2 (qual gid p n) = Ok (t2, q ++ S "." ++ n)) /\
    (exists pre post, render_imports t1 (f_cgo f) = pre ++ import_spec p d ++ [x0a] ++ post) /\
    import_spec p d = (if id_alias d && negb (str_eqb p s_C) then q ++ S " " ++ GoQuote p else GoQuote p).
Proof.
  intros Hc Hr. destruct (file_raw_render _ _ _ Hr) as (s & Hs & _).
  exact (render_qualifier_binding (file_cfg f) Hc _ _ _ _ _ (f_cgo f) Hs).
Qed.

(* ---- unaliased entries ---- *)
(* where a name written WITHOUT alias may come from: the cgo pseudo package, an ImportName
   hint of the user (alias flag false, name non-empty), or jennifer's standard-library table *)
Definition real_name_source (cfg : config) (p n : str) : Prop :=
  (p = s_C /\ n = s_C) \/
  (p <> s_C /\ exists h, alookup p (cfg_hints cfg) = Some h /\ id_name h <> [] /\ id_alias h = false /\ n = id_name h) \/
  (p <> s_C /\ (forall h, alookup p (cfg_hints cfg) = Some h -> id_name h = []) /\ std_hint p <> [] /\ n = std_hint p).

Lemma with_prefix_unaliased cfg u : with_prefix cfg u false = u.
Proof. unfold with_prefix. rewrite andb_false_r. reflexivity. Qed.

Lemma choose_name_unaliased cfg p name :
  choose_name cfg p = (name, false) ->
  (exists h, alookup p (cfg_hints cfg) = Some h /\ id_name h <> [] /\ id_alias h = false /\ name = id_name h) \/
  ((forall h, alookup p (cfg_hints cfg) = Some h -> id_name h = []) /\ std_hint p <> [] /\ name = std_hint p).
Proof.
  unfold choose_name. destruct (alookup p (cfg_hints cfg)) as [h|].
  - destruct (str_eqb_spec (id_name h) []) as [E0|E0]; cbn [negb].
    + destruct (str_eqb_spec (std_hint p) []) as [E1|E1]; cbn [negb]; [discriminate|].
      intros H. injection H as <-. right. split; [|split; [exact E1 | reflexivity]].
      intros h' E. injection E as <-. exact E0.
    + intros H. injection H as <- Ha. left. exists h. auto.
  - destruct (str_eqb_spec (std_hint p) []) as [E1|E1]; cbn [negb]; [discriminate|].
    intros H. injection H as <-. right. split; [|split; [exact E1 | reflexivity]]. intros h' E. discriminate.
Qed.

(* one register step that creates the entry of a path: if the entry is stored without alias
   then the name is exactly one of the three sources - candidate number 0, no prefix *)
Lemma register_unaliased cfg t p t' n :
  register cfg t p = Ok (t', n) -> is_local cfg p = false -> registered_name t p = None ->
  forall d, alookup p t' = Some d -> id_alias d = false -> id_name d = n /\ real_name_source cfg p n.
Proof.
  intros Hr Hl Hk d Hd Ha. apply register_cases in Hr.
  destruct Hr as [Hl' | n Hl' Hk' | Hl' Hk' HC | name alias i Hl' Hk' HC Hc Hok Hmin]; try congruence.
  - subst p. rewrite alookup_aset_same in Hd. injection Hd as <-. split; [reflexivity|]. left. split; reflexivity.
  - rewrite alookup_aset_same in Hd. injection Hd as <-. cbn [id_alias id_name] in *.
    apply orb_false_iff in Ha. destruct Ha as [-> Hu]. apply negb_false_iff, str_eqb_eq in Hu.
    split; [reflexivity|]. rewrite Hu, str_eqb_refl. cbn [orb negb]. rewrite with_prefix_unaliased.
    right. destruct (choose_name_unaliased _ _ _ Hc) as [H|H]; [left | right]; split; assumption.
Qed.

(* over a whole render: every entry stored without alias either was in the table before, or
   its name comes from one of the three sources *)
Theorem render_unaliased cfg c ctx t t1 s :
  render cfg ctx t c = Ok (t1, s) ->
  forall p d, alookup p t1 = Some d -> id_alias d = false ->
    alookup p t = Some d \/ real_name_source cfg p (id_name d).
Proof.
  intros H.
  apply (render_invariant cfg (fun t' => forall p d, alookup p t' = Some d -> id_alias d = false ->
                                         alookup p t = Some d \/ real_name_source cfg p (id_name d))
           ) with (c := c) (ctx := ctx) (t := t) (s := s); [|exact H | intros p d Hd _; left; exact Hd].
  intros ta q tb n IH Hr p d Hd Ha.
  pose proof Hr as Hcase. apply register_cases in Hcase.
  destruct Hcase as [Hl | n Hl Hk | Hl Hk HC | name alias i Hl Hk HC Hc Hok Hmin]; try (apply IH; assumption).
  - destruct (str_eq_dec p s_C) as [->|Hp].
    + subst q. destruct (register_unaliased _ _ _ _ _ Hr Hl Hk d Hd Ha) as [-> Hs]. right. exact Hs.
    + rewrite alookup_aset_other in Hd by congruence. apply IH; assumption.
  - destruct (str_eq_dec p q) as [->|Hp].
    + destruct (register_unaliased _ _ _ _ _ Hr Hl Hk d Hd Ha) as [-> Hs]. right. exact Hs.
    + rewrite alookup_aset_other in Hd by congruence. apply IH; assumption.
Qed.

(* ---- distinct qualifiers ---- *)
Lemma Inv_names_distinct t p1 p2 q1 q2 :
  Inv t -> p1 <> p2 -> registered_name t p1 = Some q1 -> registered_name t p2 = Some q2 -> q1 = q2 -> q1 = s_dot.
Proof.
  intros HI Hne H1 H2 E.
  destruct (registered_name_entry _ _ _ H1) as (d1 & L1 & N1 & _ & U1).
  destruct (registered_name_entry _ _ _ H2) as (d2 & L2 & N2 & _ & _).
  assert (Hs : special (id_name d1)).
  { apply (inv_unique _ HI p1 d1 p2 d2); auto using alookup_In. congruence. }
  destruct Hs as [Hs|Hs]; congruence.
Qed.

Lemma file_render_Inv f t1 raw :
  cfg_ok (file_cfg f) -> file_raw f = Ok (t1, raw) -> Inv (f_imports f) -> Inv t1.
Proof. intros Hc Hr. destruct (file_raw_render _ _ _ Hr) as (s & Hs & _). eapply render_Inv; eassumption. Qed.

Lemma anon_Inv f ps : ~ In s_C ps -> Inv (f_imports f) -> Inv (f_imports (anon f ps)).
Proof.
  unfold anon. cbn [f_imports set_imports]. generalize (f_imports f) as t.
  induction ps as [|x ps IH]; intros t Hn H; cbn [fold_left]; [exact H|].
  apply IH; [intros Hin; apply Hn; right; exact Hin|].
  apply Inv_aset; [exact H | left; left; reflexivity|]. cbn [id_name]. discriminate.
Qed.

Theorem file_names_distinct f t1 raw :
  cfg_ok (file_cfg f) -> Inv (f_imports f) -> file_raw f = Ok (t1, raw) ->
  forall p1 p2 q1 q2, p1 <> p2 ->
    registered_name t1 p1 = Some q1 -> registered_name t1 p2 = Some q2 -> q1 = q2 -> q1 = s_dot.
Proof.
  intros Hc HI Hr p1 p2 q1 q2. apply Inv_names_distinct. eapply file_render_Inv; eassumption.
Qed.

(* ------------------------------------------------------------------ packaged statements *)
Theorem render_occs_exact cfg : cfg_ok cfg -> forall c ctx t t1 s,
  render cfg ctx t c = Ok (t1, s) ->
  (forall p, In p (akeys t1) <-> In p (akeys t) \/ In p (occs cfg t c)) /\
  (forall q, ~ In q (occs cfg t c) -> alookup q t1 = alookup q t).
Proof.
  intros Hc c ctx t t1 s H.
  exact (conj (render_registers_occs cfg Hc c ctx t t1 s H) (proj2 (render_keeps_entries cfg Hc c ctx t t1 s H))).
Qed.

Theorem paths_stay_distinct f :
  NoDup (akeys (f_imports f)) ->
  (forall ps, NoDup (akeys (f_imports (anon f ps)))) /\
  (forall t1 raw, file_raw f = Ok (t1, raw) -> NoDup (akeys t1)).
Proof.
  intros H. split; [intros ps; exact (anon_NoDup f ps H) | intros t1 raw Hr; exact (file_render_NoDup f t1 raw Hr H)].
Qed.

(* outside qual_only the hints do matter, in the model's tree type: a bare package token
   that is an item of a Statement is skipped as null under a dot hint and registered
   without it *)
Theorem hints_inert_bare_token_refuted :
  exists cfg cfg' c t1 s t1' s',
    cfg_ok cfg /\ cfg_ok cfg' /\ cfg_path cfg = cfg_path cfg' /\
    render cfg false [] c = Ok (t1, s) /\ render cfg' false [] c = Ok (t1', s') /\
    akeys t1 = [] /\ akeys t1' = [S "a/b"].
Proof.
  exists (mkcfg [] [] [(S "a/b", mkdef s_dot true)]), (mkcfg [] [] []),
         (CStmt [CTok (TkPkg (S "a/b")); CTok (TkId (S "X"))]).
  eexists _, _, _, _. split; [|split; [|split; [reflexivity|]]].
  - split; [|left; reflexivity]. intros p h. simpl. destruct (str_eqb p (S "a/b")); [|discriminate].
    intros E. injection E as <-. right. left. reflexivity.
  - split; [intros p h E; discriminate | left; reflexivity].
  - vm_compute. repeat split; reflexivity.
Qed.

(* a File built from a new File by Anon (not of "C") satisfies the naming invariant, and
   File.Render keeps it *)
Theorem fresh_file_Inv f ps : f_imports f = [] -> ~ In s_C ps -> Inv (f_imports (anon f ps)).
Proof. intros E Hn. apply anon_Inv; [exact Hn|]. rewrite E. exact Inv_nil. Qed.
