(* Moves lines between stdin/stdout and the extracted [run_case : byte list -> byte list].
   Characters are converted through the extracted Byte.of_bits (no Obj.magic). *)
let bits_of_int i =
  let b k = (i lsr k) land 1 = 1 in
  (b 0, (b 1, (b 2, (b 3, (b 4, (b 5, (b 6, b 7)))))))

let to_byte = Array.init 256 (fun i -> Model.of_bits (bits_of_int i))
let of_byte : (Model.byte, char) Hashtbl.t = Hashtbl.create 512
let () = Array.iteri (fun i b -> Hashtbl.replace of_byte b (Char.chr i)) to_byte

let bytes_of_string s =
  let r = ref [] in
  for i = String.length s - 1 downto 0 do
    r := to_byte.(Char.code s.[i]) :: !r
  done;
  !r

let string_of_bytes l =
  let b = Buffer.create 256 in
  List.iter (fun x -> Buffer.add_char b (Hashtbl.find of_byte x)) l;
  Buffer.contents b

let () =
  try
    while true do
      let line = input_line stdin in
      let out = try string_of_bytes (Model.run_case (bytes_of_string line))
                with Stack_overflow -> "(stackoverflow)" in
      print_string out;
      print_char '\n';
      flush stdout
    done
  with End_of_file -> ()
